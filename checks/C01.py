"""C01 -- verified shares are exactly the shares committed at the requested position."""
from checks import _shwapverify

META = {
    "technique": "TLC exhaustive on spec/shwap/ShwapVerify.tla (plans in MCShwap.tla; symbolic NMT of "
                 "spec/common/IdealCrypto.tla over the squares of spec/common/Square.tla): every small square x "
                 "request x response assembled from honest material by <= 2 forgery steps, invariants Sound / "
                 "Complete; case enumeration binding (B3): every TLC state is materialised on real rsmt2d squares "
                 "with real NMT proofs and run through the real wire codecs and Sample/Row/RowNamespaceData/"
                 "RangeNamespaceData verifiers (harness/drivers/shwapverify); plus TLC on the pre-fix range "
                 "verifier whose counterexamples are replayed on the real code; plus seeded byte-level garbling",
    "level_text": "model_checking: for ODS widths 1, 2, 4 and the layouts of the plan, all requests and all "
                  "responses reachable by the specification's forgery atoms, (a) the transcribed check lists accept "
                  "only responses whose shares equal the committed ones (TLC, exhaustive), (b) the real verifiers "
                  "return the same verdict as the transcription on every one of those cases and never expose shares "
                  "that differ from the committed bytes (driver, exhaustive over the enumerated cases), (c) honest "
                  "responses are accepted and are byte-identical to what the repository's producers return.",
    "level_note": "Assumes injective, domain-separated hashing and ideal Reed-Solomon (recorded in the evidence). "
                  "Forgeries are structural (honest material of two squares recombined; proofs' start/end/flag/"
                  "leaf-hash rewritten); arbitrary byte strings are only sampled (seeded mutations of honest "
                  "encodings). Widths above 4 are not explored. VerifyNamespace (namespace-complete ranges) is only "
                  "held to soundness, not to acceptance of honest sub-ranges. A panic of a verifier on a forged "
                  "input counts as 'not accepted' (it is C09/C18's subject) and is reported in the evidence only.",
    "design_ref": "DESIGN.md §5 C01, §6 #1",
}


def run(ctx):
    _shwapverify.run(ctx, "C01", "MC_C01_quick.cfg", "MC_C01_thorough.cfg",
                     kinds=["sample", "row", "rnd", "range"], regress_cfg="MC_C01_regress.cfg",
                     min_cases=5000)
