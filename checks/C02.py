"""C02 -- verified namespace data is complete: no share of a namespace can be withheld."""
from checks import _shwapverify

META = {
    "technique": "TLC exhaustive on spec/shwap/ShwapVerify.tla (NdAccept / RndAccept: transcription of "
                 "NamespaceData.Verify, RowsWithNamespace, RowNamespaceData.Verify over the symbolic NMT of "
                 "IdealCrypto.tla incl. absence proofs and the completeness check) for every small square, namespace "
                 "and response obtained by removing/adding/reordering rows or shares, truncating to sub-range proofs, "
                 "swapping inclusion and absence proofs, borrowing proofs of other rows/namespaces/squares; case "
                 "enumeration binding (B3) to the real NamespaceData/RowNamespaceData codecs and verifiers; honest "
                 "data taken from both real producers (direct NMT build and proofs-cache tree walk); seeded byte garbling; "
                 "directed wide-namespace family (ODS 16 / 32, namespaces over 12 / 21 rows: every single-entry forgery of "
                 "the model at every entry index, because the model's verifier is uniform in the entry index)",
    "level_text": "model_checking: for ODS widths 1, 2, 4, every layout of the plan (namespace in one row, spanning "
                  "rows, filling rows, absent inside a row's range, absent outside every range, reserved namespaces, "
                  "namespace/tail padding), every requested namespace and every response reachable by the forgery atoms: "
                  "the transcription accepts only the complete, ordered namespace data (TLC) and the real verifier agrees "
                  "with the transcription on every enumerated case and never accepts data whose Flatten() differs from "
                  "the square's shares of that namespace (driver).",
    "level_note": "Same assumptions as C01 (ideal hashing / Reed-Solomon, structural forgeries, bytes only sampled). "
                  "Requested namespaces are those valid for data (tail-padding and parity namespaces are refused when "
                  "the request identifier is built). Both producers (eds.Rsmt2D and the proofs cache) must return "
                  "byte-identical honest data, else the run is inconclusive, not a violation of C02.",
    "design_ref": "DESIGN.md §5 C02",
}


def run(ctx):
    _shwapverify.run(ctx, "C02", "MC_C02_quick.cfg", "MC_C02_thorough.cfg",
                     kinds=["nd", "rnd"], regress_cfg=None, min_cases=3000)
