"""C07 -- a crash during a store write or removal never leaves a readable-but-wrong block.

spec/store/Store.tla      file-system level model of put / putODS / remove* / NewStore: one action per
                          file-system effect in the code's order, ODS and Q4 writers interleaved,
                          Crash enabled in every state, Recover = NewStore
spec/store/StoreTrace.tla trace specification (B1)
harness/drivers/storecrash  B2 (every crash point forced on the real code through the marker gates,
                          the dead process's directory copied, recovery script) + B1 trace recording
"""
import json
import os
import random

META = {
    "technique": "TLC exhaustive on spec/store/Store.tla (put/remove/NewStore split into file-system effects, "
                 "crash in every state, 3 operations x 2 crashes on a data block and the empty block) + "
                 "behaviour replay: every model crash point forced on the real store with crash-point "
                 "markers used as gates, store directory copied, restart + full read-back oracle + re-put "
                 "+ re-remove (B2) + trace validation of every executed operation's marker order against "
                 "StoreTrace.tla (B1)",
    "level_text": "Model checking of the crash/recovery protocol of the EDS store over all interleavings of the "
                  "ODS writer, the Q4 writer and a crash, for sequences of up to 3 operations and 2 crashes; "
                  "bound to the real code in both directions: each model crash state is reproduced on the "
                  "real file system (abstract directory content compared with the model) and the property's "
                  "observations (lookup absent or byte-identical block through every read path, re-put "
                  "succeeds and is fully readable also after another restart, re-remove idempotent) are made "
                  "on the real store; every operation's effect order is validated against the model by TLC.",
    "level_note": "Crash = process death (data handed to write(2) is durable, user-space buffers are lost); "
                  "power loss / fsync ordering is not modelled. I/O errors other than 'already exists' are not "
                  "injected on the real store (the roll-back branches of put are model-checked in StoreFault.tla "
                  "only; fault points verifFault exist in /repo but the replay family is not written yet). A lookup that returns an "
                  "error (neither absent nor a block) is not counted as a violation (the model predicts it "
                  "never happens; it would be reported as drift). 'partial' is instantiated on the real code "
                  "at the first / middle / last intermediate 64 KiB flush; squares: empty block, ODS width 2, "
                  "ODS width 16 (quick) and 32 (thorough), each WITHOUT tail padding (every share stored) and, "
                  "for a part of the cases, with padding. The abstraction of a file used for conformance is its "
                  "CONTENT (longest prefix equal to the independently built image of the complete file), not its "
                  "size. A partially written Q4 file behind an existing "
                  "height link (re-put over a pruned block) is accepted as long as it is never served.",
    "design_ref": "DESIGN.md §5 C07, §6 #10",
}

OPS = ("PutODSQ4", "PutODS", "RemoveODSQ4", "RemoveQ4", "NewStore")


def _wrapped_coverage(stdout):
    """Store.tla's Next wraps every action in M/Q/S/R(...): TLC reports coverage per call site
    `<M line .. of module Store (l1 c1 l2 c2)>: distinct:generated`; map the call site back to the
    action named there."""
    import re
    src = open(os.path.join(os.path.dirname(os.path.dirname(os.path.abspath(__file__))), "spec", "store", "Store.tla")).read().splitlines()
    out = {}
    for m in re.finditer(r"(?m)^<([MQSR]) line \d+, col \d+ to line \d+, col \d+ of module Store \((\d+) (\d+) (\d+) (\d+)\)>: (\d+):(\d+)", stdout):
        l1, c1, l2, c2 = (int(m.group(i)) for i in (2, 3, 4, 5))
        if l1 != l2 or l1 > len(src):
            continue
        text = src[l1 - 1][c1 - 1:c2]
        names = re.findall(r"[A-Z][A-Za-z0-9]+", text)
        name = names[-1] if names else text
        if name in ("M", "Q", "S", "R"):
            continue
        out[name] = out.get(name, 0) + int(m.group(7))
    return out


def _dedupe(cases):
    best = {}
    for c in cases:
        k = json.dumps([c["disk"], c["cp"]], sort_keys=True)
        if k not in best or len(c["hist"]) < len(best[k]["hist"]):
            best[k] = c
    return [best[k] for k in sorted(best)]


def _needs_partial(c):
    """the history crosses or stops at an intermediate flush (does not exist for a one-write square)"""
    return any(h.get("t") == "crash" and ("Partial" in h.get("lm", "") or "Partial" in h.get("lq", "")
                                          or h.get("o") == "partial" or h.get("q") == "partial")
               for h in c["hist"])


def _touches_partial(c):
    if _needs_partial(c):
        return True
    return any(f["f"] == 1 and (f["ods"] in ("partial", "hdr") or f["q4"] == "partial") for f in c["disk"]["files"])


def _select(cases, n, rnd):
    """seeded sample that keeps every (operation kind, main pc, ods pc, q4 pc) crash point at least once"""
    if n <= 0 or n >= len(cases):
        return cases
    by_cp = {}
    for c in cases:
        cp = c["cp"]
        by_cp.setdefault((cp["kind"], cp["h"], cp["m"], cp["o"], cp["q"], cp["r"]), []).append(c)
    out = []
    keys = sorted(by_cp)
    for k in keys:
        out.append(rnd.choice(by_cp[k]))
    rest = [c for c in cases if c not in out]
    rnd.shuffle(rest)
    out += rest[:max(0, n - len(out))]
    return out


def run(ctx):
    ctx.assume("crash = process death: bytes passed to write(2) survive, user-space buffers do not (no power-loss model)")
    ctx.assume("one data block (ODS width 2 and 16/32) and the empty block; sequences of <= 3 operations and <= 2 crashes")
    ctx.assume("I/O errors other than EEXIST are not injected")

    # 1. exhaustive model checking + case generation (workers=1 keeps the emitted histories deterministic)
    r = ctx.tlc("store/Store.tla", "store/Store_cases.cfg", workers=1, deadlock=False, timeout=900,
                coverage=not ctx.quick)
    if not r.ok:
        return
    if not ctx.quick:
        cov = _wrapped_coverage(r.stdout)
        missing = [a for a in ("OdsFlushPartial", "Q4FlushPartial", "Join", "RmOds", "RmQ4", "Link", "Crash", "Recover",
                               "NsRmOds", "OpEnd", "OdsCreate", "Q4Create", "RmLink", "NsReady") if cov.get(a, 0) == 0]
        ctx.cover(model_action_coverage=cov)
        if missing:
            ctx.inconclusive("vacuity: actions never taken in the model run: %s" % missing)
    if not ctx.quick:
        ctx.tlc("store/Store.tla", "store/Store_thorough.cfg", workers=8, deadlock=False, timeout=1800)
    cases = _dedupe(r.printed.get("CASE", []))
    ctx.cover(model_crash_points=len(cases), exhaustive=True)
    if len(cases) < 500:
        ctx.inconclusive("vacuity: only %d crash cases generated by the model" % len(cases))
        return
    ctx.sample({"model_case": cases[len(cases) // 2]})

    # 2. the model of the tree WITHOUT the Q4 size validation must show the defect (sensitivity of the
    #    model itself; not a verdict on the code)
    rd = ctx.tlc("store/Store.tla", "store/Store_defect.cfg", workers=4, deadlock=False, timeout=600,
                 must_pass=False, count=False)
    if rd.violated not in ("NoPartialServed", "LookupRight"):
        ctx.inconclusive("selftest: Store_defect.cfg (no Q4 validation on lazy open) no longer violates "
                         "NoPartialServed/LookupRight: got %s" % rd.violated)
    ctx.cover(model_selftest_defect_detected=(rd.violated in ("NoPartialServed", "LookupRight")))
    # ... and the model of writers that reserve the final file size first (Truncate before writing: the size
    # validations are blind to half-written files) must violate the property as well
    rp = ctx.tlc("store/Store.tla", "store/Store_prealloc.cfg", workers=4, deadlock=False, timeout=600,
                 must_pass=False, count=False)
    bad = ("NoPartialServed", "LookupRight", "LinkedIsComplete", "RePutWorks")
    if rp.violated not in bad:
        ctx.inconclusive("selftest: Store_prealloc.cfg no longer violates the property: got %s" % rp.violated)
    ctx.cover(model_selftest_prealloc_detected=(rp.violated in bad))

    # 2b. I/O faults (ENOSPC/EIO style failures of create/write/flush/close/link/remove/mkdir) as explicit
    #     actions with the code's real roll-back steps (spec/store/StoreFault.tla): model level only so far --
    #     the fault cases are NOT yet replayed on the real store (hooks verifFault exist), so this run adds
    #     no verdict on the code; a counterexample here is reported as inconclusive, never as a violation
    rf = ctx.tlc("store/StoreFault.tla", "store/StoreFault_cases.cfg", workers=4, deadlock=False, timeout=600,
                 must_pass=False, count=False)
    if rf.ok:
        fst = rf.printed.get("FSTATE", [])
        fcases = {json.dumps(x["fc"], sort_keys=True) for x in fst}
        ctx.cover(model_fault_states=rf.distinct if hasattr(rf, "distinct") else len(fst),
                  model_fault_cases=len(fcases), model_fault_case_states=len(fst))
    elif rf.violated:
        ctx.inconclusive("StoreFault.tla: invariant %s violated in the fault model (not reproduced on the real code)" % rf.violated)

    # 3. B2 + trace recording on the real code
    rnd = random.Random(ctx.seed)
    # a square that fits into one buffered write has no "partial" state: those cases go to the large square
    small = [c for c in cases if not _needs_partial(c)]
    bigc = [c for c in cases if _touches_partial(c)]
    if ctx.quick:
        sel = _select(small, int(os.environ.get("VERIF_C07_SMALL", "600")), rnd)
        big_n, big_w = int(os.environ.get("VERIF_C07_BIG", "120")), 16
    else:
        sel = small
        big_n, big_w = 900, 32
    bigsel = _select(bigc, big_n, rnd)
    cases_path = os.path.join(ctx.work, "cases.json")
    json.dump(sel, open(cases_path, "w"))
    big_path = os.path.join(ctx.work, "cases_big.json")
    json.dump(bigsel, open(big_path, "w"))
    ctx.cover(cases_small_square=len(sel), cases_large_square=len(bigsel))
    trace_path = os.path.join(ctx.work, "trace.ndjson")
    rep = ctx.go_driver("storecrash", env={"VERIF_CASES": cases_path, "VERIF_CASES_BIG": big_path,
                                           "VERIF_TRACE_OUT": trace_path,
                                           "VERIF_BIG_CASES": big_n, "VERIF_BIG_W": big_w},
                        timeout=1500 if ctx.quick else 3000)
    c = rep.get("counters", {})
    ctx.cover(cases_replayed_on_impl=c.get("cases_replayed", 0))
    # vacuity: every kind of crash point and every kind of observation really happened
    for k in OPS:
        if c.get("cp_" + k, 0) == 0:
            ctx.inconclusive("vacuity: no crash point inside %s was replayed" % k)
    for k in ("lookup_right", "lookup_notfound", "reputs", "reremoves", "recovery_scripts", "crash_states_conform"):
        if c.get(k, 0) == 0:
            ctx.inconclusive("vacuity: driver counter %s is 0" % k)

    # 4. B1: trace validation of every recorded operation
    if not os.path.exists(trace_path) or os.path.getsize(trace_path) == 0:
        ctx.inconclusive("no trace recorded")
        return
    os.environ["VERIF_TRACE"] = trace_path
    t = ctx.tlc("store/StoreTrace.tla", "store/StoreTrace.cfg", workers=1, deadlock=False, timeout=1500,
                must_pass=False, count=False)
    segs = int(c.get("trace_segments", 0))
    if t.ok:
        ctx.cover(traces_validated_against_impl=segs, trace_lines=t.generated)
    elif t.violated == "postcondition":
        stuck = t.printed.get("STUCK", [{}])[0]
        ctx.inconclusive("conformance drift: trace rejected by StoreTrace.tla at line %s of %s: %s (log %s)" % (
            stuck.get("consumed"), stuck.get("total"), json.dumps(stuck.get("line"))[:300], t.log_path))
    elif t.violated:
        # an invariant of Store.tla evaluated on a behaviour matched against the OBSERVED disk states of
        # the real store: the real operation drove the directory into a state the property forbids
        last = t.trace[-1][1] if t.trace else {}
        ctx.violation("C07/trace-invariant/" + t.violated,
                      "invariant %s of Store.tla is violated on a recorded execution of the real store "
                      "(observed directory states); last state: %s" % (t.violated, json.dumps(
                          {k: last.get(k) for k in ("ods", "q4", "lnk", "op", "mpc", "last")}, default=str)[:500]),
                      {"trace_tail": [(a, s) for a, s in t.trace[-12:]]})
    elif not t.error:
        ctx.inconclusive("trace validation ended abnormally (log %s)" % t.log_path)

    # 5. (thorough) the binding binds: a trace with one marker removed and one with one observed field
    #    changed must be rejected by StoreTrace.tla
    if not ctx.quick and t.ok:
        lines = open(trace_path).read().splitlines()[:4000]
        idx_link = next((i for i, l in enumerate(lines) if '"ev":"fs.link"' in l), None)
        idx_hdr = next((i for i, l in enumerate(lines) if '"ev":"ods.hdr"' in l), None)
        rejected = 0
        for name, mut in (("marker-removed", lambda ls: ls[:idx_link] + ls[idx_link + 1:]),
                          ("field-changed", lambda ls: ls[:idx_hdr] + [ls[idx_hdr].replace('"hdr"', '"full"', 1)] + ls[idx_hdr + 1:])):
            if idx_link is None or idx_hdr is None:
                break
            p = os.path.join(ctx.work, "trace_selftest_%s.ndjson" % name)
            open(p, "w").write("\n".join(mut(lines)) + "\n")
            os.environ["VERIF_TRACE"] = p
            st = ctx.tlc("store/StoreTrace.tla", "store/StoreTrace.cfg", workers=1, deadlock=False, timeout=900,
                         must_pass=False, count=False)
            if st.violated == "postcondition":
                rejected += 1
            else:
                ctx.inconclusive("selftest: corrupted trace (%s) was not rejected by StoreTrace.tla" % name)
        ctx.cover(trace_selftests_rejected=rejected)
