"""C12 -- inclusion proofs handed to clients verify, and only for what they claim.

spec/proofs/Proofs.tla   CommitmentProof / RangeResult / TupleProof / blob.Proof as structural records over
                         ideal cryptography; Honest* producers; <=2 composed manipulations; the verifiers
                         (CommitmentProof.Validate/Verify, GetRangeResult.Verify + ShareProof.Validate,
                         tuple proof verification, blobstream request validation, Proof.equal/Included)
                         transcribed check by check with an explicit "panic" outcome; invariants
                         ProducedVerifies, OnlyForClaim, IncludedExact, TotalFunction, RequestValidation
harness/drivers/proofs   every enumerated (family, object, manipulations) on real blocks / header chain:
                         real producers, manipulations on the real Go values and on the JSON form, real
                         verifiers under recover(); oracle = truth of the claim in the world
"""
import json
import os

META = {
    "technique": "TLC exhaustive on spec/proofs/Proofs.tla (all objects of a two-square / five-header world x "
                 "<=2 composed structural manipulations) + case enumeration (B3) of every reachable case on "
                 "real proofs produced and verified by the real code",
    "level_text": "Model checking of a check-by-check transcription of the four verifiers under ideal "
                  "cryptography: every honest proof verifies, an accepted presentation makes a true claim, "
                  "Included is (true,nil) exactly for the node's own proof of a blob of the block, no "
                  "manipulation reaches an index-out-of-range / nil-dereference, tuple requests are served "
                  "exactly when valid. Conformance: all ~31k enumerated cases are materialised with the real "
                  "producers (GetCommitmentProof, GetProof, share module GetRange, blobstream service on a "
                  "headertest chain) and judged by an oracle that is independent of the model (claim true in "
                  "the world the blocks were built from); repeated on large blobs (subtree width 2/4), on "
                  "seeded ranges, on the JSON round trip and on seeded byte mutations of the JSON (sampled).",
    "level_note": "Included 'answers true' is read as (true, nil) (DESIGN.md §11): the (true, ErrInvalidProof) "
                  "the service returns for a wrong proof is not counted as answering true (the package's own "
                  "test demands that shape). GetRangeResult.Verify(dataRoot) has no range parameter: the claim "
                  "of a range result is 'these shares are at the coordinates the proofs bind' (Merkle index of "
                  "each row proof, NMT range of each share proof); RowProof.StartRow/EndRow are documented "
                  "upstream as not validated and a result with shifted StartRow/EndRow that still verifies is "
                  "counted (rr_accepted_with_unvalidated_startrow_endrow), not alarmed. A commitment proof "
                  "proves 'data with this commitment is in the square', not that a PFB paid for it. A verifier "
                  "that is more lenient than the ideal model on a TRUE claim (e.g. merkle total-1 on the right "
                  "spine) is recorded, not alarmed. Byte-level JSON mutation is sampled, not exhaustive. "
                  "Nil receivers (calling Verify on a nil *CommitmentProof) are caller errors, not inputs.",
    "design_ref": "DESIGN.md §5 C12, §6 #12, §11",
}

GC = ["-XX:-UseParallelGC", "-XX:+UseSerialGC"]


def run(ctx):
    ctx.assume("ideal cryptography in the model: hashes injective, Merkle/NMT proofs verify iff they are the "
               "honest proof for exactly that tree, position and leaves")
    ctx.assume("small-scope: two squares of width 4 (+ two of width 16/32 in the driver), 5 headers, <=2 composed manipulations")
    quick = ctx.quick
    if ctx.replay:
        return replay(ctx)
    # (no -coverage here: TLC's cost model runs out of memory on this module; the action coverage is
    # read off the emitted cases instead: every family with 0, 1 and 2 manipulations, and requests)
    r = ctx.tlc("proofs/Proofs.tla", "proofs/MCProofs_quick.cfg", workers=4, timeout=1200, java_opts=GC)
    if not r.ok:
        return
    if not quick:
        # the tree as found: the model must be able to express candidate defect #12 (a panic outcome)
        a = ctx.tlc("proofs/Proofs.tla", "proofs/MCProofs_asfound.cfg", must_pass=False, count=False, workers=2,
                    timeout=600, java_opts=GC)
        if a.violated != "TotalFunction":
            ctx.inconclusive("the as-found transcription (GUARDS=FALSE) no longer reaches a panic outcome: "
                             "the model lost the defect it documents (violated=%s)" % a.violated)
        else:
            ctx.note("as-found transcription: TLC reports TotalFunction via %s" %
                     [s.get("tampers") for _, s in a.trace][-1:])
        b = ctx.tlc("proofs/Proofs.tla", "proofs/MCProofs_asfound_inc.cfg", must_pass=False, count=False, workers=2,
                    timeout=600, java_opts=GC)
        if b.violated != "IncludedExact":
            ctx.inconclusive("the as-found transcription of Proof.equal no longer violates IncludedExact (violated=%s)" % b.violated)
        else:
            ctx.note("as-found transcription: TLC reports IncludedExact via %s" %
                     [s.get("tampers") for _, s in b.trace][-1:])
    cases = r.printed.get("CASE", [])
    kinds = {}
    for c in cases:
        kinds[c["kind"]] = kinds.get(c["kind"], 0) + 1
    depth = {}
    for c in cases:
        depth[(c["kind"], len(c["tampers"]))] = depth.get((c["kind"], len(c["tampers"])), 0) + 1
    if len(cases) < 20000 or any(kinds.get(k, 0) < 100 for k in ("cp", "rr", "tp", "inc", "req")) or \
            any(depth.get((k, n), 0) < 1 for k in ("cp", "rr", "tp", "inc") for n in (0, 1, 2)):
        ctx.inconclusive("vacuity: TLC emitted %d cases %s %s" % (len(cases), kinds, depth))
        return
    ctx.cover(cases_by_family=kinds)
    ctx.cover(exhaustive=True, enumerated_cases=len(cases))
    p = os.path.join(ctx.work, "cases.json")
    with open(p, "w") as f:
        json.dump(cases, f)
    env = {"VERIF_CASES": p,
           "VERIF_JSON_MUTATIONS": 150 if quick else 2000,
           "VERIF_RANDOM_RANGES": 40 if quick else 600}
    rep = ctx.go_driver("proofs", env=env, timeout=1200 if quick else 3000)
    if rep is None:
        return
    c = rep.get("counters", {})
    ran = sum(v for k, v in c.items() if k.startswith("cases_model_"))
    ctx.cover(traces_validated_against_impl=int(ran + c.get("cases_bigworld_cp", 0) + c.get("cases_bigworld_inc", 0)))
    for cse in cases[:1] + [x for x in cases if len(x["tampers"]) == 2][:2]:
        ctx.sample(cse)
    need = {"cases_model_cp": 5000, "cases_model_rr": 5000, "cases_model_tp": 300, "cases_model_inc": 1000,
            "cases_model_req": 300, "cases_bigworld_cp": 100, "cases_bigworld_inc": 50,
            "verdict_cp_ok": 50, "verdict_rr_ok": 50, "verdict_tp_ok": 10, "verdict_inc_true": 20,
            "verdict_inc_false": 50, "verdict_req_ok": 10, "verdict_req_err": 100,
            "cases_random_range_rr": 40, "json_mutations": 1000, "cases_json_roundtrip_cp": 5}
    missing = {k: (c.get(k, 0), v) for k, v in need.items() if c.get(k, 0) < v}
    if missing and not rep.get("violations") and not rep.get("inconclusive"):
        ctx.inconclusive("vacuity: driver counters below the required minimum (have, need): %s" % missing)
    decoded = sum(v for k, v in c.items() if k.startswith("json_mutations_decoded_"))
    if decoded < 50 and not rep.get("violations"):
        ctx.inconclusive("vacuity: only %d mutated JSON forms survived decoding" % decoded)
    # conformance of the model with the real code
    if c.get("truth_differs_from_model", 0):
        ctx.inconclusive("conformance drift: the oracle's truth differs from the model's on %d cases (the model's world "
                         "and the real world disagree)" % c["truth_differs_from_model"])
    agree, len_, strict = c.get("model_verdict_agrees", 0), c.get("real_more_lenient_than_model", 0), c.get("real_stricter_than_model", 0)
    ctx.cover(model_verdict_agrees=agree, real_more_lenient_than_model=len_, real_stricter_than_model=strict)
    if not rep.get("violations") and agree < 0.98 * (agree + len_ + strict):
        ctx.inconclusive("conformance drift: the real verifiers disagree with the transcription on %d of %d cases "
                         "(lenient %d, stricter %d): update spec/proofs/Proofs.tla" % (len_ + strict, agree + len_ + strict, len_, strict))
    if c.get("rr_accepted_with_unvalidated_startrow_endrow", 0):
        ctx.note("%d range results with manipulated RowProof.StartRow/EndRow verify (fields not validated upstream; "
                 "see level_note)" % c["rr_accepted_with_unvalidated_startrow_endrow"])
    if c.get("included_true_with_error", 0):
        ctx.note("Included returned (true, error) for %d wrong proofs of a present blob (read as 'does not answer true', "
                 "DESIGN.md §11; the package's own test demands this shape)" % c["included_true_with_error"])
    lenient = {k[len("lenient_"):]: v for k, v in c.items() if k.startswith("lenient_")}
    if lenient:
        ctx.note("real verifier accepts, model rejects, claim true (harmless): %s" % lenient)


def replay(ctx):
    """bin/check C12 --replay <file>: re-run the recorded case on the current tree (same seed)."""
    d = json.load(open(ctx.replay))
    obj = d.get("replay") if isinstance(d.get("replay"), dict) else d
    p = os.path.join(ctx.work, "replay_case.json")
    with open(p, "w") as f:
        json.dump(obj, f)
    env = {"VERIF_REPLAY_CASE": p}
    if obj.get("seed") is not None:
        env["VERIF_SEED"] = obj["seed"]
    rep = ctx.go_driver("proofs", env=env, timeout=900)
    ctx.cover(evaluations=1, traces_validated_against_impl=1)
    ctx.sample(obj.get("case", obj))
    ctx.note("replay of %s: %s" % (ctx.replay, json.dumps((rep or {}).get("summary"))[:300]))
