"""C06 -- getters hand back only verified data, even when peers misbehave.

TLC checks spec/getter/Getter.tla exhaustively (shrex request loop with its response buffer, bitswap
population rule and block-store sink, cascade composition; all orders of peer answers and every
moment the caller's context can end).  The same specification then enumerates the fault sequences
(behaviours with canonical decoding); harness/drivers/getter replays them -- and seeded longer ones --
on the REAL shrex getter/client, bitswap getter and cascades over a libp2p mock network whose peers
answer with tampered real payloads, judges every returned value (success or error path) with the
real verifiers against the header and against the reference square, and records one trace line per
call; TLC validates all trace lines against the specification (GetterTrace.tla).
"""
import json
import os
import random

META = {
    "technique": "TLC exhaustive on spec/getter/Getter.tla and spec/getter/BitswapFetch.tla (+ defect configurations that must fail) ; behaviours "
                 "enumerated by TLC replayed on the real getters over a mock network with hostile peers (B2) ; "
                 "observed calls validated by TLC against spec/getter/GetterTrace.tla (B1) ; squares returned by earlier GetEDS "
                 "calls are compared byte for byte again after every later call (a returned value must not change)",
    "level_text": "Model checking of the request loop / cascade / bitswap population model for all fault sequences "
                  "within the bounds (<= 3 answers per item, <= 2 parallel items, every context outcome), bound to "
                  "the code by replaying every enumerated sequence (thorough) or all sequences <= 2 plus a seeded "
                  "sample (quick) against the real shrex getter, bitswap getter and cascades, with an oracle that "
                  "re-verifies every non-empty item of every returned value -- success or error -- with the real "
                  "verifier and compares it with the committed square; each observed call must be a behaviour of "
                  "the specification.",
    "level_note": "Peers are scripted stream handlers under the real shrex protocol IDs on a libp2p mocknet (stream "
                  "deadlines and reset codes are not modelled by mocknet); Bitswap is replaced by an exchange that "
                  "treats candidate blocks exactly like the client (hash under the wanted CID's prefix = the "
                  "repository's verifying multihash). Ideal cryptography in the model; real nmt/rsmt2d in the replay. "
                  "Byte-level tampering is structured (cuts, appended units, single bit flips) and seeded, not "
                  "exhaustive. 'Not found stays not found' is demanded of the shrex getter only when every answer was "
                  "NOT_FOUND. Per-attempt time-outs while the caller still waits are replayed with the getter's "
                  "one-minute floor lowered through a verif-tagged setter (a seeded sample of those behaviours). Cascade cases need a real clock (split deadlines): their "
                  "outcome is judged by the safety oracle; a small share of them may miss trace matching because of "
                  "timing and is reported as a note. Range requests are single-namespace ranges (the server refuses "
                  "and the verifier rejects others). Overlapping bitswap-getter calls are staged (every later call "
                  "enters while the earlier ones wait; candidates arrive before the second call or after all calls "
                  "entered) against an exchange that hashes each candidate once and hands it to every call that "
                  "wants the CID, as the Bitswap client does.",
    "design_ref": "DESIGN.md §5 C06, §6 #6 #7",
}

INVARIANT_ACTIONS = ["Request", "VerifyOK", "VerifyFail", "Classify", "Timeout", "CtxEnds", "ShrexReturn",
                     "BsOffer", "BsStore", "BsDone", "BsCtx", "StoreGet", "SubDeadline", "ReturnCtx"]


def _tlc_ok(ctx, cfg, **kw):
    kw.setdefault("workers", 12)
    kw.setdefault("timeout", 900 if ctx.quick else 3000)
    return ctx.tlc("getter/MCGetter.tla", "getter/%s.cfg" % cfg, **kw)


def run(ctx):
    quick = ctx.quick
    ctx.assume("ideal cryptography in Getter.tla (verification accepts exactly the committed data for the requested position)")
    ctx.assume("small scope: <= 3 answers per item exhaustively, <= 2 parallel items in the model (3 in seeded replays), squares of width 1,2,4")

    # ---- 1. exhaustive model checking of the specification as the code is now
    exhaustive = ["MC_quick_direct", "MC_quick_cascade", "MC_quick_samples2"] if quick else \
                 ["MC_thorough_single", "MC_thorough_samples2", "MC_thorough_samples2c"]
    for cfg in exhaustive:
        r = _tlc_ok(ctx, cfg, coverage=not quick)
        if not quick and r.ok:
            missing = [a for a in INVARIANT_ACTIONS if r.coverage.get(a, 0) == 0]
            if cfg == "MC_thorough_single" and missing:
                ctx.inconclusive("vacuity: actions never taken in %s: %s" % (cfg, missing))
    if not quick:
        _tlc_ok(ctx, "MC_live", workers=4)

    # ---- 2. the specification must still see the three defects when the switches are set to the old code
    for cfg, inv in (("MC_defect_leak", "OnlyVerified"), ("MC_defect_poison", "NoPoisoning"), ("MC_defect_putpanic", "NoPanic")):
        if quick and cfg != "MC_defect_leak":
            continue
        r = _tlc_ok(ctx, cfg, must_pass=False, count=False, workers=4)
        if r.violated != inv:
            ctx.inconclusive("model sensitivity lost: %s should violate %s, got ok=%s violated=%s" % (cfg, inv, r.ok, r.violated))
        else:
            ctx.cover(model_defect_configs_violated=1)

    # ---- 3. fault sequences = behaviours of the specification
    gens = ["MC_casesq_single", "MC_casesq_samples2", "MC_casesq_cascade"] if quick else \
           ["MC_cases_single", "MC_cases_samples2", "MC_casesq_cascade"]
    rng = random.Random(ctx.seed)
    cases = []
    for cfg in gens:
        r = _tlc_ok(ctx, cfg, count=False)
        cs = r.printed.get("CASE", [])
        if not cs:
            ctx.inconclusive("no behaviours printed by %s" % cfg)
            continue
        ctx.cover(**{"behaviours_" + cfg: len(cs)})
        if "cascade" in cfg:
            # cascades need a real clock (about a second each): a seeded sample
            rng.shuffle(cs)
            cs = cs[:160 if quick else 1200]
        elif not quick and "samples2" in cfg and len(cs) > 4000:
            rng.shuffle(cs)      # two parallel items: the trace validation explores their interleavings
            cs = cs[:4000]
        cases += cs
    # behaviours in which a single attempt times out while the caller still waits (about 1-3 s each)
    r = _tlc_ok(ctx, "MC_cases_timeouts", count=False)
    tos = [c for c in r.printed.get("CASE", []) if c.get("usedTimeout")]
    if not tos:
        ctx.inconclusive("no behaviours with a per-attempt time-out printed")
    rng.shuffle(tos)
    tos = tos[:40 if quick else 400]
    ctx.cover(behaviours_with_attempt_timeout=len(tos))
    if quick and len(cases) > 3200:
        rng.shuffle(cases)
        cases = cases[:3200]
    cases += tos
    cases_path = os.path.join(ctx.work, "cases.json")
    json.dump(cases, open(cases_path, "w"))
    ctx.cover(behaviours_replayed=len(cases))

    # ---- 3b. overlapping calls of the bitswap getter: spec/getter/BitswapFetch.tla
    fr = ctx.tlc("getter/BitswapFetch.tla", "getter/MCFetch.cfg", workers=8, timeout=600, coverage=not quick)
    if not quick:
        ctx.tlc("getter/BitswapFetch.tla", "getter/MCFetch_split.cfg", workers=8, timeout=600)
    for cfg, inv in (("MCFetch_defect_nodupwant", "NilMeansPopulated"), ("MCFetch_defect_inplace", "OnlyVerified"),
                     ("MCFetch_defect_shortcut", "NoPanic")):
        r = ctx.tlc("getter/BitswapFetch.tla", "getter/%s.cfg" % cfg, workers=2, timeout=300, must_pass=False, count=False)
        if r.violated != inv:
            ctx.inconclusive("model sensitivity lost: %s should violate %s, got ok=%s violated=%s" % (cfg, inv, r.ok, r.violated))
        else:
            ctx.cover(model_defect_configs_violated=1)
    groups = {}
    for cfg in ("MCFetch_cases1", "MCFetch_cases2", "MCFetch_cases3", "MCFetch_cases22"):
        r = ctx.tlc("getter/BitswapFetch.tla", "getter/%s.cfg" % cfg, workers=2, timeout=300, count=False)
        for c in r.printed.get("CASE", []):
            key = json.dumps([c["calls"], c["blocks"], c["offers"]], sort_keys=True)
            g = groups.setdefault(key, {"calls": c["calls"], "blocks": c["blocks"], "offers": c["offers"], "allowed": []})
            if c["ret"] not in g["allowed"]:
                g["allowed"].append(c["ret"])
    fetch_cases = list(groups.values())
    if not fetch_cases:
        ctx.inconclusive("BitswapFetch.tla printed no behaviours")
    fetch_path = os.path.join(ctx.work, "fetch_cases.json")
    json.dump(fetch_cases, open(fetch_path, "w"))
    ctx.cover(behaviours_fetch_model=len(fetch_cases))

    # ---- 4. replay on the real getters
    rep = ctx.go_driver("getter", env={"VERIF_CASES": cases_path, "VERIF_FETCH_CASES": fetch_path, "VERIF_SEEDED": 150 if quick else 800,
                                       "VERIF_PAR": 12}, timeout=1500 if quick else 5400)
    summ = rep.get("summary", {})
    cnt = rep.get("counters", {})
    trace = summ.get("trace")
    ctx.cover(evaluations=cnt.get("calls", 0))
    # vacuity on the real side: the situations the property talks about must have occurred
    need = {"served_other": 20, "served_garble": 20, "served_trunc": 20, "served_ext": 20, "served_notfound": 20,
            "served_reset": 10, "served_internal": 10, "served_silent": 50, "served_correct": 20,
            "error_path_after_bad_payload": 50, "returned_ok": 20, "returned_err": 50,
            "calls_chain_shrex": 100, "calls_chain_bitswap": 20, "calls_chain_shrex+bitswap": 10,
            "calls_chain_store+shrex+bitswap": 10, "calls_blockstore_datastore": 5, "calls_blockstore_edsstore": 5,
            "overlapping_calls": 150, "overlapping_calls_ok": 40, "fetch_model_cases": 50, "calls_samples": 20, "calls_row": 20, "calls_eds": 20, "calls_nd": 20, "calls_range": 20}
    low = {k: cnt.get(k, 0) for k, v in need.items() if cnt.get(k, 0) < v}
    if low and rep.get("summary"):
        ctx.inconclusive("vacuity: the replay did not exercise enough of: %s" % low)
    if cnt.get("ctx_safety_net_used", 0) > 0:
        ctx.note("%d calls ended through the harness' 20 s safety net" % cnt["ctx_safety_net_used"])

    # ---- 5. every observed call must be a behaviour of the specification
    if not trace or not os.path.exists(trace):
        ctx.inconclusive("driver wrote no trace")
        return
    lines = [json.loads(l) for l in open(trace) if l.strip()]
    os.environ["VERIF_TRACE"] = trace
    accepted = 0
    rejected = []
    arities = sorted({len(l["items"]) for l in lines})
    for n in arities:
        if n > (2 if quick else 3):
            ctx.cover(trace_lines_not_validated=sum(1 for l in lines if len(l["items"]) == n))
            continue
        r = ctx.tlc("getter/MCGetterTrace.tla", "getter/GetterTrace%d.cfg" % n, workers=1, timeout=1200 if quick else 3000,
                    deadlock=False)
        tr = (r.printed.get("TRACES") or [{}])[0]
        rej = (r.printed.get("REJECTED") or [[]])[0]
        if r.ok and "mine" in tr:
            accepted += tr.get("accepted", 0)
            rejected += list(rej)
        elif not r.error and not r.violated:
            ctx.inconclusive("trace validation (%d items) gave no verdict" % n)
    ctx.cover(traces_validated_against_impl=accepted, traces_rejected=len(rejected), trace_lines=len(lines))
    violated_ids = set()
    for v in rep.get("violations", []):
        rp = v.get("replay") or {}
        cid = ((rp.get("case") or {}).get("id")) if isinstance(rp, dict) else None
        if cid:
            violated_ids.add(cid)
    hard, soft = [], []
    for idx in rejected:
        l = lines[idx - 1]
        if l["id"] in violated_ids:
            continue            # the oracle already reported this call
        (soft if l["timing"] == "wall" else hard).append(l)
    for l in hard[:5]:
        ctx.inconclusive("conformance drift: observed call is not a behaviour of Getter.tla: %s" % json.dumps(l))
    if soft:
        ctx.note("%d wall-clock calls did not match a behaviour (timing): e.g. %s" % (len(soft), json.dumps(soft[0])))
        if len(soft) > max(5, len(lines) // 20):
            ctx.inconclusive("too many wall-clock calls without a matching behaviour: %d of %d" % (len(soft), len(lines)))
    for l in lines[:2] + lines[-2:]:
        ctx.sample(l)
