"""C19 -- RPC methods are reachable only with the permission they require.

spec/rpc/RpcAuth.tla is the access policy (permission sets per credential class, the policy table for all
72 methods of the 8 registered modules, the Sensitive set, Reach).  TLC checks the policy invariants in
every cell of the matrix method x credential x auth and prints the matrix; harness/drivers/rpc performs
every cell as a real JSON-RPC call against the real rpc.Server (binding B3, exhaustive).
"""
import json
import os

import vlib

META = {
    "technique": "TLC exhaustive on spec/rpc/RpcAuth.tla (policy table of all 72 methods as part of the "
                 "specification; matrix 72 methods x 10 credential classes x 5 presentation forms (Bearer, ?token=, "
                 "bare, lower-case, Basic; json / form-urlencoded for callers without credentials) x auth on/off = "
                 "6768 states with lattice / monotonicity / exposure invariants and the ASSUME that every sensitive "
                 "method needs write or admin) and on spec/rpc/RpcSession.tla (all histories of one token on one "
                 "server: 3 uses, expiry before / between / never; authorisation has no memory) + case enumeration / "
                 "behaviour replay: every history is replayed with one real token across its real expiry; every cell is one real JSON-RPC call (HTTP, WebSocket for "
                 "subscriptions) against the real rpc.Server with the real API structs registered as "
                 "registerEndpoints does, real JWTs, reflection-generated module stubs that record being reached",
    "level_text": "Every method of every registered module, called with every credential class (no token, "
                  "public, read, read+write, admin, admin-only, expired, other key, garbage, payload-tampered) with "
                  "authentication on and off, reaches the module implementation exactly when the specification's "
                  "Reach says so and is refused ('missing permission' / HTTP 401) otherwise; the method set and the "
                  "`perm` tags obtained by reflection equal the specification's policy table; the policy itself "
                  "satisfies: no token => public methods only, bad tokens grant nothing, stronger tokens reach a "
                  "superset, sensitive methods need write/admin.",
    "level_note": "The policy table in RpcAuth.tla is the source of truth: ANY difference between a method's tag "
                  "and the table (loosened or tightened) is reported as a violation; a method the table does not "
                  "know is checked structurally against its own tag and reported UNCLASSIFIED (exit 2 only if it "
                  "looks sensitive and is tagged read/public). Sensitive is read narrowly (p2p methods that only "
                  "report bandwidth / NAT / resource statistics are not in it, although the table requires admin "
                  "for them too). The module implementations are stubs: what a method does once reached is outside "
                  "the property. The kind of refusal (401 vs 'missing permission') is compared but only counted. "
                  "Rate limiting / connection limits / TLS are not part of the matrix (CORS-enabled server only in "
                  "the thorough tier). Trusted: go-jsonrpc's dispatch, cristalhq/jwt's HMAC.",
    "design_ref": "DESIGN.md §5 C19",
}


def run(ctx):
    ctx.assume("the policy table Required[module.method] of RpcAuth.tla is the intended policy")
    ctx.assume("module implementations are stubs (only reachability is observed), except node.AuthNew / "
               "AuthNewWithExpiry / AuthVerify which run the real nodebuilder/node module")
    r = ctx.tlc("rpc/RpcAuth.tla", "rpc/RpcAuth.cfg", workers=4, timeout=600, heap="2g")
    rs = ctx.tlc("rpc/RpcSession.tla", "rpc/RpcSession.cfg", workers=4, timeout=600, heap="2g")
    rm = ctx.tlc("rpc/RpcMint.tla", "rpc/RpcMint.cfg", workers=4, timeout=600, heap="2g")
    mints = rm.printed.get("MINT", [])
    if rm.ok and not mints:
        ctx.inconclusive("TLC printed no behaviours of RpcMint.tla")
    behaviours = rs.printed.get("BEH", [])
    if rs.ok and not behaviours:
        ctx.inconclusive("TLC printed no behaviours of RpcSession.tla")
    cases = r.printed.get("CASE", [])
    if not r.ok or not cases or not r.printed.get("TABLE"):
        if r.ok:
            ctx.inconclusive("TLC printed no matrix")
        return
    table = r.printed["TABLE"][0]
    n_methods = len(table)
    presentations = sorted({(c["cred"], c["form"]) for c in cases})
    if len(cases) != n_methods * len(presentations) * 2:
        ctx.inconclusive("matrix incomplete: %d cells for %d methods x %d presented credentials x 2" % (len(cases), n_methods, len(presentations)))
    path = os.path.join(ctx.work, "cases.json")
    with open(path, "w") as f:
        json.dump({"cases": cases, "behaviours": behaviours, "mints": mints, "table": table, "granted": r.printed["GRANTED"][0],
                   "sensitive": r.printed["SENSITIVE"][0]}, f)
    rep = ctx.go_driver("rpc", env={"VERIF_CASES": path, "VERIF_REPO_PATH": vlib.REPO}, timeout=900)
    c = rep.get("counters", {})
    s = rep.get("summary", {}) or {}
    if not s:
        return
    for k, v in s.items():
        if k.startswith("unclassified:"):
            ctx.note(v)
    # vacuity: all kinds of answers seen, both servers used, every method callable
    missing = [k for k in ("wire_reached", "wire_missing-permission", "wire_unauthorized", "calls_auth-on",
                           "calls_auth-off", "sensitive_reached_with_write_or_admin", "calls_repeated",
                           "histories_across_expiry", "history_expired_refused_after_valid_use",
                           "client_calls_agree", "batch_elements_agree", "mint_uses_agree", "mint_verify_agree",
                           "mints_across_expiry", "mint_refused_as_specified") if c.get(k, 0) == 0]
    if mints and c.get("mint_behaviours", 0) != len(mints):
        ctx.inconclusive("driver replayed %d of %d mint behaviours" % (c.get("mint_behaviours", 0), len(mints)))
    if c.get("mints_discarded_slow", 0) * 5 > max(1, c.get("mint_behaviours", 0)):
        ctx.inconclusive("machine too slow: %d mint behaviours could not be observed before expiry" % c.get("mints_discarded_slow", 0))
    missing += ["calls_form_" + f for f in sorted({k["form"] for k in cases}) if c.get("calls_form_" + f, 0) == 0]
    if behaviours and c.get("histories", 0) != len(behaviours):
        ctx.inconclusive("driver replayed %d of %d histories" % (c.get("histories", 0), len(behaviours)))
    if c.get("histories_discarded_slow", 0) * 5 > max(1, c.get("histories", 0)):
        ctx.inconclusive("machine too slow: %d of %d histories could not be observed before their token expired"
                         % (c.get("histories_discarded_slow", 0), c.get("histories", 0)))
    if missing:
        ctx.inconclusive("vacuity: never observed on the real server: %s" % missing)
    if s.get("methods_callable", 0) != s.get("methods_by_reflection", -1):
        ctx.inconclusive("only %s of %s methods could be called" % (s.get("methods_callable"), s.get("methods_by_reflection")))
    min_calls = len([k for k in cases if k["m"] in table])
    done = c.get("calls", 0) + c.get("cells_not_applicable", 0)
    if done < min_calls and not rep.get("inconclusive"):
        ctx.inconclusive("driver performed %d calls for %d cells" % (done, min_calls))
    if c.get("refusal_kind_differs", 0):
        ctx.note("refusal kind differs in %d cells: %s" % (c["refusal_kind_differs"],
                 "; ".join(str(v) for k, v in s.items() if k.startswith("refusal_kind_differs_example"))))
    ctx.cover(traces_validated_against_impl=c.get("cells_agree", 0) + c.get("histories", 0) - c.get("histories_discarded_slow", 0)
              + c.get("mint_behaviours", 0) - c.get("mints_discarded_slow", 0),
              evaluations=c.get("calls", 0),
              distinct_nontrivial=len([k for k in cases if k["auth"]]),
              rule="one case per cell of the matrix method x credential class x auth; non-trivial = authentication "
                   "enabled (the verdict depends on the credential); thorough adds credential variants and a "
                   "CORS-enabled server",
              exhaustive=bool(r.ok))
    for k in cases[:2]:
        ctx.sample({"tlc_cell": k})
