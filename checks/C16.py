"""C16 -- only internally consistent, properly signed headers are accepted; re-encoding changes neither
verdict nor hash; the gossip message id depends only on the block.

TLC enumerates the input space of spec/header/Header.tla (chain x header x <=2 composed structured
mutations [x trusted header]) and checks ValidateSound / EveryFieldCounts / VerifySound / HashStable /
MsgIdDependsOnBlockOnly on the transcription of Validate / Verify; every enumerated state is then
materialised by harness/drivers/header with real keys, signatures and squares and judged on the real
code by an independent reference evaluation (binding B3).
"""
import json
import os
import random
import threading

META = {
    "technique": "TLC exhaustive on spec/header/Header.tla (input space: 6 honest chains with validator sets of "
                 "1/3/4 members, equal and skewed powers, a set change; every single and every pair of ~200 "
                 "structured mutations per header; (trusted, untrusted) pairs adjacent and not) + case "
                 "enumeration: every TLC state becomes one real header (ed25519 keys, real signatures, DAH of "
                 "real squares) run through the real Validate / Verify / Hash / MsgID / binary+JSON codecs",
    "level_text": "For every enumerated header the real Validate (and Validate+Verify) accepts only what an "
                  "independent evaluation of the property's definition (merkle root of the roots = data hash, "
                  "validator-set hash, commit for this very header, > 2/3 resp. > 1/3 of the power validly "
                  "signed) confirms on the very same bytes; every committed field / root / member / power / "
                  "commit field changed alone is rejected; honest chains are accepted and verify; binary and JSON "
                  "re-encoding keep verdict, Hash() and message id; the message id equals the original's exactly "
                  "when the block id does. The model (a check-by-check transcription of Validate/Verify and of "
                  "the celestia-core routines they call) agrees with the real code on verdict AND failing stage "
                  "for every case, and TLC proves the invariants on all states of the bounded model.",
    "level_note": "Ideal hashing / signatures in the model; their concrete counterparts (SHA-256 merkle, ed25519, "
                  "protobuf/amino-JSON) are exercised on every replayed case but not proven. Bounds: validator sets "
                  "<= 4 members, <= 2 composed mutations, squares of width 1 and 2, chains of 3-4 headers. "
                  "Under-demanded on purpose: 'valid rejected' alarms only for unmutated honest headers (an honest "
                  "variant, e.g. a commit with one signature missing, that the real code rejects while the model "
                  "accepts is reported as drift, exit 2); 'the verdict' under re-encoding is acceptance by Validate "
                  "(and by Validate+Verify for pairs) -- Verify alone on a header Validate refuses may classify "
                  "differently after JSON decoding (single vs batch signature verification) and is only counted; "
                  "signature validity is position independent in the reference (most liberal reading of 'carries "
                  "> 2/3'); proposer / proposer priority of the validator set and signatures behind the 2/3 cut "
                  "are not committed to and not demanded; the DAH upper size bound and nil parts (a nil Commit makes "
                  "Validate panic) are outside the statement. Thorough tier replays a seeded sample of the pair "
                  "space (all of it is model-checked).",
    "design_ref": "DESIGN.md §5 C16",
}

STAGES = ["raw-basic", "app-version", "commit-basic", "valset-basic", "valset-hash", "dah-hash",
          "commit-height", "commit-hash", "commit-light", "dah-basic", "ok"]
VERIFY_CLASSES = ["ok", "valhash", "lasthash", "soft", "hard"]


def _run_parallel(ctx, jobs):
    """jobs: list of (cfg, workers, timeout). TLC runs are independent; run them side by side."""
    out = {}

    def one(cfg, workers, timeout):
        out[cfg] = ctx.tlc("header/Header.tla", "header/%s.cfg" % cfg, workers=workers, timeout=timeout, heap="4g")

    ths = [threading.Thread(target=one, args=j) for j in jobs]
    for t in ths:
        t.start()
    for t in ths:
        t.join()
    return out


def run(ctx):
    ctx.assume("ideal cryptography in the model: hashes injective, a signature verifies iff made by the named key "
               "over exactly that canonical vote")
    ctx.assume("small scope: validator sets of 1, 3, 4 members; <= 2 composed mutations; chains of 3-4 headers")
    if ctx.quick:
        jobs = [("MCValidate1", 5, 600), ("MCVerify1", 5, 600), ("MCValidate2q", 6, 600)]
        replay_all = {"MCValidate1", "MCVerify1", "MCValidate2q"}
        sample_n = 0
    else:
        jobs = [("MCValidate1", 3, 900), ("MCVerify1", 3, 900), ("MCValidate2", 6, 2400), ("MCVerify2", 4, 2400)]
        replay_all = {"MCValidate1", "MCVerify1"}
        sample_n = 60000
    res = _run_parallel(ctx, jobs)
    if any((not r.ok) for r in res.values()):
        # tool failure or a model counterexample: already recorded as inconclusive by ctx.tlc (rule 1: a
        # model counterexample is not a verdict on the code); the cases printed so far are still replayed.
        pass

    chains, forges, cases = None, None, []
    rng = random.Random(ctx.seed)
    emitted = 0
    for cfg, r in res.items():
        cs = r.printed.get("CASE", [])
        emitted += len(cs)
        if chains is None and r.printed.get("CHAIN"):
            chains, forges = r.printed["CHAIN"], r.printed.get("FORGE", [])
        if cfg in replay_all:
            cases += cs
        else:
            share = max(1, sample_n // max(1, len(jobs) - len(replay_all)))
            cases += cs if len(cs) <= share else rng.sample(cs, share)
    if not chains or not cases:
        ctx.inconclusive("TLC printed no chains / cases")
        return
    # the same state can be printed by two configurations (e.g. the unmutated headers): keep one
    seen, uniq = set(), []
    for c in cases:
        key = json.dumps([c["c"], c["i"], c["t"], c["m"]], sort_keys=True)
        if key not in seen:
            seen.add(key)
            uniq.append(c)
    cases = uniq
    rng.shuffle(cases)
    ctx.log("cases: %d emitted by TLC, %d replayed on the real code" % (emitted, len(cases)))
    path = os.path.join(ctx.work, "cases.json")
    with open(path, "w") as f:
        json.dump({"chains": chains, "forges": forges, "cases": cases}, f)

    rep = ctx.go_driver("header", env={"VERIF_CASES": path}, timeout=1500 if ctx.quick else 3000)
    c = rep.get("counters", {})

    # vacuity: every stage of Validate and every class of Verify must have been produced by the REAL code,
    # honest headers accepted, and forged-but-consistent headers met
    missing = [s for s in STAGES if c.get("stage_" + s, 0) == 0]
    missing += ["verify_" + v for v in VERIFY_CLASSES if c.get("verify_" + v, 0) == 0]
    for k in ("accepted", "verify_accepted", "verify_adjacent", "verify_non_adjacent", "reencode_binary_ok",
              "reencode_json_ok", "msgid_same_block_different_signatures"):
        if c.get(k, 0) == 0:
            missing.append(k)
    kinds = {m["k"] for k in cases for m in k["m"]}
    missing += ["mutation kind " + x for x in ("raw", "fix", "resign", "fork", "forge", "dah", "vs", "commit", "sig", "sub")
                if x not in kinds]
    if not any(k["t"] > 0 and k["adj"] for k in cases) or not any(k["t"] > 0 and not k["adj"] for k in cases):
        missing.append("adjacent and non-adjacent pairs")
    if missing and rep.get("summary"):
        ctx.inconclusive("vacuity: never exercised on the real code: %s" % missing)
    done = c.get("cases_validate", 0) + c.get("cases_verify", 0)
    if rep.get("summary") and done != len(cases):
        ctx.inconclusive("driver replayed %d of %d cases" % (done, len(cases)))

    agree = c.get("verdict_and_stage_agree", 0) + c.get("verify_class_agree", 0)
    ctx.cover(traces_validated_against_impl=agree,
              cases_replayed=done,
              evaluations=done,
              distinct_nontrivial=len([1 for k in cases if k["m"]]),
              rule="one case per distinct TLC state (VIEW = chain, header, trusted header, mutated header); "
                   "non-trivial = at least one mutation that changes the header",
              exhaustive=bool(ctx.quick or sample_n == 0) and all(r.ok for r in res.values()))
    for k in ("stage_mismatch", "verify_class_mismatch", "validate_panics", "verify_panics",
              "verify_class_changes_with_json", "verify_class_changes_with_binary"):
        if c.get(k, 0):
            ctx.note("%s=%d %s" % (k, c[k], rep.get("summary", {}).get(k + "_example", "")))
    for k, v in (rep.get("summary") or {}).items():
        if k.startswith("probe_"):
            ctx.note("outside the statement (recorded, not alarmed) %s: %s" % (k, v))
    for s in cases[:2]:
        ctx.sample({"tlc_case": s})
