"""Shared pipeline of C04 and C13 (one specification decides both: spec/das/DAS.tla).

1. TLC, exhaustive: all interleavings of the bounded DAS model (heads, worker steps with any
   outcome, deliveries, statistics requests, back-off expiries, background store, stop, crash,
   restart) against every invariant of C04/C13 -- with the behaviour switches set to the code on
   the tree (all three repairs of known_findings.jsonl present).
2. TLC, regression schedules: the same model with ONE repair switched off yields the shortest
   schedule exposing that defect; the schedules are replayed on the real DASer (they pass on the
   repaired tree and alarm if a repair is reverted).
3. TLC, simulation: random behaviours of a larger model, printed as stimulus scripts.
4. Go driver (harness/drivers/das): replays all scripts + a seeded random walk on the REAL DASer
   through the verif hooks (gates) and evaluates the property monitors on observable behaviour.
5. TLC, trace validation: every recorded execution must be a behaviour of DAS.tla
   (spec/das/DASTrace.tla); all invariants are evaluated on every state of the matched behaviour.
"""
import json
import os

import vlib

SPEC = "das/MCDAS.tla"

BASE = dict(MaxHeight=3, Range=2, Conc=1, TailH=1, FailBudget=1, CancelBudget=0, StopBudget=1,
            BgStore="TRUE", FixSilentExit="TRUE", FixResumeDone="TRUE", FixRecentCp="TRUE",
            MaxSteps=1000, SimDepth=1000, SpawnFirst="FALSE", AllowTailAdvance="FALSE")

ALL_INV = "TypeOK NoLostHeight SampledHeadSound CheckpointCovers ConcBound DoneExact EveryJobReports"


def write_cfg(ctx, name, consts, invariants=ALL_INV, props="BackoffMonotone", mc=True, extra=""):
    c = dict(BASE)
    c.update(consts)
    if not mc:
        c.pop("MaxSteps")
        c.pop("SimDepth")
        c.pop("SpawnFirst")
        c.pop("AllowTailAdvance")
    lines = ["CONSTANTS"] + ["  %s = %s" % (k, v) for k, v in c.items()]
    if mc:
        lines += ["INIT MCInit", "NEXT MCNext", "VIEW View"]
    if invariants:
        lines.append("INVARIANTS " + invariants)
    if props:
        lines.append("PROPERTIES " + props)
    lines.append("CHECK_DEADLOCK FALSE")
    lines.append(extra)
    p = os.path.join(ctx.work, name + ".cfg")
    open(p, "w").write("\n".join(lines) + "\n")
    return p


def hist_to_scenario(name, hist, consts):
    c = dict(BASE)
    c.update(consts)
    # the driver's "stop" runs the whole DASer.Stop; what the model interleaves with the stop
    # sequence (between StopBegin and StopFinal) is covered by TLC only
    steps, down = [], False
    for st in hist:
        if down and st["op"] not in ("start", "storeadvance", "tailadvance"):
            continue
        if st["op"] in ("stop", "crash"):
            down = True
        if st["op"] == "start":
            down = False
        steps.append(st)
    hist = steps
    return {"name": name, "range": int(c["Range"]), "conc": int(c["Conc"]), "bg": c["BgStore"] == "TRUE",
            "steps": hist, "maxh": int(c["MaxHeight"])}


# regression schedules: (name, switch or None, constants, invariant/property that the unrepaired model violates)
CEX = [
    ("cex-silent-exit", dict(FixSilentExit="FALSE", CancelBudget=1), "EveryJobReports", ""),
    ("cex-done-after-resume", dict(FixResumeDone="FALSE"), "DoneExact", ""),
    ("cex-recent-job-checkpoint", dict(FixRecentCp="FALSE"), "CheckpointCovers", ""),
    ("cex-recent-job-lost", dict(FixRecentCp="FALSE", BgStore="FALSE"), "NoLostHeight", ""),
    # the attempt-count reset (known finding): reachable only with a resumed worker overlapping cp.Failed
    ("cex-retry-count-reset", dict(MaxHeight=2, Conc=2, FailBudget=3, BgStore="FALSE"), "", "BackoffMonotone"),
]


def family_scripts(quick):
    """Directed histories along the code's boundaries that random schedules reach rarely: the same
    height failing k times in a row with every back-off elapsing in between (k runs across the
    length of the back-off table, defaultBackoffMaxRetryCount = 4, and beyond), optionally with a
    graceful stop or a crash in the middle; and recent jobs piling up to the 2*Conc limit on
    consecutive heads."""
    out = []
    def S(op, a=0, b=0):
        return {"op": op, "a": a, "b": b}
    for k in range(1, 8):
        for mid in ("", "stop", "crash"):
            if quick and mid and k not in (3, 6):
                continue
            st = [S("init", 2), S("start"), S("step", 1, "fail"), S("step", 1, "ok"), S("deliver", 1), S("poke")]
            jid = 1
            for i in range(2, k + 1):
                if mid and i == (k + 2) // 2:
                    st += [S(mid), S("start")]
                    jid = 0
                jid += 1
                st += [S("expire", 1), S("step", jid, "fail"), S("deliver", jid), S("poke")]
            out.append({"name": "family-retry-%d%s" % (k, "-" + mid if mid else ""), "range": 2, "conc": 1,
                        "bg": False, "steps": st, "maxh": 4})
    # consecutive heads while workers hang: reach and pass the recent-job limit (2*Conc)
    for conc in (1, 2):
        st = [S("init", 1), S("start"), S("step", 1, "ok"), S("deliver", 1), S("poke")]
        for h in range(2, 2 + 2 * conc + 2):
            st += [S("head", h), S("poke")]
        out.append({"name": "family-recent-limit-c%d" % conc, "range": 2, "conc": conc, "bg": False, "steps": st, "maxh": 8})
        st2 = list(st) + [S("stop"), S("start"), S("poke")]
        out.append({"name": "family-recent-limit-c%d-stop" % conc, "range": 2, "conc": conc, "bg": False, "steps": st2, "maxh": 8})
    return out


def replay(ctx, prop):
    """bin/check <ID> --replay <file>: re-run the recorded script of a violation on the real DASer."""
    obj = json.load(open(ctx.replay))
    sc = obj.get("replay") or obj
    scen = {"name": "replay-" + str(sc.get("scenario")), "range": sc["range"], "conc": sc["conc"], "bg": sc.get("bg", False),
            "steps": sc["steps"], "maxh": 12, "node": sc.get("node", False), "k": sc.get("k", 0)}
    sc_path = os.path.join(ctx.work, "scenarios.json")
    json.dump([scen], open(sc_path, "w"))
    rep = ctx.go_driver("das", env={"VERIF_SCENARIOS": sc_path, "VERIF_RANDOM": 0}, timeout=600,
                        keep=lambda sig: sig.startswith(prop + "/"))
    c = rep.get("counters") or {}
    ctx.cover(evaluations=int(c.get("stimuli", 0)), distinct_nontrivial=2, rule="replay of one recorded script")
    ctx.sample(scen)


def run(ctx, prop):
    if ctx.replay:
        return replay(ctx, prop)
    quick = ctx.quick
    ctx.assume("heights 1..MaxHeight, one header-store tail (no tail advance while the DASer runs)")
    ctx.assume("a resumed failed height is due immediately; other back-offs elapse only through the expire stimulus (1 h interval in the driver)")
    ctx.assume("crash = process death: only the datastore content survives (map datastore snapshot)")
    workers = 16

    # ---- 1. exhaustive model of the current tree
    cfgs = [("exh_r2_c1", dict())]
    if quick:
        cfgs.append(("exh_r1_c2_tail", dict(MaxHeight=2, Range=1, Conc=2, BgStore="FALSE", AllowTailAdvance="TRUE")))
    else:
        cfgs.append(("exh_r1_c2", dict(MaxHeight=3, Range=1, Conc=2, BgStore="FALSE")))
        cfgs.append(("exh_r3_c1_f2", dict(MaxHeight=3, Range=3, Conc=1, FailBudget=2, StopBudget=1)))
        cfgs.append(("exh_h4", dict(MaxHeight=4, Range=2, Conc=1, BgStore="FALSE")))
        cfgs.append(("exh_tail", dict(MaxHeight=3, Range=2, Conc=1, BgStore="FALSE", AllowTailAdvance="TRUE", StopBudget=2)))
    for name, consts in cfgs:
        r = ctx.tlc(SPEC, write_cfg(ctx, name, consts), workers=workers, timeout=900 if quick else 3000,
                    coverage=(name == "exh_r2_c1" and not quick), heap="12g")
        if name == "exh_r2_c1" and r.ok:
            ctx.cover(exhaustive=True)
            need = ["MC" + a for a in ["Start", "SpawnRetry", "SpawnCatchup", "SpawnEnd", "NewHead", "Deliver", "Poke",
                    "BgSnapshot", "BgPersist", "StopBegin", "StopCancel", "CoordCtxDone", "WorkerCtxDone",
                    "StopFinal", "Crash", "WorkerStep", "BackoffExpire"]]
            if not quick:
                ctx.require_coverage(r, need)

    # ---- liveness (C13): under fairness and eventually-successful sampling everything gets sampled
    if prop == "C13" or not quick:
        lcfg = write_cfg(ctx, "live", dict(MaxHeight=2, Range=1, Conc=1, StopBudget=1, BgStore="FALSE"),
                         invariants="", props="EventuallyAllSampled EventuallyDone", mc=False,
                         extra="SPECIFICATION LiveSpec")
        ctx.tlc("das/DAS.tla", lcfg, workers=workers, timeout=900, heap="12g")

    # ---- 2. regression schedules from the unrepaired models (cached by the hash of the
    # specification in the quick tier: the schedules are a deterministic function of the spec)
    scenarios = []
    import hashlib
    hsh = hashlib.sha256()
    for fn in ("DAS.tla", "MCDAS.tla"):
        hsh.update(open(os.path.join(vlib.VERIF, "spec", "das", fn), "rb").read())
    hsh.update(json.dumps(CEX, sort_keys=True).encode() + json.dumps(BASE, sort_keys=True).encode())
    cache_p = os.path.join(vlib.VERIF, "spec", "das", "cex_scripts.json")
    cache = {}
    if os.path.exists(cache_p):
        try:
            cache = json.load(open(cache_p))
        except Exception:
            cache = {}
    if quick and cache.get("spec_hash") == hsh.hexdigest():
        scenarios = list(cache["scenarios"])
        ctx.note("regression schedules taken from spec/das/cex_scripts.json (specification unchanged)")
    else:
        for name, consts, inv, prp in CEX:
            r = ctx.tlc(SPEC, write_cfg(ctx, name, consts, invariants=inv, props=prp), must_pass=False, count=False,
                        workers=workers, timeout=600, heap="8g")
            if not r.violated or not r.trace:
                ctx.inconclusive("regression model %s no longer yields a counterexample (violated=%s)" % (name, r.violated))
                continue
            hist = r.trace[-1][1].get("hist")
            scenarios.append(hist_to_scenario(name, hist, consts))
        if len(scenarios) == len(CEX) and not vlib.ALT:
            json.dump({"spec_hash": hsh.hexdigest(), "scenarios": scenarios}, open(cache_p, "w"), indent=1)

    # ---- 3. simulated behaviours of a larger model as scripts
    nsim = 60 if quick else 600
    depth = 40
    for i, consts in enumerate([dict(MaxHeight=6, Range=2, Conc=2, FailBudget=3, CancelBudget=1, StopBudget=2),
                                dict(MaxHeight=5, Range=2 if quick else 3, Conc=1, FailBudget=2, CancelBudget=1, StopBudget=2)]):
        consts = dict(consts, SimDepth=depth, MaxSteps=depth, SpawnFirst="TRUE", AllowTailAdvance="TRUE")
        cfg = write_cfg(ctx, "sim%d" % i, consts, invariants=ALL_INV)
        simdir = os.path.join(ctx.work, "sim%d" % i)
        os.makedirs(simdir, exist_ok=True)
        r = ctx.tlc(SPEC, cfg, workers=1, simulate="file=%s/b,num=%d" % (simdir, nsim // 2), depth=depth + 1,
                    timeout=600, seed=ctx.seed + i, count=False)
        behs = []
        for fn in sorted(os.listdir(simdir)):
            txt = open(os.path.join(simdir, fn)).read()
            last = txt.split("STATE_")[-1]
            last = last[last.index("==") + 2:].split("=====")[0]
            try:
                st = vlib.parse_tla_state(last)
                behs.append(st["hist"])
            except Exception as ex:
                ctx.note("cannot parse simulated behaviour %s: %s" % (fn, ex))
        if not behs:
            ctx.inconclusive("simulation produced no behaviours (log %s)" % r.log_path)
        for k, h in enumerate(behs):
            scenarios.append(hist_to_scenario("sim%d-%d" % (i, k), h, consts))
    ctx.cover(tlc_scripts=len(scenarios))
    fam = family_scripts(quick)
    scenarios += fam
    ctx.cover(directed_scripts=len(fam))

    # ---- 4. the real DASer
    sc_path = os.path.join(ctx.work, "scenarios.json")
    json.dump(scenarios, open(sc_path, "w"))
    rep = ctx.go_driver("das", env={"VERIF_SCENARIOS": sc_path, "VERIF_RANDOM": 80 if quick else 800,
                             "VERIF_COMBOS": "2,1;2,2;1,2" if quick else "1,1;2,1;3,1;1,2;2,2;3,2;2,3"},
                        timeout=1500 if quick else 3400, keep=lambda sig: sig.startswith(prop + "/"))
    c = rep.get("counters") or {}
    ctx.cover(evaluations=int(c.get("stimuli", 0)), distinct_nontrivial=int(c.get("scenarios", 0)),
              rule="one evaluation = one stimulus applied to the real DASer; distinct = scenarios (TLC counterexample "
                   "schedules, TLC simulated behaviours, seeded random walks), each ending with the end-to-end drain oracle")
    if c.get("drains_completed", 0) < max(1, c.get("scenarios", 0) // 2):
        ctx.inconclusive("vacuity: only %s of %s scenarios reached the end-to-end drain oracle" % (
            c.get("drains_completed", 0), c.get("scenarios", 0)))
    if c.get("scripts_diverged", 0) > 0:
        ctx.note("scripts that stopped being applicable on the real code: %s (last: %s)" % (
            c.get("scripts_diverged"), (rep.get("summary") or {}).get("last_divergence")))

    # ---- 4b. composition (spec/node/LightNode.tla): the same DASer sampling through the REAL light
    # availability over a scripted getter that serves real samples of real squares (C04 only)
    node_files = []
    if prop == "C04":
        r = ctx.tlc("node/LightNode.tla", "node/LightNode_quick.cfg" if quick else "node/LightNode_thorough.cfg",
                    workers=workers, timeout=900 if quick else 3000, include=["das", "light"], heap="12g")
        fam_path = os.path.join(ctx.work, "scenarios_node.json")
        json.dump(fam, open(fam_path, "w"))
        nrep = ctx.go_driver("das", env={"VERIF_SCENARIOS": fam_path, "VERIF_RANDOM": 30 if quick else 300, "VERIF_NODE": 1,
                                         "VERIF_COMBOS": "2,1;2,2;1,2", "VERIF_TRACE_PREFIX": "node_"},
                             timeout=1500 if quick else 3400,
                             keep=lambda sig: sig.startswith("C04/") or sig.startswith("NODE/"))
        nc = nrep.get("counters") or {}
        ctx.cover(node_scenarios=int(nc.get("scenarios", 0)), node_drains_verified=int(nc.get("node_drains_verified", 0)))
        if nc.get("node_drains_verified", 0) < 1:
            ctx.inconclusive("vacuity: no composed scenario reached the end-to-end oracle")
        if not quick:
            node_files = list((nrep.get("summary") or {}).get("trace_files") or [])

    # ---- 5. trace validation
    n_ok = 0
    for tf in ((rep.get("summary") or {}).get("trace_files") or []) + node_files:
        # trace_r<range>_c<conc>.ndjson
        rng = int(tf.split("_r")[1].split("_")[0])
        conc = int(tf.split("_c")[1].split(".")[0])
        consts = dict(MaxHeight=64, Range=rng, Conc=conc, FailBudget=1000000, CancelBudget=1000000, StopBudget=1000000)
        cfg = write_cfg(ctx, tf.replace(".ndjson", ""), consts, mc=False, props="",
                        extra="INIT TraceInit\nNEXT TraceNext\nPOSTCONDITION TraceAccepted")
        path = os.path.join(ctx.work, tf)
        os.environ["VERIF_TRACE"] = path
        nres = sum(1 for line in open(path) if '"ev":"reset"' in line)
        r = ctx.tlc("das/DASTrace.tla", cfg, must_pass=False, workers=1, timeout=900, count=False)
        if r.ok:
            n_ok += nres
            ctx.cover(trace_states=r.distinct)
        elif r.violated == "postcondition":
            ctx.inconclusive("conformance drift: a recorded execution of the real DASer is not a behaviour of DAS.tla "
                             "(%s, log %s): update the specification/hooks or look for a behavioural change" % (tf, r.log_path))
        elif r.violated:
            # an invariant of DAS.tla fails on a state reached by the real code
            ctx.violation(prop + "/trace/invariant-" + str(r.violated),
                          "invariant %s of DAS.tla is violated on a recorded execution of the real DASer (%s)" % (r.violated, tf),
                          {"trace_file": path, "tlc_log": r.log_path}) if inv_belongs(r.violated, prop) else None
        else:
            ctx.inconclusive("trace validation failed to run on %s: %s" % (tf, r.error))
    ctx.cover(traces_validated_against_impl=n_ok)
    if scenarios:
        ctx.sample({"tlc_script": scenarios[0]})


C04_INV = {"NoLostHeight", "SampledHeadSound", "CheckpointCovers"}


def inv_belongs(inv, prop):
    return (inv in C04_INV) == (prop == "C04")
