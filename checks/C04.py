from checks import _das

META = {
    "technique": "TLC exhaustive model checking of spec/das/DAS.tla (all interleavings incl. stop/crash/restart) + TLC-generated schedules replayed on the real DASer through verif gates + TLC trace validation of the recorded executions (DASTrace.tla)",
    "level_text": "Every interleaving of head announcements (any height), worker steps with any outcome, result deliveries, statistics/checkpoint requests, back-off expiries, background-store ticks, graceful stops and crashes followed by restarts is explored exhaustively by TLC on a specification written action-for-action after coordinator.run / worker.run / newCheckpoint / DASer.Start/Stop, for small bounds (heights<=3..4, range 1..3, concurrency 1..2); NoLostHeight, SampledHeadSound and CheckpointCovers hold in every state. The specification is bound to the code in both directions: TLC counterexample schedules (models with one repair switched off), TLC-simulated behaviours and seeded random walks are executed on the real das.DASer with gated workers, monitors on SamplingStats / persisted checkpoint JSON / the set of really sampled heights / an end-to-end drain are evaluated, and every recorded execution is checked by TLC to be a behaviour of the specification with all invariants evaluated in every state.",
    "level_note": "Bounded model (small-scope hypothesis); header-store tail fixed at 1 (no tail advance, no clamping of old checkpoints); crash = process death with a map datastore (durable writes); ideal availability stub decides outcomes. Hooks in /repo/das (tag verif) are trusted to log the state they read.",
    "design_ref": "DESIGN.md §5 C04/C13",
}


def run(ctx):
    _das.run(ctx, "C04")
