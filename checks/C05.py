"""C05 - every way of reading a stored block returns exactly the block that was stored.

Specification: spec/store/SRSquare.tla (square, ideal RS/crypto, on-disk format), SRAccessor.tla (accessor
objects and read rules), SRObject.tla (object level: all layouts x all canonical objects x all arguments),
StoreRepr.tla + MCStoreRepr.tla (store level: representation graph, caches, ways of opening).
Binding: B2 (every transition of the representation graph is replayed on a real store.Store /
CachedStore / store.Getter) + B3 (all read paths x all arguments in every reached state; the model's
predicted outcome class / source is compared with the real outcome)."""
import json
import os
import subprocess
import threading
import time

import vlib

META = {
    "technique": "TLC exhaustive on spec/store/SRObject.tla (format + read rules lossless: all layouts x canonical "
                 "accessor objects x all arguments incl. out-of-bounds) and spec/store/StoreRepr.tla (representation "
                 "graph: put/reopen/remove-Q4/evict/open/read; every reachable accessor object is canonical); behaviour "
                 "replay of EVERY transition of that graph on a real store.Store/CachedStore/Getter with all read paths "
                 "over all arguments in the reached state (byte equality with the rsmt2d square that was put + the real "
                 "verifiers on every container), model predictions (found/not found, served/rejected class, parity side "
                 "= Q4 file vs recomputation vs memory, proof axis, stream source, files on disk) compared with the code",
    "level_text": "Model checking of the explicit read-path specification: for every layout of ODS width 1, 2, 4 (every "
                  "padding amount, empty block, namespaces ending at every cell incl. row boundaries, reserved namespaces) "
                  "every read through every accessor object in every reachable representation equals the reference read, "
                  "out-of-bounds arguments being rejected. The real code is driven through every transition of the model's "
                  "representation graph (all four cache configurations) and, in each reached state, read through every way "
                  "of opening the block with every argument of the small square; results must be byte-equal to the square "
                  "that was put and verify against its roots, out-of-bounds arguments must be errors, and the observable "
                  "choices of the code (which side/axis/source) must be the ones the model predicts. EDS widths 16-64 are "
                  "sampled by seed with sampled arguments.",
    "level_note": "Assumed: ideal Reed-Solomon and ideal hashing in the model (exercised for real in every replay). "
                  "Under-demands, on purpose: a RowNamespaceData request for a namespace outside the row's range, a range over "
                  "several namespaces and a namespace that is invalid for data only have to be 'rejected or correct' (the "
                  "model's exact class is compared as conformance, exit 2 on drift, never exit 1); reads through a closed "
                  "accessor only must not return wrong data; an invalid axis type is not an index argument and is not probed; "
                  "out-of-bounds arguments are demanded to be refused only on accessors that carry the store's bounds "
                  "validation (everything Store / CachedStore / Getter hand out, GetByHash included - see the fixed finding "
                  "C05/panic/*/byhash:emptyblock); the plain cores and single wrappers are read with valid arguments only. One block at one height; concurrency is C08, "
                  "crashes C07. Squares above EDS width 8 are sampled, not exhaustive.",
    "design_ref": "DESIGN.md §5 C05",
}

ACTIONS = ["PutODSQ4", "PutODS", "Reopen", "RemoveQ4", "EvictRecent", "EvictServing", "HoldStore", "HoldCached",
           "ReadUpperHeld", "ReadAllHeld", "CloseHeld", "GetterReadAll", "CachedReadUpper", "CachedReadAll"]
BEH_CFGS = [r + c + e for r in "TF" for c in "TF" for e in "NE"]


def _key(empty, abs_):
    return (bool(empty), json.dumps(abs_, sort_keys=True))


def _join(ctx, results):
    """EDGE records (transitions) + STATE records (predictions) -> cases for the driver."""
    states_by_abs, states_by_hist = {}, {}
    edges = []
    for r in results:
        for s in r.printed.get("STATE", []):
            states_by_abs[_key(s["empty"], s["abs"])] = s
            states_by_hist[(bool(s["empty"]), s["abs"]["cfgR"], s["abs"]["cfgS"], tuple(s["hist"]))] = s
        edges += r.printed.get("EDGE", [])
    cases, missing = [], 0
    for (empty, cfgr, cfgs, hist), s in states_by_hist.items():
        if not hist:      # the initial states: nothing put yet
            cases.append({"hist": [], "empty": empty, "trail": [s["abs"]], "pred": s["pred"]})
    for e in edges:
        tgt = states_by_abs.get(_key(e["empty"], e["abs"]))
        hist = e["hist"]
        trail = []
        for i in range(len(hist)):
            s = states_by_hist.get((bool(e["empty"]), e["abs"]["cfgR"], e["abs"]["cfgS"], tuple(hist[:i])))
            if s is None:
                trail = None
                break
            trail.append(s["abs"])
        if tgt is None or trail is None:
            missing += 1
            continue
        trail.append(e["abs"])
        cases.append({"hist": hist, "empty": bool(e["empty"]), "trail": trail, "pred": tgt["pred"]})
    if missing:
        ctx.inconclusive("%d EDGE records could not be joined with STATE records" % missing)
    return cases, len(states_by_abs)


def run(ctx):
    quick = ctx.quick
    lock = threading.Lock()
    res = {}

    def tlc(name, spec, cfg, **kw):
        kw.setdefault("heap", "3g")
        r = ctx.tlc(spec, cfg, **kw)
        with lock:
            res[name] = r
        return r

    def start(name, spec, cfg, **kw):
        t = threading.Thread(target=tlc, args=(name, spec, cfg), kwargs=kw, daemon=True)
        t.start()
        return t

    t0 = time.time()
    # compile the driver while TLC runs (the later go_driver call then only links and runs)
    def warm():
        try:
            vlib.gen_go_mod()
            subprocess.run(["go", "test", "-tags", "verif", "-count=1", "-vet=off", "-run", "XXX_none", "./drivers/storerepr"],
                           cwd=vlib.HARNESS, env=vlib.go_env(), stdout=subprocess.DEVNULL, stderr=subprocess.DEVNULL, timeout=1500)
        except Exception:
            pass
    wt = threading.Thread(target=warm, daemon=True)
    wt.start()
    # --- behaviours of the representation graph (four cache configurations = four TLC processes) and the
    #     layout tables: needed by the driver, started first
    first = [start("beh_" + c, "store/MCStoreRepr.tla", "store/MCStoreReprBeh%s_%s.cfg" % ("" if quick else "X", c), workers=2, timeout=900 if quick else 2400)
             for c in BEH_CFGS]
    first += [start("layouts", "store/SRObject.tla", "store/MCSRObject_layouts.cfg", workers=4, timeout=900),
              start("layouts3", "store/SRObject.tla", "store/MCSRObject_layouts3.cfg", workers=2, timeout=900)]
    bg = []

    def start_bg():
        # --- the exhaustive model checks proper run while the driver works
        if quick:
            bg.append(start("obj_quick", "store/SRObject.tla", "store/MCSRObject_quick.cfg", workers=6, timeout=1200))
            bg.append(start("obj_w4", "store/SRObject.tla", "store/MCSRObject_w4quick.cfg", workers=6, timeout=1200))
            bg.append(start("store", "store/MCStoreRepr.tla", "store/MCStoreRepr_quick.cfg", workers=4, timeout=1200))
        else:
            bg.append(start("obj_steps", "store/SRObject.tla", "store/MCSRObject_steps.cfg", workers=6, timeout=3000, heap="6g"))
            bg.append(start("obj_thorough", "store/SRObject.tla", "store/MCSRObject_thorough.cfg", workers=8, timeout=3000, heap="6g"))
            bg.append(start("obj_w4ns3", "store/SRObject.tla", "store/MCSRObject_w4ns3.cfg", workers=6, timeout=3000, heap="6g"))
            bg.append(start("store", "store/MCStoreRepr.tla", "store/MCStoreRepr_thorough.cfg", workers=4, timeout=3000))
            bg.append(start("store_direct", "store/MCStoreRepr.tla", "store/MCStoreRepr_direct.cfg", workers=3, timeout=3000))

    for t in first:
        t.join()
    start_bg()      # they share the machine with the driver, not with the runs the driver waits for
    behs = [res.get("beh_" + c) for c in BEH_CFGS]
    lay = [res.get("layouts"), res.get("layouts3")]
    if any(r is None or not r.ok for r in behs + lay):
        ctx.inconclusive("TLC did not complete on the behaviour / layout configurations")
        for t in bg:
            t.join()
        return
    cases, nstates = _join(ctx, behs)
    layouts, seen = [], set()
    for r in lay:
        for l in r.printed.get("LAYOUT", []):
            k = (l["k"], tuple(l["ns"]))
            if k not in seen:
                seen.add(k)
                layouts.append(l)
    layouts.sort(key=lambda l: (l["k"], l["ns"]))
    cases.sort(key=lambda c: (c["empty"], c["trail"][0]["cfgR"], c["trail"][0]["cfgS"], c["hist"]))
    ctx.log("representation graph: %d states, %d transitions (+%d initial states); %d layouts; TLC %.0fs" % (
        nstates, len(cases), 0, len(layouts), time.time() - t0))
    if len(cases) < 1000 or len(layouts) < 100:
        ctx.inconclusive("too few behaviours/layouts from TLC: %d / %d" % (len(cases), len(layouts)))
    # vacuity on the model side: every action occurs in the behaviours
    used = set(a for c in cases for a in c["hist"])
    actions = ACTIONS + ([] if quick else ["RemoveODSQ4"])      # the thorough tier runs the extended action set
    miss = [a for a in actions if a not in used]
    if miss:
        ctx.inconclusive("vacuity: actions never taken in the representation graph: %s" % miss)

    if ctx.replay:
        rp = json.load(open(ctx.replay)).get("replay") or {}
        want = (list(rp.get("hist", [])), bool(rp.get("layout", {}).get("empty")), rp.get("recentCache"), rp.get("servingCache"))
        cases = [c for c in cases if (c["hist"], c["empty"], c["trail"][0]["cfgR"], c["trail"][0]["cfgS"]) == want]
        os.environ["VERIF_REPLAY_CASE"] = json.dumps(rp)
        ctx.log("replay: %d matching behaviour(s)" % len(cases))

    wt.join()
    cases_path = os.path.join(ctx.work, "cases.json")
    json.dump({"edges": cases, "layouts": layouts}, open(cases_path, "w"))
    env = {"VERIF_CASES": cases_path}
    if quick:
        env.update(VERIF_BUDGET=150, VERIF_PER_LAYOUT=3, VERIF_WIDE=18, VERIF_EDGE_REPEAT=1)
    else:
        env.update(VERIF_BUDGET=840, VERIF_PER_LAYOUT=16, VERIF_WIDE=120, VERIF_EDGE_REPEAT=4)
    if ctx.replay:
        env["VERIF_REPLAY_CASE"] = os.environ["VERIF_REPLAY_CASE"]
    rep = ctx.go_driver("storerepr", env=env, timeout=1500 if quick else 3000)
    c = (rep or {}).get("counters", {})

    for t in bg:
        t.join()
    for name, r in sorted(res.items()):
        if r.violated:
            ctx.note("model run %s: %s violated (see %s)" % (name, r.violated, r.log_path))
    for s in cases[:2]:
        ctx.sample({"behaviour": s["hist"], "empty_block": s["empty"], "predicted": {"store": s["pred"]["store"], "disk": s["pred"]["disk"]}})
    for l in layouts[:2]:
        ctx.sample({"layout": {"k": l["k"], "ns": l["ns"], "shares_in_file": l["nfile"], "ranges_served": len(l["ranges"])}})
    ctx.cover(traces_validated_against_impl=int(c.get("cases_run", 0)), exhaustive=True,
              model_states_representation_graph=nstates, model_transitions_replayed=len(cases), layouts=len(layouts))
    ctx.assume("ideal Reed-Solomon code and ideal (injective) hashing in the TLA+ model; the real rsmt2d/nmt code runs in every replay")
    ctx.assume("small-scope: exhaustive for ODS widths 1, 2, 4; EDS widths 16-64 sampled by seed")
    if ctx.replay or not rep:
        return

    if not quick:
        # vacuity on the model side, per action (transitions per action, from the EDGE records of the eight behaviour runs)
        covsum = {}
        for cs_ in cases:
            if cs_["hist"]:
                covsum[cs_["hist"][-1]] = covsum.get(cs_["hist"][-1], 0) + 1
        ctx.cover(model_transitions_per_action=covsum)
        nocov = [a for a in actions if covsum.get(a, 0) == 0]
        if nocov:
            ctx.inconclusive("vacuity: no transition of the model through actions %s" % nocov)
        # self-test of the binding: with the predicted side of the lower half (and HasByHeight) flipped, the
        # comparison with the real outcomes has to notice - shows that the model predictions really bind
        st_out = os.path.join(ctx.work, "selftest.json")
        e2 = vlib.go_env()
        e2.update(VERIF_OUT=st_out, VERIF_SEED=str(ctx.seed), VERIF_TIER="quick", VERIF_WORK=ctx.work, VERIF_CASES=cases_path,
                  VERIF_BUDGET="25", VERIF_PER_LAYOUT="0", VERIF_WIDE="0", VERIF_SELFTEST="1")
        try:
            subprocess.run(["go", "test", "-tags", "verif", "-count=1", "-vet=off", "-run", "TestDriver", "./drivers/storerepr"],
                           cwd=vlib.HARNESS, env=e2, stdout=subprocess.DEVNULL, stderr=subprocess.DEVNULL, timeout=900)
            sr = json.load(open(st_out))
            drifts = sr.get("counters", {}).get("conformance_drift", 0)
        except Exception as ex:
            drifts = -1
            ctx.note("self-test could not be run: %s" % ex)
        ctx.cover(selftest_flipped_predictions_detected=int(drifts))
        if drifts <= 0:
            ctx.inconclusive("self-test: flipped model predictions were NOT noticed by the driver (the binding does not bind)")
        else:
            ctx.log("self-test: %d flipped predictions noticed as conformance drift" % drifts)

    # --- vacuity on the code side
    need = ["action_" + a for a in actions] + [
        "obs_q4_side", "obs_recompute_side", "obs_mem_side", "obs_matched", "disk_matched", "oob_probes",
        "rejected_outside", "rejected_invalidns", "rejected_range_mixed", "rejected_nd_invalidns", "closed_probes",
        "notfound_matched", "cases_k1", "cases_k2", "cases_k4", "cases_emptyblock", "cases_wide", "cases_layout",
        "reads_sample", "reads_axishalf", "reads_rownd", "reads_nd", "reads_range", "reads_shares", "reads_reader",
        "reads_getter", "plain_mem", "plain_ods", "plain_odsq4", "wrapper_proofscache", "wrapper_validation",
        "wrapper_closeonce", "open_store_recent", "open_store_file", "open_cachedstore_loaded", "open_cachedstore_serving",
        "open_store_serving", "open_byhash_file", "open_byhash_empty"]
    if c.get("cases_given_up_cache_grace_period", 0):
        ctx.note("%d case(s) given up: a held reference to an evicted accessor would have outlived the cache's one-minute close time-out (C08, DESIGN §11)" % c["cases_given_up_cache_grace_period"])
    miss = [k for k in need if c.get(k, 0) <= 0]
    if miss:
        ctx.inconclusive("vacuity: never exercised on the real store: %s" % miss)
    run_, total = c.get("cases_run", 0), max(1, c.get("cases_total", 1))
    ctx.log("driver: %d of %d cases run (%d skipped for the time budget), %d reads" % (
        run_, total, c.get("cases_skipped_budget", 0),
        sum(v for k, v in c.items() if k.startswith("reads_"))))
    ctx.cover(replay_cases_run=int(run_), replay_cases_planned=int(total))
    # The cases are run in seeded random order, so a run cut short by the time budget (loaded machine) is a
    # uniform sample of the transitions x layouts; the vacuity list above makes sure every action, way of
    # opening, representation and rejection class was exercised. Below a floor the run says nothing.
    if run_ < (300 if quick else 3000):
        ctx.inconclusive("only %d of %d cases were run within the time budget" % (run_, total))
