from checks import _das

META = {
    "technique": "TLC exhaustive model checking (safety + liveness under fairness) of spec/das/DAS.tla + TLC-generated schedules replayed on the real DASer through verif gates + TLC trace validation (DASTrace.tla)",
    "level_text": "On the same specification as C04, TLC checks ConcBound, DoneExact (catch-up flag exact whenever the coordinator idles), EveryJobReports, BackoffMonotone as an action property, and under weak fairness with eventually-successful sampling the temporal properties 'eventually every known height is sampled' and 'eventually done'. On the real DASer the driver checks concurrency bounds and the done flag on every SamplingStats, silent worker exits via the worker hooks, attempt counts on every coordinator event, and progress by an end-to-end drain (all gates released with success, back-offs expired: the DASer must become idle with everything sampled and WaitCatchUp must return); recorded executions are validated against the specification by TLC.",
    "level_note": "Liveness is checked on a very small model (2 heights) and, on the real code, as bounded progress of the drain with proven quiescence (no pending gate, coordinator in select) rather than by timing. Back-off durations are abstracted to due/not-due. The attempt-count reset by a catch-up result overlapping the failed map after a restart is a recorded known finding.",
    "design_ref": "DESIGN.md §5 C04/C13",
}


def run(ctx):
    _das.run(ctx, "C13")
