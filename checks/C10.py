"""C10 -- Bitswap blocks are accepted only if they verify for the requested identifier.

spec/bitswap/Bitswap.tla   registry, Fetch, the hasher pipeline step by step, duplicates, concurrent
                           Fetch calls and concurrent hasher invocations
spec/shwap/ShwapIDs.tla    byte-level identifier <-> CID framing (IdCidBijective on the boundary lattice)
harness/drivers/bitswap    cases (B3) and behaviours (B2) on the real Fetch / hasher / Blockstore
harness/drivers/ids        identifier <-> CID cases on the real constructors / EmptyBlock
"""
import json
import os
import re

import vlib

META = {
    "technique": "TLC exhaustive on spec/bitswap/Bitswap.tla (every interleaving of two concurrent Fetch calls, two concurrent "
                 "step-by-step hasher invocations, adversarial block classes) + spec/shwap/ShwapIDs.tla (byte-level id<->CID); "
                 "binding: enumerated (block class, requester state) cases, served blocks and TLC behaviours (counterexamples of the "
                 "strict invariants, simulation) replayed on the real bitswap.Fetch / multihash hasher / Blockstore with gates",
    "level_text": "Model checking: FilledOnlyIfVerified, RejectedLeavesUnfulfilled, IdCidBijective, RegistryKeyInjective, ServedBlockAccepted, "
                  "HasherAcceptsOnlyVerified, NoPanic, StoredOnlyVerified, LockReleased, RegistryEmptyAtEnd hold in every reachable state of the bounded model. On the real code, through the public API only "
                  "(cid.Prefix.Sum -> registered hasher while a real Fetch over a fake exchange is pending): every enumerated case for "
                  "every sample/row/row-namespace/range identifier of seeded squares (ODS 1,2,4) leaves the requester's container empty "
                  "or equal to the committed data; every Blockstore.Get block -- served from the in-memory accessor and from a real store.Store as recent cache, reopened ODS+Q4 files, ODS only and Q4-pruned -- is accepted and delivered; id->CID->id is the identity on "
                  "the identifier boundary lattice up to the protocol maximum; model behaviours are replayed step by step.",
    "level_note": "Cryptography is ideal in the model (a container verifies iff it is the honest container of that identifier from the "
                  "requester's square); real nmt/rsmt2d verification runs in every case. Bounds: 2 Fetch calls, 2 hasher threads, <= 2 (quick) / "
                  "3 (thorough) messages, squares of ODS width <= 4, one namespace per square. The fake exchange implements Bitswap's "
                  "contract (a block reaches Fetch only if prefix.Sum returned a wanted CID); real Bitswap sessions/network are not run. "
                  "Hasher sub-steps before the registry lookup cannot be interleaved on the real code (no hook): behaviours whose lock order "
                  "differs from the lookup order are not replayed. DoneMeansFilled ('Fetch returned nil => filled') is violated by the model of the "
                  "current code through a stale registry entry: the counterexample counts only when reproduced on the real code (known finding); "
                  "it is outside the literal statement and has its own signature. Scenario witnesses (duplicate leaves first, third Fetch in the gap, "
                  "sample and legacy range identifier with equal identifier bytes fetched concurrently) are replayed on every run; after a visible "
                  "registry divergence the replay evaluates only the property's oracles. Byte-level mutations are sampled.",
    "design_ref": "DESIGN.md §5 C10",
}

WANTS = {"Wants2": {"f1": ["a", "b"], "f2": ["a"]}, "WantsSame": {"f1": ["a"], "f2": ["a"]},
         "Wants3": {"f1": ["a"], "f2": ["a"], "f3": ["a"]}, "WantsCross": {"f1": ["a"], "f2": ["b"]}}


def _unset(v):
    return v["#set"] if isinstance(v, dict) and "#set" in v else v


def behaviour_from_trace(r, wants, name, source):
    """TLC counterexample -> step list in the format of the spec's history records."""
    # (vlib's own trace parser drops states whose action label contains '>' -- e.g. a message record
    # argument with |-> -- so the counterexample is parsed here from TLC's output)
    labels, states = {}, []
    parts = re.split(r"(?m)^State (\d+): <(.*)>$", r.stdout)
    for k in range(1, len(parts) - 2, 3):
        num, label, body = int(parts[k]), parts[k + 1], parts[k + 2]
        body = re.split(r"\n\n|\n\d+ states generated|\nState \d+:", body)[0]
        m = re.match(r"(\w+)\((.*)\) line \d+", label)
        labels[num] = (m.group(1), m.group(2)) if m else (label, "")
        states.append(vlib.parse_tla_state(body))
    steps = []
    for n in range(1, len(states)):
        if (n + 1) not in labels:
            return None
        a, args = labels[n + 1]
        pre, post = states[n - 1], states[n]
        first = args.split(",")[0].strip().strip('"')
        s = {"a": a,
             "cont": post["cont"],
             "pc": {f: post["fs"][f]["pc"] for f in post["fs"]},
             "hpc": {t: post["hs"][t]["pc"] for t in post["hs"]},
             "own": {t: post["hs"][t]["owner"] for t in post["hs"]}}
        if a.startswith("Fetch"):
            s["f"] = first
        else:
            s["t"] = first
        if a == "FetchRegister":
            s["id"] = wants[first][pre["fs"][first]["next"] - 1]
        elif a == "FetchRecv":
            s["cid"] = pre["chan"][first][0]["cid"]
        elif a == "FetchReturn":
            s["cancelled"] = args.split(",")[1].strip() == "TRUE"
        elif a == "HasherWrite":
            s["m"] = post["hs"][first]["m"]
        elif a == "BitswapPublish":
            s["m"] = pre["hs"][first]["m"]
            s["acc"] = pre["hs"][first]["acc"]
            s["takers"] = [f for f in post["chan"] if len(post["chan"][f]) > len(pre["chan"][f])]
        steps.append(s)
    return {"name": name, "source": source, "wants": wants, "steps": steps}


def run(ctx):
    tier = "quick" if ctx.quick else "thorough"
    ctx.assume("ideal cryptography in the model; real nmt/rsmt2d verification in every replayed case")
    ctx.assume("bounds: 2 concurrent Fetch calls, 2 hasher threads, <= %d messages, ODS width <= 4" % (2 if ctx.quick else 3))
    ctx.assume("fake exchange implementing Bitswap's delivery contract instead of real Bitswap sessions")

    # 1. exhaustive model: all interleavings, the invariants that hold
    r = ctx.tlc("bitswap/MCBitswap.tla", "bitswap/MCBitswap_%s.cfg" % tier, workers=16,
                timeout=420 if ctx.quick else 1500, deadlock=False, coverage=False)
    if not r.ok:
        return

    # 2. case enumeration (one Fetch, every message class, before/after the request was filled)
    rc = ctx.tlc("bitswap/MCBitswap.tla", "bitswap/MCBitswap_cases.cfg", workers=8, timeout=300, deadlock=False)
    cases = [c for c in rc.printed.get("CASE", []) if isinstance(c, dict)]
    uniq = {json.dumps(c, sort_keys=True): c for c in cases}
    cases = list(uniq.values())
    if not rc.ok or not cases:
        ctx.inconclusive("no cases from MCBitswap_cases")
        return
    n_acc = sum(1 for c in cases if c["accepted"])
    n_pop = sum(1 for c in cases if c["popBefore"])
    if n_acc == 0 or n_acc == len(cases) or n_pop == 0:
        ctx.inconclusive("vacuity: cases lack accepted / rejected / already-populated states: %d %d %d" % (len(cases), n_acc, n_pop))
    cases_path = os.path.join(ctx.work, "bitswap_cases.json")
    json.dump(cases, open(cases_path, "w"))

    # 3. sensitivity of the model's IdCidBijective (pre-fix constructor): must be violated
    wide = ctx.tlc("bitswap/MCBitswap.tla", "bitswap/MCBitswap_wide.cfg", must_pass=False, count=False, workers=2,
                   timeout=120, deadlock=False)
    if wide.violated != "IdCidBijective":
        ctx.inconclusive("model sensitivity lost: wide legacy range ids do not violate IdCidBijective")

    # 4. sensitivity of the strict invariants (they HOLD in the configurations above since repo commit 64c8839):
    #    with the old "already populated => nil" shortcut the model must violate them
    q = "_q" if ctx.quick else ""
    for cfg, inv in (("strict", "NoPanic"), ("strict_store", "StoredOnlyVerified"), ("strict_hasher", "HasherAcceptsOnlyVerified")):
        s = ctx.tlc("bitswap/MCBitswap.tla", "bitswap/MCBitswap_%s%s.cfg" % (cfg, q), must_pass=False, count=False, workers=16,
                    timeout=600, deadlock=False)
        if s.violated != inv:
            ctx.inconclusive("model sensitivity lost: PopulatedShortcut=TRUE does not violate %s" % inv)
    ka = ctx.tlc("bitswap/MCBitswap.tla", "bitswap/MCBitswap_keyalias.cfg", must_pass=False, count=False, workers=2, timeout=120,
                 deadlock=False)
    if ka.violated != "RegistryKeyInjective":
        ctx.inconclusive("model sensitivity lost: a registry keyed by identifier bytes does not violate RegistryKeyInjective")
    # 4a. DoneMeansFilled: violated by the model of the current code (stale registry entry); the counterexample
    #     counts only when reproduced on the real code
    behaviours = []
    s = ctx.tlc("bitswap/MCBitswap.tla", "bitswap/MCBitswap_strict_done%s.cfg" % q, must_pass=False, count=False, workers=16,
                timeout=600, deadlock=False)
    if s.violated == "DoneMeansFilled":
        b = behaviour_from_trace(s, WANTS["WantsSame"], "cex_DoneMeansFilled", "strict_DoneMeansFilled")
        if b is None:
            ctx.inconclusive("cannot read the counterexample of DoneMeansFilled")
        else:
            behaviours.append(b)
    elif s.ok:
        ctx.note("DoneMeansFilled holds in the model (no counterexample to replay)")
    # 4b. scenario witnesses: histories the replay must contain whatever the seed (TLC reports the
    #     negated goal as "violated"; DoneMeansFilled and FilledOnlyIfVerified hold along them)
    n_scen = 0
    for cfg, goal, wants in (("scen_dupleaves", "GoalDupLeavesFirst", "WantsSame"), ("scen_thirdgap", "GoalThirdInGap", "Wants3"),
                             ("scen_crossa", "GoalCross", "WantsCross"), ("scen_crossb", "GoalCross", "WantsCross")):
        s = ctx.tlc("bitswap/MCBitswap.tla", "bitswap/MCBitswap_%s.cfg" % cfg, must_pass=False, count=False, workers=8,
                    timeout=300, deadlock=False)
        b = behaviour_from_trace(s, WANTS[wants], cfg, cfg) if s.violated == goal else None
        if b is None:
            ctx.inconclusive("no witness history from %s (violated=%s)" % (cfg, s.violated))
        else:
            behaviours.append(b)
            n_scen += 1
    # 5. simulated behaviours (the model's own history variable)
    sim = ctx.tlc("bitswap/MCBitswap.tla", "bitswap/MCBitswap_sim.cfg", count=False, workers=4 if ctx.quick else 8,
                  timeout=300 if ctx.quick else 1200, deadlock=False,
                  simulate="num=%d" % (150 if ctx.quick else 800), depth=70, seed=ctx.seed)
    seen = set()
    want_n = 40 if ctx.quick else 300
    k = 0
    hs = [h for h in sim.printed.get("BEHAVIOUR", []) if isinstance(h, list)]
    hs.sort(key=lambda h: -len(h))      # a printed history extends earlier prints of the same run: longest first
    for h in hs:
        key = json.dumps([(s.get("a"), s.get("f"), s.get("t"), s.get("m")) for s in h], sort_keys=True)
        # a printed history extends earlier ones of the same run: keep maximal, interesting ones
        acts = [s["a"] for s in h]
        if key in seen or "FetchRecv" not in acts:
            continue
        seen.add(key)
        k += 1
        behaviours.append({"name": "sim_%d" % k, "source": "simulate", "wants": WANTS["Wants2"], "steps": h})
        if k >= want_n:
            break
    beh_path = os.path.join(ctx.work, "bitswap_behaviours.json")
    json.dump(behaviours, open(beh_path, "w"))
    ctx.log("behaviours to replay: %d (%d counterexamples, %d scenario witnesses)" % (len(behaviours), len(behaviours) - k - n_scen, n_scen))

    # 6. identifier <-> CID on the byte level: the model's boundary lattice (ShwapIDs.tla)
    ri = ctx.tlc("shwap/ShwapIDs.tla", "shwap/ShwapIDs_%s.cfg" % tier, workers=16, timeout=900, deadlock=False)
    idcases = [c for c in ri.printed.get("CASE", []) if isinstance(c, dict) and (c["c"]["kind"] == "cid" or (
        c["c"]["kind"] == "id" and c["c"]["id"]["t"] in ("row", "sample", "rnd", "rangev0")))]
    idpath = os.path.join(ctx.work, "cid_cases.json")
    json.dump(idcases, open(idpath, "w"))
    if not ri.ok or not idcases:
        ctx.inconclusive("ShwapIDs produced no CID cases")

    # 7. real code: cases, served blocks, behaviours, mutations, id<->CID
    rep = ctx.go_driver("bitswap", env={"VERIF_CASES": cases_path, "VERIF_BEHAVIOURS": beh_path, "VERIF_CID_CASES": idpath,
                                        "VERIF_IDS_PER_TYPE": 6 if ctx.quick else 0,
                                        "VERIF_MUTATIONS": 2000 if ctx.quick else 20000}, timeout=1500)
    cnt = rep.get("counters", {}) or {}
    for need in ("cases_run", "cases_full_flow", "served_sample", "served_row", "served_rnd", "served_range", "served_store_recent", "served_store_odsq4",
                 "served_store_ods", "served_store_q4pruned", "served_store_memory", "served_store_ok",
                 "served_rnd_present", "served_rnd_absent-inside", "served_rnd_outside_refused", "mutated_blocks",
                 "behaviours_replayed", "behaviours_replayed_scen_dupleaves", "behaviours_replayed_scen_thirdgap", "behaviours_replayed_scen_crossa",
                 "behaviours_replayed_scen_crossb", "cid_roundtrips_ok", "cid_rejected", "cid_id_refused"):
        if cnt.get(need, 0) < 1:
            ctx.inconclusive("vacuity: driver counter %s is zero (%s)" % (need, cnt))
    # a model counterexample that the real code did not reproduce: the model over-approximates (rule 1)
    sigs = (rep.get("summary", {}) or {}).get("violation_signatures", {}) or {}
    expect = {"strict_DoneMeansFilled": "C10/fetch/returns-nil-with-unfilled-block-after-stale-registry-entry"}
    for b in behaviours:
        if b["source"] in expect and expect[b["source"]] not in sigs:
            ctx.inconclusive("model counterexample %s was not reproduced on the real code (model over-approximates, or the code changed: update "
                             "Bitswap.tla)" % b["source"])
    if not ctx.quick:
        # the same identifier cases through harness/drivers/ids (constructors of the shwap package itself)
        rid = ctx.go_driver("ids", env={"VERIF_CASES": idpath, "VERIF_SIGPREFIX": "C10", "VERIF_IDS_MODE": "cid"}, timeout=900)
        c2 = rid.get("counters", {}) or {}
        if c2.get("cid_roundtrips_ok", 0) < 1 or c2.get("cid_rejected", 0) < 1:
            ctx.inconclusive("vacuity: no id<->CID round trips / rejections on the real code: %s" % c2)

    ctx.cover(traces_validated_against_impl=int(cnt.get("behaviours_replayed", 0)), exhaustive=True,
              cases_materialised=int(cnt.get("cases_run", 0)), behaviours=len(behaviours))
    for c in cases[:3]:
        ctx.sample(c)
    if behaviours:
        ctx.sample({"behaviour": behaviours[0]["name"], "actions": [s["a"] for s in behaviours[0]["steps"]]})
