"""C11 -- blob retrieval returns exactly the blobs that are in the block.

spec/blob/BlobLayout.tla   the square-layout rules the parser depends on (go-square builder)
spec/blob/BlobParser.tla   Service.retrieve + parser as a state machine over the rows of namespace data;
                           TLC enumerates every block of a bounded universe and every request and checks
                           GetAllExact / GetExact / ProofRowsExact / IncludedConsistent / AbsentNs /
                           NoInternalError in every reachable state
harness/drivers/blob       (i) every enumerated block is rebuilt with the real builder and the real layout
                           is compared with BlobLayout's; (ii) the production layouts are served through a
                           real accessor (and a real store + cascade) to a real blob.Service, which is asked
                           for every namespace / commitment, present or absent
"""
import json
import os
from concurrent.futures import ThreadPoolExecutor

META = {
    "technique": "TLC exhaustive on spec/blob/BlobParser.tla (over BlobLayout.tla) + case enumeration (B3): "
                 "every enumerated block rebuilt by the real go-square builder / da.ConstructEDS and served "
                 "to the real blob.Service",
    "level_text": "Model checking of a transcription of Service.retrieve/parser over ALL blocks of a bounded "
                  "universe (<=3 blobs quick / <=4 thorough, <=3 namespaces, duplicates, share versions 0/1, "
                  "0-4 reserved compact shares, scaled threshold T=2 with widths 1..8 and the production "
                  "threshold T=64 with lengths around the alignment steps 64|65, 128|129, widths up to 32; plus a "
                  "directed family of 128-wide production blocks with padding skipped in the middle of a row "
                  "followed by two blob starts in that row, whose width/start indices come from BlobLayout), "
                  "every namespace present/absent and every commitment present/absent; conformance: the "
                  "layout half of the specification is compared share by share with the real builder for "
                  "every enumerated block, and the real service is run on every production layout (plus "
                  "seeded larger random blocks up to width 64) against the oracle 'blobs and PFB share "
                  "indexes the block was built from'.",
    "level_note": "Assumed: ideal hashing in the model (equal commitment iff equal <<namespace,data,version>>); "
                  "compact shares matter only by their count; blocks carry PFB blobs of share versions 0 and 1 "
                  "only (no Fibre system blobs). Only layouts produced by the real builder with the production "
                  "threshold are fed to the real parser; scaled-threshold layouts are used to bind the "
                  "T-parametric layout rules to the builder and to explore the parser model at small scale. "
                  "A layout difference between BlobLayout.tla and the builder is reported as inconclusive "
                  "(specification drift), never as a violation. Get with duplicates: the first occurrence in "
                  "block order is demanded (index of the first occurrence).",
    "design_ref": "DESIGN.md §5 C11",
}

REQUIRED_ACTIONS = ["AddBlob", "Seal", "PickNs", "Request", "RowStart", "Inner", "Add", "Parse", "RowEnd", "End"]


def run(ctx):
    ctx.assume("ideal hash: commitments are equal iff namespace, data, share version and signer are equal")
    ctx.assume("small-scope: <=4 blobs per enumerated block, <=3 namespaces, ODS width <=32 (random blocks <=64)")
    quick = ctx.quick
    if ctx.replay:
        return replay(ctx)
    s_cfg = "blob/MCBlobParser_quick.cfg" if quick else "blob/MCBlobParser_thorough.cfg"
    p_cfg = "blob/MCBlobParser_prod.cfg" if quick else "blob/MCBlobParser_prod_thorough.cfg"
    # Measured: these models do not scale beyond a few TLC workers, and on a busy machine the parallel
    # collector's GC threads dominate the run time; 4 workers + the serial collector is 2x faster.
    gc = ["-XX:-UseParallelGC", "-XX:+UseSerialGC"]

    def tlc(cfg, cov):
        return ctx.tlc("blob/BlobParser.tla", cfg, workers=4, timeout=900 if quick else 2400, coverage=cov,
                       java_opts=gc)

    with ThreadPoolExecutor(max_workers=3) as ex:
        fs = ex.submit(tlc, s_cfg, not quick)
        fp = ex.submit(tlc, p_cfg, False)
        # directed family of 128-wide production blocks (padding skipped in the middle of a row, then a
        # further blob start in the same row): only the arithmetic part of the layout, a few seconds
        fw = ex.submit(lambda: ctx.tlc("blob/MCBlobLayoutWide.tla", "blob/MCBlobLayoutWide.cfg", workers=2, timeout=600,
                                       java_opts=gc))
        rs, rp, rw = fs.result(), fp.result(), fw.result()
    if not (rs.ok and rp.ok and rw.ok):
        return
    wide = rw.printed.get("WIDE", [])
    if len(wide) < 20:
        ctx.inconclusive("vacuity: MCBlobLayoutWide emitted only %d blocks" % len(wide))
        return
    if not quick:
        ctx.require_coverage(rs, REQUIRED_ACTIONS)
        for cfg in ("blob/MCBlobLayout.cfg", "blob/MCBlobLayout_prod.cfg"):
            ctx.tlc("blob/MCBlobLayout.tla", cfg, workers=4, timeout=1500, java_opts=gc)
    cases = rp.printed.get("CASE", []) + rs.printed.get("CASE", [])
    n_prod = len(rp.printed.get("CASE", []))
    if n_prod < 100 or len(cases) < 500:
        ctx.inconclusive("vacuity: TLC emitted only %d production / %d total blocks" % (n_prod, len(cases)))
        return
    ctx.cover(exhaustive=True, enumerated_blocks=len(cases), enumerated_production_blocks=n_prod)
    cases_path = os.path.join(ctx.work, "cases.json")
    with open(cases_path, "w") as f:
        json.dump(cases, f)
    wide_path = os.path.join(ctx.work, "wide.json")
    with open(wide_path, "w") as f:
        json.dump(wide, f)
    ctx.cover(enumerated_wide_blocks=len(wide))
    env = {"VERIF_CASES": cases_path,
           "VERIF_WIDE_CASES": wide_path,
           "VERIF_MAX_WIDE": 4 if quick else 16,
           "VERIF_MAX_SERVE": 160 if quick else 2500,
           "VERIF_RANDOM": 25 if quick else 500,
           "VERIF_STORE_EVERY": 10 if quick else 6}
    rep = ctx.go_driver("blob", env=env, timeout=900 if quick else 3000)
    c = (rep or {}).get("counters", {})
    served = c.get("blocks_served", 0)
    ctx.cover(traces_validated_against_impl=int(served + c.get("layouts_equal_to_model", 0)))
    # vacuity: the calls the property is about were really made, with present and absent objects
    need = {"layouts_equal_to_model": len(cases) + (4 if quick else 16) if not c.get("layout_mismatch") else 1,
            "blocks_served": 100 if quick else min(n_prod, 2000), "getall_blobs_checked": 100, "getall_absent_ns": 100,
            "get_present": 100, "get_absent": 100, "getproof_rows_verified": 100,
            "included_calls": 100, "commitmentproof_calls": 100, "blocks_served_via_store": 5,
            "random_blocks": 10, "wide_blocks": 4 if quick else 16,
            "served_inrow_padding_then_two_starts": 4 if quick else 16}
    missing = {k: (c.get(k, 0), v) for k, v in need.items() if c.get(k, 0) < v}
    if missing and rep is not None and not rep.get("inconclusive"):
        ctx.inconclusive("vacuity: driver counters below the required minimum (have, need): %s" % missing)


def replay(ctx):
    """bin/check C11 --replay <file>: re-run the recorded case on the current tree (same seed)."""
    d = json.load(open(ctx.replay))
    obj = d.get("replay") if isinstance(d.get("replay"), dict) else d
    p = os.path.join(ctx.work, "replay_case.json")
    with open(p, "w") as f:
        json.dump(obj, f)
    env = {"VERIF_REPLAY_CASE": p}
    if obj.get("seed") is not None:
        env["VERIF_SEED"] = obj["seed"]
    rep = ctx.go_driver("blob", env=env, timeout=900)
    ctx.cover(evaluations=1, traces_validated_against_impl=1)
    ctx.sample(obj.get("case", obj))
    ctx.note("replay of %s: %s" % (ctx.replay, json.dumps((rep or {}).get("summary"))[:300]))
