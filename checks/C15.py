"""C15 -- a bridge node stores exactly the block it announces or was asked to keep.

spec/bridge/Bridge.tla (TLC exhaustive + simulation) bound to the real core.Listener / core.MultiSource /
store.Store / full.ShareAvailability by behaviour replay (harness/drivers/bridge).  DESIGN.md section 5 "C15".
"""
import json
import os

import vlib

META = {
    "technique": "TLC exhaustive on spec/bridge/Bridge.tla (transcription of handleNewBlockEvent / handleNewSignedBlock / "
                 "storeEDS and of full.SharesAvailable over one shared store) and behaviour replay (B2) of TLC-generated "
                 "behaviours into the real core.Listener fed through the real core.MultiSource by scripted sources, a "
                 "real store.Store, recording broadcasters and the real full.ShareAvailability with a scripted getter; "
                 "blocks carry real signed PayForBlobs transactions; the reference DAH is computed from the transactions",
    "level_text": "All sequences of <= 5 (quick) / 6 (thorough) announcements and availability checks over 3 / 4 heights "
                  "(duplicates, gaps, reordering, replays; fetch / sync-state / write failures; every getter outcome; "
                  "blocks inside and outside the window, empty and non-empty; pruned and archival) satisfy "
                  "StoredMatchesHeader, FailedLeavesNothing, InsideWindowStored, PolicyRespected and RetryWorks in the "
                  "model; hundreds (thousands: thorough) of 14-step behaviours over 4 heights and 3 sources are replayed "
                  "into the real components, which must follow the model step by step (store content by height, Q4 "
                  "presence, broadcaster logs, calls seen by the sources, returned error class) while the property is "
                  "evaluated on the observed store content against an independently computed DAH.",
    "level_note": "Consensus blocks are consistent (one content per height; the header given to the availability check "
                  "carries that block's DAH): the already-stored shortcut of SharesAvailable is not exercised with a header "
                  "that disagrees with the stored block. Write failures are injected on the file system at three points of store.put, with the "
                  "default recent-blocks cache: file creation (blocks directory away), replacing an invalid existing file "
                  "(non-empty directory where the ODS file goes), linking the height (heights directory away); an empty block is only linked, so no write failure exists for it. "
                  "The window test of the code reads the wall clock: block times keep at least one hour of margin. "
                  "core.Exchange is modelled (spec/bridge/Exchange.tla: GetByHeight incl. a fetcher answering another height, "
                  "Get by hash incl. another hash / missing commit, GetRangeByHeight prefix semantics, Head; window suffix, modes, "
                  "write failures) and model-checked, but NOT yet replayed on the real core.Exchange (needs an in-process gRPC "
                  "BlockAPI server serving scripted signed blocks): no assurance about exchange.go beyond the shared storeEDS. "
                  "In-window blocks being stored *with* Q4 is compared as conformance, not demanded by the property. The "
                  "error mapping `A || B && !C` (a byzantine error joined with not-found is reported as not available, "
                  "DESIGN.md section 6 #19) is transcribed as the code has it: outside the statement, noted only. Keys "
                  "of the signing account are random per run (transaction bytes differ between runs, verdicts do not).",
    "design_ref": "DESIGN.md section 5 C15, section 6 #19",
}


def _replay(ctx):
    """bin/check C15 --replay FILE: run the behaviour stored in a replay file again on the real code"""
    obj = json.load(open(ctx.replay))
    beh = ((obj.get("replay") or {}).get("behaviour")) if isinstance(obj, dict) else None
    if not beh:
        ctx.inconclusive("replay file %s holds no behaviour" % ctx.replay)
        return
    path = os.path.join(ctx.work, "behaviours.json")
    with open(path, "w") as f:
        json.dump([beh], f)
    rep = ctx.go_driver("bridge", env={"VERIF_BEHAVIOURS": path}, timeout=1500)
    c = rep.get("counters", {}) if rep else {}
    ctx.cover(traces_validated_against_impl=int(c.get("behaviours_conforming", 0)), evaluations=1)
    ctx.sample({"replayed": ctx.replay, "behaviour": beh.get("id")})


def run(ctx):
    if ctx.replay:
        return _replay(ctx)
    quick = ctx.quick
    ctx.assume("ideal hashing in the model: a square's DAH is identified with the block content")
    ctx.assume("consistent consensus blocks: one block per height, the network's header for a height carries its DAH")
    ctx.assume("small scope: <= 4 heights, <= 3 sources, <= 14 steps per replayed behaviour")

    cfg = "bridge/MC_quick.cfg" if quick else "bridge/MC_thorough.cfg"
    r = ctx.tlc("bridge/Bridge.tla", cfg, workers=vlib.NCPU, timeout=900 if quick else 3000)
    if r.ok:
        ctx.cover(exhaustive=True)
    # core.Exchange (GetByHeight / Get / GetRangeByHeight / Head over the same storeEDS policy): model only so far --
    # spec/bridge/Exchange.tla is checked exhaustively; it is NOT yet bound to the real core.Exchange (see level_note),
    # so it contributes no verdict on the code: a violated invariant there is a model problem (inconclusive).
    x = ctx.tlc("bridge/Exchange.tla", "bridge/ExMC_quick.cfg" if quick else "bridge/ExMC_thorough.cfg",
                workers=6, timeout=300 if quick else 1500)
    ctx.cover(exchange_model_exhaustive=bool(x.ok), exchange_bound_to_code=False)
    # vacuity of the model is judged on the behaviours it produced for the replay: the res_* counters below
    # count, per verdict of the model (processed, duplicate, fetch_error, ...), the steps that were replayed

    want = 200 if quick else 2000
    workers = 4
    per = (want + workers - 1) // workers
    s = ctx.tlc("bridge/Bridge.tla", "bridge/Sim.cfg", workers=workers, simulate="num=%d" % per, depth=15,
                timeout=900, count=False)
    allb = [b for b in s.printed.get("BEH", []) if isinstance(b, list) and len(b) >= 10]
    prefixes = {json.dumps(b[:-1], sort_keys=True) for b in allb}
    uniq = {}
    for b in allb:
        k = json.dumps(b, sort_keys=True)
        if k not in prefixes:
            uniq[k] = b
    sims = [uniq[k] for k in sorted(uniq)][:want]
    if len(sims) < min(50, want):
        ctx.inconclusive("simulation produced only %d behaviours" % len(sims))
    behaviours = [{"id": "sim-%d-%d" % (ctx.seed, i), "steps": b} for i, b in enumerate(sims)]
    path = os.path.join(ctx.work, "behaviours.json")
    with open(path, "w") as f:
        json.dump(behaviours, f)
    ctx.log("behaviours for replay: %d" % len(behaviours))

    rep = ctx.go_driver("bridge", env={"VERIF_BEHAVIOURS": path}, timeout=2400)
    c = rep.get("counters", {}) if rep else {}
    ctx.cover(traces_validated_against_impl=int(c.get("behaviours_conforming", 0)),
              evaluations=int(c.get("behaviours_replayed", 0)),
              distinct_nontrivial=len({json.dumps(b["steps"], sort_keys=True) for b in behaviours
                                       if any(x.get("res") in ("processed", "ok_fetched") for x in b["steps"])}),
              rule="behaviours of Bridge.tla (TLC simulation, 14 steps, deduplicated) replayed into the real Listener / "
                   "MultiSource / store / full availability; non-trivial = distinct behaviours that store at least one block")
    need = {"behaviours_replayed": 50 if quick else 500, "announce_steps": 300, "available_steps": 100,
            "res_processed": 30, "res_duplicate": 30, "res_fetch_error": 20, "res_sync_error": 20,
            "res_store_error": 20, "store_fail_create": 4, "store_fail_recover": 4, "store_fail_link": 4, "res_historic": 20, "res_outside_window": 10, "res_ok_empty": 10,
            "res_ok_stored": 5, "res_ok_fetched": 2, "res_not_available": 5, "res_byzantine": 2,
            "res_not_available_or_byzantine": 1,
            "res_cancelled": 1, "multisource_events": 6}
    for k, n in need.items():
        if c.get(k, 0) < n:
            ctx.inconclusive("vacuity: driver counter %s = %s (< %d)" % (k, c.get(k, 0), n))
    if c.get("byz_notfound_reported_not_available", 0):
        ctx.note("DESIGN.md section 6 #19 (outside the statement): a byzantine error joined with not-found was reported as "
                 "'not available' %d times" % c.get("byz_notfound_reported_not_available", 0))
