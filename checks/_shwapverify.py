"""Shared body of checks C01 and C02 (both are decided by spec/shwap/ShwapVerify.tla + the Go driver
harness/drivers/shwapverify).

Flow of one check
  1. TLC, exhaustive, on MCShwap.tla with the plan of the property/tier: every reachable state is a
     (square, request, response recipe) with the model verdict ImplAccept; invariants Sound / Complete
     are decided on the model; every state is printed as a JSON case.
  2. (C01) TLC on the PRE-FIX transcription of the range verifier (FixRangeLen = FALSE, -continue): the
     model must find the re-sliced range counterexamples (sensitivity of Sound); every counterexample
     is replayed on the real code, which must refuse it.
  3. The Go driver materialises every case on real squares / real proofs, runs the real codecs and
     verifiers and evaluates the property's oracle; it also garbles honest encodings (sampled).
Verdicts: a VIOLATION only comes from the driver (real code accepted wrong shares / rejected the honest
answer).  A model-only counterexample, verdict drift between model and code, or a vacuous run is
INCONCLUSIVE.
"""
import json
import os
import collections

import vlib


def _write_cases(path, cases):
    seen = set()
    n = 0
    with open(path, "w") as f:
        for c in cases:
            if not isinstance(c, dict):
                continue
            key = json.dumps([c.get("w"), c.get("ns"), c.get("pid"), c.get("req"), c.get("resp")], sort_keys=True)
            if key in seen:
                continue
            seen.add(key)
            f.write(json.dumps(c, separators=(",", ":")) + "\n")
            n += 1
    return n


def _atom_names(case):
    out = []
    for st in case.get("steps", []):
        names = [x for x in st if isinstance(x, str)]
        out.append(".".join(names[:2]) if names else "?")
    return out


def run(ctx, prop, quick_cfg, thorough_cfg, kinds, regress_cfg=None, min_cases=1000):
    cfg = quick_cfg if ctx.quick else thorough_cfg
    if ctx.replay:
        # bin/check <ID> --replay <file>: re-run one recorded case on the real code (no model run)
        d = json.load(open(ctx.replay))
        case = (d.get("replay") or {}).get("case") or d.get("case")
        if not case:
            ctx.inconclusive("replay file %s carries no case" % ctx.replay)
            return
        path = os.path.join(ctx.work, "cases.ndjson")
        _write_cases(path, [case])
        ctx.cov["evaluations"] = 1
        ctx.sample({"replayed": case.get("req"), "steps": case.get("steps")})
        ctx.go_driver("shwapverify", env={"VERIF_CASES": path, "VERIF_PROP": prop}, timeout=900)
        return
    ctx.assume("ideal cryptography: hashes are injective and domain separated (IdealCrypto.tla); "
               "Reed-Solomon parity is a free function of the data except for constant sequences")
    ctx.assume("small-scope: ODS width 1, 2, 4; second square shares row 0 with the first; forgeries are "
               "compositions of the atoms of ShwapVerify.tla over honest material (byte-level garbling is sampled)")
    # ---- 1. exhaustive model run: properties on the model + case enumeration
    r = ctx.tlc("shwap/MCShwap.tla", "shwap/" + cfg, workers=vlib.NCPU, timeout=900 if ctx.quick else 3000,
                must_pass=False)
    if r.error:
        return
    cases = [c for c in r.printed.get("CASE", []) if isinstance(c, dict)]
    per_kind = collections.Counter(c["req"]["k"] for c in cases)
    atoms = collections.Counter()
    for c in cases:
        for a in _atom_names(c):
            atoms[a.split(".")[0]] += 1
    model_acc = sum(1 for c in cases if c.get("acc"))
    model_acc_forged = sum(1 for c in cases if c.get("acc") and not c.get("hon"))
    model_bad = [c for c in cases if not c.get("ok", True)]
    ctx.cover(model_cases=len(cases), model_accepting_states=model_acc,
              model_accepting_forged_states=model_acc_forged)
    ctx.cov["cases_per_kind_model"] = dict(per_kind)
    ctx.cov["forgery_atoms_exercised"] = dict(atoms)
    ctx.cov["exhaustive"] = True
    ctx.cov["evaluations"] = len(cases)
    ctx.cov["distinct_nontrivial"] = len({json.dumps([c.get("w"), c.get("ns"), c.get("pid"), c.get("req"), c.get("resp")], sort_keys=True)
                                          for c in cases if not c.get("hon")})
    ctx.cov["rule"] = ("cases = reachable states of ShwapVerify.tla (layout x request x response recipe), enumerated exhaustively by TLC; "
                       "distinct = different (layout, request, recipe); non-trivial = not the honest response of the request itself")
    ctx.log("model: %d cases %s, accepting %d (forged but harmless %d)" % (len(cases), dict(per_kind), model_acc, model_acc_forged))
    if r.violated:
        # rule 1: a counterexample of the MODEL is not a verdict on the code.  The violating states are
        # among the cases only if TLC printed them before stopping; replay whatever was printed and
        # report the model violation as inconclusive unless the driver reproduces it (then the driver's
        # violation stands).
        ctx.note("model invariant %s violated in %s (log %s)" % (r.violated, cfg, r.log_path))
    # vacuity: every kind of the plan must be there, honest and forged, accepted and rejected
    for k in kinds:
        if per_kind.get(k, 0) == 0:
            ctx.inconclusive("vacuity: no %s case was generated by the model" % k)
    if len(cases) < min_cases:
        ctx.inconclusive("vacuity: only %d cases generated (expected >= %d)" % (len(cases), min_cases))
    if not any(c.get("hon") and c.get("acc") for c in cases):
        ctx.inconclusive("vacuity: the model accepts no honest response")
    if not any((not c.get("acc")) for c in cases):
        ctx.inconclusive("vacuity: the model rejects nothing")
    cases_path = os.path.join(ctx.work, "cases.ndjson")
    n = _write_cases(cases_path, cases)
    env = {"VERIF_CASES": cases_path, "VERIF_PROP": prop}

    # ---- 2. sensitivity of the model + regression of the repaired defect (C01 only): the PRE-FIX
    # transcription of the range verifier must violate Sound; its counterexamples go to the driver too
    bad = []
    if regress_cfg:
        rr = ctx.tlc("shwap/MCShwap.tla", "shwap/" + regress_cfg, workers=vlib.NCPU, timeout=600,
                     must_pass=False, extra=["-continue"])
        if not rr.error:
            rcases = [c for c in rr.printed.get("CASE", []) if isinstance(c, dict)]
            bad = [c for c in rcases if not c.get("ok", True)]
            ctx.cover(prefix_model_counterexamples=len(bad))
            ctx.log("pre-fix range model: %d states, %d violate Sound" % (len(rcases), len(bad)))
            if rr.violated != "Sound" or not bad:
                ctx.inconclusive("sensitivity: the pre-fix transcription of the range verifier (FixRangeLen=FALSE) "
                                 "no longer violates Sound -- the model lost the re-sliced range counterexample")
            else:
                rpath = os.path.join(ctx.work, "regress.ndjson")
                _write_cases(rpath, bad)
                env["VERIF_REGRESS_CASES"] = rpath
                ctx.sample({"pre_fix_model_counterexample": {"req": bad[0]["req"], "resp": bad[0]["resp"],
                                                               "steps": bad[0].get("steps")}})

    # ---- 3. the real code
    rep = ctx.go_driver("shwapverify", env=env, timeout=1200 if ctx.quick else 2400)
    counters = (rep or {}).get("counters", {})
    if r.violated and not ctx.violations and not ctx.known_hits:
        ctx.inconclusive("model %s violates %s but the real code did not reproduce it (model over-approximates or "
                         "transcription is stale), log %s" % (cfg, r.violated, r.log_path))
    if counters.get("cases_replayed", 0) < n:
        ctx.inconclusive("driver replayed %s of %d cases" % (counters.get("cases_replayed"), n))
    if bad:
        ctx.log("pre-fix counterexamples on the real code: refused %s, accepted-with-wrong-shares %s" % (
            counters.get("regress_refused"), counters.get("regress_accepted_wrong")))
        if counters.get("regress_cases", 0) < 1:
            ctx.inconclusive("the pre-fix counterexamples were not replayed on the real code")
    for c in cases[:3]:
        ctx.sample({"req": c["req"], "w": c["w"], "ns": c["ns"], "steps": c.get("steps"), "model_accepts": c.get("acc")})
