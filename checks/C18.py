"""C18 -- share identifiers and containers survive the wire unchanged or are refused.

spec/shwap/ShwapIDs.tla        wire formats as TLA+ functions over byte sequences, Validate/Verify
                               domains, CID framing; TLC enumerates the boundary lattice of every field
spec/shwap/ShwapContainers.tla structure of the containers and of their three codecs
harness/drivers/ids            every enumerated case on the real constructors / codecs (B3), plus a
                               seeded arbitrary-bytes complement under recover()
"""
import json
import os

META = {
    "technique": "TLC exhaustive on spec/shwap/ShwapIDs.tla (byte-level wire formats, field domains, CID framing; "
                 "boundary lattice of every field, structured malformations) and spec/shwap/ShwapContainers.tla "
                 "(container structure x codec), each enumerated case materialised on the real constructors, "
                 "MarshalBinary/WriteTo/FromBinary/ReadFrom/CID/JSON and protobuf/stream/JSON codecs (case enumeration, B3)",
    "level_text": "Model checking of an explicit byte-level specification of the seven identifier encodings and of the "
                  "container codecs: RoundTrip, EncInjective, EncNeverTruncates, AcceptedIsInside, DecRejects hold on every "
                  "state of the lattice (heights 0..2^64-1, indices -1..2^32+5 around every bound, all protocol square sizes). "
                  "The real code is then run on every one of these cases: real bytes equal specified bytes, decoded value "
                  "equals the original, accepted identifiers lie inside the square, malformed inputs are refused, containers "
                  "of every structural variant (built from real seeded squares of ODS width 1,2,4) survive protobuf, stream and JSON.",
    "level_note": "Exhaustive only over the lattice, not over all 2^64 x 2^32 values (boundary-value hypothesis: the code "
                  "compares fields with bounds and casts them to fixed widths, nothing else). 'The node can construct' is read as "
                  "'accepted by the real constructor for a square size up to the protocol maximum (EDS 1024 / ODS 512)'; values "
                  "placed directly into exported struct fields beyond that (RowIndex >= 65536, From >= 2^32) truncate and are only "
                  "recorded (latent_truncations_beyond_protocol_max). Row containers are compared after Row.Shares() (a full row "
                  "travels as its left half by design). Arbitrary byte strings (all decoders, JSON, CID, shrex-sub notification "
                  "pieces) are SAMPLED by seed, not exhaustive; the unexported shrex-sub validator is exercised through its exported "
                  "parts (pb Unmarshal, DataHash.Validate). Panics while RE-encoding a decoded empty container are not demanded.",
    "design_ref": "DESIGN.md §5 C18",
}


def run(ctx):
    tier = "quick" if ctx.quick else "thorough"
    ctx.assume("boundary-value hypothesis for identifier fields (lattice, not all values)")
    ctx.assume("square sizes up to the protocol maximum: EDS 1024, ODS 512")
    ctx.assume("containers built from seeded real squares of ODS width 1, 2, 4%s" % ("" if ctx.quick else ", 8"))
    ctx.assume("arbitrary byte strings are sampled by seed (not exhaustive)")

    # 1. identifiers: byte-level specification, all invariants, cases printed
    r = ctx.tlc("shwap/ShwapIDs.tla", "shwap/ShwapIDs_%s.cfg" % tier, workers=16, timeout=900, deadlock=False)
    cases = [c for c in r.printed.get("CASE", []) if isinstance(c, dict)]
    if not r.ok or not cases:
        ctx.inconclusive("ShwapIDs produced no cases")
        return
    by = {}
    for c in cases:
        by[c["stage"]] = by.get(c["stage"], 0) + 1
    ctx.log("id cases by terminal stage:", by)
    for need in ("refused", "decoded", "cidback", "rawdecoded", "cidcast"):
        if by.get(need, 0) == 0:
            ctx.inconclusive("vacuity: no model case ends in stage %s" % need)
    cases_path = os.path.join(ctx.work, "id_cases.json")
    json.dump(cases, open(cases_path, "w"))

    # 2. sensitivity of the model: the pre-fix encoder must violate an invariant in the model
    leg = ctx.tlc("shwap/ShwapIDs.tla", "shwap/ShwapIDs_legacy.cfg", must_pass=False, count=False,
                  workers=4, timeout=300, deadlock=False)
    if leg.violated not in ("EncNeverTruncates", "RoundTrip"):
        ctx.inconclusive("model sensitivity lost: legacy (truncating) encoder does not violate RoundTrip/EncNeverTruncates")
    else:
        ctx.note("model sensitivity: LegacyTruncates=TRUE violates %s as expected" % leg.violated)

    # 3. containers
    rc = ctx.tlc("shwap/ShwapContainers.tla", "shwap/ShwapContainers%s.cfg" % ("" if ctx.quick else "_thorough"), workers=8,
                 timeout=900, deadlock=False)
    ccases = [c for c in rc.printed.get("CASE", []) if isinstance(c, dict)]
    if not rc.ok or not ccases:
        ctx.inconclusive("ShwapContainers produced no cases")
        return
    reuse = ctx.tlc("shwap/ShwapContainers.tla", "shwap/ShwapContainers_reuse.cfg", must_pass=False, count=False, workers=4,
                    timeout=300, deadlock=False)
    if reuse.violated != "DecodeIgnoresReceiver":
        ctx.inconclusive("model sensitivity lost: a ReadFrom that keeps the receiver's proofs does not violate DecodeIgnoresReceiver")
    ccases_path = os.path.join(ctx.work, "container_cases.json")
    json.dump(ccases, open(ccases_path, "w"))

    # 4. the real code on every case
    rep = ctx.go_driver("ids", env={"VERIF_CASES": cases_path, "VERIF_CONTAINER_CASES": ccases_path,
                                    "VERIF_SIGPREFIX": "C18", "VERIF_IDS_MODE": "all",
                                    "VERIF_FUZZ_N": 100000 if ctx.quick else 1000000}, timeout=1500)
    cnt = rep.get("counters", {}) or {}
    model_accepts = by.get("decoded", 0) + by.get("cidback", 0)
    if cnt.get("roundtrips_ok", 0) < 1 or cnt.get("raw_rejected", 0) < 1 or cnt.get("cid_rejected", 0) < 1 \
            or cnt.get("container_roundtrips_ok", 0) < 1 or cnt.get("container_range_reused_receiver_ok", 0) < 1 or cnt.get("arbitrary_inputs", 0) < 1 or cnt.get("id_refused", 0) < 1:
        ctx.inconclusive("vacuity: the driver did not exercise every class of case: %s" % cnt)
    if not ctx.violations and not ctx.inconclusives:
        if cnt.get("roundtrips_ok", 0) != model_accepts:
            ctx.inconclusive("drift: %d real round trips for %d model-accepted identifiers" % (cnt.get("roundtrips_ok", 0), model_accepts))
        if cnt.get("container_roundtrips_ok", 0) != len(ccases):
            ctx.inconclusive("drift: %d container round trips for %d model cases" % (cnt.get("container_roundtrips_ok", 0), len(ccases)))
    ctx.cover(traces_validated_against_impl=len(cases) + len(ccases), exhaustive=True,
              cases_id=len(cases), cases_container=len(ccases))
    for c in cases[:2] + ccases[:2]:
        ctx.sample(c)
