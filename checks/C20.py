"""C20 -- blob subscriptions deliver every block once, in order, with the right blobs.

Specification: spec/blob/BlobSub.tla (the subscription goroutine state by state as the
select/loop structure of blob.Service.Subscribe, header feed, consumer of any pace, cancel, stop,
feed close, retrieval outcomes per attempt).
Binding: harness/drivers/blobsub runs the real Subscribe with a scripted header channel and a
gated stub getter serving real namespace data of real blocks; TLC behaviours / the TLC
counterexample of the code as found / systematic "trigger at every point" schedules / seeded
schedules; recorded streams are validated against spec/blob/BlobSubTrace.tla and the C20
monitors are evaluated on the observed responses and closings.
"""
import json
import os

import vlib

META = {
    "technique": "TLC exhaustive on spec/blob/BlobSub.tla (safety for every schedule of feed, goroutine, consumer, "
                 "cancel/stop/feed close and every failure pattern; liveness under fairness, also with every retrieval "
                 "failing for ever) + replay of TLC behaviours and of the counterexample of the code as found into the "
                 "real blob.Service.Subscribe (scripted header channel, gated stub getter over real blocks) + trace "
                 "validation against BlobSubTrace.tla + monitors on the observed stream",
    "level_text": "Model: InOrderNoGapNoDup, OnePerHeader, RetryNotSkip, ClosesOnlyWhen, NoSendAfterClose hold in every "
                  "reachable state (N=4 headers, capacity 2, <=2 failures per height; thorough N=6, capacity 3); "
                  "cancel ~> closed and stop ~> closed hold under fairness even when every retrieval fails for ever; "
                  "feed close ~> closed holds when retrievals fail boundedly. Code: every recorded stream of the real "
                  "Subscribe (a trigger at every point of three base runs x tail policies, overflow with stalled and slow "
                  "readers at the real capacity 16, two concurrent subscriptions, seeded schedules) is a behaviour of "
                  "the model (TLC accepts the trace) and satisfies the monitors: heights 1,2,3.. without gap/duplicate, "
                  "blobs equal to the reference blobs of the namespace at that height (data, commitment, order), the "
                  "failed height retried, the channel closed only after cancel/stop/feed close/16-behind, every "
                  "retrieved response delivered (one may be dropped by a cancellation), closure reached while all "
                  "retrievals fail within a bounded number of attempts.",
    "level_note": "'Promptly' is checked as: after cancel/stop the stream closes although every retrieval keeps failing, "
                  "within <= 300 immediate attempts (a busy loop is detected by count, not by time), under a 60 s "
                  "watchdog with proven quiescence (no gated retrieval, reader draining), and -- after a streak of 10 "
                  "consecutive failures of one height -- within 8 s of quiet time after cancel/stop (directed scenarios). A closed feed and an overflow "
                  "are noticed by the code only when the loop is back at its select; closing on feed close WHILE a "
                  "retrieval fails for ever is not demanded (in the node the feed closes on cancel or shutdown, which "
                  "are demanded) -- interpretive choice, under-demanding. The retry loop has no back-off (busy retry); "
                  "not part of the statement. Retrieval correctness itself (parser, proofs) is C11/C12; here the stub "
                  "serves real namespace data and the fixture is self-checked through Service.GetAll. Small scope: 32 "
                  "blocks, 2 concurrent subscriptions, 3 namespaces.",
    "design_ref": "DESIGN.md section 5 C20, section 6 #17",
}

SPEC = "blob/MCBlobSub.tla"

TRACE_CFG = """SPECIFICATION TraceSpec
CONSTANTS
  TracePath = "%(path)s"
  N = 32
  Cap = 16
  CountFails = FALSE
  MaxFail = 0
  AllowOk = TRUE
  StopInRetry = TRUE
  Relay = %(relay)s
  RecordHist = FALSE
INVARIANTS TypeOK InOrderNoGapNoDup OnePerHeader ClosesOnlyWhen
POSTCONDITION Accepted
"""

ACT = {"RecvHeader": "hdr", "CancelUser": "cancel", "StopService": "stop", "CloseFeed": "feedclose", "Consume": "consume"}


def _script_from_trace(trace):
    """counterexample (action, state) list -> stimuli"""
    steps = []
    for act, st in trace:
        if act in ACT:
            steps.append({"a": ACT[act]})
        elif act in ("Attempt", "AttemptAny"):
            steps.append({"a": "att", "ok": st.get("blobs", 0) != 0})
    return steps


def _selftest(ctx, path):
    """The binding binds: a recorded stream with one corrupted field / one removed line must be rejected."""
    lines = open(path).read().splitlines()
    resets = [i for i, l in enumerate(lines) if '"ev":"reset"' in l]
    out = {}
    for name in ("skip_height", "drop_retrieval"):
        mod, done = [], False
        for l in lines[:resets[min(400, len(resets) - 1)]]:
            e = json.loads(l)
            if not done and name == "skip_height" and e.get("ev") == "recv" and e.get("h", 0) >= 2:
                e["h"] += 1
                done = True
            elif not done and name == "drop_retrieval" and e.get("ev") == "att" and e.get("ok"):
                done = True
                continue
            mod.append(json.dumps(e, separators=(",", ":")))
        p = os.path.join(ctx.work, "selftest_%s.ndjson" % name)
        open(p, "w").write("\n".join(mod) + "\n")
        cfg = os.path.join(ctx.work, "selftest_%s.cfg" % name)
        open(cfg, "w").write(TRACE_CFG % {"path": p, "relay": "FALSE"})
        r = vlib.run_tlc(os.path.join(vlib.VERIF, "spec", "blob", "BlobSubTrace.tla"), cfg, ctx.work, workers=1,
                         timeout=600, deadlock=False, heap="2g")
        rejected = done and (r.violated is not None or not r.ok)
        out[name] = {"mutated": done, "rejected": rejected}
        ctx.log("selftest %s: mutated=%s rejected=%s (violated=%s)" % (name, done, rejected, r.violated))
        if done and not rejected:
            ctx.inconclusive("selftest: BlobSubTrace.tla accepted a recorded stream with %s -- the binding does not bind" % name)
    ctx.cover(selftest=out)


def run(ctx):
    quick = ctx.quick
    ctx.assume("the header feed is an unbuffered channel delivering consecutive heights; part of the scenarios run the real "
               "nodebuilder/header Service.Subscribe relay over a scripted gossip subscription (verif-tagged constructor)")
    ctx.assume("a retrieval attempt either returns the namespace data of the block or an error; it does not block for ever")
    ctx.assume("small scope: 32 blocks, 2 concurrent subscriptions on different namespaces")

    # 1. exhaustive safety + liveness of the repaired design
    safe = ctx.tlc(SPEC, "blob/BlobSub_quick.cfg" if quick else "blob/BlobSub_thorough.cfg",
                   workers=min(8, vlib.NCPU), timeout=1200, deadlock=False, coverage=not quick)
    if safe.ok and not quick:
        ctx.require_coverage(safe, ["RecvHeader", "RecvClosed", "SelUserDone", "SelSvcDone", "CheckCtx", "CheckOk",
                                    "CheckOverflow", "Send", "SendUserDone", "Attempt", "Consume",
                                    "ConsumerSeesClose", "CancelUser", "StopService", "CloseFeed"])
    ctx.tlc(SPEC, "blob/BlobSub_live.cfg", workers=4, timeout=900, deadlock=False)
    ctx.tlc(SPEC, "blob/BlobSub_allfail.cfg", workers=4, timeout=900, deadlock=False)
    # the node's wiring: the feed is the relay of nodebuilder/header Service.Subscribe
    ctx.tlc(SPEC, "blob/BlobSub_relay.cfg", workers=min(8, vlib.NCPU), timeout=900, deadlock=False)
    ctx.tlc(SPEC, "blob/BlobSub_relay_live.cfg", workers=4, timeout=900, deadlock=False)
    ctx.cover(exhaustive=True)

    scripts = []
    # 2. the model of the code as found: stop is ignored while a retrieval keeps failing
    # (vlib.run_tlc directly: this TLC prints "Temporal property X was violated", which vlib's parser
    #  files under tool errors; the expected counterexample must not make the run inconclusive)
    r = vlib.run_tlc(os.path.join(vlib.VERIF, "spec", SPEC), os.path.join(vlib.VERIF, "spec", "blob/BlobSub_orig.cfg"),
                     ctx.work, workers=2, timeout=300, deadlock=False)
    stop_cex = "Temporal property StopEnds was violated" in r.stdout or r.violated == "temporal"
    ctx.log("TLC blob/BlobSub_orig.cfg: generated=%d distinct=%d StopEnds violated=%s wall=%.1fs" % (
        r.generated, r.distinct, stop_cex, r.wall))
    ctx.cov["tlc_runs"].append({"spec": SPEC, "cfg": "BlobSub_orig.cfg", "generated": r.generated, "distinct": r.distinct,
                                "ok": r.ok, "violated": "StopEnds" if stop_cex else r.violated, "wall_s": round(r.wall, 1),
                                "expected_violation": True})
    if not stop_cex or not r.trace:
        ctx.inconclusive("BlobSub_orig.cfg: expected a StopEnds counterexample (candidate #17), got violated=%s error=%s" % (
            r.violated, (r.error or "")[:200]))
    else:
        steps = _script_from_trace(r.trace)
        ctx.note("BlobSub_orig.cfg: TLC liveness counterexample of %d states, stimuli: %s (then every retrieval fails for ever)" % (
            len(r.trace), json.dumps(steps)))
        scripts.append({"name": "cex_orig", "class": "cex_orig", "subs": 1, "tail": "allfail", "offer": True, "defer": True, "steps": steps})
        # the same history with the retrieval already running when Stop arrives
        scripts.append({"name": "cex_orig_inflight", "class": "cex_orig", "subs": 1, "tail": "allfail", "offer": False,
                        "steps": [{"a": "hdr"}, {"a": "att", "ok": False}, {"a": "stop"}]})

    # 3. behaviours of the model for replay
    nsim = 80 if quick else 600
    r = ctx.tlc(SPEC, "blob/BlobSub_sim.cfg", workers=4, timeout=600, deadlock=False, count=False,
                simulate="num=%d" % nsim, depth=150)
    behs, prev = [], None
    for b in r.printed.get("BEH", []):
        if prev is not None and len(prev) <= len(b) and b[:len(prev)] == prev:
            behs.pop()
        behs.append(b)
        prev = b
    limit = 250 if quick else 2000
    for n, b in enumerate(behs[:limit]):
        scripts.append({"name": "tlc-%d" % n, "class": "tlc", "subs": 1, "tail": "allfail" if n % 2 else "allok",
                        "offer": n % 3 == 0, "steps": b})
    ctx.log("TLC behaviours for replay: %d (of %d printed)" % (min(len(behs), limit), len(r.printed.get("BEH", []))))
    if len(behs) < 20:
        ctx.inconclusive("vacuity: TLC simulation produced only %d finished behaviours" % len(behs))
    sp = os.path.join(ctx.work, "blobsub_scripts.json")
    json.dump(scripts, open(sp, "w"))

    # 4. the real code
    rep = ctx.go_driver("blobsub", env={"VERIF_SCRIPTS": sp, "VERIF_SEEDED": 200 if quick else 2500,
                                        "VERIF_OVERFLOW": 6 if quick else 30, "VERIF_CEX_REPEAT": 6 if quick else 20},
                        timeout=1500)
    c = rep.get("counters", {})
    need = ["responses", "responses_with_blobs", "responses_without_blobs", "attempts_failed", "retries_same_height",
            "ended_by_cancel", "ended_by_stop", "ended_by_feed_close", "ended_by_overflow", "attempts_while_ending",
            "headers_taken_while_ending", "consumed_while_running", "scenarios_two_subscriptions",
            "steps_applied_cex_orig", "steps_applied_tlc", "scenarios_systematic", "scenarios_streak",
            "streak_closed_within_bound", "scenarios_absent", "scenarios_overlap", "scenarios_relay",
            "ended_by_feed_error_through_relay", "relay_gossip_subscription_cancelled",
            "overflow_header_absent_outside_every_row_range", "overflow_header_absent_inside_a_row_range",
            "responses_for_blocks_outside_every_row_range", "responses_for_blocks_absent_inside_a_row_range"]
    missing = [k for k in need if c.get(k, 0) <= 0]
    if missing and rep.get("counters"):
        ctx.inconclusive("vacuity: the driver never exercised %s" % missing)
    ctx.cover(replayed_behaviours=c.get("scenarios", 0))

    # 5. trace validation
    summ = rep.get("summary") or {}
    path = summ.get("trace_file")
    if not path or not summ.get("traces"):
        ctx.inconclusive("the driver recorded no trace")
        return
    cfg = os.path.join(ctx.work, "BlobSubTrace.cfg")
    with open(cfg, "w") as f:
        f.write(TRACE_CFG % {"path": path, "relay": "FALSE"})
    t = ctx.tlc("blob/BlobSubTrace.tla", cfg, must_pass=False, workers=1, timeout=1200, deadlock=False)
    if t.ok and not t.violated:
        ctx.cover(traces_validated_against_impl=summ["traces"])
    elif t.violated == "postcondition":
        stuck = [l for l in t.stdout.splitlines() if "STUCK" in l or l.startswith("   ")][:5]
        ctx.inconclusive("conformance drift: BlobSubTrace.tla cannot match the recorded streams (%s) -- the code no longer "
                         "behaves like the specification; update spec or driver (log %s)" % (
                             " ".join(s.strip() for s in stuck)[:400], t.log_path))
    elif t.violated:
        ctx.inconclusive("an invariant (%s) fails on a state matched to a recorded stream although the monitors on the "
                         "observed behaviour did not fire (log %s)" % (t.violated, t.log_path))
    # streams recorded through the real relay: the same trace specification with Relay = TRUE
    rpath, rn = summ.get("trace_file_relay"), summ.get("traces_relay", 0)
    if not rpath or not rn:
        ctx.inconclusive("the driver recorded no stream through the header-service relay")
    else:
        rcfg = os.path.join(ctx.work, "BlobSubTraceRelay.cfg")
        with open(rcfg, "w") as f:
            f.write(TRACE_CFG % {"path": rpath, "relay": "TRUE"})
        tr = ctx.tlc("blob/BlobSubTrace.tla", rcfg, must_pass=False, workers=1, timeout=1200, deadlock=False)
        if tr.ok and not tr.violated:
            ctx.cover(traces_validated_against_impl=rn)
        elif tr.violated == "postcondition":
            stuck = [l for l in tr.stdout.splitlines() if "STUCK" in l or l.startswith("   ")][:5]
            ctx.inconclusive("conformance drift: BlobSubTrace.tla (Relay = TRUE) cannot match the streams recorded through the "
                             "header-service relay (%s) (log %s)" % (" ".join(x.strip() for x in stuck)[:400], tr.log_path))
        elif tr.violated:
            ctx.inconclusive("an invariant (%s) fails on a state matched to a stream recorded through the relay (log %s)" % (
                tr.violated, tr.log_path))
    if not quick:
        _selftest(ctx, path)
    try:
        with open(path) as f:
            ctx.sample({"trace_file": os.path.basename(path), "first_lines": [json.loads(next(f)) for _ in range(14)]})
    except Exception:
        pass
