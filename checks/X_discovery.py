"""X_discovery -- peer discovery (share/shwap/p2p/discovery), a subsystem no listed property covers.

spec/discovery/Discovery.tla    limitedSet + Peers(ctx) waiters, backoffConnector, discovery loop and its workers,
                                disconnectsLoop/Discard, the OnUpdatedPeers callbacks -- the code as it is
spec/discovery/MCDiscovery.tla  the same with a history variable (behaviours for the replay)
harness/drivers/discovery       replay of TLC's behaviours on the real Discovery / limitedSet (B2): fake host, stub
                                discovery backend, gates at every injected call and at four verif hooks

Not listed in MANIFEST.json; run with `bin/check X_discovery --tier quick|thorough`.
"""
import glob
import json
import os
import re
import subprocess
import threading
from concurrent.futures import ThreadPoolExecutor

import vlib

META = {
    "technique": "TLC exhaustive on spec/discovery/Discovery.tla (one action per critical section / call into an injected "
                 "interface; every interleaving of two discovery workers, the disconnect loop, the discovery loop, Peers(ctx) "
                 "callers, connection loss, inbound connections, failing dials, ticks and the back-off GC on small constants; "
                 "thorough: liveness under weak fairness, model variants with the race windows closed). Binding (B2): seeded "
                 "random behaviours of the model (coarse schedules = internal steps taken at once), behaviours TLC finds for a "
                 "list of coverage goals (rarely taken decision branches) and for the states in which a property fails, are "
                 "replayed action by action on the real Discovery (fake libp2p host, stub discovery backend, gates at "
                 "Connectedness / Connect / callback / Protect / Unprotect / FindPeers / event delivery and at four verif hooks; "
                 "the callbacks feed a real shrex peers.Manager as nodebuilder wires it) and on a bare limitedSet; after every "
                 "step the real set, the peer manager's node pool, callback log, protected peers, back-off records, goroutine "
                 "positions and Peers(ctx) results are compared with the model, and the properties are evaluated on the real "
                 "state. The connector's GC loop is probed once per run in real time.",
    "level_text": "model_checking: on the bounded models the code as it is keeps SizeBound (|set| <= 2*limit-1), reports every "
                  "change of the set exactly once, starts a FindPeers round only below the limit (since /repo f5c221a), leaves "
                  "an active back-off after every contact, GC never changes HasBackoff, Peers(ctx) returns a non-empty slice or "
                  "the context's error; thorough: discovery restarts whenever the set is below its limit, every worker ends, "
                  "every disconnect event is handled (weak fairness). The real code follows every replayed behaviour. "
                  "Properties that do NOT hold for the code as it is (member is connected, added-before-removed, view = set at "
                  "rest, protection follows membership, no stranded Peers(ctx) caller; by design: hard limit, no dial during a "
                  "back-off set by Discard) are each documented by a TLC behaviour, forced on the real code and printed as "
                  "KNOWN-FINDING; TLC shows that the variants Serialized / AtomicPeers of the model keep them.",
    "level_note": "A failure of a property on the real code counts as a violation only where the model satisfies the property in "
                  "the same state; where the model shares the failure it is the modelled defect (KNOWN-FINDING from the local list "
                  "FINDINGS of this module: known_findings.jsonl is not touched). A 'fixed' entry is checked the other way round: "
                  "the behaviour of the model variant without the fix must NOT be reproducible (else violation fix-reverted). A "
                  "difference between model and code that breaks no property is conformance drift (exit 2). The libp2p host, "
                  "connection manager, event bus and discovery backend are scripted fakes: what libp2p does is environment. "
                  "Time: back-off deadlines are moved into the past (one hour per model tick) instead of waiting; Before/After "
                  "exactly on a deadline is not modelled. The connector's GC runs on a one-minute ticker: it is in the model, "
                  "bound by one real-time probe per run, and absent from the replayed behaviours. Stop/cancellation of the "
                  "Discovery and Advertise are not modelled. The backend returns each id at most once per round. PeersLimit is "
                  "a SOFT limit by its documentation: the overshoot is recorded, not alarmed. Replayed schedules are the coarse "
                  "ones (a goroutine runs from one gate to the next without interruption); the finer interleavings are "
                  "covered by TLC only.",
    "design_ref": "DESIGN.md §10 (discovery set / back-off)",
}

MC = "discovery/MCDiscovery.tla"
BASE = "discovery/Discovery.tla"

# Properties the model (= the code as it is) does not satisfy: each one has a witness configuration X_<key>.cfg whose
# counterexample is forced on the real code. Reproduced => KNOWN-FINDING (signature X_discovery/finding/<key>); "note" = by
# design. "fixed": repaired in /repo; the witness comes from the model variant of the tree BEFORE the fix and must NOT be
# reproducible any more (reproduced => the fix was reverted => violation).
FINDINGS = {
    "hardLimit": ("note", "the set exceeds PeersLimit: workers of one round pass the size check concurrently (soft limit by design, "
                          "bound 2*limit-1)"),
    "roundBelow": ("fixed", "discover() started a FindPeers round although the set was ABOVE its limit: `want := limit - size` was "
                            "computed on unsigned integers and compared with 0, so every tick queried the backend while the set "
                            "was overshot (repaired by /repo f5c221a; the model's switch SignedWant = FALSE is the tree before)"),
    "inSetConnected": ("defect", "a peer that is not connected stays in the set: its disconnect event was handled (Discard found it "
                                 "absent) between the successful Connect / Connectedness check and set.Add; nothing removes it later"),
    "inOrder": ("defect", "the callbacks report removed BEFORE added: Discard runs between set.Add and onUpdatedPeers(p, true) of "
                          "the worker, so the peer manager keeps a peer that left the set"),
    "view": ("defect", "at rest the peer manager's pool / the protected peers differ from the set (consequence of the ordering race)"),
    "prot": ("defect", "a peer stays protected in the connection manager after Discard: Protect of the worker runs after Unprotect"),
    "stranded": ("defect", "limitedSet.Peers(ctx) stays blocked although the set has members: Add's non-blocking hand-off finds no "
                           "receiver while the caller is between its emptiness check and its select (lost wake-up)"),
    "dial": ("note", "a peer is dialled while in back-off: Discard set the back-off between the worker's HasBackoff check and its "
                     "dial (benign)"),
}


# ------------------------------------------------------------------------------------------ helpers
def plain(v):
    """vlib.parse_tla_value output -> plain JSON (sets -> sorted lists, functions -> dicts)."""
    if isinstance(v, dict):
        if "#set" in v:
            xs = [plain(x) for x in v["#set"]]
            try:
                return sorted(xs)
            except TypeError:
                return xs
        if "#fun" in v:
            return {str(plain(k)): plain(x) for k, x in v["#fun"]}
        if "#mv" in v:
            return v["#mv"]
        return {k: plain(x) for k, x in v.items()}
    if isinstance(v, list):
        return [plain(x) for x in v]
    return v


def cfg_consts(cfg):
    txt = open(os.path.join(vlib.VERIF, "spec", "discovery", cfg)).read()
    out = {}
    for k in ("Limit", "Delay", "MaxLen"):
        m = re.search(r"(?m)^\s*%s\s*=\s*(\d+)" % k, txt)
        out[k] = int(m.group(1)) if m else 0
    for k in ("Peers", "Callers"):
        m = re.search(r"(?m)^\s*%s\s*=\s*\{([^}]*)\}" % k, txt)
        out[k] = re.findall(r'"([^"]+)"', m.group(1)) if m else []
    for k in ("DirectAPI", "AtomicPeers"):
        out[k] = bool(re.search(r"(?m)^\s*%s\s*=\s*TRUE" % k, txt))
    return out


def steps_of(hist):
    """hist (plain) -> steps for the driver; wk is a set of <<peer, pc>>"""
    steps = []
    for h in hist:
        o = h["o"]
        o["wk"] = sorted([list(x) for x in o["wk"]], key=lambda x: x[0] + x[1])
        for k in ("cl", "net"):      # a function with an empty domain is printed as <<>>
            if isinstance(o[k], list):
                o[k] = {}
        steps.append({"a": h["a"], "o": o, "stable": h["stable"]})
    return steps


def beh(cfg, ident, hist, expect=""):
    c = cfg_consts(cfg)
    return {"id": ident, "fixed": bool(expect) and FINDINGS[expect][0] == "fixed", "mode": "api" if c["DirectAPI"] else "disc", "limit": c["Limit"], "delay": c["Delay"],
            "peers": c["Peers"], "callers": c["Callers"], "atomic_peers": c["AtomicPeers"], "expect": expect,
            "steps": steps_of(hist)}


def norm_json_hist(hist):
    """hist printed with ToJson: sets are arrays already, records are objects; tuples <<p, pc>> are arrays"""
    for h in hist:
        for k in ("set", "view", "prot", "hb", "rec", "conn"):
            h["o"][k] = sorted(h["o"][k])
        for c in (h["o"]["cl"] or {}).values() if isinstance(h["o"]["cl"], dict) else []:
            c["res"] = sorted(c["res"])
    return hist


def last_hist(txt):
    """the value of hist in the last state of a TLC trace file"""
    i = txt.rindex("\nSTATE_")
    st = vlib.parse_tla_state(txt[i:].split("==", 1)[1].split("\n====")[0])
    return plain(st["hist"])


class Job:
    """one TLC run; the jobs of a check run through a small pool (JVM start-up dominates the small ones)"""

    def __init__(self, spec, cfg, must_pass=True, **kw):
        self.spec, self.cfg, self.must_pass, self.kw = spec, cfg, must_pass, kw
        self.r = None


def tlc_many(ctx, jobs, parallel):
    """vlib.Ctx.tlc for several runs at once: run_tlc in worker threads, the accounting of Ctx.tlc (same log line,
    same evidence record, same inconclusive rules) in the calling thread. Local copy because Ctx.tlc is sequential."""
    def one(j):
        kw = dict(j.kw)
        kw.setdefault("seed", ctx.seed if kw.get("simulate") else None)
        j.r = vlib.run_tlc(os.path.join(vlib.VERIF, "spec", j.spec), os.path.join(vlib.VERIF, "spec", j.cfg), ctx.work, **kw)
    with ThreadPoolExecutor(max_workers=parallel) as ex:
        list(ex.map(one, jobs))
    for j in jobs:
        r = j.r
        ctx.log("TLC %s/%s: generated=%d distinct=%d depth=%d ok=%s violated=%s wall=%.1fs%s" % (
            j.spec, os.path.basename(j.cfg), r.generated, r.distinct, r.depth, r.ok, r.violated, r.wall,
            (" ERROR=" + (r.error or "")[:300]) if r.error else ""))
        ctx.cov["states"] += r.distinct or r.generated
        ctx.cov["transitions"] += r.generated
        ctx.cov["tlc_runs"].append({"spec": j.spec, "cfg": os.path.basename(j.cfg), "generated": r.generated,
                                    "distinct": r.distinct, "depth": r.depth, "ok": r.ok, "violated": r.violated,
                                    "wall_s": round(r.wall, 1), "simulate": j.kw.get("simulate"),
                                    "coverage": r.coverage if j.kw.get("coverage") else None})
        if r.error:
            ctx.inconclusive("TLC failed on %s: %s (log %s)" % (j.cfg, (r.error or "")[:300], r.log_path))
        elif r.violated and j.must_pass:
            ctx.inconclusive("model %s violates %s (log %s): model counterexample not bound to a real-code reproduction"
                             % (j.cfg, r.violated, r.log_path))


def sim_job(ctx, cfg, num, workers):
    d = os.path.join(ctx.work, "sim_" + cfg.replace(".cfg", ""))
    os.makedirs(d, exist_ok=True)
    return Job(MC, "discovery/" + cfg, simulate="file=%s/t,num=%d" % (d, num), depth=cfg_consts(cfg)["MaxLen"] + 1, workers=workers,
               timeout=600)


def sim_behaviours(ctx, cfg):
    d = os.path.join(ctx.work, "sim_" + cfg.replace(".cfg", ""))
    out = []
    for f in sorted(glob.glob(d + "/t_*")):
        try:
            out.append(beh(cfg, "%s/%s/seed%d" % (cfg.replace(".cfg", ""), os.path.basename(f), ctx.seed), last_hist(open(f).read())))
        except Exception as ex:   # a truncated file of a run that timed out
            ctx.note("unreadable trace file %s: %s" % (f, ex))
    return out


def start_gc_probe(ctx):
    """backoffConnector.GC runs on a one-minute ticker: the probe of the real loop is started now, as a process of its
    own, and collected after the TLC runs."""
    vlib.gen_go_mod()
    out = os.path.join(ctx.work, "gc_probe.json")
    env = vlib.go_env()
    env.update({"VERIF_OUT": out, "VERIF_SEED": str(ctx.seed), "VERIF_TIER": ctx.tier, "VERIF_WORK": ctx.work})
    box = {"out": out}

    def work():
        try:
            p = subprocess.run(["go", "test", "-tags", "verif", "-count=1", "-vet=off", "-timeout", "900s", "-run", "TestGCProbe",
                                "./drivers/discovery"], cwd=vlib.HARNESS, env=env, stdout=subprocess.PIPE, stderr=subprocess.STDOUT,
                               timeout=1500, text=True, errors="replace")
            box["rc"], box["log"] = p.returncode, p.stdout
        except Exception as ex:
            box["rc"], box["log"] = -1, str(ex)
    t = threading.Thread(target=work, daemon=True)
    t.start()
    box["thread"] = t
    return box


def collect_gc_probe(ctx, box):
    box["thread"].join(1600)
    rep = None
    if box.get("rc") == 0 and os.path.exists(box["out"]):
        rep = json.load(open(box["out"]))
    if rep is None:
        ctx.inconclusive("GC probe failed (rc=%s): %s" % (box.get("rc"), (box.get("log") or "")[-800:]))
        return
    for v in rep.get("violations") or []:
        ctx.violation(v.get("signature", "unspecified"), v.get("what", ""), v.get("replay"))
    if not (rep.get("counters") or {}).get("gc_probe_ok") and not rep.get("violations"):
        ctx.inconclusive("the GC probe did not finish")
    ctx.cover(gc_probe_ok=(rep.get("counters") or {}).get("gc_probe_ok", 0))


def run(ctx):
    quick = ctx.quick
    ctx.assume("libp2p host / connection manager / event bus / discovery backend are scripted by the harness (environment)")
    ctx.assume("back-off time is modelled in ticks; the real deadlines are moved into the past, one hour per tick")
    ctx.assume("the backend returns each id at most once per FindPeers round; Stop and Advertise are not modelled")
    gc_box = start_gc_probe(ctx)

    jobs = []
    # 1. every interleaving of the bounded models, the code as it is: the properties that hold
    exh = ["MC_A", "MC_B", "MC_C", "MC_D", "MC_api"] + ([] if quick else ["MC_E"])
    exh_jobs = [Job(BASE, "discovery/%s.cfg" % c, workers=4 if quick else 8, timeout=900 if quick else 2400, coverage=not quick)
                for c in exh]
    jobs += exh_jobs
    # 2. coverage goals: behaviours that reach the rarely taken decision branches and, as goals x_<key>, the states in
    #    which a property that does not hold for the code as it is fails (GoalCover stops TLC once all were reached)
    goal_cfgs = ("Goals_limit", "Goals_two", "Goals_one", "Goals_callers", "Goals_prefix")
    goal_jobs = {c: Job(MC, "discovery/%s.cfg" % c, must_pass=False, workers=2 if quick else 4, timeout=900) for c in goal_cfgs}
    jobs += list(goal_jobs.values())
    # 3. seeded random behaviours for the replay
    sims = ("Sim_disc.cfg", "Sim_api.cfg") if quick else ("Sim_disc.cfg", "Sim_disc1.cfg", "Sim_api.cfg")
    jobs += [sim_job(ctx, cfg, 20 if quick else 60, 2 if quick else 4) for cfg in sims]
    live_w, wit_jobs = None, {}
    if not quick:
        # 4. model variants with the windows closed: the failing properties hold there (they are satisfiable, and the
        #    variants name the atomicity that is missing)
        jobs += [Job(BASE, "discovery/%s.cfg" % c, workers=4, timeout=1500)
                 for c in ("V_atomicPeers", "V_signedWant", "V_serialized", "V_serialized2")]
        # 5. liveness
        live_w = Job(BASE, "discovery/Live_waiter.cfg", must_pass=False, workers=4, timeout=900)
        jobs += [Job(BASE, "discovery/Live.cfg", workers=4, timeout=2400),
                 Job(BASE, "discovery/Live_waiter_atomic.cfg", workers=4, timeout=900), live_w]
        # 6. the standalone counterexamples of the properties that do not hold (the same facts as the x_ goals)
        wit_jobs = {key: Job(MC, "discovery/X_%s.cfg" % key, must_pass=False, workers=2, timeout=900) for key in FINDINGS}
        jobs += list(wit_jobs.values())
    tlc_many(ctx, jobs, parallel=3)

    if not quick:
        need = {"WAdd", "WWake", "WCallback", "WProtect", "WDial", "WHasBackoff", "DContains", "DRemove", "DCallback",
                "LoopDiscover", "RoundEnd", "Tick", "GC", "CCall", "CPark", "CCancel", "EnvDrop", "ApiAdd", "ApiRemove"}
        seen = set()
        for j in exh_jobs:
            seen |= {a for a, n in j.r.coverage.items() if n > 0}
        if need - seen:
            ctx.inconclusive("vacuity: actions never taken in the exhaustive runs: %s" % sorted(need - seen))
        if live_w.r.ok and live_w.r.violated is None:
            ctx.note("Live_waiter: the lost wake-up is not reachable any more in the model as it is")

    behs = []
    found = {}
    goals = {}
    for c, j in goal_jobs.items():
        want = set(re.findall(r'"(\w+)"', re.search(r"Wanted = \{([^}]*)\}", open(os.path.join(vlib.VERIF, "spec", "discovery", c + ".cfg")).read()).group(1)))
        got = {}
        for g in j.r.printed.get("GOAL", []):
            if isinstance(g, dict) and (g["g"] not in got or len(g["hist"]) < len(got[g["g"]])):
                got[g["g"]] = g["hist"]        # several workers print the same goal: keep the shortest behaviour
        for g in sorted(want - set(got)):
            if g.startswith("x_") and j.r.ok:
                ctx.note("witness %s: the model as it is satisfies the property (state space exhausted, goal not reached)" % g[2:])
            else:
                ctx.inconclusive("coverage goal not reached in %s: %s" % (c, g))
        for g, hist in sorted(got.items()):
            key = g[2:] if g.startswith("x_") else ""
            behs.append(beh(c + ".cfg", "goal/" + g, norm_json_hist(hist), expect=key))
            goals[g] = len(hist)
            if key:
                found[key] = len(hist)
    for key, j in wit_jobs.items():
        r = j.r
        if r.violated and r.trace:
            try:
                hist = plain(r.trace[-1][1]["hist"])
                behs.append(beh("X_%s.cfg" % key, "witness/" + key, hist, expect=key))
            except Exception as ex:
                ctx.inconclusive("witness %s: cannot read TLC's counterexample: %s" % (key, ex))
        elif r.ok and key in found:
            ctx.inconclusive("X_%s.cfg finds no counterexample although the goal run reached a failing state" % key)
    for cfg in sims:
        bs = sim_behaviours(ctx, cfg)
        if not bs:
            ctx.inconclusive("no simulated behaviours from %s" % cfg)
        behs += bs

    plan = {"behs": behs, "gc_probe": False}
    plan_path = os.path.join(ctx.work, "plan.json")
    json.dump(plan, open(plan_path, "w"))
    ctx.log("plan: %d behaviours (%d witnesses, %d goals), %d steps" % (len(behs), len(found), len(goals), sum(len(b["steps"]) for b in behs)))
    ctx.cover(goal_behaviours=goals)

    # 6. replay on the real code. A modelled (listed) failure is a known finding: matched in memory, nothing is written.
    for key, (kind, what) in FINDINGS.items():
        if kind != "fixed":
            ctx.known.append({"property": ctx.prop, "signature": "X_discovery/finding/" + key, "status": "known", "what": what})
    rep = ctx.go_driver("discovery", env={"VERIF_PLAN": plan_path}, timeout=1500)
    summ = rep.get("summary") or {}
    cnt = rep.get("counters") or {}
    wit = summ.get("witness") or {}
    for key in found:
        kind, what = FINDINGS[key]
        verdicts = {b["id"]: wit.get(b["id"], "not run") for b in behs if b["expect"] == key}
        if kind == "fixed":
            if any(v == "reproduced" for v in verdicts.values()):
                ctx.violation("X_discovery/fix-reverted/" + key, "%s -- the behaviour of the model variant WITHOUT the fix is followed by "
                              "the real code and the property fails on it" % what)
            elif any(v == "not run" for v in verdicts.values()):
                ctx.inconclusive("witness %s (fixed): not run" % key)
            else:
                ctx.cover(fixed_findings_not_reproducible=1)
            continue
        bad = {i: v for i, v in verdicts.items() if v != "reproduced"}
        if not bad:
            ctx.violation("X_discovery/finding/" + key, "[%s] %s -- TLC behaviour of %d steps (goal x_%s of spec/discovery/Goals_*.cfg; standalone "
                          "counterexample: X_%s.cfg) forced on the real code" % (kind, what, found[key], key, key))
        else:
            ctx.inconclusive("witness %s: TLC's behaviour was not reproduced on the real code (%s)" % (key, bad))
    for s in (b for b in behs if b["expect"]):
        ctx.sample({"witness": s["expect"], "actions": [st["a"] for st in s["steps"]]}, limit=3)
    if cnt.get("behaviours_replayed", 0) + cnt.get("behaviours_skipped", 0) < len(behs) or (cnt.get("behaviours_skipped") and not rep.get("violations")):
        ctx.inconclusive("driver replayed %s of %d behaviours" % (cnt.get("behaviours_replayed"), len(behs)))
    acts = summ.get("actions") or {}
    missing = sorted(a for a in ("WAdd", "WWake", "WCallback", "WProtect", "WDial", "WDialReturn", "WConnectedness", "DRecv",
                                 "DUnprotect", "DCallback", "LoopDiscover", "RoundEnd", "Tick", "CCall", "CPark", "CCancel",
                                 "ApiAdd", "ApiRemove", "EnvDrop", "EnvInbound") if not acts.get(a))
    if missing:
        ctx.inconclusive("vacuity: actions never replayed on the real code: %s" % missing)
    ctx.cover(replayed_actions=acts, findings_reproduced_in_random_behaviours=summ.get("reproduced"), witnesses=wit)
    collect_gc_probe(ctx, gc_box)
