"""C08 -- concurrent store use is safe: no torn reads, no deadlock, no use-after-close.

spec/store/StoreConc.tla      threads x operations over heights colliding on the lock stripes: striped
                              RW locks in the code's order, pre-lock cache insertion of put, recent +
                              serving cache with reference-counted entries, accessor incarnations with
                              lazy Q4 open by path, CachedStore's loader
spec/store/AccessorCache.tla  the cache entry protocol (mutex, atomic counter, done channel, isClosed)
spec/store/StoreSeq.tla       sequential specification;  StoreConcTrace.tla  trace validation against it
harness/drivers/storeconc     seeded concurrent programs (-race) + gated schedules on the real store
"""
import json
import os
import re

META = {
    "technique": "TLC exhaustive on spec/store/StoreConc.tla (2-3 threads x 1-3 operations, heights colliding on "
                 "height-, hash- and cache-lock stripes, cache sizes 0/1, deadlock check) and AccessorCache.tla "
                 "(entry protocol incl. liveness); seeded concurrent programs on the real store under the race "
                 "detector with every byte read compared against the reference block, monitors on the store / "
                 "cache marker events, executions linearized by the markers recorded under the height lock and "
                 "validated by TLC against StoreSeq.tla (StoreConcTrace.tla); the model's counterexamples for "
                 "the unrepaired variants replayed as gated schedules",
    "level_text": "Model checking of the store's locking, cache reference counting and lazy file binding over all "
                  "interleavings of small thread programs (ReadersSeeOwnBlock, NoUseAfterClose, RefsBalanced, "
                  "Linearizable and FilesReleased at quiescence, deadlock freedom, termination of Remove under "
                  "fairness), bound to the code by (a) forced schedules that reproduce each model counterexample "
                  "on the real store and (b) randomly scheduled concurrent programs whose observable behaviour "
                  "(bytes read, results under the height lock, final directory and cache content, reference "
                  "counts, descriptors) is checked against the same specification.",
    "level_note": "The one-minute close time-out of the cache is an explicit model action that is disabled in the "
                  "checked configurations (DESIGN.md section 11); readers of the driver close their accessors "
                  "without waiting for other goroutines, so it never fires. Readers do not call the store while "
                  "they hold an accessor (a removal waits for them by design). The random programs explore "
                  "whatever schedules the Go scheduler produces; exhaustiveness comes from the model only. "
                  "Descriptor leaks are made deterministic by switching the garbage collector off during a "
                  "program (a finalizer would otherwise close a leaked file eventually). An error returned by "
                  "put/remove under concurrency is counted as a violation (sequentially they always succeed). "
                  "CachedStore.GetByHeight has no marker under a lock: only its data, its errors and the final "
                  "cache content are judged.",
    "design_ref": "DESIGN.md §5 C08, §6 #11",
}

QUICK_CFGS = [("store/MCStoreConc.tla", "store/StoreConc_q1.cfg"), ("store/MCStoreConc.tla", "store/StoreConc_q2.cfg")]
THOROUGH_CFGS = [("store/MCStoreConc.tla", "store/StoreConc_A.cfg"), ("store/MCStoreConc.tla", "store/StoreConc_B.cfg"),
                 ("store/MCStoreConc.tla", "store/StoreConc_q1.cfg"), ("store/MCStoreConc.tla", "store/StoreConc_q2.cfg")]
SELFTESTS = [("store/StoreConc_self1.cfg", "Linearizable"), ("store/StoreConc_self2.cfg", "deadlock"),
             ("store/StoreConc_self3.cfg", "ReadersSeeOwnBlock")]


def _race_reports(log_path):
    """data races reported by the Go race detector in the driver log: (innermost celestia-node frames of the two
    conflicting accesses, all celestia-node/harness frames, text)"""
    try:
        txt = open(log_path, errors="replace").read()
    except OSError:
        return []
    out = []
    fre = r"(?m)^\s+((?:github\.com/celestiaorg/celestia-node|verifharness)\S*?)\(\)\s*$"
    for blk in txt.split("WARNING: DATA RACE")[1:]:
        blk = blk.split("==================")[0]
        frames = re.findall(fre, blk)
        tops = []
        for sec in re.split(r"\n\s*\n", blk)[:2]:      # the two conflicting accesses come first
            fs = [f for f in re.findall(fre, sec) if "celestia-node" in f]
            if fs:
                tops.append(fs[0].split("/")[-1])
        out.append((tops, frames, blk[:3000]))
    return out


def run(ctx):
    ctx.assume("no crashes, no I/O errors; the cache's one-minute close time-out does not fire")
    ctx.assume("2-3 threads x 1-3 operations in the model; 6-12 goroutines x 10-25 operations in the random programs")

    # 1. exhaustive model checking (safety + deadlock)
    for spec, cfg in (QUICK_CFGS if ctx.quick else THOROUGH_CFGS):
        r = ctx.tlc(spec, cfg, workers=8, timeout=1500, coverage=not ctx.quick)
        if not ctx.quick and r.ok:
            need = ["PCache", "LockX", "LockH", "PLink", "RCacheWait", "RLink", "GOpen", "ReadLower", "CloseHandle"]
            if "q2" in cfg or "_B" in cfg:
                need += ["CGLoad"]
            ctx.require_coverage(r, need)
    ctx.cover(exhaustive=True)
    r = ctx.tlc("store/AccessorCache.tla", "store/AccessorCache_quick.cfg" if ctx.quick else "store/AccessorCache.cfg",
                workers=8, timeout=1500)
    if not ctx.quick:
        ctx.tlc("store/AccessorCache.tla", "store/AccessorCache_live.cfg", workers=4, timeout=900)
        # sensitivity of the model itself: each variant must fail in its own way
        ok = 0
        for cfg, want in SELFTESTS:
            s = ctx.tlc("store/MCStoreConc.tla", cfg, workers=2, timeout=600, must_pass=False, count=False)
            if s.violated != want:
                ctx.inconclusive("selftest: %s should violate %s, got %s" % (cfg, want, s.violated))
            else:
                ok += 1
        ctx.cover(model_selftests_ok=ok)

    # 2. the real store: gated schedules + seeded concurrent programs under the race detector
    lin_path = os.path.join(ctx.work, "lin.ndjson")
    nprog = int(os.environ.get("VERIF_C08_PROGRAMS", "14" if ctx.quick else "150"))
    denv = {"VERIF_LIN_OUT": lin_path, "VERIF_PROGRAMS": nprog, "VERIF_BIG_W": 16 if ctx.quick else 32}
    n_inc = len(ctx.inconclusives)
    want_race = os.environ.get("VERIF_C08_NORACE", "") == ""
    rep = ctx.go_driver("storeconc", race=want_race, timeout=1500 if ctx.quick else 3600, env=denv)
    log_path = os.path.join(ctx.work, "driver_storeconc_%d.log" % (len(ctx.cov["drivers"]) - 1))
    drv = ctx.cov["drivers"][-1]
    raced = want_race
    if want_race and drv["rc"] != 0 and not rep.get("counters"):
        # no report at all: the race-instrumented build of the dependency tree did not finish in time (cold
        # cache: it takes far longer than the test itself) or the race runtime is unavailable. The property's
        # own observations do not need the race detector: run again without it and say so.
        try:
            txt = open(log_path, errors="replace").read()
        except OSError:
            txt = ""
        if "DATA RACE" not in txt and "--- FAIL" not in txt and "panic:" not in txt:
            del ctx.inconclusives[n_inc:]
            ctx.note("race-instrumented build/run of the driver did not complete (rc=%s); re-running without -race" % drv["rc"])
            rep = ctx.go_driver("storeconc", race=False, timeout=1500 if ctx.quick else 3600, env=denv)
            log_path = os.path.join(ctx.work, "driver_storeconc_%d.log" % (len(ctx.cov["drivers"]) - 1))
            raced = False
    ctx.cover(race_detector_used=raced)
    c = rep.get("counters", {})
    races = _race_reports(log_path)
    for tops, frames, blk in races:
        if tops:
            ctx.violation("C08/data-race/" + "+".join(sorted(set(tops))),
                          "the race detector reports a data race in the store under a concurrent program: " +
                          " vs ".join(tops), {"report": blk})
        else:
            ctx.inconclusive("race detector report inside the harness only: %s" % (frames[:3],))
    ctx.cover(race_reports=len(races))
    for k in ("programs", "accessors_held", "lin_writes", "lin_reads_checked", "fd_checks", "scenario_held_accessor",
              "scenario_stale_cache", "scenario_reput", "scenario_shared_accessor", "scenario_second_square_load", "cache_entries_observed", "lock_acquisitions",
              "ops_PutODSQ4", "ops_RemoveODSQ4", "ops_RemoveQ4", "ops_Get", "ops_CachedGet", "ops_Has"):
        if c.get(k, 0) == 0:
            ctx.inconclusive("vacuity: driver counter %s is 0" % k)

    # 3. B1: the linearized executions against the sequential specification, by TLC
    if not os.path.exists(lin_path) or os.path.getsize(lin_path) == 0:
        ctx.inconclusive("no linearized execution recorded")
        return
    os.environ["VERIF_TRACE"] = lin_path
    t = ctx.tlc("store/StoreConcTrace.tla", "store/StoreConcTrace.cfg", workers=1, deadlock=False, timeout=900,
                must_pass=False, count=False)
    segs = int(c.get("lin_segments", 0))
    lin_seen = any("not-linearizable" in v["signature"] for v in ctx.violations) or \
        any("not-linearizable" in s for s, _ in ctx.known_hits)
    if t.ok:
        ctx.cover(traces_validated_against_impl=segs, trace_lines=t.generated)
    elif t.violated == "postcondition":
        stuck = (t.printed.get("STUCK") or [{}])[0]
        if lin_seen:
            ctx.note("StoreConcTrace rejects the execution at line %s (%s): same finding as the driver's monitor" % (
                stuck.get("consumed"), json.dumps(stuck.get("line"))[:200]))
            ctx.cover(traces_validated_against_impl=segs)
        else:
            ctx.violation("C08/not-linearizable/rejected-by-StoreConcTrace",
                          "an execution of the real store is not explained by the sequential specification: line %s "
                          "of %s: %s" % (stuck.get("consumed"), stuck.get("total"), json.dumps(stuck.get("line"))[:300]),
                          {"stuck": stuck})
    elif not t.error:
        ctx.inconclusive("trace validation ended abnormally (log %s)" % t.log_path)
