"""X_retriever -- EDS retriever / byzantine-error path (share/eds/retriever*.go, share/eds/byzantine).

spec/retriever/Retriever.tla     one retrieval session: quadrant requests, share arrival / withholding, Repair as
                                 ideal-RS fixpoint, byzantine outcome, cancellation
spec/retriever/MCRetriever.tla   constant families + CASE printer (terminal summaries)
harness/drivers/retriever        B3: every (K, availability, corruption) of the case table on the real eds.Retriever
"""
import json
import os

META = {
    "technique": "TLC exhaustive on spec/retriever/Retriever.tla (K=1 all availability patterns, K=2 withheld rectangles, "
                 "corrupted cell) + case enumeration (B3): the real eds.Retriever runs over an in-memory blockstore behind a "
                 "filtering/recording wrapper for each case; its terminal summary (outcome class, quadrants requested, "
                 "byzantine line) must be one the model reaches, and the properties are evaluated on the real result.",
    "level_text": "model_checking: in the bounded model a success returns exactly the committed square, ErrByzantine names only a "
                  "non-codeword line, no quadrant is requested after the end, the outcome is final; thorough: liveness (recoverable "
                  "=> full square, cancel => termination, fully served bad square => ErrByzantine). On the real code: returned "
                  "square bytes and roots equal the committed ones, befp share proofs verify against the DAH, recoverable cases "
                  "succeed, unrecoverable ones end with the context error.",
    "level_note": "Ideal Reed-Solomon and ideal hashing (fetched shares are the committed ones). Quadrant order is the code's own "
                  "random shuffle (not controlled): the model's summaries are order-independent sets, the number of quadrants is "
                  "only a lower bound for success. Timeout 25 ms vs in-memory fetches; requests-after-finish is alarmed only for a "
                  "persistently ticking request loop. 'failed to collect proof' is accepted when leaves are withheld. The "
                  "retriever has no production caller in /repo (dangling component).",
    "design_ref": "DESIGN.md §10 (EDS retriever / byzantine-error path)",
}

MC = "retriever/MCRetriever.tla"


def run(ctx):
    cases = {}
    cfgs = ["retriever/MC_k2_quick.cfg", "retriever/MC_k1.cfg"]
    if not ctx.quick:
        cfgs = ["retriever/MC_k2_thorough.cfg", "retriever/MC_k1.cfg"]
    for cfg in cfgs:
        r = ctx.tlc(MC, cfg, workers=6, timeout=900 if not ctx.quick else 420)
        for c in r.printed.get("CASE", []):
            cases[json.dumps(c, sort_keys=True)] = c
    if not ctx.quick:
        for cfg in ["retriever/Live_k1.cfg", "retriever/Live_k1_cancel.cfg"]:
            ctx.tlc(MC, cfg, workers=4, timeout=600)
    lst = list(cases.values())
    if not lst:
        ctx.inconclusive("no cases printed by TLC")
        return
    for o in ("ok", "byz", "cancelled", "prooffail"):
        if not any(c["outcome"] == o for c in lst):
            ctx.inconclusive("vacuity: model never reaches outcome %s" % o)
    p = os.path.join(ctx.work, "cases.json")
    json.dump(lst, open(p, "w"))
    rep = ctx.go_driver("retriever", env={"VERIF_CASES": p, "VERIF_MAXCASES": 40 if ctx.quick else 200}, timeout=900)
    c = rep.get("counters") or {}
    for k in ("outcome_ok", "outcome_byz", "outcome_cancelled", "byz_proofs_verified", "summaries_matched"):
        if not c.get(k) and not rep.get("violations"):
            ctx.inconclusive("vacuity: driver counter %s is 0" % k)
    ctx.cover(traces_validated_against_impl=int(c.get("summaries_matched", 0)), exhaustive=True)
