"""C03 -- a light node calls a block available only after verifying its whole sample set.

Specification: spec/light/LightAvail.tla (SharesAvailable step by step, sessions per height,
load-or-draw with a nondeterministic draw, every getter outcome incl. the cascade's "nothing at
all", persist, autobatch buffer, Flush / GracefulRestart / Crash).
Binding: harness/drivers/light drives the real light.ShareAvailability with a gating stub getter
(raw and inside CascadeGetter) along TLC-generated behaviours, TLC counterexamples of the
"code as found" variants and seeded schedules; the recorded observations are validated against
spec/light/LightTrace.tla and the C03 monitors are evaluated on the observed behaviour.
"""
import json
import os
import threading

import vlib

META = {
    "technique": "TLC exhaustive on spec/light/LightAvail.tla (every draw, every getter outcome, every "
                 "interleaving of 2 callers x 2 heights with cancel/flush/restart/crash) + behaviour replay of "
                 "TLC behaviours/counterexamples into the real light.ShareAvailability (gating stub getter, raw "
                 "and CascadeGetter wiring) + trace validation of the recorded runs against LightTrace.tla + "
                 "property monitors on the observed requests/verdicts/persisted results; statistical monitor "
                 "for the draw (sampled)",
    "level_text": "Model: AvailableSound, PendingStable(+Step), SameCoords, NoPartialPromotion, SessionMutex hold in "
                  "every reachable state of the bounded model (area 4, K in {1,2,3,5}, 2 callers, 2 heights, <=4 calls, "
                  "<=2 environment actions; liveness of session waiting under fairness in the thorough tier). "
                  "Code: every recorded run of the real SharesAvailable (hundreds of gated schedules over areas 4 and 16, "
                  "K below/at/above the area, raw and cascade wiring, restarts and crashes) is a behaviour of that model "
                  "(TLC accepts the trace, persisted results included) and satisfies the monitors: verdict nil only "
                  "after every coordinate of the first draw was served with a verified sample; every later request "
                  "stays inside the first draw and keeps every undelivered coordinate; persisted results partition "
                  "the first draw and mark as available only delivered coordinates; one session per height.",
    "level_note": "Assumed/trusted: the stub serves real samples of real squares that verify against the header "
                  "(checked once per fixture); validity checking of samples is the getter's job (C06), the availability "
                  "counts any non-empty sample. Restart = Close + new instance over the same datastore; crash = new "
                  "instance over a snapshot of the underlying map datastore (DESIGN.md section 11): after a crash only "
                  "soundness is demanded, the re-draw caused by the lost autobatch buffer is reported as known finding. "
                  "Re-requesting an already delivered coordinate is not counted as a violation (the statement does not "
                  "forbid it). 'Drawn unpredictably from the whole extended square' is only sampled: per-cell counts of "
                  "50k real draws on small squares within 8 sigma of uniform, and for every extended width 2..1024 (incl. "
                  "non-powers of two) 4096 drawn coordinates must hit each of the 4x4 blocks of rows x columns within 8 sigma "
                  "of its area share (false-alarm probability < 1e-10 overall), distinctness and bounds "
                  "always. A restarted instance may be configured with another sample amount and records without "
                  "coordinates may be planted under a block's key (model: MCLight_kchange.cfg; driver: directed cases): the "
                  "verdict available is demanded to rest on >= min(amount of the running instance, area) delivered coordinates. "
                  "Datastore I/O errors and Prune are outside the model. Small-scope: areas 4 and 16, <=3 concurrent callers, 2 normal heights.",
    "design_ref": "DESIGN.md section 5 C03, section 6 #8 #9, section 11",
}

SPEC = "light/MCLight.tla"


def _plain(v):
    """vlib.parse_tla_value result -> plain JSON"""
    if isinstance(v, dict):
        if "#set" in v:
            return [_plain(x) for x in v["#set"]]
        if "#mv" in v:
            return v["#mv"]
        if "#fun" in v:
            return {str(_plain(k)): _plain(x) for k, x in v["#fun"]}
        return {k: _plain(x) for k, x in v.items()}
    if isinstance(v, list):
        return [_plain(x) for x in v]
    return v


def _script_from_hist(name, cls, hist):
    steps = []
    casc = None
    for e in hist:
        e = dict(e)
        if e.get("a") == "ret":
            e["served"] = sorted(e.get("served") or [])
            if e.get("casc") is True:
                casc = True
            elif casc is None:
                casc = False
        steps.append(e)
    return {"name": name, "class": cls, "cascade": casc, "steps": steps}


def _counterexample(ctx, cfg, cls, what):
    """The model of the code as found must violate SameCoords; its counterexample becomes a script."""
    r = ctx.tlc(SPEC, "light/" + cfg, must_pass=False, count=False, workers=4, timeout=300, deadlock=False)
    if r.violated != "SameCoords" or not r.trace:
        ctx.inconclusive("%s: expected a SameCoords counterexample for %s, got violated=%s" % (cfg, what, r.violated))
        return None
    hist = _plain(r.trace[-1][1].get("hist", []))
    sc = _script_from_hist(cls, cls, hist)
    ctx.note("%s: TLC counterexample (%s) of %d states, stimuli: %s" % (cfg, what, len(r.trace), json.dumps(hist)))
    return sc


TRACE_CFG = """SPECIFICATION TraceSpec
CONSTANTS
  TracePath = "%(path)s"
  Coords = {%(coords)s}
  K = %(k)d
  Ks = {}
  Callers = {1, 2, 3}
  Heights = {1, 2, 3, 4}
  NoCaller = 0
  NoHeight = 0
  EmptyHeights = {3}
  OutsideHeights = {4}
  CascadeModes = {FALSE, TRUE}
  PersistOnEmpty = TRUE
  CrashForgiven = TRUE
  MaxCalls = 100000000
  MaxEnv = 100000000
  RecordHist = FALSE
INVARIANTS TypeOK AvailableSound PendingStable SameCoords NoPartialPromotion SessionMutex
POSTCONDITION Accepted
"""


def _validate_traces(ctx, files):
    """TLC on LightTrace.tla, one run per (area, K) file, in parallel."""
    results = {}

    def one(tf):
        cfg = os.path.join(ctx.work, "LightTrace_A%d_K%d.cfg" % (tf["area"], tf["k"]))
        with open(cfg, "w") as f:
            f.write(TRACE_CFG % {"path": tf["path"], "k": tf["k"],
                                 "coords": ", ".join(str(x) for x in range(tf["area"]))})
        wd = os.path.join(ctx.work, "tv_A%d_K%d" % (tf["area"], tf["k"]))
        os.makedirs(wd, exist_ok=True)
        results[tf["path"]] = vlib.run_tlc(os.path.join(vlib.VERIF, "spec", "light", "LightTrace.tla"), cfg, wd,
                                           workers=1, timeout=900, deadlock=False, heap="2g")

    ths = [threading.Thread(target=one, args=(tf,)) for tf in files if tf["lines"] > 0]
    for t in ths:
        t.start()
    for t in ths:
        t.join()
    accepted = 0
    for tf in files:
        r = results.get(tf["path"])
        if r is None:
            continue
        ctx.cov["tlc_runs"].append({"spec": "light/LightTrace.tla", "cfg": "generated A%d K%d" % (tf["area"], tf["k"]),
                                    "generated": r.generated, "distinct": r.distinct, "ok": r.ok, "violated": r.violated,
                                    "wall_s": round(r.wall, 1), "trace_lines": tf["lines"], "scenarios": tf["scenarios"]})
        ctx.cov["states"] += r.distinct
        ctx.cov["transitions"] += r.generated
        ctx.log("trace validation A=%d K=%d: %d scenarios, %d lines, states=%d ok=%s violated=%s wall=%.1fs" % (
            tf["area"], tf["k"], tf["scenarios"], tf["lines"], r.distinct, r.ok, r.violated, r.wall))
        if r.ok and not r.violated:
            accepted += tf["scenarios"]
        elif r.violated == "postcondition":
            stuck = [l for l in r.stdout.splitlines() if "STUCK" in l or l.startswith("   ")][:6]
            ctx.inconclusive("conformance drift: LightTrace.tla cannot match the recorded run %s (%s) -- the code no "
                             "longer behaves like the specification; update spec or driver (log %s)" % (
                                 tf["path"], " ".join(s.strip() for s in stuck)[:400], r.log_path))
        elif r.violated:
            ctx.inconclusive("an invariant (%s) fails on a state matched to the recorded run %s although the monitors "
                             "on the observed behaviour did not fire (log %s)" % (r.violated, tf["path"], r.log_path))
        else:
            ctx.inconclusive("TLC failed on trace %s: %s (log %s)" % (tf["path"], (r.error or "")[:300], r.log_path))
    return accepted


def _selftest(ctx, files):
    """The binding binds: a recorded run with one corrupted field / one removed line must be rejected."""
    src = next((tf for tf in files if tf["area"] == 16 and tf["k"] == 5 and tf["lines"] > 50), None) or files[0]
    lines = open(src["path"]).read().splitlines()
    resets = [i for i, l in enumerate(lines) if '"ev":"reset"' in l]
    lines = lines[:resets[min(12, len(resets) - 1)]] if len(resets) > 1 else lines
    out = {}
    for name in ("corrupt_request", "drop_getter_answer"):
        mod, done = [], False
        for l in lines:
            e = json.loads(l)
            if not done and name == "corrupt_request" and e.get("ev") == "enter" and len(e["coords"]) >= 2:
                free = [x for x in range(src["area"]) if x not in e["coords"]]
                if free:
                    e["coords"] = sorted(e["coords"][1:] + [free[0]])
                    done = True
            elif not done and name == "drop_getter_answer" and e.get("ev") == "ret" and not e.get("len0") and e.get("served"):
                done = True
                continue
            mod.append(json.dumps(e, separators=(",", ":")))
        p = os.path.join(ctx.work, "selftest_%s.ndjson" % name)
        open(p, "w").write("\n".join(mod) + "\n")
        cfg = os.path.join(ctx.work, "selftest_%s.cfg" % name)
        open(cfg, "w").write(TRACE_CFG % {"path": p, "k": src["k"], "coords": ", ".join(str(x) for x in range(src["area"]))})
        wd = os.path.join(ctx.work, "tv_selftest_" + name)
        os.makedirs(wd, exist_ok=True)
        r = vlib.run_tlc(os.path.join(vlib.VERIF, "spec", "light", "LightTrace.tla"), cfg, wd, workers=1, timeout=600,
                         deadlock=False, heap="2g")
        rejected = done and (r.violated is not None or not r.ok)
        out[name] = {"mutated": done, "rejected": rejected}
        ctx.log("selftest %s: mutated=%s rejected=%s (violated=%s)" % (name, done, rejected, r.violated))
        if done and not rejected:
            ctx.inconclusive("selftest: LightTrace.tla accepted a recorded run with %s -- the binding does not bind" % name)
    ctx.cover(selftest=out)


def run(ctx):
    quick = ctx.quick
    ctx.assume("getter contract: GetSamples returns a slice of the requested length (empty samples for misses) or a zero-length slice")
    ctx.assume("restart = Close + new instance over the same datastore; crash = new instance over a snapshot of the underlying map datastore")
    ctx.assume("small scope: extended-square areas 4 and 16, sample amounts 1..16, <=3 concurrent callers, 2 normal heights + empty + outside-window")

    # 1. exhaustive model checking of the repaired design
    cfgs = ["MCLight_quick.cfg"] if quick else ["MCLight_k1.cfg", "MCLight_k2.cfg", "MCLight_k3.cfg", "MCLight_k5.cfg"]
    cfgs.append("MCLight_special.cfg")
    cfgs.append("MCLight_kchange.cfg")
    for c in cfgs:
        r = ctx.tlc(SPEC, "light/" + c, workers=min(16, vlib.NCPU), timeout=1500, deadlock=False, coverage=not quick)
        if r.ok and not quick and c not in ("MCLight_special.cfg", "MCLight_kchange.cfg"):
            # TLC names a sub-action after the innermost or the outermost operator: accept either
            groups = [["Call"], ["StartSession"], ["FindHeld"], ["Wake"], ["WaitAbort"], ["LoadOrDraw", "LoadOrDrawWith"],
                      ["AllDone"], ["GetterEnter"], ["GetterStep", "GetterReturn"], ["ReturnNothing"], ["PersistAndReturn"],
                      ["CancelCtx"], ["Flush"], ["GracefulRestart"], ["Crash"]]
            missing = [g[0] for g in groups if not any(r.coverage.get(a, 0) > 0 for a in g)]
            if missing:
                ctx.inconclusive("vacuity: actions never taken in %s: %s" % (c, missing))
    if not quick:
        ctx.tlc(SPEC, "light/MCLight_live.cfg", workers=min(8, vlib.NCPU), timeout=900, deadlock=False)
    ctx.cover(exhaustive=True)

    # 2. the models of the code as found: counterexamples to be replayed on the real code
    scripts = []
    for cfg, cls, what in (("MCLight_orig.cfg", "cex_orig", "candidate #8: nothing persisted when the getter returns nothing"),
                           ("MCLight_crash.cfg", "cex_crash", "candidate #9: autobatch buffer lost by a crash")):
        sc = _counterexample(ctx, cfg, cls, what)
        if sc:
            scripts.append(sc)

    # 3. behaviours of the model for replay (simulation mode prints the stimuli of finished behaviours)
    nsim = 60 if quick else 600
    r = ctx.tlc(SPEC, "light/MCLight_sim.cfg", workers=4, timeout=600, deadlock=False, count=False,
                simulate="num=%d" % nsim, depth=120)
    behs, prev = [], None
    for b in r.printed.get("BEH", []):
        if prev is not None and len(prev) < len(b) and b[:len(prev)] == prev:
            behs.pop()            # a printed prefix of the same behaviour
        behs.append(b)
        prev = b
    limit = 200 if quick else 2400
    for n, b in enumerate(behs[:limit]):
        scripts.append(_script_from_hist("tlc-%d" % n, "tlc", b))
    ctx.log("TLC behaviours for replay: %d (of %d printed)" % (min(len(behs), limit), len(r.printed.get("BEH", []))))
    if len(behs) < 20:
        ctx.inconclusive("vacuity: TLC simulation produced only %d finished behaviours" % len(behs))
    sp = os.path.join(ctx.work, "light_scripts.json")
    json.dump(scripts, open(sp, "w"))

    # 4. replay on the real code + seeded schedules + distribution monitor
    rep = ctx.go_driver("light", env={"VERIF_SCRIPTS": sp, "VERIF_SEEDED": 200 if quick else 3000,
                                      "VERIF_CEX_REPEAT": 4 if quick else 12}, timeout=1500)
    c = rep.get("counters", {})
    need = ["ev_enter", "re_request", "retry_after_only_nothing", "enter_after_restart", "enter_after_crash",
            "call_while_height_busy", "ret_partial", "ret_len0", "ret_all_served", "ret_kind_cancelled", "ret_kind_deadline",
            "ret_kind_error", "cancelled_call_returned_cancelled", "available_verdicts", "persisted_results_checked",
            "distribution_draws", "steps_applied_cex_orig", "steps_applied_cex_crash", "steps_applied_tlc",
            "steps_applied_directed", "waiter_cancelled", "call_after_cancelled_waiter", "blocked_callers_confirmed_parked", "coverage_widths", "coverage_blocks_checked",
            "verdict_invalid", "restarts_with_other_sample_amount", "planted_records", "scenarios_reconfigured",
            "scenarios_planted",
            "crash_lost_unflushed_result", "verdict_outside"]
    missing = [k for k in need if c.get(k, 0) <= 0]
    if missing and rep.get("summary") is not None and rep.get("counters"):
        ctx.inconclusive("vacuity: the driver never exercised %s" % missing)
    ctx.cover(replayed_behaviours=c.get("scenarios", 0))

    # 5. trace validation of everything the driver recorded
    files = (rep.get("summary") or {}).get("trace_files") or []
    if not files:
        ctx.inconclusive("the driver recorded no trace")
        return
    accepted = _validate_traces(ctx, files)
    ctx.cover(traces_validated_against_impl=accepted)
    if not quick:
        _selftest(ctx, files)
    for tf in files[:2]:
        try:
            with open(tf["path"]) as f:
                lines = [json.loads(next(f)) for _ in range(12)]
            ctx.sample({"trace_file": os.path.basename(tf["path"]), "first_lines": lines})
        except Exception:
            pass
