"""X_limits -- admission control no listed property covers in depth (DESIGN.md section 10).

(a) JSON-RPC server: api/rpc/middleware.go (connLimit, rateLimit + LRU of per-IP token buckets, extractIP),
    the websocket gauge of metrics.go, the order of the layers in server.go   -> spec/limits/RpcLimits.tla
(b) shrex server: share/shwap/p2p/shrex/limits.go (resource-manager limits), rate_limit.go (per-IP token
    buckets, loopback exemption, remoteIP) and the reservation calls around the handler in server.go
                                                                                -> spec/limits/ShrexLimits.tla

Pipeline
 1. TLC, exhaustive, every interleaving of the critical sections (Atomic = FALSE) against all invariants,
    the window observer and the action properties; liveness configurations; defect configurations that
    MUST fail (the invariants notice a non-deferred release, the naive window bound fails with orphans).
 2. TLC, exhaustive, serialised passages (Atomic = TRUE): the whole state graph is printed edge by edge;
    this module folds internal steps into stimulus-level edges and computes a set of paths covering EVERY
    edge; plus seeded `-simulate` behaviours of larger instances.
 3. Go driver harness/drivers/limits: replays every path on the REAL middleware (virtual time through
    testing/synctest, so the real x/time/rate buckets see exact clock values), compares the projected
    state after every stimulus, and evaluates the property monitors on what the real code did.
Only the monitors produce violations; a difference between model and code that no monitor explains is
conformance drift (exit 2).
"""
import collections
import json
import os

import vlib

META = {
    "technique": "TLC exhaustive on spec/limits/RpcLimits.tla and spec/limits/ShrexLimits.tla (all interleavings, window "
                 "observer, liveness, defect configurations that must fail) ; behaviour replay (B2): every edge of the "
                 "serialised state graphs and seeded TLC simulations replayed on the real middleware / the real shrex "
                 "stream handler with the real resource manager, in virtual time ; case enumeration (B3) for extractIP "
                 "and for the limit table of limits.go",
    "level_text": "Model checking of the admission-control state machines (semaphore, per-key token buckets with refill "
                  "as a time action, bounded LRU with eviction, websocket slots, resource-manager scopes and memory "
                  "reservations) for every interleaving of small instances; bound to the code by replaying every "
                  "transition of the serialised models on the real handlers and comparing slots in use, cache order, "
                  "tokens, gauges and scope statistics after every stimulus.",
    "level_note": "Not a listed property (extension, DESIGN.md section 10). Time is virtual (testing/synctest): the real "
                  "rate limiters read the bubble's clock, nothing depends on the wall clock. Interleavings INSIDE a "
                  "request's passage are covered by TLC only; the driver replays serialised passages plus a concurrent "
                  "phase judged by order-independent monitors. An eviction grants the evicted address one fresh burst "
                  "(documented in RateLimitConfig); requests that fetched a limiter before its eviction may still be "
                  "admitted through it (at most one per such request) -- stated in WindowBound, not alarmed. shrex: remote "
                  "addresses that do not start with an IP component are NOT refused (the comment on remoteIP says they are): "
                  "they share one bucket, and a circuit-relay address is limited under its relay's IP -- modelled as the code "
                  "behaves, reported, not alarmed. The directed runs against the limits of limits.go use a configuration in "
                  "which every scope except the shrex ones is unlimited; how libp2p's default peer / system scopes compare is "
                  "recorded in the evidence (shrex_limit_table). Real-network phase (websocket, client disconnect): loopback "
                  "TCP, 'eventually within 60 s' polling, skipped with a note when no socket can be opened.",
    "design_ref": "DESIGN.md section 10",
}

SPEC_RPC = "limits/MCRpcLimits.tla"
SPEC_SH = "limits/MCShrexLimits.tla"


# ----------------------------------------------------------------------------------------------- graph -> paths
def _canon(x):
    return json.dumps(x, sort_keys=True, separators=(",", ":"))


def fold_graph(inits, edges, quiet_of, stim_ops):
    """edges: list of dicts {f,l,o,t,p}.  Returns (init_id, macro) where macro[u] = list of
    (stim_label, outcome, v, proj_v): internal steps after a stimulus are folded into it (serialised
    passages have exactly one continuation)."""
    succ = collections.defaultdict(list)
    for e in edges:
        succ[_canon(e["f"])].append(e)
    macro = {}
    todo = [_canon(i["f"]) for i in inits]
    init_id = todo[0]
    seen = set(todo)
    while todo:
        u = todo.pop()
        outs = []
        for e in succ.get(u, []):
            if e["l"]["op"] not in stim_ops:
                raise ValueError("internal step %s leaves quiescent state" % e["l"])
            out = e["o"]
            cur = e
            n = 0
            while not quiet_of(cur["p"]):
                nxt = succ.get(_canon(cur["t"]), [])
                if len(nxt) != 1:
                    raise ValueError("passage not deterministic after %s: %d continuations" % (e["l"], len(nxt)))
                cur = nxt[0]
                if cur["o"] != "-":
                    out = cur["o"]
                n += 1
                if n > 50:
                    raise ValueError("passage does not end")
            v = _canon(cur["t"])
            outs.append((e["l"], out, v, cur["p"]))
            if v not in seen:
                seen.add(v)
                todo.append(v)
        macro[u] = outs
    return init_id, macro


def cover_paths(init_id, macro, max_len=40):
    """Paths from the initial state that together traverse every macro edge at least once.  Greedy: start
    at the shallowest state that still has an uncovered out-edge, keep taking uncovered edges, hop to the
    nearest state that has one (bounded search), stop at max_len."""
    uncovered = {(u, i) for u, outs in macro.items() for i in range(len(outs))}
    total = len(uncovered)
    left = {u: len(outs) for u, outs in macro.items()}      # uncovered out-edges per state
    paths = []
    par, depth = {init_id: None}, {init_id: 0}
    q = collections.deque([init_id])
    while q:
        u = q.popleft()
        for i, (_, _, v, _) in enumerate(macro[u]):
            if v not in par:
                par[v] = (u, i)
                depth[v] = depth[u] + 1
                q.append(v)

    def route(v):
        r = []
        while par[v] is not None:
            u, i = par[v]
            r.append((u, i))
            v = u
        r.reverse()
        return r

    def take(u, i):
        if (u, i) in uncovered:
            uncovered.discard((u, i))
            left[u] -= 1

    def nearest_uncovered(src, limit):
        seenb = {src: None}
        qq = collections.deque([(src, 0)])
        while qq:
            u, d = qq.popleft()
            if left[u] > 0:
                r = []
                w = u
                while seenb[w] is not None:
                    pu, pi = seenb[w]
                    r.append((pu, pi))
                    w = pu
                r.reverse()
                return r
            if d >= limit:
                continue
            for i, (_, _, v, _) in enumerate(macro[u]):
                if v not in seenb:
                    seenb[v] = (u, i)
                    qq.append((v, d + 1))
        return None

    # (fold_graph only returns reachable states; be robust anyway)
    for (u, i) in [e for e in uncovered if e[0] not in par]:
        take(u, i)
    total = len(uncovered)
    order = sorted(par.keys(), key=lambda u: (depth[u], u))
    oi = 0
    while uncovered:
        while left[order[oi]] == 0:
            oi += 1
        u0 = order[oi]
        path = route(u0)
        for (pu, pi) in path:
            take(pu, pi)
        cur = u0
        while len(path) < max_len + 20:
            pick = None
            if left[cur] > 0:
                for i in range(len(macro[cur])):
                    if (cur, i) in uncovered:
                        pick = i
                        break
            if pick is None:
                if len(path) >= max_len:
                    break
                r = nearest_uncovered(cur, min(6, max_len - len(path)))
                if not r:
                    break
                for (pu, pi) in r:
                    take(pu, pi)
                    path.append((pu, pi))
                cur = macro[r[-1][0]][r[-1][1]][2]
                continue
            take(cur, pick)
            path.append((cur, pick))
            cur = macro[cur][pick][2]
        paths.append([{"l": macro[u][i][0], "o": macro[u][i][1], "p": macro[u][i][3]} for (u, i) in path])
    return paths, total


def fold_behaviour(hist, quiet_of, stim_ops):
    """A simulated behaviour (list of {l,o,p} per micro step) -> stimulus-level steps; an unfinished
    passage at the end is dropped."""
    steps = []
    cur = None
    for h in hist:
        if h["l"]["op"] in stim_ops:
            cur = {"l": h["l"], "o": h["o"], "p": h["p"]}
        elif cur is not None:
            if h["o"] != "-":
                cur["o"] = h["o"]
            cur["p"] = h["p"]
        if cur is not None and quiet_of(cur["p"]):
            steps.append(cur)
            cur = None
    return steps


def write_cfg(ctx, name, consts, body):
    lines = ["CONSTANTS"] + [("  %s <- %s" % (k, v[2:].strip())) if isinstance(v, str) and v.startswith("<-") else ("  %s = %s" % (k, v))
                             for k, v in consts.items()] + body
    p = os.path.join(ctx.work, name + ".cfg")
    open(p, "w").write("\n".join(lines) + "\n")
    return p


def tla_set(xs):
    return "{" + ", ".join('"%s"' % x if isinstance(x, str) else str(x) for x in xs) + "}"


# ----------------------------------------------------------------------------------------------- TLC jobs
class Job:
    """One TLC run; jobs of both specifications run in a small thread pool (JVM start-up dominates the
    small configurations)."""

    def __init__(self, key, spec, name, consts, body, kind="check", expect=None, **kw):
        self.key, self.spec, self.name, self.consts, self.body = key, spec, name, consts, body
        self.kind, self.expect, self.kw = kind, expect, kw
        self.res = None


def run_jobs(ctx, jobs, pool=4):
    import concurrent.futures as cf

    def one(j):
        cfg = write_cfg(ctx, j.name, j.consts, j.body)
        kw = dict(j.kw)
        if j.kind == "sim":
            j.simdir = os.path.join(ctx.work, j.name + "_traces")
            os.makedirs(j.simdir, exist_ok=True)
            kw["simulate"] = "file=%s/b,num=%d" % (j.simdir, kw.pop("num"))
        j.res = ctx.tlc(j.spec, cfg, must_pass=(j.expect is None), **kw)
        return j

    with cf.ThreadPoolExecutor(max_workers=pool) as ex:
        list(ex.map(one, jobs))
    for j in jobs:
        if j.expect is not None:
            if j.res.violated != j.expect:
                ctx.inconclusive("model sensitivity lost: %s should violate %s (ok=%s violated=%s)" % (
                    j.name, j.expect, j.res.ok, j.res.violated))
            else:
                ctx.cover(model_defect_configs_violated=1)
    return {j.name: j for j in jobs}


def sim_behaviours(ctx, j):
    out = []
    for fn in sorted(os.listdir(j.simdir)):
        txt = open(os.path.join(j.simdir, fn)).read()
        last = txt.split("STATE_")[-1]
        last = last[last.index("==") + 2:].split("=====")[0]
        try:
            out.append(vlib.parse_tla_state(last)["hist"])
        except Exception as ex:
            ctx.note("cannot parse simulated behaviour %s: %s" % (fn, ex))
    return out


# ----------------------------------------------------------------------------------------------- RPC
RPC_SAFETY = "TypeOK ConnBound SlotsMatchHandlers WsGaugeExact QuiescentFree CacheBound LimitersSound EvictionNeedsDistinctKeys"
RPC_STIM = ("arrive", "finish", "tick")
MC = ["INIT MCInit", "VIEW View", "CHECK_DEADLOCK FALSE"]


def rpc_consts(**kw):
    c = dict(Keys=tla_set(["a", "b", "c"]), Reqs=tla_set([1, 2, 3]), Kinds=tla_set(["plain", "ws"]), CacheSize=2, Burst=2,
             Rate=1, MaxConns=2, RateOn="TRUE", Atomic="TRUE", DeferRelease="TRUE", WatchTime=0, WatchEvict=0)
    c.update(kw)
    return c


def rpc_plan(name, consts, paths):
    return {"name": name, "cacheSize": int(consts["CacheSize"]), "burst": int(consts["Burst"]), "rate": int(consts["Rate"]),
            "maxConns": int(consts["MaxConns"]), "rateOn": consts["RateOn"] == "TRUE", "paths": paths}


def rpc_jobs(ctx):
    quick = ctx.quick
    two = tla_set(["a", "b"])
    plain = tla_set(["plain"])
    J = []
    T = 1500 if quick else 3600
    # ---- every interleaving of the critical sections
    J.append(Job("full", SPEC_RPC, "rpc_full_nowatch", rpc_consts(Keys=two, CacheSize=1, Burst=1, Atomic="FALSE"),
                 MC + ["NEXT MCNextNoWatch", "INVARIANTS " + RPC_SAFETY, "PROPERTIES KeysIndependent TokensOnlyRefillByTime"],
                 workers=4, timeout=T, coverage=not quick))
    J.append(Job("full", SPEC_RPC, "rpc_full_watch",
                 rpc_consts(Keys=two, Reqs=tla_set([1, 2]), Kinds=plain, CacheSize=1, Burst=1, MaxConns=1, Atomic="FALSE",
                            WatchTime=2, WatchEvict=2),
                 MC + ["NEXT MCNext", "INVARIANTS " + RPC_SAFETY + " WindowBound"], workers=4, timeout=T))
    if not quick:
        J.append(Job("full", SPEC_RPC, "rpc_full_watch3",
                     rpc_consts(Keys=two, Kinds=plain, CacheSize=1, Burst=1, Atomic="FALSE", WatchTime=2, WatchEvict=1),
                     MC + ["NEXT MCNext", "INVARIANTS " + RPC_SAFETY + " WindowBound",
                           "PROPERTIES KeysIndependent TokensOnlyRefillByTime"], workers=6, timeout=T))
        J.append(Job("full", SPEC_RPC, "rpc_full_3keys",
                     rpc_consts(Reqs=tla_set([1, 2]), Kinds=plain, MaxConns=1, Burst=1, Atomic="FALSE", WatchTime=2, WatchEvict=1),
                     MC + ["NEXT MCNext", "INVARIANTS " + RPC_SAFETY + " WindowBound"], workers=6, timeout=T))
    # ---- liveness
    if True:
      J.append(Job("live", SPEC_RPC, "rpc_live",
                 rpc_consts(Keys=two, Reqs=tla_set([1, 2]), CacheSize=1, Burst=1, MaxConns=1, Atomic="FALSE"),
                 ["SPECIFICATION MCFairSpecNoWatch", "VIEW View", "PROPERTIES SlotsComeBack PassageEnds BucketsRefill",
                  "CHECK_DEADLOCK FALSE"], workers=2, timeout=T, count=False))
    # ---- defect configurations: the model must notice
    if not quick:
      J.append(Job("defect", SPEC_RPC, "rpc_defect_nodefer",
                 rpc_consts(Keys=tla_set(["a"]), Reqs=tla_set([1, 2]), CacheSize=1, Burst=1, DeferRelease="FALSE", Atomic="FALSE"),
                 MC + ["NEXT MCNextNoWatch", "INVARIANTS SlotsMatchHandlers"], expect="SlotsMatchHandlers", workers=2, timeout=T,
                 count=False))
    if not quick:
        J.append(Job("defect", SPEC_RPC, "rpc_defect_naive_window",
                     rpc_consts(Keys=two, CacheSize=1, Burst=1, Kinds=plain, Atomic="FALSE", WatchTime=1, WatchEvict=1),
                     MC + ["NEXT MCNext", "INVARIANTS NaiveWindowBound"], expect="NaiveWindowBound", workers=2, timeout=T, count=False))
        # ... while it does hold for serialised passages
        J.append(Job("full", SPEC_RPC, "rpc_atomic_naive_window",
                     rpc_consts(Keys=two, CacheSize=1, Burst=1, Kinds=plain, WatchTime=2, WatchEvict=2),
                     MC + ["NEXT MCNext", "INVARIANTS NaiveWindowBound NoStaleWhenAtomic WindowBound"], workers=2, timeout=T, count=False))
    # ---- serialised state graphs, every edge replayed
    replay = [("rpc_replay_a", rpc_consts())]
    if not quick:
        replay.append(("rpc_replay_r0", rpc_consts(Keys=two, CacheSize=1, Burst=1, Rate=0, MaxConns=1, Reqs=tla_set([1, 2]))))
        replay.append(("rpc_replay_norate", rpc_consts(Keys=tla_set(["a"]), RateOn="FALSE", MaxConns=2)))
        replay.append(("rpc_replay_b", rpc_consts(Keys=tla_set(list("abcd")), CacheSize=3, Burst=1, Rate=1, MaxConns=1,
                                                  Reqs=tla_set([1, 2]))))
        replay.append(("rpc_replay_c", rpc_consts(Keys=two, CacheSize=1, Burst=3, Rate=2, MaxConns=3, Reqs=tla_set([1, 2, 3, 4]))))
    for name, consts in replay:
        J.append(Job("replay", SPEC_RPC, name, consts,
                     ["INIT MCInit", "NEXT MCNextNoWatch", "VIEW ViewReplay", "ACTION_CONSTRAINT EdgeOut",
                      "INVARIANTS " + RPC_SAFETY + " InitOut ExtractOut", "CHECK_DEADLOCK FALSE"], workers=1, timeout=T))
    # ---- seeded simulations of larger instances
    nsim = 80 if quick else 1200
    sims = [rpc_consts(Keys=tla_set(list("abcd")), CacheSize=3, Burst=3, Rate=2, MaxConns=3, Reqs=tla_set(range(1, 6)))]
    if not quick:
        sims.append(rpc_consts(Keys=tla_set(list("abcdef")), CacheSize=4, Burst=2, Rate=1, MaxConns=2, Reqs=tla_set(range(1, 5))))
    for i, consts in enumerate(sims):
        J.append(Job("sim", SPEC_RPC, "rpc_sim%d" % i, consts,
                     ["INIT MCInit", "NEXT MCSimNext", "INVARIANTS TypeOK", "CHECK_DEADLOCK FALSE"], kind="sim",
                     workers=1, num=nsim // len(sims), depth=50, seed=ctx.seed + i, timeout=T, count=False))
    return J


def rpc_plans(ctx, done):
    plans, xcases = [], []
    quiet = lambda p: p["quiet"]
    for name, j in done.items():
        if j.spec != SPEC_RPC:
            continue
        r = j.res
        if j.key == "full" and name == "rpc_full_nowatch" and r.ok:
            ctx.cover(exhaustive=True)
            if not ctx.quick:
                ctx.require_coverage(r, ["MCArrive", "MCCacheGet", "MCCacheAdd", "MCAllow", "MCAcquire", "MCFinish", "MCTick"])
        if j.key == "replay" and r.ok:
            try:
                init_id, macro = fold_graph(r.printed.get("INIT", []), r.printed.get("EDGE", []), quiet, RPC_STIM)
                paths, total = cover_paths(init_id, macro)
            except ValueError as ex:
                ctx.inconclusive("cannot fold the state graph of %s: %s" % (name, ex))
                continue
            plans.append(rpc_plan(name, j.consts, paths))
            ctx.cover(rpc_graph_edges=total, rpc_cover_paths=len(paths))
            ctx.log("%s: %d stimulus-level edges, %d states, %d covering paths, %d steps" % (
                name, total, len(macro), len(paths), sum(len(p) for p in paths)))
            xcases = r.printed.get("XCASE", xcases)
        if j.kind == "sim":
            behs = [fold_behaviour(h, quiet, RPC_STIM) for h in sim_behaviours(ctx, j)]
            behs = [b for b in behs if b]
            if not behs:
                ctx.inconclusive("simulation %s produced no behaviours (log %s)" % (name, r.log_path))
                continue
            plans.append(rpc_plan(name, j.consts, behs))
            ctx.cover(rpc_sim_behaviours=len(behs))
    return plans, xcases


# ----------------------------------------------------------------------------------------------- shrex
SH_SAFETY = "TypeOK CountersExact MemoryExact WithinLimits QuiescentFree ExpiryGrantsNothing BucketKeptWhileNotFull"
SH_STIM = ("open", "handle", "store", "finish", "remotereset", "tick")


def sh_consts(**kw):
    c = dict(Peers=tla_set([1, 2]), Protos=tla_set([1, 2]), Streams=tla_set([1, 2, 3]),
             PeerIP="<- MCPeerIP", Need="<- MCNeed", ProtoLim="<- MCProtoLim", ProtoPeerLim="<- MCProtoPeerLim",
             IP1='"x"', IP2='"y"', IP3='"lo"', IP4='"none"', Need1=4, Need2=1, ProtoLim1=2, ProtoLim2=3, ProtoPeerLim1=1,
             ProtoPeerLim2=2, SvcLim=3, SvcPeerLim=2, SvcMem=5, SvcPeerMem=4, Burst=2, Rate=1, Grace=1, RateOn="TRUE",
             Atomic="TRUE", CloseOnLimit="TRUE", WatchTime=0, Hows=tla_set(["served", "failed", "panicked"]))
    c.update(kw)
    return c


def sh_plan(name, c, paths):
    npeers = c["Peers"].count(",") + 1
    nprotos = c["Protos"].count(",") + 1
    return {"name": name, "ips": [c["IP%d" % i].strip('"') for i in range(1, npeers + 1)],
            "need": [int(c["Need%d" % i]) for i in range(1, nprotos + 1)],
            "protoLim": [int(c["ProtoLim%d" % i]) for i in range(1, nprotos + 1)],
            "protoPeerLim": [int(c["ProtoPeerLim%d" % i]) for i in range(1, nprotos + 1)],
            "svcLim": int(c["SvcLim"]), "svcPeerLim": int(c["SvcPeerLim"]), "svcMem": int(c["SvcMem"]),
            "svcPeerMem": int(c["SvcPeerMem"]), "burst": int(c["Burst"]), "rate": int(c["Rate"]), "rateOn": c["RateOn"] == "TRUE",
            "paths": paths}


BIG = dict(Need1=4, ProtoLim1=9, ProtoPeerLim1=9, SvcLim=9, SvcPeerLim=9, SvcMem=99, SvcPeerMem=99)


def sh_jobs(ctx):
    quick = ctx.quick
    T = 1500 if quick else 3600
    J = []
    one = tla_set([1])
    # ---- every interleaving
    J.append(Job("full", SPEC_SH, "sh_full_scopes", sh_consts(Atomic="FALSE", RateOn="FALSE", Streams=tla_set([1, 2, 3])),
                 MC + ["NEXT MCNextNoWatch", "INVARIANTS " + SH_SAFETY, "PROPERTIES RefusedStreamEnds"], workers=4, timeout=T,
                 coverage=not quick))
    J.append(Job("full", SPEC_SH, "sh_full_rate",
                 sh_consts(Atomic="FALSE", Peers=tla_set([1, 2, 3]), IP1='"x"', IP2='"x"', IP3='"y"', Protos=one, Streams=tla_set([1, 2]),
                           WatchTime=3, **BIG),
                 MC + ["NEXT MCNext", "INVARIANTS " + SH_SAFETY + " WindowBound",
                       "PROPERTIES AddressesIndependent RefusedStreamEnds"], workers=4, timeout=T))
    if not quick:
        J.append(Job("full", SPEC_SH, "sh_full_all",
                     sh_consts(Atomic="FALSE", Peers=tla_set([1, 2, 3]), IP1='"x"', IP2='"x"', IP3='"lo"', WatchTime=2),
                     MC + ["NEXT MCNext", "INVARIANTS " + SH_SAFETY + " WindowBound",
                           "PROPERTIES AddressesIndependent RefusedStreamEnds"], workers=6, timeout=T))
    # ---- liveness
    if True:
      J.append(Job("live", SPEC_SH, "sh_live", sh_consts(Atomic="FALSE", Streams=tla_set([1, 2]), Protos=one, SvcLim=1, SvcMem=4),
                 ["SPECIFICATION MCFairSpecNoWatch", "VIEW View", "PROPERTIES StreamsEnd ServiceSlotsComeBack", "CHECK_DEADLOCK FALSE"],
                 workers=2, timeout=T, count=False))
    # ---- defect configuration: a refused stream that is not reset keeps its counters
    if not quick:
      J.append(Job("defect", SPEC_SH, "sh_defect_noclose", sh_consts(Atomic="FALSE", CloseOnLimit="FALSE", Streams=tla_set([1, 2]), SvcLim=1),
                 MC + ["NEXT MCNextNoWatch", "INVARIANTS CountersExact"], expect="CountersExact", workers=2, timeout=T, count=False))
    # ---- serialised state graphs
    replay = [("sh_replay_scope", sh_consts(RateOn="FALSE", Hows=tla_set(["served", "panicked"]) if quick else tla_set(["served", "failed", "panicked"]))),
              ("sh_replay_rate", sh_consts(Peers=tla_set([1, 2, 3]), IP1='"x"', IP2='"x"', IP3='"lo"', Protos=one, Streams=tla_set([1, 2]), **BIG))]
    # service limit and rate limit together (which of the two a refused stream has paid for)
    replay.append(("sh_replay_mix", sh_consts(IP1='"x"', IP2='"x"', Protos=one, Streams=tla_set([1, 2, 3]),
                                              **dict(BIG, SvcLim=1, SvcPeerLim=1))))
    if not quick:
        replay.append(("sh_replay_all", sh_consts(Peers=tla_set([1, 2, 3]), IP1='"x"', IP2='"x"', IP3='"lo"')))
        replay.append(("sh_replay_none", sh_consts(Peers=tla_set([1, 2, 3]), IP1='"x"', IP2='"y"', IP3='"none"', Protos=one, Burst=1,
                                                   Streams=tla_set([1, 2]), **BIG)))
    for name, consts in replay:
        J.append(Job("replay", SPEC_SH, name, consts,
                     ["INIT MCInit", "NEXT MCNextNoWatch", "VIEW ViewReplay", "ACTION_CONSTRAINT EdgeOut",
                      "INVARIANTS " + SH_SAFETY + " InitOut AddrOut", "CHECK_DEADLOCK FALSE"], workers=1, timeout=T))
    # ---- seeded simulation of a larger instance
    J.append(Job("sim", SPEC_SH, "sh_sim0",
                 sh_consts(Peers=tla_set([1, 2, 3, 4]), IP1='"x"', IP2='"x"', IP3='"y"', IP4='"lo"', Streams=tla_set(range(1, 7)),
                           ProtoLim1=3, ProtoLim2=5, ProtoPeerLim1=2, ProtoPeerLim2=3, SvcLim=5, SvcPeerLim=3, SvcMem=9, SvcPeerMem=6,
                           Burst=3, Rate=2),
                 ["INIT MCInit", "NEXT MCSimNext", "INVARIANTS TypeOK", "CHECK_DEADLOCK FALSE"], kind="sim", workers=1,
                 num=60 if quick else 1000, depth=50, seed=ctx.seed + 7, timeout=T, count=False))
    return J


def sh_plans(ctx, done):
    plans, acases = [], []
    quiet = lambda p: p["quiet"]
    for name, j in done.items():
        if j.spec != SPEC_SH:
            continue
        r = j.res
        if name == "sh_full_scopes" and r.ok and not ctx.quick:
            ctx.require_coverage(r, ["MCOpen", "MCHandle", "MCSetService", "MCRateCheck", "MCStoreAnswers", "MCReserve", "MCFinish",
                                     "MCRemoteReset"])
        if j.key == "replay" and r.ok:
            try:
                init_id, macro = fold_graph(r.printed.get("INIT", []), r.printed.get("EDGE", []), quiet, SH_STIM)
                paths, total = cover_paths(init_id, macro)
            except ValueError as ex:
                ctx.inconclusive("cannot fold the state graph of %s: %s" % (name, ex))
                continue
            plans.append(sh_plan(name, j.consts, paths))
            ctx.cover(shrex_graph_edges=total, shrex_cover_paths=len(paths))
            ctx.log("%s: %d stimulus-level edges, %d states, %d covering paths, %d steps" % (
                name, total, len(macro), len(paths), sum(len(p) for p in paths)))
            acases = r.printed.get("ACASE", acases)
        if j.kind == "sim":
            behs = [fold_behaviour(h, quiet, SH_STIM) for h in sim_behaviours(ctx, j)]
            behs = [b for b in behs if b]
            if not behs:
                ctx.inconclusive("simulation %s produced no behaviours (log %s)" % (name, r.log_path))
                continue
            plans.append(sh_plan(name, j.consts, behs))
            ctx.cover(shrex_sim_behaviours=len(behs))
    return plans, acases


# ----------------------------------------------------------------------------------------------- entry
def run(ctx):
    ctx.assume("small scope: <= 4 addresses, <= 4 requests inside the server at once, bucket <= 3, time in whole refill units")
    ctx.assume("x/time/rate, golang-lru and the libp2p resource manager are exercised as shipped (versions of /repo/go.mod)")
    only = os.environ.get("VERIF_LIMITS_ONLY", "")      # development aid: "rpc" | "shrex"
    jobs = (rpc_jobs(ctx) if only != "shrex" else []) + (sh_jobs(ctx) if only != "rpc" else [])
    if os.environ.get("VERIF_LIMITS_SKIP_MODELS"):      # development aid (sensitivity runs): replay graphs and simulations only
        jobs = [j for j in jobs if j.key == "replay" or j.kind == "sim"]
    done = run_jobs(ctx, jobs, pool=6)
    plans, xcases = rpc_plans(ctx, done)
    splans, acases = sh_plans(ctx, done)
    if not plans and not splans:
        ctx.inconclusive("no replay plan could be generated")
        return
    plan_path = os.path.join(ctx.work, "rpc_plans.json")
    json.dump({"plans": plans, "xcases": xcases}, open(plan_path, "w"))
    splan_path = os.path.join(ctx.work, "shrex_plans.json")
    json.dump({"plans": splans, "acases": acases}, open(splan_path, "w"))
    rep = ctx.go_driver("limits", env={"VERIF_RPC_PLANS": plan_path, "VERIF_SHREX_PLANS": splan_path},
                        timeout=900 if ctx.quick else 3000)
    cnt = rep.get("counters") or {}
    summ = rep.get("summary") or {}
    ctx.cover(evaluations=int(cnt.get("rpc_steps", 0)) + int(cnt.get("shrex_steps", 0)),
              traces_validated_against_impl=int(cnt.get("rpc_paths_conform", 0)) + int(cnt.get("shrex_paths_conform", 0)))
    ctx.cover(distinct_nontrivial=int(ctx.cov.get("rpc_graph_edges", 0)) + int(ctx.cov.get("shrex_graph_edges", 0)),
              rule="one evaluation = one stimulus applied to the real middleware / stream handler and compared with the model; "
                   "distinct = transitions (stimulus-level edges) of the serialised state graphs, each replayed at least once")
    if not summ:
        return
    need_rpc = {"rpc_steps": 1000, "rpc_admitted": 100, "rpc_429": 50, "rpc_503": 50, "rpc_finish_returned": 50,
                "rpc_finish_panicked": 50, "rpc_finish_cancelled": 50, "rpc_ws_admitted": 50, "rpc_evictions_seen": 20,
                "rpc_ticks": 50, "rpc_refill_admissions": 10, "rpc_extract_cases": 16, "rpc_real_stack_directed_ok": 1}
    if not summ.get("rpc_real_network_skipped"):
        need_rpc.update({"rpc_real_ws_closed_slot_back": 1, "rpc_real_disconnect_slot_back": 1})
    else:
        ctx.note("real-network phase skipped (no loopback TCP?): %s" % summ["rpc_real_network_skipped"])
    need_sh = {"shrex_steps": 1000, "shrex_refused-protocol": 10, "shrex_refused-service": 10, "shrex_refused-memory": 10,
               "shrex_rate-limited": 10, "shrex_finish_served": 10, "shrex_finish_panicked": 10, "shrex_closed": 10,
               "shrex_refill_admissions": 5, "shrex_addr_cases": 10, "shrex_addr_pairs": 10, "shrex_directed_runs_ok": 5,
               "shrex_limit_table_checks": 5}
    need = dict(need_rpc if only != "shrex" else {})
    need.update(need_sh if only != "rpc" else {})
    if rep.get("violations"):
        need = {}      # a violation stops the driver early
    low = {k: cnt.get(k, 0) for k, v in need.items() if cnt.get(k, 0) < v}
    if low:
        ctx.inconclusive("vacuity: the driver did not exercise enough of: %s" % low)
    for k in ("shrex_limit_table", "shrex_outbound_probe", "shrex_max_response_bytes"):
        if summ.get(k) is not None:
            ctx.cover(**{k: summ[k]})
    if cnt.get("rpc_paths_conform", 0) < cnt.get("rpc_paths", 0) and not rep.get("violations") and not rep.get("inconclusive"):
        ctx.inconclusive("some paths did not conform but no reason was recorded")
