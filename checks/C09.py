"""C09 -- the shrex server serves exactly what is asked and survives anything it is sent.

TLC checks spec/shrex/ShrexServer.tla (the stream handler as a state machine over request classes x
injected environment faults) and prints the expected observable outcome of every (class, fault)
state.  harness/drivers/shrexserver runs the REAL shrex.Server / shrex.Client over a mock network,
with monitoring wrappers (host, stream, resource scope, connection, store, accessor) written against
the public interfaces: for squares of width 1, 2, 4 every sample / row / namespace / range / the whole
square is requested and the decoded reply must verify and equal the reference; every state of the
specification is materialised as raw bytes (every field at bound, bound+1, max; every wrong length;
invalid namespaces; from >= to; huge reservations; random bytes) under every injected fault; a last
phase repeats, over two real libp2p hosts on loopback TCP with the bridge's resource-manager limits,
what a mock network cannot show (a requester that goes silent, a reservation the real resource manager
refuses); requests also overlap in time (a slow requester's handler is held at its first write while
another request is served; and, network-free, response readers are prepared A, B and then A is read);
after each hostile request a normal one must still be served; accessor open/close and memory
reserve/release are balanced per run; every handler run's call sequence is validated by TLC against
the specification (ShrexTrace.tla).
"""
import json
import os

META = {
    "technique": "TLC exhaustive on spec/shrex/ShrexServer.tla (+ three defect configurations that must fail) ; case "
                 "enumeration of every (request class, fault) state against the real shrex.Server/Client over a mock "
                 "network (B3) ; trace validation of every handler run against spec/shrex/ShrexTrace.tla (B1)",
    "level_text": "Model checking of the handler state machine for all request classes and environment faults (status "
                  "mapping, accessor and memory balance on every path incl. panics, termination), bound to the code by "
                  "(a) requesting EVERY servable sample, row, namespace (present / absent), range and the whole square of "
                  "stored squares of width 1, 2, 4 and checking the decoded reply with the real verifiers and against the "
                  "reference square, (b) sending every malformed / out-of-bounds class of the lattice as raw bytes under "
                  "every injectable fault and comparing what the requester sees with the specification, (c) validating "
                  "the ordered calls of every one of the handler runs (thousands) against the specification with TLC.",
    "level_note": "Most runs use libp2p mocknet (stream deadlines are no-ops there and reset codes are invisible to the "
                  "requester; the resource scope is the harness' with 512 MiB per reservation; the rate limiter is the "
                  "real one, drained from one address). Silent requesters and the real resource manager's refusal are "
                  "exercised in a short phase over real loopback TCP hosts (skipped with a note if loopback sockets are "
                  "unavailable). A request with surplus bytes after a valid identifier is served "
                  "as that identifier (the surplus is never read) and is not counted as malformed. A range over "
                  "several namespaces is answered INTERNAL (the builder refuses it) and is treated as not servable. "
                  "Panics caught by the recovery middleware with accessor closed and memory released satisfy the "
                  "property. Random byte strings are sampled (300 quick / 10000 thorough), not exhaustive. Width 8 "
                  "(thorough tier): a seeded sample of 250 requests per square. Blocks are served from files (store "
                  "reopened after the puts): ODS+Q4 files, one ODS-only file, the empty block.",
    "design_ref": "DESIGN.md §5 C09",
}


def run(ctx):
    quick = ctx.quick
    ctx.assume("the stored squares are honest (produced by rsmt2d from seeded shares); ideal status of the store")
    ctx.assume("small scope: squares of width 1,2,4 swept exhaustively; at most two requests in flight at a time (staged overlap, one scheduler thread)")

    r = ctx.tlc("shrex/MCShrexServer.tla", "shrex/MCShrex.cfg", workers=4, timeout=600, coverage=not quick)
    cases = r.printed.get("CASE", [])
    if not cases:
        ctx.inconclusive("ShrexServer.tla printed no cases")
        return
    if not quick and r.ok:
        ctx.require_coverage(r, ["Start", "SetService", "RateLimit", "ResetLimit", "ReadRequest", "Validate", "OpenAccessor",
                                 "Size", "ReserveMemory", "BuildResponse", "Respond", "CopyPayload", "Unwind", "Finish", "Recover"])
    ctx.tlc("shrex/MCShrexServer.tla", "shrex/MCShrex_live.cfg", workers=2, timeout=600, count=False)
    # the specification must notice a missing recovery middleware and non-deferred cleanup
    for cfg, inv in (("MCShrex_norecovery", "NoCrash"), ("MCShrex_leak", "AccessorBalanced"), ("MCShrex_leakmem", "MemoryBalanced")):
        if quick and cfg != "MCShrex_leak":
            continue
        d = ctx.tlc("shrex/MCShrexServer.tla", "shrex/%s.cfg" % cfg, workers=2, timeout=300, must_pass=False, count=False)
        if d.violated != inv:
            ctx.inconclusive("model sensitivity lost: %s should violate %s (ok=%s violated=%s)" % (cfg, inv, d.ok, d.violated))
        else:
            ctx.cover(model_defect_configs_violated=1)

    cases_path = os.path.join(ctx.work, "cases.json")
    json.dump(cases, open(cases_path, "w"))
    ctx.cover(model_cases=len(cases))

    rep = ctx.go_driver("shrexserver", env={"VERIF_CASES": cases_path, "VERIF_GARBAGE": 300 if quick else 10000},
                        timeout=1500 if quick else 5400)
    cnt = rep.get("counters", {})
    summ = rep.get("summary", {})
    ctx.cover(evaluations=cnt.get("runs", 0))
    need = {"aliasing_pairs": 500, "overlapping_requests": 100, "runs_sweep": 400, "runs_lattice": 500, "runs_garbage": 100, "replies_verified": 300, "client_gets_verified": 30,
            "probes_ok": 300, "wire_OK": 300, "wire_NOT_FOUND": 50, "wire_INTERNAL": 50, "wire_none": 100,
            "runs_fault_openpanic": 10, "runs_fault_buildpanic": 10, "runs_fault_reserve": 10, "runs_fault_ratelimit": 10,
            "runs_fault_copyerr": 10, "runs_fault_statuswrite": 10, "runs_fault_sizeerr": 10, "runs_fault_openerr": 10,
            "runs_fault_builderr": 10, "runs_fault_setservice": 10,
            "runs_type_eds": 20, "runs_type_row": 50, "runs_type_sample": 100, "runs_type_nd": 50, "runs_type_range": 100}
    low = {k: cnt.get(k, 0) for k, v in need.items() if cnt.get(k, 0) < v}
    if low and summ:
        ctx.inconclusive("vacuity: the driver did not exercise enough of: %s" % low)
    if summ.get("real_transport_skipped"):
        ctx.note("real-transport phase skipped (no loopback TCP?): %s" % summ["real_transport_skipped"])
    elif summ and (cnt.get("real_transport_normal_ok", 0) < 3 or cnt.get("real_transport_silent_requester_ended", 0) < 2
                   or cnt.get("real_transport_reservation_refused_with_limit_code", 0)
                   + cnt.get("real_transport_reservation_refused_other_reset", 0) < 1):
        if not rep.get("violations"):
            ctx.inconclusive("vacuity: the real-transport phase did not complete: %s" % {k: v for k, v in cnt.items() if k.startswith("real_")})
    if cnt.get("unplanned_runs", 0):
        ctx.note("%d handler runs were not planned by the driver" % cnt["unplanned_runs"])

    trace = summ.get("trace")
    if not trace or not os.path.exists(trace):
        ctx.inconclusive("driver wrote no trace")
        return
    lines = [json.loads(l) for l in open(trace) if l.strip()]
    os.environ["VERIF_TRACE"] = trace
    t = ctx.tlc("shrex/MCShrexTrace.tla", "shrex/ShrexTrace.cfg", workers=1, timeout=1200 if quick else 3600, deadlock=False)
    tr = (t.printed.get("TRACES") or [{}])[0]
    rej = (t.printed.get("REJECTED") or [[]])[0]
    if not t.ok or "runs" not in tr:
        if not t.error and not t.violated:
            ctx.inconclusive("trace validation gave no verdict")
        return
    ctx.cover(traces_validated_against_impl=tr.get("accepted", 0), traces_rejected=len(rej), trace_lines=len(lines))
    violated_ids = set()
    for v in rep.get("violations", []):
        rp = v.get("replay") or {}
        if isinstance(rp, dict) and rp.get("run"):
            violated_ids.add(rp["run"])
    shown = 0
    for idx in rej:
        l = lines[idx - 1]
        if l.get("id") in violated_ids:
            continue
        if shown < 5:
            ctx.inconclusive("conformance drift: handler run is not a behaviour of ShrexServer.tla: %s" % json.dumps(l)[:1500])
        shown += 1
    if rej and shown == 0:
        ctx.note("%d rejected handler runs all belong to violations reported by the oracle" % len(rej))
    for l in lines[:1] + lines[len(lines) // 2:len(lines) // 2 + 1] + lines[-1:]:
        ctx.sample(l)
