"""C14 -- pruning removes only data older than the availability window, and all of it.

spec/pruner/Pruner.tla (TLC, exhaustive + liveness + simulation) bound to the real pruner.Service by
behaviour replay (harness/drivers/pruner).  See DESIGN.md section 5 "C14".
"""
import json
import os

import vlib

META = {
    "technique": "TLC exhaustive + liveness on spec/pruner/Pruner.tla (transcription of pruner.Service: "
                 "lastPruned/tail clamp, retryFailed, findPruneableHeaders, batch loop, pruneOnHeaderDelete, "
                 "Stop/Start, Stop during the retry pass, ResetCheckpoint, header-store read failures) and behaviour replay (B2) of TLC-generated behaviours into the real "
                 "pruner.Service with property monitors on the observed Prune calls / checkpoints; store effect on a "
                 "real store.Store through full.ShareAvailability.Prune; light.ShareAvailability.Prune (real sampling through "
                 "the real bitswap.Getter into a blockstore) under DeleteBlock failures at every position, retried until nil",
    "level_text": "Every behaviour of the model over all non-decreasing chains of <= 4 (quick) / 5 (thorough) headers, "
                  "windows, block-time estimates, batch caps 2..3, every pattern of Prune failures, bounded header-store read failures, restarts, Stop in the retry pass, header "
                  "deletions interleaved at the lock boundaries and the archival->pruned conversion satisfies "
                  "NeverInsideWindow, CheckpointMonotone, FailedKept, ArchivalKeepsODS, AllOldPruned (safety form at every cycle "
                  "end, and as leads-to under fairness) and CycleTerminates; several hundred (thousands: thorough) "
                  "longer behaviours (6 headers) are replayed step by step into the real Service, which must follow "
                  "the model exactly (calls, checkpoint in memory and in the datastore) while monitors check the "
                  "property on what was observed.",
    "level_note": "PrunerFine.tla: every Prune call succeeds (failure patterns stay with Pruner.tla); cap 1 with the cursor on "
                  "genesis is excluded (the genesis header alone is a full batch for ever; the cap is a package constant); "
                  "'everything old is pruned at cycle end' is measured from the head the cycle's last finder call read -- "
                  "blocks that became old because the head grew under the finder are owed to the next cycle (liveness "
                  "AllOldPruned, thorough); a tail deletion under a running cycle waits for checkpointMu (the driver "
                  "reports a tail that moves under a cycle as drift). Small-scope: chains <= 6 headers, caps 2..3 (cap 1 is degenerate: the genesis header alone is a "
                  "full batch for ever; production uses 512). Inside the window = time > head time - window (a block "
                  "exactly at the cutoff may be pruned). A Prune *call* for an in-window header counts as a violation "
                  "whatever the stub returns. On-delete pruning is checked under the environment assumption that the "
                  "header store only deletes headers that are not inside the window (enforced by the node's config "
                  "validation). Blocks whose header has been deleted are outside the pruner's reach and are not "
                  "demanded (a failed height whose header is deleted is dropped by the code with a warning: noted, "
                  "not alarmed). 'Within a bounded number of cycles' is read generously by the monitors on the real code: a "
                  "block is reported only after it stayed owed for more completed cycles than there are headers in "
                  "the store (+2); the model, like the code, needs one cycle. That every failed height is retried in "
                  "*every* cycle is compared as conformance; the monitor demands a retry within the same bound. "
                  "Restart = Stop + new Service over the same datastore + Start; crashes are not part "
                  "of the statement. The pruner.Pruner stub is trusted to record what it is given; the header store "
                  "is a scripted implementation of libhead.Store with go-header's OnDelete contract.",
    "design_ref": "DESIGN.md section 5 C14, section 6 #13, section 11",
}

SIG_TAILSKIP = "C14/all-old-pruned/tail-clamp-skips-unpruned-tail"


def _plain(v):
    if isinstance(v, dict):
        if "#set" in v:
            return [_plain(x) for x in v["#set"]]
        if "#fun" in v:
            return {str(_plain(k)): _plain(x) for k, x in v["#fun"]}
        return {k: _plain(x) for k, x in v.items()}
    if isinstance(v, list):
        return [_plain(x) for x in v]
    return v


def behaviour_from_trace(trace):
    """TLC counterexample (list of (action, state)) -> behaviour in the format of the `hist` variable"""
    steps = []
    for i, (_, st) in enumerate(trace):
        st = _plain(st)
        if i == 0:
            steps.append({"n": "Init", "time": st["time"], "W": st["W"], "B": st["B"], "M": st["M"],
                          "mode": st["mode"], "tail": st["tail"], "head": st["head"]})
            continue
        a = dict(st["act"])
        a.update({"last": st["cpLast"], "failed": st["cpFailed"], "plast": st["pLast"], "pfailed": st["pFailed"],
                  "tail": st["tail"], "head": st["head"], "od": st["od"], "mode": st["mode"], "pc": st["pc"]})
        steps.append(a)
    return steps


def _replay(ctx):
    """bin/check C14 --replay FILE: run the behaviour stored in a replay file again on the real code"""
    obj = json.load(open(ctx.replay))
    beh = ((obj.get("replay") or {}).get("behaviour")) if isinstance(obj, dict) else None
    if not beh:
        ctx.inconclusive("replay file %s holds no behaviour" % ctx.replay)
        return
    path = os.path.join(ctx.work, "behaviours.json")
    with open(path, "w") as f:
        json.dump([beh], f)
    rep = ctx.go_driver("pruner", env={"VERIF_BEHAVIOURS": path}, timeout=1500)
    c = rep.get("counters", {}) if rep else {}
    ctx.cover(traces_validated_against_impl=int(c.get("behaviours_conforming", 0)), evaluations=1)
    ctx.sample({"replayed": ctx.replay, "behaviour": beh.get("id")})


def run(ctx):
    if ctx.replay:
        return _replay(ctx)
    quick = ctx.quick
    ctx.assume("ideal time: timestamps are small integers, mapped to hours; the window test uses the head's time")
    ctx.assume("small scope: <= 6 headers, batch caps 2..3, <= 2 restarts, <= 3 header deletions per behaviour")
    ctx.assume("header store deletes only headers outside the window (Syncer.PruningWindow >= StorageWindow)")

    # 1. the quantifier: exhaustive model checking of the repaired model
    cfg = "pruner/MC_quick.cfg" if quick else "pruner/MC_thorough.cfg"
    r = ctx.tlc("pruner/Pruner.tla", cfg, workers=vlib.NCPU, timeout=900 if quick else 3000, coverage=not quick)
    if r.ok:
        ctx.cover(exhaustive=True)
    if not quick and r.ok:
        ctx.require_coverage(r, ["CycleBegin", "RetryStep", "FindStep", "PruneStep", "UpdStep", "ODBegin", "ODEnd",
                                 "Restart", "ResetCheckpoint", "HeadAdvance"])

    # 2. the named deviation (tail clamp): the strict invariant is expected to fail in the model; its shortest
    #    counterexample is replayed on the real Service below
    behaviours = []
    d = ctx.tlc("pruner/Pruner.tla", "pruner/MC_dev_tailskip.cfg", must_pass=False, count=False,
                workers=4, timeout=600)
    model_has_tailskip = d.violated == "AllOldPrunedStrict" and len(d.trace) > 1
    if model_has_tailskip:
        try:
            behaviours.append({"id": "cex-tailskip", "steps": behaviour_from_trace(d.trace)})
        except Exception as ex:  # pragma: no cover
            ctx.inconclusive("cannot turn the TLC counterexample into a behaviour: %r" % ex)
    elif d.ok:
        ctx.note("the model no longer has the tail-clamp deviation (AllOldPrunedStrict holds)")

    # 3. behaviours for the replay: simulation of the same module with 6 headers, history kept
    want = 300 if quick else 3000
    workers = 4
    per = (want + workers - 1) // workers
    s = ctx.tlc("pruner/Pruner.tla", "pruner/Sim.cfg", workers=workers, simulate="num=%d" % per, depth=70,
                timeout=900, count=False)
    allb = [b for b in s.printed.get("BEH", []) if isinstance(b, list) and len(b) >= 40]
    # a behaviour is printed at depth 70 and again, one step longer, at 71: keep the longest
    prefixes = {json.dumps(b[:-1], sort_keys=True) for b in allb}
    uniq = {}
    for b in allb:
        k = json.dumps(b, sort_keys=True)
        if k not in prefixes:
            uniq[k] = b
    sims = [uniq[k] for k in sorted(uniq)]
    for i, b in enumerate(sims[:want]):
        behaviours.append({"id": "sim-%d-%d" % (ctx.seed, i), "steps": b})
    if len(sims) < min(50, want):
        ctx.inconclusive("simulation produced only %d behaviours" % len(sims))
    path = os.path.join(ctx.work, "behaviours.json")
    with open(path, "w") as f:
        json.dump(behaviours, f)
    ctx.log("behaviours for replay: %d (%d from simulation)" % (len(behaviours), len(behaviours) - (1 if model_has_tailskip else 0)))

    # 3b. the finder at read granularity (PrunerFine.tla): the header store moves between any two reads of one
    #     findPruneableHeaders call (head growth between its two Head() reads; tail deletion requested under the
    #     cycle, which must wait for checkpointMu), batch caps 1 and 2: exhaustive + behaviours for the replay
    f = ctx.tlc("pruner/PrunerFine.tla", "pruner/MCFine_quick.cfg", workers=6, timeout=600)
    if not quick:
        ctx.tlc("pruner/PrunerFine.tla", "pruner/LiveFine.cfg", workers=4, timeout=900)
    fs = ctx.tlc("pruner/PrunerFine.tla", "pruner/SimFine.cfg", workers=2, simulate="num=%d" % (40 if quick else 400),
                 depth=46, timeout=600, count=False)
    fall = [b for b in fs.printed.get("BEH", []) if isinstance(b, list) and len(b) >= 30]
    fpre = {json.dumps(b[:-1], sort_keys=True) for b in fall}
    funiq = {}
    for b in fall:
        k = json.dumps(b, sort_keys=True)
        if k not in fpre:
            funiq[k] = b
    fine = [{"id": "fine-%d-%d" % (ctx.seed, i), "steps": funiq[k]} for i, k in enumerate(sorted(funiq))]
    fpath = os.path.join(ctx.work, "fine_behaviours.json")
    with open(fpath, "w") as fh:
        json.dump(fine, fh)
    ctx.log("fine-grained finder behaviours for replay: %d" % len(fine))

    # 4. replay into the real Service + store effect on a real store
    rep = ctx.go_driver("pruner", env={"VERIF_BEHAVIOURS": path, "VERIF_FINE_BEHAVIOURS": fpath}, timeout=1500)
    c = rep.get("counters", {}) if rep else {}
    if (rep.get("summary", {}) or {}).get("fine_drifted", 0) if rep else False:
        ctx.inconclusive("the real Service does not follow PrunerFine.tla (conformance drift)")
    ctx.cover(fine_behaviours_conforming=int(c.get("fine_behaviours_conforming", 0)),
              fine_head_grew_between_the_two_head_reads=int(c.get("fine_head_grew_between_the_two_head_reads", 0)))
    for k, n in {"fine_behaviours_replayed": 30, "fine_behaviours_conforming": 30, "fine_head_grew_under_finder": 10,
                 "fine_head_grew_between_the_two_head_reads": 3, "fine_delete_requested_under_finder": 5,
                 "fine_deletions": 5, "fine_prune_calls": 20}.items():
        if c.get(k, 0) < n:
            ctx.inconclusive("vacuity: driver counter %s = %s (< %d)" % (k, c.get(k, 0), n))
    ctx.cover(traces_validated_against_impl=int(c.get("behaviours_conforming", 0)) + int(c.get("fine_behaviours_conforming", 0)),
              evaluations=int(c.get("behaviours_replayed", 0)),
              distinct_nontrivial=len({json.dumps(b["steps"], sort_keys=True) for b in behaviours
                                       if any(x.get("n") in ("Prune", "Retry", "ODEnd") for x in b["steps"])}),
              rule="behaviours of Pruner.tla (TLC simulation, depth 70, deduplicated) replayed into the real Service; "
                   "non-trivial = distinct behaviours in which at least one Prune call is made")
    # vacuity: the replay must have exercised what the property talks about
    need = {"behaviours_replayed": 50 if quick else 500, "cycles": 100, "prune_calls": 100, "restarts": 10,
            "header_deletions": 10, "resets": 3, "old_blocks_checked": 20, "store_effect_modes": 3,
            "store_effect_checks": 10, "read_failures_injected": 30, "stops_during_retry": 3,
            "light_prune_scripts": 10, "light_delete_failures": 10, "light_service_runs": 1}
    for k, n in need.items():
        if c.get(k, 0) < n:
            ctx.inconclusive("vacuity: driver counter %s = %s (< %d)" % (k, c.get(k, 0), n))
    sigs = (rep.get("summary", {}) or {}).get("violation_signatures", {}) if rep else {}
    if model_has_tailskip and SIG_TAILSKIP not in sigs:
        ctx.inconclusive("the model's counterexample for the tail-clamp deviation was not reproduced on the real "
                         "Service: model and code disagree (update spec/pruner/Pruner.tla or known_findings.jsonl)")

    if quick:
        return

    # 5. thorough: liveness of the repaired model, and the unrepaired loop must be told apart by the model
    ctx.tlc("pruner/Pruner.tla", "pruner/Live.cfg", workers=8, timeout=3000)
    u = vlib.run_tlc(os.path.join(vlib.VERIF, "spec/pruner/Pruner.tla"), os.path.join(vlib.VERIF, "spec/pruner/MC_unfixed.cfg"),
                     ctx.work, workers=4, timeout=900)
    told = (u.violated is not None) or ("CycleTerminates" in (u.stdout or "") and "violated" in (u.stdout or ""))
    ctx.cov["tlc_runs"].append({"spec": "pruner/Pruner.tla", "cfg": "MC_unfixed.cfg", "generated": u.generated,
                                "distinct": u.distinct, "ok": u.ok, "violated": "CycleTerminates" if told else None,
                                "wall_s": round(u.wall, 1), "expected": "violated"})
    if not told:
        ctx.inconclusive("the model of the unrepaired loop (Fix13 = FALSE) does not violate CycleTerminates any more")
