"""C17 -- peer selection never deadlocks and never hands out a peer it should not.

spec/peers/PeerPool.tla     pool + timed queue + both mutexes (fine-grained / atomic-method)
spec/peers/PeerManager.tla  hash pools, node pool, blacklists, GC
harness/drivers/peers       replay of TLC's behaviours on the real code (B2), gated schedules for TLC's
                            deadlock counterexamples, concurrent stress recorded for trace validation (B1)
"""
import json
import os
import random
import re
import sys

import vlib

META = {
    "technique": "TLC exhaustive on spec/peers/PeerPool.tla (fine-grained steps delimited by the lock operations, both mutexes "
                 "explicit, TLC deadlock check on; atomic-method variant; liveness under weak fairness in the thorough tier) and "
                 "spec/peers/PeerManager.tla. Binding: (B2) the atomic-method state graphs are replayed transition by transition "
                 "on the real pool/timedQueue with a mock clock and gates, simulated manager behaviours on the real Manager "
                 "(mocknet host, real shrex-sub, real connection gater); (B1) seeded concurrent stress of the pool and random "
                 "walks on the Manager are recorded through the verif hooks and validated by TLC against PoolTrace.tla / "
                 "ManagerTrace.tla; TLC's counterexamples of the model variants WITHOUT the four fixes (ABBA deadlock, early "
                 "return after cool-down/remove/add/cool-down, black-listed peer promoted and offered, unlocked read in cleanUp) "
                 "are forced on the real code (lock gates, goroutine-dump proof for the deadlock).",
    "level_text": "model_checking: every interleaving of the bounded models (2-3 callers x 2-3 operations, 1-3 peers, timer "
                  "goroutines, clock; manager with 1-2 peers, 2 hashes) is free of deadlock and satisfies CountExact, "
                  "OnlyActiveOffered, NoEarlyReturn, list/status consistency, CooldownNotLost, NotPromotedBeforeConfirmed, "
                  "BlacklistedNeverOffered and the GC rules (thorough: also WaitersWoken, CancelHonoured, AllReturn); the real "
                  "code follows the models on every replayed transition and every recorded concurrent execution (lock "
                  "structure included), and monitors evaluate the property on the observed behaviour of the real code.",
    "level_note": "Interpretation (under-demanding): removing a peer ends its cool-down obligation (remove followed by add makes "
                  "the peer available at once); a cool-down runs from the moment the queue entry is created. Round-robin "
                  "order, lazy-cleanup timing and the hasPeer flag are not demanded: differences are conformance drift "
                  "(exit 2), not violations. 'Black-listed' = blocked in the connection gater, only with EnableBlackListing. "
                  "Time is a mock clock in 1 s ticks (a timer's function starts in its own goroutine at or after its "
                  "deadline); the manager's pool age is set through a verif accessor and one GC iteration is run through "
                  "VerifGCOnce. Lock discipline (a marked read of a pool's list outside that pool's mutex) is reported as a "
                  "violation because every guarantee of the property is established under that mutex. Go's writer "
                  "preference of RWMutex is not modelled (no thread acquires anything while holding the read lock). "
                  "Quick tier replays a seeded sample of the atomic graph's edges (all edges of the two-caller wake-up "
                  "graph); small scope: 2-4 threads, 1-3 peers, 2-3 hashes.",
    "design_ref": "DESIGN.md §5 C17, §6 #14 #15",
}

SPEC = "peers/MCPool.tla"


# ------------------------------------------------------------------------------------------ helpers
def plain(v):
    """vlib.parse_tla_value output -> plain JSON (sets -> sorted lists, functions -> dicts)."""
    if isinstance(v, dict):
        if "#set" in v:
            xs = [plain(x) for x in v["#set"]]
            try:
                return sorted(xs)
            except TypeError:
                return xs
        if "#fun" in v:
            return {str(plain(k)): plain(x) for k, x in v["#fun"]}
        if "#mv" in v:
            return v["#mv"]
        return {k: plain(x) for k, x in v.items()}
    if isinstance(v, list):
        return [plain(x) for x in v]
    return v


def cfg_consts(cfg):
    txt = open(os.path.join(vlib.VERIF, "spec", cfg)).read()
    out = {}
    for k in ("TTL", "CleanupThreshold", "MaxTime", "MaxOps"):
        m = re.search(r"(?m)^\s*%s\s*=\s*(\d+)" % k, txt)
        if m:
            out[k] = int(m.group(1))
    m = re.search(r"TimerSlots\s*<-\s*(\w+)", txt)
    out["slots"] = {"TwoSlots": ["t1", "t2"], "ThreeSlots": ["t1", "t2", "t3"]}.get(m.group(1) if m else "", ["t1", "t2"])
    return out


def pool_proj(st):
    """projection of a full PeerPool state (counterexample) = Proj of the spec"""
    st = plain(st)
    pc = st.get("pc", {})
    return {"pool": st["pool"], "items": st["queue"]["items"], "now": st["now"],
            "waiting": sorted(t for t, l in pc.items() if l == "nx_wait"),
            "timers": sorted(t for t, l in pc.items() if l == "re_lock")}


def canon(x):
    return json.dumps(x, sort_keys=True, separators=(",", ":"))


class Graph:
    """state graph printed by an EdgeOut action constraint"""

    def __init__(self, edges):
        self.out = {}
        self.nodes = {}
        targets = set()
        self.n_edges = 0
        for e in edges:
            if not isinstance(e, dict):
                continue
            ks, kt = canon(e["s"]), canon(e["t"])
            self.nodes.setdefault(ks, e["s"])
            self.nodes.setdefault(kt, e["t"])
            lst = self.out.setdefault(ks, [])
            key = (canon(e["a"]), kt)
            if any(k == key for k, _, _ in lst):
                continue
            lst.append((key, e["a"], kt))
            self.n_edges += 1
            targets.add(kt)
        roots = [k for k in self.out if k not in targets]
        self.root = roots[0] if len(roots) == 1 else None
        self.roots = roots

    def paths(self, rng, max_paths, prefer=None):
        """greedy path cover: every path starts at the root; uncovered edges are preferred; returns (paths, covered)"""
        # BFS tree
        parent = {self.root: None}
        order = [self.root]
        for u in order:
            for i, (_, a, v) in enumerate(self.out.get(u, [])):
                if v not in parent:
                    parent[v] = (u, i)
                    order.append(v)
        covered = set()
        todo = [(u, i) for u in order for i in range(len(self.out.get(u, [])))]
        rng.shuffle(todo)
        if prefer:
            todo.sort(key=lambda ui: 0 if prefer(self.out[ui[0]][ui[1]][1]) else 1)
        paths = []
        for (u, i) in todo:
            if len(paths) >= max_paths:
                break
            if (u, i) in covered:
                continue
            # root -> u along the BFS tree
            pre = []
            x = u
            while parent[x] is not None:
                pu, pi = parent[x]
                pre.append((pu, pi))
                x = pu
            pre.reverse()
            walk = pre + [(u, i)]
            # extend greedily
            cur = self.out[u][i][2]
            while self.out.get(cur):
                cand = [j for j in range(len(self.out[cur])) if (cur, j) not in covered]
                j = rng.choice(cand) if cand else rng.randrange(len(self.out[cur]))
                walk.append((cur, j))
                cur = self.out[cur][j][2]
            for w in walk:
                covered.add(w)
            paths.append([{"a": self.out[x][j][1], "t": self.nodes[self.out[x][j][2]]} for (x, j) in walk])
        return paths, len(covered)


def trace_steps(r, proj=None):
    """TLC counterexample -> [{a: last, t: projection, pc: pc}]"""
    steps = []
    for _, st in r.trace:
        if "#raw" in st or "last" not in st:
            return None
        p = plain(st)
        s = {"a": p["last"], "pc": p.get("pc")}
        if proj:
            s["t"] = proj(st)
        steps.append(s)
    return steps


# ------------------------------------------------------------------------------------------ the check
def split_sim_traces(edges):
    """EDGE lines of a TLC simulation (workers=1) -> list of behaviours (each a list of {a, t}).
    TLC prints all successors of the sub-action it picked (consecutive lines with the same source state);
    the successor it continued with is the one whose target is the source of the next group."""
    groups = []
    for e in edges:
        if not isinstance(e, dict):
            continue
        ks = canon(e["s"])
        if groups and groups[-1][0] == ks and canon(groups[-1][1][-1]["t"]) != ks:
            groups[-1][1].append(e)
        else:
            groups.append((ks, [e]))
    traces, cur = [], []
    for gi, (ks, alts) in enumerate(groups):
        nxt = groups[gi + 1][0] if gi + 1 < len(groups) else None
        chosen = next((a for a in alts if canon(a["t"]) == nxt), None)
        cur.append({"a": (chosen or alts[0])["a"], "t": (chosen or alts[0])["t"]})
        if chosen is None:
            traces.append(cur)
            cur = []
    if cur:
        traces.append(cur)
    return traces


def def_coverage(tlc_out, tla_path, module, names):
    """how often each named definition produced a step, from TLC's per-expression coverage"""
    src = open(tla_path).read().split("\n")
    ranges = {}
    for n in names:
        for i, l in enumerate(src):
            if re.match(r"%s(\(.*\))? ==" % re.escape(n), l):
                j = i + 1
                while j < len(src) and src[j].strip() != "" and not re.match(r"^[A-Za-z_]\w*(\(.*\))? ==", src[j]):
                    j += 1
                ranges[n] = (i + 1, j)
                break
    # the LAST conjunct of a definition (its UNCHANGED / Step line) is evaluated only when every guard before it held:
    # its count is the number of times the definition produced a step
    last = {n: (0, 0) for n in names}          # name -> (line, count)
    for m in re.finditer(r"(?m)^\s+\|*line (\d+), col \d+ to line (\d+), col \d+ of module %s: (\d+)" % module, tlc_out):
        a, c = int(m.group(1)), int(m.group(3))
        for n, (lo, hi) in ranges.items():
            if lo <= a <= hi and (a > last[n][0] or (a == last[n][0] and c > last[n][1])):
                last[n] = (a, c)
    return {n: last[n][1] for n in names}


def build_abba(r):
    steps = trace_steps(r)
    c = cfg_consts("peers/PoolFineOrigLock.cfg")
    return steps and {"name": "abba", "ttl": c["TTL"], "cleanup": c["CleanupThreshold"], "slots": c["slots"],
                      "expect": "deadlock", "steps": steps}


def build_sleeper(r):
    steps = trace_steps(r)
    c = cfg_consts("peers/PoolFineFreshChan.cfg")
    return steps and {"name": "sleeper", "ttl": c["TTL"], "cleanup": c["CleanupThreshold"], "slots": c["slots"],
                      "expect": "sleeping-waiter", "steps": steps}


def build_early(r):
    steps = trace_steps(r, pool_proj)
    c = cfg_consts("peers/PoolAtomicOrigCount.cfg")
    return steps and {"name": "early", "ttl": c["TTL"], "cleanup": c["CleanupThreshold"], "slots": c["slots"],
                      "expect": "early", "steps": steps[1:]}


def build_blacklisted(r, name="blacklisted"):
    steps = []
    for _, st in r.trace[1:]:
        p = plain(st)
        steps.append({"a": p["last"], "t": {k: p[k] for k in ("pools", "nodes", "blocked", "blHashes", "initialHeight",
                                                               "storeFrom", "head", "reqs")}})
    return {"name": name, "peers": MGR_CONSTS["peers1"], "hashes": MGR_CONSTS["chain"],
            "enable_blacklisting": True, "steps": steps}


def parallel(ctx, jobs):
    """jobs: {name: callable}; run concurrently (TLC runs are independent processes)"""
    from concurrent.futures import ThreadPoolExecutor
    out = {}
    with ThreadPoolExecutor(max_workers=min(len(jobs), 6)) as ex:
        futs = {k: ex.submit(f) for k, f in jobs.items()}
        for k, f in futs.items():
            out[k] = f.result()
    return out


def warm_build(ctx):
    """compile the driver while TLC runs"""
    import subprocess
    vlib.gen_go_mod()
    subprocess.run(["go", "test", "-tags", "verif", "-count=1", "-vet=off", "-run", "^$", "./drivers/peers"],
                   cwd=vlib.HARNESS, env=vlib.go_env(), stdout=subprocess.DEVNULL, stderr=subprocess.DEVNULL)


def spec_sha(cfg):
    import hashlib
    h = hashlib.sha256()
    d = os.path.join(vlib.VERIF, "spec", "peers")
    for f in sorted(os.listdir(d)):
        if f.endswith(".tla") and "Trace" not in f:
            h.update(open(os.path.join(d, f), "rb").read())
    h.update(open(os.path.join(vlib.VERIF, "spec", cfg), "rb").read())
    return h.hexdigest()[:16]


def witness(ctx, name, spec, cfg, expect, build, workers=1):
    """Counterexample of a model variant WITHOUT a fix. It is a pure function of the specification, so it is kept in
    spec/peers/witness/<name>.json together with the hash of its inputs and regenerated by TLC when the specification
    changed (always in the thorough tier)."""
    path = os.path.join(vlib.VERIF, "spec", "peers", "witness", name + ".json")
    sha = spec_sha(cfg)
    if ctx.quick and os.path.exists(path):
        try:
            w = json.load(open(path))
            if w.get("sha") == sha:
                ctx.log("witness %s: stored counterexample of %s (spec hash %s)" % (name, cfg, sha))
                return w["scenario"]
        except Exception:
            pass
    r = ctx.tlc(spec, cfg, must_pass=False, count=False, timeout=2400, workers=workers)
    if r.violated not in expect:
        ctx.inconclusive("the model variant %s did not produce the expected counterexample %s (violated=%s)" % (cfg, expect, r.violated))
        return None
    sc = build(r)
    if sc is None:
        ctx.inconclusive("could not convert the counterexample of %s" % cfg)
        return None
    try:
        stored = json.load(open(path)).get("sha") if os.path.exists(path) else None
    except Exception:
        stored = None
    if stored != sha:      # (TLC's multi-worker search may return another, equally valid schedule: keep the stored file stable)
        try:
            os.makedirs(os.path.dirname(path), exist_ok=True)
            json.dump({"sha": sha, "cfg": cfg, "violated": r.violated, "scenario": sc}, open(path, "w"), indent=0)
        except OSError:
            pass
    return sc


MGR_CONSTS = {"peers1": ["p1"], "peers2": ["p1", "p2"], "chain": ["h1", "h2"], "first": 11}


def run_replay(ctx):
    """bin/check C17 --replay <file>: re-execute the recorded scenario of a violation on the current tree"""
    rec = json.load(open(ctx.replay))
    obj = rec.get("replay") or {}
    kind = obj.get("kind")
    plan = {}
    if kind == "pool-atomic-path":
        plan["pool"] = {"ttl": obj["ttl"], "cleanup": obj["cleanup"], "slots": ["t1", "t2"], "paths": [obj["path"]]}
    elif kind == "pool-witness":
        plan["witness"] = [obj["scenario"]]
    elif kind == "pool-fine-trace":
        plan["fine"] = [obj["scenario"]]
    elif kind in ("manager-walk", "manager-witness", "manager-random-walk"):
        plan["mwitness"] = [{"name": "replay", "peers": obj["peers"], "hashes": obj["hashes"], "nocompare": True,
                             "enable_blacklisting": obj.get("enable_blacklisting", True),
                             "steps": [{"a": a} for a in obj["actions"]]}]
    elif kind == "pool-stress":
        sp = dict(obj["plan"])
        sp["out"] = os.path.join(ctx.work, "pool_trace.ndjson")
        plan["stress"] = sp
    else:
        ctx.inconclusive("replay file %s has no scenario this check can re-execute (kind=%s)" % (ctx.replay, kind))
        return
    plan_path = os.path.join(ctx.work, "plan.json")
    json.dump(plan, open(plan_path, "w"))
    env = {"VERIF_PLAN": plan_path}
    if rec.get("seed") is not None:
        env["VERIF_SEED"] = rec["seed"]
    rep = ctx.go_driver("peers", env=env, timeout=1200)
    ctx.cover(evaluations=1, replayed=kind)
    ctx.sample({"replayed": kind, "violations": [v.get("signature") for v in rep.get("violations", [])]})


def run(ctx):
    if ctx.replay:
        return run_replay(ctx)
    quick = ctx.quick
    rng = random.Random(ctx.seed)
    plan = {}
    W = vlib.NCPU
    ctx.assume("bounded instances: 2-3 caller threads, 1-3 peers, <= 2 timer goroutines alive, clock <= 4 ticks; "
               "manager: 1-2 peers, 2 chain hashes (+1 fake hash in recorded walks), heights {0,11,12}")
    ctx.assume("the mock clock (benbjohnson/clock) stands for real time: a timer's function starts in its own goroutine "
               "some time after the deadline; a cool-down of one hour never expires during a manager replay")
    ctx.assume("trusted: the verif accessors (VerifGCOnce = body of one GC iteration, VerifAgePool) and the hook placement "
               "(events emitted while the reported mutex is held)")

    fine_cfg = "peers/PoolFineQuick.cfg" if quick else "peers/PoolFineThorough.cfg"
    atomic_cfg = "peers/PoolAtomicQuick.cfg" if quick else "peers/PoolAtomic.cfg"
    mgr_cfg = "peers/ManagerQuick.cfg" if quick else "peers/ManagerThorough.cfg"
    jobs = {
        # 1. the code as it is: fine-grained model, deadlock check ON, all safety invariants
        "fine": lambda: ctx.tlc(SPEC, fine_cfg, timeout=2400, coverage=not quick, workers=max(2, W // 2)),
        # 2./3. model variants without the deadlock fix / without the cool-down counter: TLC's counterexamples
        "origlock": lambda: witness(ctx, "abba", SPEC, "peers/PoolFineOrigLock.cfg", ("deadlock", "NoLockCycle"), build_abba, workers=2),
        # hypothetical checkHasPeers (close + fresh channel at once): TLC's schedule "waiter fails tryGet; add; waiter reads
        # the channel" is forced on the real code with the gate at next.loop
        "sleeper": lambda: witness(ctx, "sleeper", SPEC, "peers/PoolFineFreshChan.cfg", ("NoSleepingWaiter",), build_sleeper),
        # fine-grained model WITH next(): NoSleepingWaiter and deadlock freedom over all interleavings
        "finewait": lambda: ctx.tlc(SPEC, "peers/PoolFineWait.cfg", timeout=2400, workers=max(2, W // 4)),
        "origcount": lambda: witness(ctx, "early", SPEC, "peers/PoolAtomicOrigCount.cfg", ("NoEarlyReturn",), build_early),
        # 4. atomic-method state graph (printed edge by edge)
        "atomic": lambda: ctx.tlc(SPEC, atomic_cfg, timeout=2400, workers=2 if quick else 4),
        "atomicwake": lambda: ctx.tlc(SPEC, "peers/PoolAtomicWake.cfg", timeout=2400, workers=2),
        "atomicclean": lambda: ctx.tlc(SPEC, "peers/PoolAtomicCleanup.cfg", timeout=2400, workers=2),
        # 5. the manager as it is / without the black-list fix / simulated behaviours for the replay
        "mgr": lambda: ctx.tlc("peers/MCManager.tla", mgr_cfg, timeout=2400, workers=max(2, W // 4)),
        "mgrorig": lambda: witness(ctx, "blacklisted", "peers/MCManager.tla", "peers/ManagerOrig.cfg", ("BlacklistedNeverOffered",), build_blacklisted),
        # hypothetical variant without the re-check of a peer delivered to a BLOCKED Peer(): directed witness (waiter woken by
        # the cool-down expiry of a peer black-listed meanwhile)
        "mgrwake": lambda: witness(ctx, "wakeblacklisted", "peers/MCManager.tla", "peers/ManagerNoWakeCheck.cfg",
                                   ("BlacklistedNeverOffered",), lambda r: build_blacklisted(r, "wakeblacklisted")),
        "mgrsim": lambda: ctx.tlc("peers/MCManager.tla", "peers/ManagerSim.cfg", count=False, timeout=2400, workers=1, deadlock=False,
                                  simulate="num=%d" % (120 if quick else 1500), depth=16, seed=ctx.seed),
        "build": lambda: warm_build(ctx),
    }
    if not quick:
        # liveness (WaitersWoken, CancelHonoured, AllReturn under weak fairness) and a three-caller instance
        jobs["live"] = lambda: ctx.tlc(SPEC, "peers/PoolLive.cfg", timeout=3000, workers=max(2, W // 4))
        jobs["fine3"] = lambda: ctx.tlc(SPEC, "peers/PoolFine3.cfg", timeout=3000, workers=max(2, W // 4))
    R = parallel(ctx, jobs)
    if R["fine"].ok and R["mgr"].ok:
        ctx.cover(exhaustive=True)
    if not quick:
        # vacuity guard (vlib.require_coverage works per top-level action; Next is ONE action here, so the
        # per-expression coverage of the definitions is used instead)
        need = ["LockPool", "LockQueue", "AddBody", "RemoveBody", "TryGetBody", "CooldownCheck", "CooldownPush",
                "CooldownBody", "ReleaseScan", "CallbackBody", "Tick"]
        hits = def_coverage(R["fine"].stdout, os.path.join(vlib.VERIF, "spec", "peers", "PeerPool.tla"), "PeerPool", need)
        missing = [n for n in need if hits.get(n, 0) == 0]
        ctx.cover(action_coverage=hits)
        if missing:
            ctx.inconclusive("vacuity: definitions never evaluated to a step in the fine-grained run: %s" % missing)

    plan["fine"] = [w for w in (R["origlock"], R["sleeper"]) if w]
    if R["origcount"]:
        plan["witness"] = [R["origcount"]]

    wake_first = lambda a: a.get("act") in ("next_wake", "next_cancel", "releaseExpired")   # rarer edges first
    for key, cfg, name, npaths in (("atomic", atomic_cfg, "pool", 300 if quick else 8000),
                                   ("atomicwake", "peers/PoolAtomicWake.cfg", "pool2", 1200 if quick else 3000),
                                   ("atomicclean", "peers/PoolAtomicCleanup.cfg", "pool3", 1500 if quick else 3000)):
        r = R[key]
        g = Graph(r.printed.get("EDGE", []))
        if g.root is None:
            ctx.inconclusive("atomic state graph %s: no unique root (%d candidates, %d edges)" % (cfg, len(g.roots), g.n_edges))
            continue
        c = cfg_consts(cfg)
        paths, covered = g.paths(rng, npaths, prefer=wake_first)
        plan[name] = {"ttl": c["TTL"], "cleanup": c["CleanupThreshold"], "slots": c["slots"], "paths": paths}
        ctx.cover(pool_graph_edges=g.n_edges, pool_graph_edges_replayed=covered, pool_graph_nodes=len(g.nodes))
        ctx.log("atomic graph %s: %d nodes, %d edges; %d paths cover %d edges" % (cfg, len(g.nodes), g.n_edges, len(paths), covered))

    plan["mwitness"] = [w for w in (R["mgrorig"], R["mgrwake"]) if w]

    r = R["mgrsim"]
    sims = split_sim_traces(r.printed.get("EDGE", []))
    if not sims:
        ctx.inconclusive("no simulated manager behaviours")
    plan["mwitness"] = plan.get("mwitness", []) + [
        {"name": "sim%d" % i, "peers": MGR_CONSTS["peers1"], "hashes": MGR_CONSTS["chain"], "enable_blacklisting": True, "steps": t}
        for i, t in enumerate(sims)]
    ctx.cover(manager_behaviours_generated=len(sims))

    # B1: concurrent stress of the pool and random walks on the manager, recorded for trace validation
    pool_trace = os.path.join(ctx.work, "pool_trace.ndjson")
    mgr_trace = os.path.join(ctx.work, "manager_trace.ndjson")
    plan["stress"] = {"runs": 12 if quick else 120, "workers": ["c1", "c2", "c3", "c4"], "peers": ["p1", "p2", "p3"],
                      "ops": 12, "ticks": 8, "ttl": 2, "cleanup": 2, "out": pool_trace}
    plan["mtrace"] = {"peers": MGR_CONSTS["peers2"], "hashes": MGR_CONSTS["chain"] + ["hx"], "chain": MGR_CONSTS["chain"],
                      "first_height": MGR_CONSTS["first"], "msg_heights": [0, 11, 12], "enable_blacklisting": True,
                      "walks": 40 if quick else 600, "len": 25, "out": mgr_trace}

    plan_path = os.path.join(ctx.work, "plan.json")
    json.dump(plan, open(plan_path, "w"))
    rep = ctx.go_driver("peers", env={"VERIF_PLAN": plan_path}, timeout=2400)
    summ = rep.get("summary", {})
    cnt = rep.get("counters", {})

    # ---- trace validation (B1)
    def validate(kind, spec, cfg, path, var):
        if not os.path.exists(path) or os.path.getsize(path) == 0:
            ctx.inconclusive("%s trace missing" % kind)
            return None
        os.environ[var] = path
        t = ctx.tlc(spec, cfg, must_pass=False, count=False, workers=1, deadlock=False, timeout=1500)
        return t

    tv = parallel(ctx, {
        "pool": lambda: validate("pool", "peers/PoolTrace.tla", "peers/PoolTrace.cfg", pool_trace, "VERIF_TRACE"),
        "mgr": lambda: validate("manager", "peers/ManagerTrace.tla", "peers/ManagerTrace.cfg", mgr_trace, "VERIF_MTRACE"),
    })
    for kind, t in tv.items():
        if t is None:
            continue
        stuck = t.printed.get("STUCK")
        if t.ok and not t.violated:
            n = cnt.get("stress_runs", 0) if kind == "pool" else cnt.get("manager_random_walks", 0)
            ctx.cover(traces_validated_against_impl=n)
            ctx.log("%s traces accepted by the specification (%d states)" % (kind, t.distinct))
        elif t.violated == "postcondition" or stuck:
            line = (stuck or [{}])[0]
            detail = trace_line(pool_trace if kind == "pool" else mgr_trace, line.get("line") if isinstance(line, dict) else None)
            why = "%s trace rejected by the specification at line %s: %s" % (kind, line, detail)
            if kind == "pool":
                # is it the lock structure of the tree before the fixes? (diagnosis; the verdict comes from the gated schedule)
                os.environ["VERIF_TRACE"] = pool_trace
                o = ctx.tlc("peers/PoolTrace.tla", "peers/PoolTraceOrig.cfg", must_pass=False, count=False, workers=1, deadlock=False, timeout=900)
                if o.ok and not o.violated:
                    why += " -- the trace IS accepted by the model variant with callbacks under the queue mutex and no cool-down counter"
            ctx.inconclusive("conformance drift: " + why)
        elif t.violated:
            # an invariant of the specification fails on a behaviour OF THE REAL CODE
            ctx.violation("C17/%s/trace-invariant/%s" % (kind, t.violated),
                          "invariant %s of the specification is violated on a recorded execution of the real code (log %s)" % (t.violated, t.log_path),
                          {"trace_file": pool_trace if kind == "pool" else mgr_trace, "tlc_trace": [plain(s) for _, s in t.trace][-6:]})

    for s in rep.get("samples", [])[:6]:
        ctx.sample(s)

    # ---- vacuity / binding sanity
    npaths = sum(len(plan[k]["paths"]) for k in ("pool", "pool2", "pool3") if k in plan)
    if cnt.get("pool_paths_replayed", 0) < npaths and not rep.get("violations"):
        ctx.inconclusive("only %s of %d pool paths were replayed" % (cnt.get("pool_paths_replayed"), npaths))
    fa = summ.get("fine_abba")
    if plan.get("fine") and not fa:
        ctx.inconclusive("the deadlock schedule was not executed")
    elif fa and not fa.get("deadlocked") and (fa.get("diverged") or not fa.get("completed")):
        ctx.inconclusive("deadlock schedule: neither reproduced nor run to completion: %s" % fa)
    fs = summ.get("fine_sleeper")
    if R["sleeper"] and not fs:
        ctx.inconclusive("the sleeping-waiter schedule was not executed")
    elif fs and (fs.get("diverged") or (not fs.get("asleep") and not fs.get("woke"))):
        ctx.inconclusive("sleeping-waiter schedule: not executed to its end: %s" % fs)
    ctx.cover(sleeping_waiter_schedule=fs)
    we = summ.get("witness_early")
    if plan.get("witness") and not we:
        ctx.inconclusive("the early-return witness was not executed")
    elif we and we.get("monitor_hits", 0) == 0 and not we.get("diverged"):
        ctx.inconclusive("early-return witness: the real pool followed the counterexample of the unfixed model to the end "
                         "but no monitor fired: %s" % we)
    mb = summ.get("mwitness_blacklisted")
    if any(w["name"] == "blacklisted" for w in plan.get("mwitness", [])):
        if not mb:
            ctx.inconclusive("the black-list witness was not executed")
        elif not mb.get("diverged") and mb.get("violations", 0) == 0:
            ctx.inconclusive("black-list witness: the real manager followed the counterexample of the unfixed model to the "
                             "end but no monitor fired: %s" % mb)
    mw = summ.get("mwitness_wakeblacklisted")
    if any(w["name"] == "wakeblacklisted" for w in plan.get("mwitness", [])):
        if not mw:
            ctx.inconclusive("the blocked-waiter witness was not executed")
        elif not mw.get("diverged") and mw.get("violations", 0) == 0:
            ctx.inconclusive("blocked-waiter witness: the real manager followed the counterexample of the variant without the "
                             "re-check to the end but no monitor fired: %s" % mw)
        elif mw.get("diverged") and mw.get("steps", 0) < mw.get("of", 0) - 1:
            ctx.inconclusive("blocked-waiter witness: the real manager left the scenario before the waiter was woken: %s" % mw)
    bad_sims = [(k, v) for k, v in summ.items() if k.startswith("mwitness_sim") and v.get("diverged")]
    if bad_sims:
        ctx.inconclusive("conformance drift (manager): %d of %d simulated behaviours not followed by the real manager; first: %s"
                         % (len(bad_sims), len(sims), bad_sims[0]))
    ctx.cover(deadlock_schedule=fa, early_return_witness=we, blacklist_witness=mb, blocked_waiter_witness=mw,
              traces_validated_against_impl=len(sims) - len(bad_sims))


def trace_line(path, n):
    try:
        if n is None:
            return ""
        with open(path) as f:
            for i, l in enumerate(f, 1):
                if i == int(n) - 1 or i == int(n):
                    last = l.strip()
                if i == int(n):
                    break
        return last[:500]
    except Exception:
        return ""
