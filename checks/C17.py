"""C17 -- peer selection never deadlocks and never hands out a peer it should not.

spec/peers/PeerPool.tla     pool + timed queue + both mutexes (fine-grained / atomic-method)
spec/peers/PeerManager.tla  hash pools, node pool, blacklists, GC
harness/drivers/peers       replay of TLC's behaviours on the real code (B2), gated schedules for TLC's
                            deadlock counterexamples, concurrent stress recorded for trace validation (B1)
"""
import json
import os
import random
import re
import sys

import vlib

META = {
    "technique": "TLC exhaustive on spec/peers/PeerPool.tla (fine-grained, both mutexes explicit, deadlock check on; "
                 "atomic-method variant) and spec/peers/PeerManager.tla; behaviour replay of the models' state graphs on "
                 "the real pool/timedQueue (mock clock) and Manager (mocknet host, real connection gater); TLC "
                 "counterexamples of the model variants without the fixes forced on the real code with lock gates; "
                 "trace validation of concurrent runs against PeerPool.tla (PoolTrace.tla)",
    "level_text": "model_checking: all interleavings of the bounded models (2-3 callers, 2-3 peers, timer goroutines, "
                  "clock) satisfy deadlock freedom, CountExact, OnlyActiveOffered, NoEarlyReturn, list/status consistency, "
                  "NotPromotedBeforeConfirmed, BlacklistedNeverOffered (and WaitersWoken / CancelHonoured in the thorough "
                  "tier); the real code is shown to follow the models transition by transition on sampled (quick) or all "
                  "(thorough) edges of the atomic state graphs and on recorded concurrent runs, with property monitors on "
                  "the real behaviour.",
    "level_note": "Interpretation (under-demanding): removing a peer ends its cool-down obligation (remove followed by add makes "
                  "the peer available at once); a cool-down runs from the moment the queue entry is created. Round-robin "
                  "order is not demanded: a different order is conformance drift (exit 2), not a violation. 'Blacklisted' = "
                  "blocked in the connection gater, only with EnableBlackListing. Time is a mock clock in 1 s ticks; the "
                  "manager's pool age is set through a verif accessor. Small-scope: 2-3 threads, 2-3 peers, 2 hashes.",
    "design_ref": "DESIGN.md §5 C17, §6 #14 #15",
}

SPEC = "peers/MCPool.tla"


# ------------------------------------------------------------------------------------------ helpers
def plain(v):
    """vlib.parse_tla_value output -> plain JSON (sets -> sorted lists, functions -> dicts)."""
    if isinstance(v, dict):
        if "#set" in v:
            xs = [plain(x) for x in v["#set"]]
            try:
                return sorted(xs)
            except TypeError:
                return xs
        if "#fun" in v:
            return {str(plain(k)): plain(x) for k, x in v["#fun"]}
        if "#mv" in v:
            return v["#mv"]
        return {k: plain(x) for k, x in v.items()}
    if isinstance(v, list):
        return [plain(x) for x in v]
    return v


def cfg_consts(cfg):
    txt = open(os.path.join(vlib.VERIF, "spec", cfg)).read()
    out = {}
    for k in ("TTL", "CleanupThreshold", "MaxTime", "MaxOps"):
        m = re.search(r"(?m)^\s*%s\s*=\s*(\d+)" % k, txt)
        if m:
            out[k] = int(m.group(1))
    m = re.search(r"TimerSlots\s*<-\s*(\w+)", txt)
    out["slots"] = {"TwoSlots": ["t1", "t2"], "ThreeSlots": ["t1", "t2", "t3"]}.get(m.group(1) if m else "", ["t1", "t2"])
    return out


def pool_proj(st):
    """projection of a full PeerPool state (counterexample) = Proj of the spec"""
    st = plain(st)
    pc = st.get("pc", {})
    return {"pool": st["pool"], "items": st["queue"]["items"], "now": st["now"],
            "waiting": sorted(t for t, l in pc.items() if l == "nx_wait"),
            "timers": sorted(t for t, l in pc.items() if l == "re_lock")}


def canon(x):
    return json.dumps(x, sort_keys=True, separators=(",", ":"))


class Graph:
    """state graph printed by an EdgeOut action constraint"""

    def __init__(self, edges):
        self.out = {}
        self.nodes = {}
        targets = set()
        self.n_edges = 0
        for e in edges:
            if not isinstance(e, dict):
                continue
            ks, kt = canon(e["s"]), canon(e["t"])
            self.nodes.setdefault(ks, e["s"])
            self.nodes.setdefault(kt, e["t"])
            lst = self.out.setdefault(ks, [])
            key = (canon(e["a"]), kt)
            if any(k == key for k, _, _ in lst):
                continue
            lst.append((key, e["a"], kt))
            self.n_edges += 1
            targets.add(kt)
        roots = [k for k in self.out if k not in targets]
        self.root = roots[0] if len(roots) == 1 else None
        self.roots = roots

    def paths(self, rng, max_paths, prefer=None):
        """greedy path cover: every path starts at the root; uncovered edges are preferred; returns (paths, covered)"""
        # BFS tree
        parent = {self.root: None}
        order = [self.root]
        for u in order:
            for i, (_, a, v) in enumerate(self.out.get(u, [])):
                if v not in parent:
                    parent[v] = (u, i)
                    order.append(v)
        covered = set()
        todo = [(u, i) for u in order for i in range(len(self.out.get(u, [])))]
        rng.shuffle(todo)
        if prefer:
            todo.sort(key=lambda ui: 0 if prefer(self.out[ui[0]][ui[1]][1]) else 1)
        paths = []
        for (u, i) in todo:
            if len(paths) >= max_paths:
                break
            if (u, i) in covered:
                continue
            # root -> u along the BFS tree
            pre = []
            x = u
            while parent[x] is not None:
                pu, pi = parent[x]
                pre.append((pu, pi))
                x = pu
            pre.reverse()
            walk = pre + [(u, i)]
            # extend greedily
            cur = self.out[u][i][2]
            while self.out.get(cur):
                cand = [j for j in range(len(self.out[cur])) if (cur, j) not in covered]
                j = rng.choice(cand) if cand else rng.randrange(len(self.out[cur]))
                walk.append((cur, j))
                cur = self.out[cur][j][2]
            for w in walk:
                covered.add(w)
            paths.append([{"a": self.out[x][j][1], "t": self.nodes[self.out[x][j][2]]} for (x, j) in walk])
        return paths, len(covered)


def trace_steps(r, proj=None):
    """TLC counterexample -> [{a: last, t: projection, pc: pc}]"""
    steps = []
    for _, st in r.trace:
        if "#raw" in st or "last" not in st:
            return None
        p = plain(st)
        s = {"a": p["last"], "pc": p.get("pc")}
        if proj:
            s["t"] = proj(st)
        steps.append(s)
    return steps


# ------------------------------------------------------------------------------------------ the check
def run(ctx):
    quick = ctx.quick
    rng = random.Random(ctx.seed)
    plan = {}
    ctx.assume("bounded instances: 2-3 caller threads, 2-3 peers, <= 2 timer goroutines alive, clock <= 4 ticks")
    ctx.assume("the mock clock (benbjohnson/clock) stands for real time: a timer's function starts in its own goroutine "
               "some time after the deadline")

    # 1. the code as it is: fine-grained model, deadlock check ON, all safety invariants
    fine_cfg = "peers/PoolFineQuick.cfg" if quick else "peers/PoolFineThorough.cfg"
    r = ctx.tlc(SPEC, fine_cfg, timeout=1500, coverage=not quick)
    if r.ok:
        ctx.cover(exhaustive=True)

    # 2. model variant with the callbacks under the queue mutex (tree before the deadlock fix): TLC must find the
    #    deadlock; its schedule is then forced on the real code
    r = ctx.tlc(SPEC, "peers/PoolFineOrigLock.cfg", must_pass=False, count=False, timeout=900)
    if r.violated == "deadlock" or r.violated == "NoLockCycle":
        steps = trace_steps(r)
        c = cfg_consts("peers/PoolFineOrigLock.cfg")
        if steps:
            plan.setdefault("fine", []).append({"name": "abba", "ttl": c["TTL"], "cleanup": c["CleanupThreshold"],
                                                "slots": c["slots"], "expect": "deadlock", "steps": steps})
    if "fine" not in plan:
        ctx.inconclusive("the model variant with callbacks under the queue mutex did not produce the expected deadlock "
                         "counterexample (violated=%s)" % r.violated)

    # 3. model variant without the cool-down counter: TLC must find NoEarlyReturn; replayed on the real pool
    r = ctx.tlc(SPEC, "peers/PoolAtomicOrigCount.cfg", must_pass=False, count=False, timeout=900)
    if r.violated == "NoEarlyReturn":
        steps = trace_steps(r, pool_proj)
        c = cfg_consts("peers/PoolAtomicOrigCount.cfg")
        if steps:
            plan.setdefault("witness", []).append({"name": "early", "ttl": c["TTL"], "cleanup": c["CleanupThreshold"],
                                                   "slots": c["slots"], "expect": "early", "steps": steps[1:]})
    if "witness" not in plan:
        ctx.inconclusive("the model variant without the cool-down counter did not produce the expected NoEarlyReturn "
                         "counterexample (violated=%s)" % r.violated)

    # 4. atomic-method state graph -> paths replayed on the real pool
    atomic_cfg = "peers/PoolAtomicQuick.cfg" if quick else "peers/PoolAtomic.cfg"
    r = ctx.tlc(SPEC, atomic_cfg, timeout=1500, workers=4)
    g = Graph(r.printed.get("EDGE", []))
    if g.root is None:
        ctx.inconclusive("atomic state graph: no unique root (%d candidates, %d edges)" % (len(g.roots), g.n_edges))
    else:
        c = cfg_consts(atomic_cfg)
        paths, covered = g.paths(rng, 500 if quick else 6000)
        plan["pool"] = {"ttl": c["TTL"], "cleanup": c["CleanupThreshold"], "slots": c["slots"], "paths": paths}
        ctx.cover(pool_graph_edges=g.n_edges, pool_graph_edges_replayed=covered, pool_graph_nodes=len(g.nodes))
        ctx.log("atomic graph: %d nodes, %d edges; %d paths cover %d edges" % (len(g.nodes), g.n_edges, len(paths), covered))

    plan_path = os.path.join(ctx.work, "plan.json")
    json.dump(plan, open(plan_path, "w"))
    rep = ctx.go_driver("peers", env={"VERIF_PLAN": plan_path}, timeout=1500)
    summ = rep.get("summary", {})
    for s in rep.get("samples", [])[:6]:
        ctx.sample(s)

    # vacuity / binding sanity
    cnt = rep.get("counters", {})
    if plan.get("pool") and cnt.get("pool_paths_replayed", 0) < len(plan["pool"]["paths"]):
        ctx.inconclusive("only %s of %d pool paths were replayed" % (cnt.get("pool_paths_replayed"), len(plan["pool"]["paths"])))
    fa = summ.get("fine_abba")
    if plan.get("fine") and not fa:
        ctx.inconclusive("the deadlock schedule was not executed")
    elif fa and not fa.get("deadlocked") and (fa.get("diverged") or not fa.get("completed")):
        ctx.inconclusive("deadlock schedule: neither reproduced nor run to completion: %s" % fa)
    we = summ.get("witness_early")
    if plan.get("witness") and not we:
        ctx.inconclusive("the early-return witness was not executed")
    elif we and we.get("monitor_hits", 0) == 0 and not we.get("diverged"):
        ctx.inconclusive("early-return witness: the real pool followed the counterexample of the unfixed model to the end "
                         "but no monitor fired: %s" % we)
    ctx.cover(deadlock_schedule=fa, early_return_witness=we)
