#!/usr/bin/env python3
"""Regenerates MANIFEST.json from checks/<ID>.py META dicts. Properties without a check module are
listed under not_applicable (with the reason given in NOT_APPLICABLE below, or 'no check registered')."""
import importlib, json, os, subprocess, sys
V = os.path.dirname(os.path.dirname(os.path.abspath(__file__)))
sys.path.insert(0, os.path.join(V, "lib")); sys.path.insert(0, V)
NOT_APPLICABLE = {}
props = [json.loads(l)["id"] for l in open(os.path.join(V, "properties.jsonl"))]
checks, na = [], []
READY = set(open(os.path.join(V, "checks", "READY")).read().split()) if os.path.exists(os.path.join(V, "checks", "READY")) else set()
for pid in props:
    if pid not in READY or not os.path.exists(os.path.join(V, "checks", pid + ".py")):
        na.append({"property_id": pid, "reason": NOT_APPLICABLE.get(pid, "no check registered yet for this property (work in progress; the technique applies, see DESIGN.md §5)")})
        continue
    m = importlib.import_module("checks." + pid)
    M = getattr(m, "META", {})
    if M.get("disabled"):
        na.append({"property_id": pid, "reason": M["disabled"]}); continue
    checks.append({
        "property_id": pid,
        "quick_cmd": "bin/check %s --tier quick" % pid,
        "thorough_cmd": "bin/check %s --tier thorough" % pid,
        "evidence_file": "/verif/evidence/%s.json" % pid,
        "replay_cmd_template": "bin/check %s --replay {path}" % pid,
        "engine": "tlc+go-harness",
        "level_claimed": {"category": "model_checking", "text": M.get("level_text", ""), "design_ref": M.get("design_ref", "DESIGN.md §5 " + pid)},
        "level_note": M.get("level_note", ""),
        "technique": M.get("technique", "TLC on explicit TLA+ spec + conformance replay against the Go code"),
    })
def hook_commits():
    try:
        out = subprocess.run(["git", "-C", "/repo", "log", "--format=%H %s"], capture_output=True, text=True).stdout
        return [l.split()[0] for l in out.splitlines() if " verif hooks" in l or l.split(" ", 1)[1].startswith("verif ")]
    except Exception:
        return []
man = {
    "version": 1,
    "setup_cmd": "bin/setup",
    "hooks": {"guard": "verif (Go build tag)", "enable": "go test/build -tags verif (the harness module in /verif/harness replaces celestia-node => /repo)",
              "baseline_off_cmd": "bin/baseline_off.sh", "source_commits": hook_commits(), "add_only": True},
    "engines": [{"name": "tlc+go-harness", "path": "bin/check", "serves_properties": [c["property_id"] for c in checks],
                 "kind_free_text": "TLC (tla2tools 1.8.0) on the TLA+ specifications under spec/, bound to the Go code by drivers in harness/drivers (trace validation, behaviour replay, case enumeration)"}],
    "checks": checks,
    "not_applicable": na,
    "notes": "See DESIGN.md. Exit codes of bin/check: 0 held, 1 violation (VIOLATION line), 2 inconclusive (tool failure / drift; never a violation). Known findings: known_findings.jsonl.",
}
json.dump(man, open(os.path.join(V, "MANIFEST.json"), "w"), indent=1)
print("checks:", [c["property_id"] for c in checks]); print("not_applicable:", [n["property_id"] for n in na])
