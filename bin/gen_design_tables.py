#!/usr/bin/env python3
"""Rewrites the generated tables of DESIGN.md (between <!-- BEGIN:x --> / <!-- END:x --> markers):
findings (from known_findings.jsonl) and sensitivity (from seeded/*/meta.json and mutants/*/RESULTS.md)."""
import json, os, re, glob
V = os.path.dirname(os.path.dirname(os.path.abspath(__file__)))
def findings():
    rows = ["| property | signature | status | commit | what fails |", "|---|---|---|---|---|"]
    for line in open(os.path.join(V, "known_findings.jsonl")):
        line = line.strip()
        if not line: continue
        k = json.loads(line)
        what = k.get("what", "").replace("|", "\\|").replace("\n", " ")
        if len(what) > 330: what = what[:327] + "..."
        rows.append("| %s | `%s` | %s | %s | %s |" % (k["property"], k["signature"], k["status"], k.get("commit", ""), what))
    return "\n".join(rows)
def seeds():
    metas = []
    for d in sorted(glob.glob(os.path.join(V, "seeded", "*"))):
        mp = os.path.join(d, "meta.json")
        if os.path.exists(mp):
            metas.append(json.load(open(mp)))
    n = len(metas)
    conf = sum(1 for m in metas if (m.get("confirmed_by_us") or {}).get("all_steps_as_expected"))
    det = sum(1 for m in metas if m.get("detected"))
    rows = ["%d seeds in `seeded/`; %d confirmed by us; %d end with exit 1 (VIOLATION) of a quick check on the final machinery. "
            "Which of them were missed on their first run, why, and what was added is in `seeded/HISTORY.md`. Patches are relative to "
            "the /repo HEAD at their intake time (later `fix:` commits touch some of the same lines)." % (n, conf, det), "",
            "| seed | property | change (independent sub-agent) | needs | confirmed by us | our quick check |", "|---|---|---|---|---|---|"]
    for d in sorted(glob.glob(os.path.join(V, "seeded", "*"))):
        mp = os.path.join(d, "meta.json")
        if not os.path.exists(mp): continue
        m = json.load(open(mp))
        conf = (m.get("confirmed_by_us") or {}).get("all_steps_as_expected")
        res = []
        for c, r in (m.get("our_checks") or {}).items():
            sigs = sorted({l.split("signature=")[1].split(" ")[0] for l in r.get("lines", []) if "signature=" in l})
            res.append("%s exit %s%s" % (c, r.get("exit"), (" (" + ", ".join(sigs[:2]) + ")") if sigs else ""))
        note = m.get("strengthened_note", "")
        def cut(s, n):
            s = (s or "").replace("|", "\\|").replace("\n", " ")
            return s if len(s) <= n else s[:n - 3] + "..."
        rows.append("| %s | %s | %s | %s | %s | %s%s |" % (os.path.basename(d), m.get("property"), cut(m.get("title"), 140),
                    cut(m.get("needs_to_manifest"), 200), "yes" if conf else "NO", "; ".join(res) or "not run", (" — " + note) if note else ""))
    return "\n".join(rows)
def mutants():
    out = []
    for d in sorted(glob.glob(os.path.join(V, "mutants", "*"))):
        n = len(glob.glob(os.path.join(d, "*.diff")))
        r = os.path.join(d, "RESULTS.md")
        out.append("* `mutants/%s/`: %d patches%s" % (os.path.basename(d), n, ", results in `mutants/%s/RESULTS.md`" % os.path.basename(d) if os.path.exists(r) else ""))
    return "\n".join(out)
p = os.path.join(V, "DESIGN.md")
s = open(p).read()
for name, fn in (("findings", findings), ("seeds", seeds), ("mutants", mutants)):
    pat = re.compile(r"(<!-- BEGIN:%s -->\n).*?(<!-- END:%s -->)" % (name, name), re.S)
    if pat.search(s):
        s = pat.sub(lambda m: m.group(1) + fn() + "\n" + m.group(2), s)
open(p, "w").write(s)
print("tables regenerated")
