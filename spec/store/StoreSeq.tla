------------------------------- MODULE StoreSeq -------------------------------
(***************************************************************************)
(* The SEQUENTIAL specification of the EDS store's content, per height:    *)
(* what "the operations applied in some sequential order" means in C08.    *)
(* Used by StoreConc.tla (invariant Linearizable: at quiescence directory  *)
(* and caches equal this function folded over the writers in the order in  *)
(* which they held the height lock) and by StoreConcTrace.tla (the same    *)
(* check on executions recorded from the real store).                      *)
(*                                                                         *)
(* States of a data height: "absent" | "ods" (ODS file only) | "odsq4";    *)
(* of an empty-block height: "absent" | "linked".                          *)
(***************************************************************************)
CONSTANT EmptyHeights      \* heights whose block is the empty block

IsEmptyH(h) == h \in EmptyHeights

Apply(s, k, h) ==
    IF IsEmptyH(h)
      THEN CASE k \in {"PutODSQ4", "PutODS"} -> "linked"
             [] k = "RemoveODSQ4"             -> "absent"
             [] OTHER                         -> s          \* RemoveQ4 of the empty block: nothing
      ELSE CASE k = "PutODSQ4"    -> "odsq4"                \* also writes the Q4 of an ODS-only block
             [] k = "PutODS"      -> IF s = "absent" THEN "ods" ELSE s
             [] k = "RemoveODSQ4" -> "absent"
             [] k = "RemoveQ4"    -> IF s = "odsq4" THEN "ods" ELSE s
             [] OTHER             -> s

(* An existence check / lookup that ran under the height lock at a point where the sequential     *)
(* state was s.  `inflight`: a put of that height had already published its in-memory accessor to  *)
(* the recent cache and not yet taken the lock (store.go:140-148) -- then "present" is explained.  *)
ReadAllowed(s, found, inflight) ==
    IF found THEN (s # "absent" \/ inflight) ELSE s = "absent"

(* once activity stopped: the directory shows exactly s and every observer agrees *)
FinalAllowed(s, files, has) == files = s /\ has = (s # "absent")
=============================================================================
