\* Object level, quick: widths 1 and 2 with three namespaces (all layouts, every padding amount, empty block),
\* full product of object states, two read steps.
SPECIFICATION Spec
CONSTANTS
  Ks = {1, 2}
  NsSeq <- Ns3
  WithEmpty = TRUE
  Levels = {"cold", "upper", "all"}
  MaxStep = 1
  Plain = TRUE
  OnlyLayouts = FALSE
  FullProduct = TRUE
INVARIANTS ObjCorrect FormatLossless SideRule LatentUnreachable WarmIsCanon PrintLayout
CHECK_DEADLOCK FALSE
