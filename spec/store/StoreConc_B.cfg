\* C08 / B: removal and pruning against the serving cache (CachedStore.GetByHeight) on a data
\* height and an empty-block height; recent cache 1, serving cache 1.
SPECIFICATION Spec
CONSTANTS
  Threads <- B_Threads
  DataHeights = {1}
  EmptyHeights = {3}
  HStripe <- Collide
  XStripe <- AllOne
  Menu <- B_Menu
  HMenu <- B_HMenu
  MaxOpsPer <- B_Ops
  C1Size = 1
  C2Size = 1
  MaxAcc = 4
  ValidateQ4OnOpen = TRUE
  CachedGetLocks = TRUE
  SwappedOrder = {}
  AllowTimeout = FALSE
INVARIANTS TypeOK ReadersSeeOwnBlock NoUseAfterClose RefsBalanced NoOrphan Linearizable FilesReleased LocksFree
