----------------------------- MODULE SRAccessor -----------------------------
(***************************************************************************)
(* Accessor objects of the EDS store and their READ RULES (property C05).  *)
(*                                                                           *)
(* An accessor is what Store.GetByHeight / CachedStore.GetByHeight hand     *)
(* out.  Its core ("inner") is one of                                       *)
(*   mem    eds.Rsmt2D over the square that was put (recent cache)          *)
(*   odsq4  file.ODSQ4: ODS file + lazily opened Q4 file                    *)
(*   ods    file.ODS alone (plain accessor, only reachable directly)        *)
(* and the store wraps the core as  validation( closeOnce( proofsCache )).  *)
(*                                                                           *)
(* Every read is a FUNCTION (world, object, disk, op, args) |-> (result,    *)
(* object'), because reads change the object: the Q4 file is opened on the  *)
(* first read that needs it (once - the outcome is sticky), the whole ODS   *)
(* is pulled into memory by Shares() or by the first recomputation of a     *)
(* lower/right axis, and the proof cache remembers halves, extended axes    *)
(* and proof trees per (axis,index).  The rules are transcriptions of       *)
(*   store/file/ods.go, ods_q4.go, q4.go, square.go                         *)
(*   share/eds/rsmt2d.go, proofs_cache.go, validation.go, close_once.go     *)
(*   share/shwap/sample.go, row_namespace_data.go, range_namespace_data.go  *)
(* including two LATENT oddities of proofs_cache.go that are kept verbatim  *)
(* (Shares() overwriting its accumulator on a parity half; getShare         *)
(* comparing colIdx > odsSize): the invariants show whether any             *)
(* representation reaches them.                                             *)
(*                                                                           *)
(* W ("world") = [E |-> the square that was put, roots |-> RootsOf(E)].     *)
(* Ref(W,op,args) is the specification of a read, defined directly on the   *)
(* square; Norm maps a model result to the same shape, running the ideal    *)
(* verifiers on proofs.  The invariant of the configurations is             *)
(*            Norm(ModelRead(op,args)) = Ref(op,args)   for ALL args,       *)
(* out-of-bounds ones included (Ref = rejected).                            *)
(***************************************************************************)
EXTENDS SRSquare

Rej(why) == [ok |-> FALSE, why |-> why]
RejAny   == [ok |-> FALSE]
Opp(ax)  == IF ax = "row" THEN "col" ELSE "row"
Min2(a, b) == IF a < b THEN a ELSE b

---------------------------------------------------------------------------
(* Inner objects *)
Q4Unopened == [st |-> "unopened", cells |-> <<>>]
Q4None     == [st |-> "none", cells |-> <<>>]
Q4Open(cells) == [st |-> "open", cells |-> cells]
NoOdsFile  == [present |-> FALSE]
NoQ4File   == [present |-> FALSE]

MemInner(E)      == [variant |-> "mem", eds |-> E, f |-> NoOdsFile, q4 |-> Q4None, mem |-> FALSE]
FileInner(f)     == [variant |-> "odsq4", eds |-> <<>>, f |-> f, q4 |-> Q4Unopened, mem |-> FALSE]
PlainOdsInner(f) == [variant |-> "ods", eds |-> <<>>, f |-> f, q4 |-> Q4None, mem |-> FALSE]

KOf(o) == IF o.variant = "mem" THEN EK(o.eds) ELSE o.f.k

(* readODS / readSquare: the whole ODS from the file, tail padding after end of file                 *)
MemSquare(o) == ReadSharesPad(o.f.shares, o.f.k)
SquareHalf(sq, k, ax, i) == IF ax = "row" THEN [c \in 1..k |-> sq[i*k + c]]
                                          ELSE [r \in 1..k |-> sq[(r-1)*k + i + 1]]

(* ODS.readAxisHalf (index in the first half): from the in-memory square when present, else file    *)
OdsReadAxisHalf(o, ax, i) ==
  IF o.mem THEN SquareHalf(MemSquare(o), o.f.k, ax, i) ELSE ReadHalfAt(o.f.shares, o.f.k, ax, i)

(* square.computeAxisHalf: extend every line of the opposite axis and pick element i               *)
ComputeAxisHalf(W, sq, k, ax, i) ==
  [j \in 1..k |-> Extend(W.E, SquareHalf(sq, k, Opp(ax), j-1))[i+1]]

(* ODS.AxisHalf *)
OdsAxisHalf(W, o, ax, i) ==
  IF i < o.f.k
  THEN [res |-> [ok |-> TRUE, shares |-> OdsReadAxisHalf(o, ax, i), par |-> FALSE, src |-> IF o.mem THEN "odsmem" ELSE "q1file"],
        o |-> o]
  ELSE [res |-> [ok |-> TRUE, shares |-> ComputeAxisHalf(W, MemSquare(o), o.f.k, ax, i), par |-> FALSE, src |-> "recompute"],
        o |-> [o EXCEPT !.mem = TRUE]]

(* ODSQ4.tryLoadQ4: one attempt per object, by path, at the time of the first read that needs it    *)
TryQ4(o, dq4) ==
  IF o.q4.st = "unopened" THEN [o EXCEPT !.q4 = IF dq4.present THEN Q4Open(dq4.cells) ELSE Q4None] ELSE o

(* AxisHalf of the core; in-bounds index assumed (the bounds check is the validation wrapper)       *)
InnerAxisHalf(W, o, dq4, ax, i) ==
  IF o.variant = "mem"
  THEN [res |-> [ok |-> TRUE, shares |-> FirstHalf(Axis(o.eds, ax, i)), par |-> FALSE, src |-> "mem"], o |-> o]
  ELSE IF o.variant = "odsq4" /\ i >= o.f.k
  THEN LET o1 == TryQ4(o, dq4) IN
       IF o1.q4.st = "open"
       THEN [res |-> [ok |-> TRUE, shares |-> ReadHalfAt(o1.q4.cells, o.f.k, ax, i - o.f.k), par |-> TRUE, src |-> "q4file"],
             o |-> o1]
       ELSE OdsAxisHalf(W, o1, ax, i)
  ELSE OdsAxisHalf(W, o, ax, i)

(* shwap.SampleFromShares *)
SampleFrom(full, axName, pos) ==
  [ok |-> TRUE, share |-> full[pos+1], proof |-> Proof(full, pos, pos+1), axis |-> axName]

InnerSample(W, o, dq4, r, c) ==
  IF o.variant = "mem"
  THEN [res |-> SampleFrom(Axis(o.eds, "row", r), "row", c), o |-> o]                  \* Rsmt2D: row proof
  ELSE IF o.variant = "odsq4"
  THEN LET h == InnerAxisHalf(W, o, dq4, "row", r) IN                                  \* ODSQ4: row proof
       [res |-> SampleFrom(ExtendHalf(W.E, h.res), "row", c), o |-> h.o]
  ELSE IF c < o.f.k /\ r >= o.f.k                                                      \* ODS: by quadrant
  THEN LET h == OdsAxisHalf(W, o, "col", c) IN
       [res |-> SampleFrom(ExtendHalf(W.E, h.res), "col", r), o |-> h.o]
  ELSE LET h == OdsAxisHalf(W, o, "row", r) IN
       [res |-> SampleFrom(ExtendHalf(W.E, h.res), "row", c), o |-> h.o]

(* shwap.RowNamespaceDataFromShares and the cached-tree walk ipld.GetSharesByNamespace: both give   *)
(* the first run of shares of the namespace in the data half, with the range proof of the row tree; *)
(* a namespace inside the row's range without a share gets an absence proof; outside: refused       *)
RowNDFrom(full, ns, i, k) ==
  LET leafNs(p) == IF i < k /\ p <= k THEN NsOf(full[p]) ELSE PAR
      lo == IF i < k THEN CHOOSE x \in { leafNs(p) : p \in 1..k } : \A y \in { leafNs(p) : p \in 1..k } : x <= y ELSE PAR
      hi == IF i < k THEN CHOOSE x \in { leafNs(p) : p \in 1..k } : \A y \in { leafNs(p) : p \in 1..k } : x >= y ELSE PAR
      hits == { p \in 1..k : NsOf(full[p]) = ns }
      from == CHOOSE p \in hits : \A q \in hits : p <= q
      run  == { p \in hits : \A q \in from..p : q \in hits }
  IN IF ns < lo \/ ns > hi THEN Rej("outside")
     ELSE IF hits = {} THEN [ok |-> TRUE, shares |-> <<>>, proof |-> AbsenceProof(full)]
     ELSE [ok |-> TRUE, shares |-> SubSeq(full, from, from + Cardinality(run) - 1),
           proof |-> Proof(full, from - 1, from - 1 + Cardinality(run))]

InnerRowND(W, o, dq4, ns, i) ==
  IF o.variant = "mem"
  THEN [res |-> RowNDFrom(Axis(o.eds, "row", i), ns, i, KOf(o)), o |-> o]
  ELSE LET h == InnerAxisHalf(W, o, dq4, "row", i) IN
       [res |-> RowNDFrom(ExtendHalf(W.E, h.res), ns, i, KOf(o)), o |-> h.o]

(* shwap.RangeNamespaceDataFromShares over the extended rows fr..tr, inclusive coordinates          *)
RangeFrom(rows, fc, tc, k) ==
  LET n == Len(rows)
      multi == n > 1
      startProof == fc # 0 \/ (~multi /\ tc # k-1)
      endProof   == tc # k-1 /\ multi
      endCol     == IF multi THEN k ELSE tc + 1
      cut(j) == IF j = 1 /\ startProof THEN SubSeq(rows[1], fc+1, endCol)
                ELSE IF j = n /\ endProof THEN SubSeq(rows[n], 1, tc+1)
                ELSE SubSeq(rows[j], 1, k)
      out == [j \in 1..n |-> cut(j)]
      ns == NsOf(rows[1][fc+1])
  IN IF \E j \in 1..n : \E p \in 1..Len(out[j]) : NsOf(out[j][p]) # ns THEN Rej("mixed")
     ELSE [ok |-> TRUE, rows |-> out,
           first |-> IF startProof THEN Proof(rows[1], fc, endCol) ELSE NoProof,
           last  |-> IF endProof THEN Proof(rows[n], 0, tc+1) ELSE NoProof]

(* {Rsmt2D,ODS}.RangeNamespaceData: half-open [from,to) over the ODS in row-major order; the file   *)
(* accessor reads Q1 row halves only                                                                 *)
InnerRange(W, o, from, to) ==
  LET k == KOf(o) IN
  IF from < 0 \/ from >= k*k \/ to - 1 < 0 \/ to - 1 >= k*k \/ to <= from THEN [res |-> Rej("oob"), o |-> o]
  ELSE LET fr == from \div k   fc == from % k   tr == (to-1) \div k   tc == (to-1) % k
           row(i) == IF o.variant = "mem" THEN Axis(o.eds, "row", i)
                     ELSE Extend(W.E, OdsReadAxisHalf(o, "row", i))
       IN [res |-> RangeFrom([j \in 1..(tr-fr+1) |-> row(fr + j - 1)], fc, tc, k), o |-> o]

InnerShares(o) ==
  IF o.variant = "mem" THEN [res |-> [ok |-> TRUE, v |-> OdsFlat(o.eds)], o |-> o]
  ELSE [res |-> [ok |-> TRUE, v |-> MemSquare(o)], o |-> [o EXCEPT !.mem = TRUE]]

(* Reader of the core: the share reader over memory, or the raw file section (which is SHORTER      *)
(* than the square when tail padding was not written)                                               *)
InnerReader(o) ==
  IF o.variant = "mem" THEN [res |-> [ok |-> TRUE, v |-> OdsFlat(o.eds), src |-> "sharereader"], o |-> o]
  ELSE IF o.mem THEN [res |-> [ok |-> TRUE, v |-> MemSquare(o), src |-> "sharereader"], o |-> o]
  ELSE [res |-> [ok |-> TRUE, v |-> SubSeq(o.f.shares, 1, Min2(Len(o.f.shares), o.f.k * o.f.k)), src |-> "filesection"], o |-> o]

InnerRoots(o) == IF o.variant = "mem" THEN RootsOf(o.eds) ELSE o.f.roots
InnerHash(o)  == IF o.variant = "mem" THEN HashOf(RootsOf(o.eds)) ELSE o.f.hash
InnerSize(o)  == 2 * KOf(o)

---------------------------------------------------------------------------
(* Wrapped objects: [inner, pc, closed].  pc: (axis,index) -> entry of the proof cache.            *)
NoEntry == [has |-> FALSE, half |-> [ok |-> TRUE, shares |-> <<>>, par |-> FALSE, src |-> "none"], ext |-> <<>>, proofs |-> FALSE]
Keys(k) == {"row", "col"} \X (0..(2*k-1))
ColdPc(k) == [key \in Keys(k) |-> NoEntry]
(* sz: the validation wrapper remembers the square size after its first successful look-up and     *)
(* answers Size() from that copy even after Close                                                   *)
Wrap(o) == [inner |-> o, pc |-> ColdPc(KOf(o)), closed |-> FALSE, sz |-> FALSE]

(* what the cache keeps of a half (where it came from is forgotten) *)
Cached(h) == [h EXCEPT !.src = "cache"]

(* proofsCache.AxisHalf *)
PcAxisHalf(W, w, dq4, ax, i) ==
  LET e == w.pc[<<ax, i>>] IN
  IF e.has THEN [res |-> e.half, w |-> w]
  ELSE LET h == InnerAxisHalf(W, w.inner, dq4, ax, i) IN
       [res |-> h.res, w |-> [w EXCEPT !.inner = h.o, !.pc[<<ax, i>>] = [NoEntry EXCEPT !.has = TRUE, !.half = Cached(h.res)]]]

(* proofsCache.axisShares *)
PcAxisShares(W, w, dq4, ax, i) ==
  LET e == w.pc[<<ax, i>>] IN
  IF e.has /\ e.ext # <<>> THEN [res |-> e.ext, w |-> w]
  ELSE LET h == IF e.has THEN [res |-> e.half, o |-> w.inner] ELSE InnerAxisHalf(W, w.inner, dq4, ax, i)
           ext == ExtendHalf(W.E, h.res)
       IN [res |-> ext, w |-> [w EXCEPT !.inner = h.o, !.pc[<<ax, i>>] = [e EXCEPT !.has = TRUE, !.half = Cached(h.res), !.ext = ext]]]

(* proofsCache.axisWithProofs: entry with proof tree (the tree is over the cached extended axis)    *)
PcAxisWithProofs(W, w, dq4, ax, i) ==
  LET e == w.pc[<<ax, i>>] IN
  IF e.has /\ e.proofs THEN [ent |-> e, w |-> w]
  ELSE LET h == IF e.has THEN [res |-> e.half, o |-> w.inner] ELSE InnerAxisHalf(W, w.inner, dq4, ax, i)
           ext == IF e.ext = <<>> THEN ExtendHalf(W.E, h.res) ELSE e.ext
           ne == [has |-> TRUE, half |-> Cached(h.res), ext |-> ext, proofs |-> TRUE]
       IN [ent |-> ne, w |-> [w EXCEPT !.inner = h.o, !.pc[<<ax, i>>] = ne]]

(* proofsCache.Sample: always the ROW axis; share and proof come from the cached extended row      *)
PcSample(W, w, dq4, r, c) ==
  LET a == PcAxisWithProofs(W, w, dq4, "row", r) IN
  [res |-> SampleFrom(a.ent.ext, "row", c), w |-> a.w]

PcRowND(W, w, dq4, ns, i) ==
  LET a == PcAxisWithProofs(W, w, dq4, "row", i) IN
  [res |-> IF ~ValidForData(ns) THEN Rej("ns") ELSE RowNDFrom(a.ent.ext, ns, i, KOf(w.inner)), w |-> a.w]

(* proofsCache.Shares, verbatim: for a parity half the accumulator is OVERWRITTEN by the extended   *)
(* row (latent defect) before the data half is appended                                             *)
RECURSIVE PcSharesLoop(_, _, _, _, _)
PcSharesLoop(W, w, dq4, i, acc) ==
  LET k == KOf(w.inner) IN
  IF i = k THEN [res |-> [ok |-> TRUE, v |-> acc], w |-> w]
  ELSE LET h == PcAxisHalf(W, w, dq4, "row", i) IN
       IF h.res.par
       THEN LET s == PcAxisShares(W, h.w, dq4, "row", i) IN
            PcSharesLoop(W, s.w, dq4, i+1, s.res \o SubSeq(s.res, 1, k))
       ELSE PcSharesLoop(W, h.w, dq4, i+1, acc \o h.res.shares)
PcShares(W, w, dq4) == PcSharesLoop(W, w, dq4, 0, <<>>)

(* proofsCache.getShare, verbatim (colIdx > odsSize, not >=)                                        *)
PcGetShare(W, w, dq4, r, c) ==
  LET k == KOf(w.inner)
      h == PcAxisHalf(W, w, dq4, "row", r) IN
  IF (c > k) = h.res.par
  THEN [res |-> h.res.shares[(IF h.res.par THEN c - k ELSE c) + 1], w |-> h.w]
  ELSE LET s == PcAxisShares(W, h.w, dq4, "row", r) IN [res |-> s.res[c+1], w |-> s.w]

(* proofsCache.Reader: ShareReader over getShare, k*k shares row by row                             *)
RECURSIVE PcReaderLoop(_, _, _, _, _)
PcReaderLoop(W, w, dq4, n, acc) ==
  LET k == KOf(w.inner) IN
  IF n = k*k THEN [res |-> [ok |-> TRUE, v |-> acc, src |-> "sharereader"], w |-> w]
  ELSE LET g == PcGetShare(W, w, dq4, n \div k, n % k) IN PcReaderLoop(W, g.w, dq4, n+1, Append(acc, g.res))
PcReader(W, w, dq4) == PcReaderLoop(W, w, dq4, 0, <<>>)

---------------------------------------------------------------------------
(* CANONICAL accessor objects.  The store-level specification shows that every accessor object that *)
(* can exist in any reachable store state is canonical (StoreRepr!ObjsCanon); the object-level      *)
(* specification (SRObject) shows that every read through every canonical object is correct, for    *)
(* every layout.  Together: every read in every reachable representation is correct.                *)
(* A canonical proof cache is cold, or holds exactly what reading the upper/left half leaves        *)
(* behind, or what reading everything leaves behind; what it holds is what the core hands out NOW  *)
(* (the core's answers never change: files are immutable and the Q4 look-up is sticky).            *)
CanonHalf(W, o, ax, i) ==
  LET par == o.variant = "odsq4" /\ i >= KOf(o) /\ o.q4.st = "open"
      full == Axis(W.E, ax, i) IN
  [ok |-> TRUE, shares |-> IF par THEN SecondHalf(full) ELSE FirstHalf(full), par |-> par, src |-> "cache"]
PcShape(W, o, level) ==
  [key \in Keys(KOf(o)) |->
     IF level = "cold" \/ (level = "upper" /\ key[2] >= KOf(o)) THEN NoEntry
     ELSE IF key[1] = "row"
          THEN [has |-> TRUE, half |-> CanonHalf(W, o, "row", key[2]), ext |-> Axis(W.E, "row", key[2]), proofs |-> TRUE]
          ELSE [has |-> TRUE, half |-> CanonHalf(W, o, "col", key[2]), ext |-> <<>>, proofs |-> FALSE]]
CanonInner(W, o) ==
  \/ o = MemInner(W.E)
  \/ /\ o.variant \in {"odsq4", "ods"}
     /\ o.eds = <<>>
     /\ o.f = [present |-> TRUE] @@ OdsFileOf(W.E)
     /\ o.q4 \in {Q4Unopened, Q4None, Q4Open(Q4FileOf(W.E))}
     /\ o.variant = "ods" => o.q4 = Q4None
     /\ o.mem \in BOOLEAN
CanonObj(W, w) ==
  /\ CanonInner(W, w.inner)
  /\ w.closed \in BOOLEAN /\ w.sz \in BOOLEAN
  /\ \E level \in {"cold", "upper", "all"} :
        /\ w.pc = PcShape(W, w.inner, level)
        /\ (level = "all" /\ w.inner.variant = "odsq4") => w.inner.q4.st # "unopened"

---------------------------------------------------------------------------
(* Reads.  Op names and argument tuples:                                                            *)
(*   Size <<>>  Hash <<>>  Roots <<>>  Shares <<>>  Reader <<>>                                     *)
(*   Sample <<r,c>>  AxisHalf <<ax,i>>  RowND <<ns,i>>  Range <<from,to>>  ND <<ns>>               *)
InBounds(k, i) == 0 <= i /\ i < 2*k

(* eds.NamespaceData: rows selected from the ROOTS, one RowNamespaceData each, all or nothing       *)
RECURSIVE NdLoop(_, _, _, _, _, _)
NdLoop(W, w, dq4, ns, rows, acc) ==         \* rows: ascending sequence of row indexes
  IF rows = <<>> THEN [res |-> [ok |-> TRUE, rows |-> acc], w |-> w]
  ELSE LET i == Head(rows)
           ws == [w EXCEPT !.sz = TRUE]
           r == IF ~InBounds(KOf(w.inner), i) THEN [res |-> Rej("oob"), w |-> ws]
                ELSE IF ~ValidForData(ns) THEN [res |-> Rej("ns"), w |-> ws]
                ELSE PcRowND(W, ws, dq4, ns, i)
       IN IF ~r.res.ok THEN [res |-> r.res, w |-> r.w]
          ELSE NdLoop(W, r.w, dq4, ns, Tail(rows), Append(acc, [row |-> i, nd |-> r.res]))
RECURSIVE AscSeq(_)
AscSeq(S) == IF S = {} THEN <<>> ELSE LET m == CHOOSE x \in S : \A y \in S : x <= y IN <<m>> \o AscSeq(S \ {m})
RootNsRange(root, i) ==       \* the namespace range an (ideal) row root commits to
  LET lv == root[2]   k == Len(lv) \div 2
      S == { NsOf(lv[p]) : p \in 1..k } IN
  IF i >= k THEN <<PAR, PAR>>
  ELSE <<CHOOSE x \in S : \A y \in S : x <= y, CHOOSE x \in S : \A y \in S : x >= y>>
RowsByRoots(roots, ns) ==     \* share.RowsWithNamespace on the roots the ACCESSOR returned
  { i \in DOMAIN roots.row : RootNsRange(roots.row[i], i)[1] <= ns /\ ns <= RootNsRange(roots.row[i], i)[2] }

(* validation( closeOnce( proofsCache( inner ))) -- the accessor the store hands out.               *)
(* Order of the checks, as in the code: validation first looks up the size (from its own copy, or  *)
(* through close-once, which refuses when closed), then checks the bounds; then close-once; then   *)
(* the proof cache.  Shares/Reader/AxisRoots/DataHash are not validated (no arguments).            *)
WRead(W, w, dq4, op, args) ==
  LET k == KOf(w.inner)
      closedR == [res |-> Rej("closed"), w |-> w]
      oobR    == [res |-> Rej("oob"), w |-> w]
      noSize  == w.closed /\ ~w.sz                       \* validation cannot learn the size any more
      ws      == [w EXCEPT !.sz = TRUE] IN               \* ... otherwise it knows it from now on
  CASE op = "Size"   -> IF noSize THEN closedR ELSE [res |-> [ok |-> TRUE, v |-> InnerSize(w.inner)], w |-> ws]
    [] op = "Hash"   -> IF w.closed THEN closedR ELSE [res |-> [ok |-> TRUE, v |-> InnerHash(w.inner)], w |-> w]
    [] op = "Roots"  -> IF w.closed THEN closedR ELSE [res |-> [ok |-> TRUE, v |-> InnerRoots(w.inner)], w |-> w]
    [] op = "Sample" -> IF noSize THEN closedR
                        ELSE IF ~InBounds(k, args[1]) \/ ~InBounds(k, args[2]) THEN [res |-> Rej("oob"), w |-> ws]
                        ELSE IF w.closed THEN closedR ELSE PcSample(W, ws, dq4, args[1], args[2])
    [] op = "AxisHalf" -> IF noSize THEN closedR
                          ELSE IF ~InBounds(k, args[2]) THEN [res |-> Rej("oob"), w |-> ws]
                          ELSE IF w.closed THEN closedR ELSE PcAxisHalf(W, ws, dq4, args[1], args[2])
    [] op = "RowND"  -> IF noSize THEN closedR
                        ELSE IF ~InBounds(k, args[2]) THEN [res |-> Rej("oob"), w |-> ws]
                        ELSE IF ~ValidForData(args[1]) THEN [res |-> Rej("ns"), w |-> ws]
                        ELSE IF w.closed THEN closedR ELSE PcRowND(W, ws, dq4, args[1], args[2])
    [] op = "Range"  -> IF args[1] < 0 \/ args[1] >= args[2] THEN oobR
                        ELSE IF noSize THEN closedR
                        ELSE IF args[1] >= k*k \/ args[2] > k*k THEN [res |-> Rej("oob"), w |-> ws]
                        ELSE IF w.closed THEN closedR
                        ELSE LET r == InnerRange(W, w.inner, args[1], args[2]) IN [res |-> r.res, w |-> ws]
    [] op = "Shares" -> IF w.closed THEN closedR ELSE PcShares(W, w, dq4)
    [] op = "Reader" -> IF w.closed THEN closedR ELSE PcReader(W, w, dq4)
    [] op = "ND"     -> IF w.closed THEN closedR
                        ELSE NdLoop(W, w, dq4, args[1], AscSeq(RowsByRoots(InnerRoots(w.inner), args[1])), <<>>)

(* the plain cores, used directly (no bounds validation: domain = valid arguments only)            *)
PRead(W, o, dq4, op, args) ==
  CASE op = "Size"   -> [res |-> [ok |-> TRUE, v |-> InnerSize(o)], o |-> o]
    [] op = "Hash"   -> [res |-> [ok |-> TRUE, v |-> InnerHash(o)], o |-> o]
    [] op = "Roots"  -> [res |-> [ok |-> TRUE, v |-> InnerRoots(o)], o |-> o]
    [] op = "Sample" -> InnerSample(W, o, dq4, args[1], args[2])
    [] op = "AxisHalf" -> InnerAxisHalf(W, o, dq4, args[1], args[2])
    [] op = "RowND"  -> InnerRowND(W, o, dq4, args[1], args[2])
    [] op = "Range"  -> InnerRange(W, o, args[1], args[2])
    [] op = "Shares" -> InnerShares(o)
    [] op = "Reader" -> InnerReader(o)

---------------------------------------------------------------------------
(* Ideal verifiers (transcriptions of Sample.Verify, Row.Verify, RowNamespaceData.Verify,           *)
(* RangeNamespaceData.VerifyInclusion over the ideal primitives)                                    *)
SampleVerify(roots, s, r, c) ==
  IF s.axis = "row"
  THEN s.proof.start = c /\ s.proof.end = c+1 /\ AxisRoot(s.proof.tree) = roots.row[r] /\ s.proof.tree[c+1] = s.share
  ELSE s.proof.start = r /\ s.proof.end = r+1 /\ AxisRoot(s.proof.tree) = roots.col[c] /\ s.proof.tree[r+1] = s.share

RowNDVerify(W, nd, ns, i) ==
  LET t == nd.proof.tree
      k == Len(t) \div 2
      leafNs(p) == IF i < k /\ p <= k THEN NsOf(t[p]) ELSE PAR IN
  /\ t # <<>>
  /\ (nd.shares = <<>>) = nd.proof.absence
  /\ NsInRowRange(W.E, ns, i)
  /\ AxisRoot(t) = W.roots.row[i]
  /\ IF nd.proof.absence THEN \A p \in 1..Len(t) : leafNs(p) # ns
     ELSE /\ nd.shares = SubSeq(t, nd.proof.start + 1, nd.proof.end)
          /\ \A p \in 1..Len(nd.shares) : NsOf(nd.shares[p]) = ns
          /\ \A p \in 1..Len(t) : leafNs(p) = ns => (nd.proof.start < p /\ p <= nd.proof.end)   \* completeness

RangeVerify(W, rg, from, to) ==
  LET k == EK(W.E)
      fr == from \div k   fc == from % k   tr == (to-1) \div k   tc == (to-1) % k
      n == Len(rg.rows)
      hasFirst == rg.first.tree # <<>>
      hasLast  == rg.last.tree # <<>>
      rootOf(j) == IF j = 1 /\ hasFirst THEN
                       IF rg.rows[1] = SubSeq(rg.first.tree, rg.first.start + 1, rg.first.end) THEN AxisRoot(rg.first.tree) ELSE <<"bad">>
                   ELSE IF j = n /\ n > 1 /\ hasLast THEN
                       IF rg.rows[n] = SubSeq(rg.last.tree, rg.last.start + 1, rg.last.end) THEN AxisRoot(rg.last.tree) ELSE <<"bad">>
                   ELSE AxisRoot(Extend(W.E, rg.rows[j])) IN
  /\ n = tr - fr + 1
  /\ \A j \in 1..n : rg.rows[j] # <<>>
  /\ hasFirst => rg.first.start = fc
  /\ hasLast => rg.last.end - 1 = tc
  /\ \A j \in 1..n : rootOf(j) = W.roots.row[fr + j - 1]

---------------------------------------------------------------------------
(* The specification of a read, directly on the square                                              *)
RECURSIVE Flatten(_)
Flatten(ss) == IF ss = <<>> THEN <<>> ELSE Head(ss) \o Flatten(Tail(ss))
SelectNs(s, ns) == SelectSeq(s, LAMBDA c : NsOf(c) = ns)
RangeValid(k, from, to) == 0 <= from /\ from < to /\ to <= k*k

Ref(W, op, args) ==
  LET E == W.E   k == EK(W.E) IN
  CASE op = "Size"   -> [ok |-> TRUE, v |-> 2*k]
    [] op = "Hash"   -> [ok |-> TRUE, v |-> HashOf(W.roots)]
    [] op = "Roots"  -> [ok |-> TRUE, v |-> W.roots]
    [] op = "Sample" -> IF InBounds(k, args[1]) /\ InBounds(k, args[2])
                        THEN [ok |-> TRUE, share |-> E[args[1]][args[2]], verified |-> TRUE] ELSE RejAny
    [] op = "AxisHalf" -> IF InBounds(k, args[2])
                          THEN [ok |-> TRUE, full |-> Axis(E, args[1], args[2]), verified |-> TRUE] ELSE RejAny
    [] op = "RowND"  -> IF InBounds(k, args[2]) /\ ValidForData(args[1]) /\ NsInRowRange(E, args[1], args[2])
                        THEN [ok |-> TRUE, shares |-> SelectNs(FirstHalf(Axis(E, "row", args[2])), args[1]), verified |-> TRUE]
                        ELSE RejAny
    [] op = "Range"  -> IF RangeValid(k, args[1], args[2])
                           /\ \A p \in (args[1]+1)..args[2] : NsOf(OdsFlat(E)[p]) = NsOf(OdsFlat(E)[args[1]+1])
                        THEN [ok |-> TRUE, flat |-> SubSeq(OdsFlat(E), args[1]+1, args[2]), verified |-> TRUE] ELSE RejAny
    [] op = "Shares" -> [ok |-> TRUE, v |-> OdsFlat(E)]
    [] op = "Reader" -> [ok |-> TRUE, v |-> OdsFlat(E), fits |-> TRUE]
    [] op = "ND"     -> IF ~ValidForData(args[1]) /\ RowsWithNs(E, args[1]) # {} THEN RejAny
                        ELSE [ok |-> TRUE, verified |-> TRUE,
                              rows |-> LET rs == AscSeq(RowsWithNs(E, args[1])) IN
                                       [j \in 1..Len(rs) |-> [row |-> rs[j], shares |-> SelectNs(FirstHalf(Axis(E, "row", rs[j])), args[1])]]]

Norm(W, op, args, res) ==
  IF ~res.ok THEN RejAny ELSE
  CASE op \in {"Size", "Hash", "Roots", "Shares"} -> [ok |-> TRUE, v |-> res.v]
    [] op = "Sample" -> [ok |-> TRUE, share |-> res.share, verified |-> SampleVerify(W.roots, res, args[1], args[2])]
    [] op = "AxisHalf" -> LET full == ExtendHalf(W.E, res) IN
                          [ok |-> TRUE, full |-> full,
                           verified |-> /\ AxisRoot(full) = (IF args[1] = "row" THEN W.roots.row ELSE W.roots.col)[args[2]]
                                        /\ res.shares = (IF res.par THEN SecondHalf(full) ELSE FirstHalf(full))]
    [] op = "RowND"  -> [ok |-> TRUE, shares |-> res.shares, verified |-> RowNDVerify(W, res, args[1], args[2])]
    [] op = "Range"  -> [ok |-> TRUE, flat |-> Flatten(res.rows), verified |-> RangeVerify(W, res, args[1], args[2])]
    [] op = "Reader" -> [ok |-> TRUE, v |-> ReadSharesPad(res.v, EK(W.E)), fits |-> Len(res.v) <= EK(W.E) * EK(W.E)]
    [] op = "ND"     -> [ok |-> TRUE, verified |-> \A j \in 1..Len(res.rows) : RowNDVerify(W, res.rows[j].nd, args[1], res.rows[j].row),
                         rows |-> [j \in 1..Len(res.rows) |-> [row |-> res.rows[j].row, shares |-> res.rows[j].nd.shares]]]

---------------------------------------------------------------------------
(* Argument spaces: everything in bounds plus the out-of-bounds lattice (-1, first index past the   *)
(* end, one further)                                                                                *)
Idx(k)  == (-1)..(2*k + 1)
RIdx(k) == (-1)..(k*k + 2)
AllArgs(k) ==
     { <<"Size", <<>>>>, <<"Hash", <<>>>>, <<"Roots", <<>>>>, <<"Shares", <<>>>>, <<"Reader", <<>>>> }
  \cup { <<"Sample", <<r, c>>>> : r \in Idx(k), c \in Idx(k) }
  \cup { <<"AxisHalf", <<ax, i>>>> : ax \in {"row", "col"}, i \in Idx(k) }
  \cup { <<"RowND", <<ns, i>>>> : ns \in ProbeNs, i \in Idx(k) }
  \cup { <<"Range", <<f, t>>>> : f \in RIdx(k), t \in RIdx(k) }
  \cup { <<"ND", <<ns>>>> : ns \in ProbeNs }
ValidArgs(k) ==            \* domain of the plain cores
  { a \in AllArgs(k) :
      CASE a[1] = "Sample" -> InBounds(k, a[2][1]) /\ InBounds(k, a[2][2])
        [] a[1] = "AxisHalf" -> InBounds(k, a[2][2])
        [] a[1] = "RowND" -> InBounds(k, a[2][2]) /\ ValidForData(a[2][1])
        [] a[1] = "Range" -> RangeValid(k, a[2][1], a[2][2])
        [] a[1] = "ND" -> FALSE
        [] OTHER -> TRUE }

WrappedReadsCorrect(W, w, dq4) ==
  \A a \in AllArgs(EK(W.E)) : Norm(W, a[1], a[2], WRead(W, w, dq4, a[1], a[2]).res) = Ref(W, a[1], a[2])
PlainReadsCorrect(W, o, dq4) ==
  \A a \in ValidArgs(EK(W.E)) : Norm(W, a[1], a[2], PRead(W, o, dq4, a[1], a[2]).res) = Ref(W, a[1], a[2])
=============================================================================
