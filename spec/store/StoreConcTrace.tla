--------------------------- MODULE StoreConcTrace ---------------------------
(***************************************************************************)
(* B1 binding of StoreConc.tla's Linearizable: executions of seeded        *)
(* concurrent programs on the real store (harness/drivers/storeconc) are   *)
(* validated against the sequential specification StoreSeq.tla.            *)
(*                                                                         *)
(* The driver linearizes an execution with the markers the store emits     *)
(* WHILE HOLDING the height lock (their order is the lock order) and       *)
(* writes, per program:                                                    *)
(*   {"ev":"reset"}                                                        *)
(*   {"ev":"w","k":kind,"h":h}        a writer got the height lock         *)
(*   {"ev":"get"|"has","h":h,"res":b,"inflight":b}                         *)
(*                                    a lookup / existence check ran under *)
(*                                    the height read lock at this point   *)
(*   {"ev":"final","h":h,"files":s,"has":b}                                *)
(*                                    after all goroutines returned: what  *)
(*                                    the directory and HasByHeight say    *)
(* A line that the sequential specification does not allow stops the       *)
(* validation: the POSTCONDITION reports how far it got.                   *)
(***************************************************************************)
EXTENDS Integers, Sequences, TLC, Json, IOUtils, StoreSeq

CONSTANT TraceHeights        \* model heights used by the driver (1..4)

Trace == ndJsonDeserialize(IOEnv.VERIF_TRACE)

VARIABLES st, l
tv == <<st, l>>

TInit == st = [h \in TraceHeights |-> "absent"] /\ l = 0 /\ TLCSet(1, 0)

Step ==
    /\ l < Len(Trace)
    /\ LET e == Trace[l + 1] IN
         CASE e.ev = "reset" -> st' = [h \in TraceHeights |-> "absent"]
           [] e.ev = "w"     -> st' = [st EXCEPT ![e.h] = Apply(@, e.k, e.h)]
           [] e.ev \in {"get", "has"} -> ReadAllowed(st[e.h], e.res, e.inflight) /\ UNCHANGED st
           [] e.ev = "final" -> FinalAllowed(st[e.h], e.files, e.has) /\ UNCHANGED st
           [] OTHER -> FALSE
    /\ l' = l + 1
    /\ TLCSet(1, l + 1)

TSpec == TInit /\ [][Step]_tv

Accepted ==
    IF TLCGet(1) = Len(Trace) THEN TRUE
    ELSE /\ PrintT(<<"STUCK", ToJson([consumed |-> TLCGet(1), total |-> Len(Trace),
                                       line |-> Trace[TLCGet(1) + 1]])>>)
         /\ FALSE
=============================================================================
