\* (recent cache TRUE, serving cache TRUE, the empty block; the eight combinations are run as eight TLC processes)
\* Behaviours of the representation graph.  The graph does not depend on the layout (only on whether the
\* block is the empty block), so width 1 and the empty block are enough; every transition is printed as an
\* EDGE record with the model's predictions for the probes, and replayed on the real store by the driver.
SPECIFICATION Spec
CONSTANTS
  MaxObj = 4
  Extended = FALSE
  Ks = {}
  NsSeq <- Ns1
  WithEmpty = TRUE
  CfgRs = {TRUE}
  CfgSs = {TRUE}
VIEW view
ACTION_CONSTRAINT PrintEdge
INVARIANTS PrintState RefsOK DiskOK ObjsCanon LatentUnreachable
CHECK_DEADLOCK FALSE
