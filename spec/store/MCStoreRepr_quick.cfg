\* Store level, exhaustive: all layouts of width 1 and 2 (every padding amount) and the
\* empty block x all cache configurations x all reachable representation states.  Every accessor object in
\* every reachable state is canonical (ObjsCanon); SRObject shows that all reads through canonical objects
\* are correct.
SPECIFICATION Spec
CONSTANTS
  MaxObj = 4
  Extended = FALSE
  Ks = {1, 2}
  NsSeq <- Ns1
  WithEmpty = TRUE
  CfgRs = {TRUE, FALSE}
  CfgSs = {TRUE, FALSE}
VIEW view
INVARIANTS RefsOK DiskOK ObjsCanon LatentUnreachable
CHECK_DEADLOCK FALSE
