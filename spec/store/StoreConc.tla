------------------------------ MODULE StoreConc ------------------------------
(***************************************************************************)
(* Concurrency model of the EDS store of celestia-node for property C08:   *)
(*                                                                         *)
(*  "Under any interleaving of puts, reads, existence checks, removals,    *)
(*   parity-file pruning and cache evictions on the same or different      *)
(*   heights, every accessor a reader obtains serves only the correct and  *)
(*   complete data of its block until the reader closes it, every          *)
(*   operation terminates, and once activity stops the store's content     *)
(*   equals the result of the operations applied in some sequential order. *)
(*   Files opened on behalf of readers are all released once the readers   *)
(*   close them and the block has been removed or evicted."                *)
(*                                                                         *)
(* What is modelled, in the code's own structure:                          *)
(*  - the striped RW locks of store/striplock.go: writers (put, removeX)   *)
(*    take the HASH stripe then the HEIGHT stripe (multiLock.lock), the    *)
(*    empty-block put only the height stripe; GetByHeight / HasByHeight    *)
(*    hold the height stripe for reading only while opening; Go's          *)
(*    RWMutex lets a waiting writer block new readers;                     *)
(*  - put publishing an in-memory accessor to the recent cache BEFORE it   *)
(*    takes any lock (store.go:140-148), holding a reference for a moment; *)
(*  - the accessor caches (store/cache): LRU of entries {refs, isClosed},  *)
(*    Get/GetOrLoad take a reference, Remove = request close, WAIT for the *)
(*    references, close the accessor, drop the entry; LRU eviction closes  *)
(*    asynchronously after the references are gone; the double cache       *)
(*    (recent + serving) and its look-up orders;                           *)
(*  - CachedStore.GetByHeight (store_cache.go): its loader opens the file  *)
(*    WITHOUT any store lock (CachedGetLocks = FALSE is the code as it is);*)
(*  - accessor incarnations: a file accessor holds the ODS descriptor      *)
(*    (survives unlink) but opens the Q4 file LAZILY BY PATH, once, on the *)
(*    first read of the lower half; with ValidateQ4OnOpen it refuses a     *)
(*    file that is not complete;                                           *)
(*  - the Q4 file being written non-atomically under the writer's locks    *)
(*    ("partial" is visible to lock-free lazy opens).                      *)
(* Not modelled: crashes (Store.tla), I/O errors, the proofs cache and the *)
(* in-memory ODS cache of an accessor (they do not change which file an    *)
(* accessor is bound to), the one-minute close time-out (DESIGN.md §11:    *)
(* an explicit action, disabled in the checked configurations).            *)
(*                                                                         *)
(* The finer protocol of one cache entry (lock, done channel, atomic       *)
(* counter) is the subject of AccessorCache.tla; here it is abstracted to  *)
(* atomic steps on {refs, isClosed}.                                       *)
(***************************************************************************)
EXTENDS Integers, Sequences, FiniteSets, TLC, StoreSeq      \* StoreSeq: EmptyHeights, IsEmptyH, Apply

CONSTANTS
    Threads,          \* set of thread ids (naturals >= 1)
    DataHeights,      \* heights holding distinct non-empty blocks
    HStripe,          \* [Heights -> Nat]  height-lock stripe   (height mod 1024)
    XStripe,          \* [Heights -> Nat]  hash-lock stripe     (last two bytes of the data hash mod 1024)
    Menu,             \* [Threads -> SUBSET OpKinds]  which operations a thread may start
    HMenu,            \* [Threads -> SUBSET Heights]  on which heights
    MaxOpsPer,        \* [Threads -> Nat]  number of operations per thread
    C1Size,           \* capacity of the recent cache (0: NoopCache)
    C2Size,           \* capacity of the serving cache of CachedStore (0: no CachedStore)
    MaxAcc,           \* bound on simultaneously existing accessors
    ValidateQ4OnOpen, \* TRUE: lazy Q4 open refuses an incomplete file (tree with the fix of #10)
    CachedGetLocks,   \* TRUE: CachedStore.GetByHeight holds the height read lock around GetOrLoad
    SwappedOrder,     \* set of operation kinds that take height-then-hash (mutation of the lock order)
    AllowTimeout      \* TRUE: the close time-out may fire (references ignored)

Heights == DataHeights \cup EmptyHeights
OpKinds == {"PutODSQ4", "PutODS", "RemoveODSQ4", "RemoveQ4", "Get", "CachedGet", "Has"}
Writers == {"PutODSQ4", "PutODS", "RemoveODSQ4", "RemoveQ4"}
AccIds == 1..MaxAcc
HStripes == {HStripe[h] : h \in Heights}
XStripes == {XStripe[h] : h \in Heights}

NoAcc == [h |-> 0, src |-> "none", open |-> FALSE, q4b |-> "unopened", refs |-> 0, isClosed |-> FALSE,
          closer |-> 0]
NoHnd == [a |-> 0, kind |-> "none", lower |-> FALSE]
NoOp  == [kind |-> "none", h |-> 0]

VARIABLES
    \* ---- files
    ods,     \* [DataHeights -> BOOLEAN]                     blocks/<hash>.ods exists (complete: written under the locks)
    q4,      \* [DataHeights -> {"absent","partial","full"}] blocks/<hash>.q4
    lnk,     \* [Heights -> BOOLEAN]                         blocks/heights/<h>.ods
    \* ---- accessors and caches
    acc,     \* [AccIds -> accessor record]; src: "file" (holds descriptors) | "mem" (put's in-memory square)
             \*   open: the inner accessor is open; q4b: "unopened" | "none" | "bound" (lazy Q4 open result)
             \*   refs / isClosed: the cache entry's counter and flag; closer: 0 | -1 (asynchronous) | thread
    c1, c2,  \* recent cache, serving cache: sequences of accessor ids, most recently used first
    \* ---- locks
    hl, xl,  \* [stripe -> [w |-> thread or 0, r |-> set of threads]]
    \* ---- threads
    pc, op, nops, hnd, res,
    \* ---- ghosts
    model,   \* [Heights -> {"absent","ods","odsq4","linked"}] sequential specification, updated in lock order
    bad      \* set of monitor flags raised by read steps

vars == <<ods, q4, lnk, acc, c1, c2, hl, xl, pc, op, nops, hnd, res, model, bad>>

----------------------------------------------------------------------------
(* The sequential specification Apply(s, k, h) is in StoreSeq.tla.            *)

\* what the directory says about a height
FileAbs(h) ==
    IF IsEmptyH(h) THEN (IF lnk[h] THEN "linked" ELSE "absent")
    ELSE IF ~lnk[h] THEN (IF ods[h] \/ q4[h] # "absent" THEN "debris" ELSE "absent")
    ELSE IF q4[h] = "full" THEN "odsq4" ELSE IF q4[h] = "absent" THEN "ods" ELSE "partial-q4"

----------------------------------------------------------------------------
(* Lock helpers (sync.RWMutex: a blocked Lock() keeps new RLock() out).     *)
Free == [w |-> 0, r |-> {}]

\* threads blocked in Lock() of a height / hash stripe
WaitH(s) == {t \in Threads : pc[t] = "lockh" /\ HStripe[op[t].h] = s}
WaitX(s) == {t \in Threads : pc[t] = "lockx" /\ XStripe[op[t].h] = s}

CanW(l)      == l.w = 0 /\ l.r = {}
CanR(l, wq)  == l.w = 0 /\ wq = {}

----------------------------------------------------------------------------
(* Cache helpers.  A cache is a sequence of accessor ids; at most one entry per height.        *)
SeqToSet(s) == {s[i] : i \in 1..Len(s)}
Entry(c, h) == IF \E i \in 1..Len(c) : acc[c[i]].h = h
                 THEN (CHOOSE a \in SeqToSet(c) : acc[a].h = h) ELSE 0
Without(c, a) == SelectSeq(c, LAMBDA x : x # a)
Touch(c, a)  == <<a>> \o Without(c, a)           \* LRU: used now
Cached(a)    == a \in SeqToSet(c1) \/ a \in SeqToSet(c2)
FreeIds      == {i \in AccIds : acc[i].src = "none"}
NewId        == CHOOSE i \in FreeIds : \A j \in FreeIds : i <= j

\* adding to a cache of capacity n: the least recently used entry is evicted when full; the eviction
\* call-back closes it asynchronously (closer -1) unless somebody is closing it already
Evictee(c, n)  == IF Len(c) >= n THEN c[Len(c)] ELSE 0
AddTo(c, n, a) == IF Len(c) >= n THEN <<a>> \o SubSeq(c, 1, Len(c) - 1) ELSE <<a>> \o c
MarkEvicted(f, e) == IF e = 0 \/ f[e].isClosed THEN f
                     ELSE [f EXCEPT ![e].isClosed = TRUE, ![e].closer = -1]

\* an accessor nobody can reach any more and that is closed is forgotten (its id is reused)
Settle(f, cc1, cc2, hh) ==
    [i \in AccIds |->
        IF f[i].src # "none" /\ ~f[i].open /\ f[i].refs = 0
           /\ i \notin SeqToSet(cc1) /\ i \notin SeqToSet(cc2)
           /\ \A t \in Threads : hh[t].a # i
          THEN NoAcc ELSE f[i]]

----------------------------------------------------------------------------
TypeOK ==
    /\ ods \in [DataHeights -> BOOLEAN]
    /\ q4 \in [DataHeights -> {"absent", "partial", "full"}]
    /\ lnk \in [Heights -> BOOLEAN]
    /\ \A a \in AccIds : acc[a].refs \in Nat
    /\ Len(c1) <= C1Size /\ Len(c2) <= C2Size

Init ==
    /\ ods = [h \in DataHeights |-> FALSE]
    /\ q4 = [h \in DataHeights |-> "absent"]
    /\ lnk = [h \in Heights |-> FALSE]
    /\ acc = [a \in AccIds |-> NoAcc]
    /\ c1 = <<>> /\ c2 = <<>>
    /\ hl = [s \in HStripes |-> Free] /\ xl = [s \in XStripes |-> Free]
    /\ pc = [t \in Threads |-> "idle"] /\ op = [t \in Threads |-> NoOp]
    /\ nops = [t \in Threads |-> 0] /\ hnd = [t \in Threads |-> NoHnd] /\ res = [t \in Threads |-> "-"]
    /\ model = [h \in Heights |-> "absent"]
    /\ bad = {}

----------------------------------------------------------------------------
(* Starting an operation.                                                   *)
FirstPc(k, h) ==
    CASE k \in {"PutODSQ4", "PutODS"} -> IF IsEmptyH(h) THEN "lockh" ELSE "p.cache"
      [] k \in {"RemoveODSQ4", "RemoveQ4"} -> IF k \in SwappedOrder THEN "lockh" ELSE "lockx"
      [] k \in {"Get", "Has"} -> "rlock"
      [] k = "CachedGet" -> "cg.first"

Start(t) ==
    /\ pc[t] = "idle" /\ nops[t] < MaxOpsPer[t]
    /\ \E k \in Menu[t], h \in HMenu[t] :
         /\ (k = "CachedGet" => C2Size > 0)
         /\ op' = [op EXCEPT ![t] = [kind |-> k, h |-> h]]
         /\ pc' = [pc EXCEPT ![t] = FirstPc(k, h)]
    /\ nops' = [nops EXCEPT ![t] = @ + 1]
    /\ res' = [res EXCEPT ![t] = "-"]
    /\ UNCHANGED <<ods, q4, lnk, acc, c1, c2, hl, xl, hnd, model, bad>>

----------------------------------------------------------------------------
(* put, step 1: publish the in-memory accessor to the cache before any lock is taken           *)
(* (DoubleCache.GetOrLoad: look in the serving cache first, else GetOrLoad of the recent       *)
(* cache).  The reference obtained is released in the next step (utils.CloseAndLog).           *)
PCache(t) ==
    /\ pc[t] = "p.cache"
    /\ LET h  == op[t].h
           e2 == Entry(c2, h)
           e1 == Entry(c1, h)
       IN IF e2 # 0 /\ ~acc[e2].isClosed
            THEN \* hit in the serving cache
                 /\ acc' = [acc EXCEPT ![e2].refs = @ + 1]
                 /\ c2' = Touch(c2, e2) /\ UNCHANGED c1
                 /\ hnd' = [hnd EXCEPT ![t] = [a |-> e2, kind |-> "ref", lower |-> FALSE]]
            ELSE IF C1Size = 0
              THEN \* NoopCache: the loader's accessor is returned and closed right away
                   /\ UNCHANGED <<acc, c1, c2, hnd>>
              ELSE IF e1 # 0 /\ ~acc[e1].isClosed
                THEN /\ acc' = [acc EXCEPT ![e1].refs = @ + 1]
                     /\ c1' = Touch(c1, e1) /\ UNCHANGED c2
                     /\ hnd' = [hnd EXCEPT ![t] = [a |-> e1, kind |-> "ref", lower |-> FALSE]]
                ELSE \* load: a new in-memory accessor replaces / becomes the entry of h
                     /\ FreeIds # {}
                     /\ LET n  == NewId
                            cc == Without(c1, e1)           \* lru.Add on an existing key replaces the value
                            ev == Evictee(cc, C1Size)
                            f1 == [acc EXCEPT ![n] = [h |-> h, src |-> "mem", open |-> TRUE, q4b |-> "none",
                                                      refs |-> 1, isClosed |-> FALSE, closer |-> 0]]
                        IN /\ acc' = MarkEvicted(f1, ev)
                           /\ c1' = AddTo(cc, C1Size, n) /\ UNCHANGED c2
                           /\ hnd' = [hnd EXCEPT ![t] = [a |-> n, kind |-> "ref", lower |-> FALSE]]
    /\ pc' = [pc EXCEPT ![t] = "p.unref"]
    /\ UNCHANGED <<ods, q4, lnk, hl, xl, op, nops, res, model, bad>>

PUnref(t) ==
    /\ pc[t] = "p.unref"
    /\ IF hnd[t].a # 0
         THEN LET f1 == [acc EXCEPT ![hnd[t].a].refs = @ - 1]
                  hh == [hnd EXCEPT ![t] = NoHnd]
              IN acc' = Settle(f1, c1, c2, hh) /\ hnd' = hh
         ELSE UNCHANGED <<acc, hnd>>
    /\ pc' = [pc EXCEPT ![t] = IF op[t].kind \in SwappedOrder THEN "lockh" ELSE "lockx"]
    /\ UNCHANGED <<ods, q4, lnk, c1, c2, hl, xl, op, nops, res, model, bad>>

----------------------------------------------------------------------------
(* Writers' locks: multiLock.lock() = hash stripe, then height stripe.       *)
AfterLocks(t) ==
    CASE op[t].kind \in {"PutODSQ4", "PutODS"} -> IF IsEmptyH(op[t].h) THEN "p.link" ELSE "p.ods"
      [] op[t].kind = "RemoveODSQ4" -> "r.c1"
      [] op[t].kind = "RemoveQ4"    -> IF IsEmptyH(op[t].h) THEN "unlock" ELSE "r.c3"

HoldsX(t) == xl[XStripe[op[t].h]].w = t
HoldsH(t) == hl[HStripe[op[t].h]].w = t
NeedsX(t) == ~(op[t].kind \in {"PutODSQ4", "PutODS"} /\ IsEmptyH(op[t].h))   \* empty put: height lock only

LockX(t) ==
    /\ pc[t] = "lockx"
    /\ LET s == XStripe[op[t].h] IN
         /\ CanW(xl[s])
         /\ xl' = [xl EXCEPT ![s].w = t]
    /\ pc' = [pc EXCEPT ![t] = IF HoldsH(t) THEN AfterLocks(t) ELSE "lockh"]
    /\ UNCHANGED <<ods, q4, lnk, acc, c1, c2, hl, op, nops, hnd, res, model, bad>>

LockH(t) ==
    /\ pc[t] = "lockh"
    /\ LET s == HStripe[op[t].h] IN
         /\ CanW(hl[s])
         /\ hl' = [hl EXCEPT ![s].w = t]
    /\ pc' = [pc EXCEPT ![t] = IF HoldsX(t) \/ ~NeedsX(t) THEN AfterLocks(t) ELSE "lockx"]
    /\ UNCHANGED <<ods, q4, lnk, acc, c1, c2, xl, op, nops, hnd, res, model, bad>>

Unlock(t) ==
    /\ pc[t] = "unlock"
    /\ xl' = [s \in XStripes |-> IF xl[s].w = t THEN [xl[s] EXCEPT !.w = 0] ELSE xl[s]]
    /\ hl' = [s \in HStripes |-> IF hl[s].w = t THEN [hl[s] EXCEPT !.w = 0] ELSE hl[s]]
    /\ pc' = [pc EXCEPT ![t] = "idle"] /\ op' = [op EXCEPT ![t] = NoOp]
    /\ UNCHANGED <<ods, q4, lnk, acc, c1, c2, nops, hnd, res, model, bad>>

----------------------------------------------------------------------------
(* put under the locks: create the ODS file (complete when the step ends: nobody can observe   *)
(* an unlinked ODS), create the Q4 file, fill it, link.                                        *)
POds(t) ==
    /\ pc[t] = "p.ods"
    /\ ods' = [ods EXCEPT ![op[t].h] = TRUE]
    /\ pc' = [pc EXCEPT ![t] = IF op[t].kind = "PutODSQ4" /\ q4[op[t].h] = "absent" THEN "p.q4a" ELSE "p.link"]
    /\ UNCHANGED <<q4, lnk, acc, c1, c2, hl, xl, op, nops, hnd, res, model, bad>>

PQ4a(t) ==
    /\ pc[t] = "p.q4a"
    /\ q4' = [q4 EXCEPT ![op[t].h] = "partial"]
    /\ pc' = [pc EXCEPT ![t] = "p.q4b"]
    /\ UNCHANGED <<ods, lnk, acc, c1, c2, hl, xl, op, nops, hnd, res, model, bad>>

PQ4b(t) ==
    /\ pc[t] = "p.q4b"
    /\ q4' = [q4 EXCEPT ![op[t].h] = "full"]
    /\ pc' = [pc EXCEPT ![t] = "p.link"]
    /\ UNCHANGED <<ods, lnk, acc, c1, c2, hl, xl, op, nops, hnd, res, model, bad>>

PLink(t) ==
    /\ pc[t] = "p.link"
    /\ lnk' = [lnk EXCEPT ![op[t].h] = TRUE]
    /\ model' = [model EXCEPT ![op[t].h] = Apply(@, op[t].kind, op[t].h)]
    /\ pc' = [pc EXCEPT ![t] = "unlock"]
    /\ UNCHANGED <<ods, q4, acc, c1, c2, hl, xl, op, nops, hnd, res, bad>>

----------------------------------------------------------------------------
(* Cache removal (DoubleCache.Remove = recent cache, then serving cache; AccessorCache.Remove):  *)
(*   look the entry up; close(): if somebody closes it already return, else set isClosed and    *)
(*   WAIT until the references are gone, close the accessor; then drop whatever entry the key   *)
(*   has now (the eviction call-back closes a replacement asynchronously).                      *)
(* pcs: r.c1 r.c1w (recent), r.c2 r.c2w (serving) in removeODS; r.c3 r.c3w r.c4 r.c4w in removeQ4 *)

WhichCache(p) == IF p \in {"r.c1", "r.c1w", "r.c3", "r.c3w"} THEN 1 ELSE 2
NextAfterCache(t, p) ==
    CASE p \in {"r.c1", "r.c1w"} -> "r.c2"
      [] p \in {"r.c2", "r.c2w"} -> "r.link"
      [] p \in {"r.c3", "r.c3w"} -> "r.c4"
      [] p \in {"r.c4", "r.c4w"} -> "r.q4"

\* drop the current entry of height h from cache number n; a replacement is closed asynchronously
DropEntry(f, n, h) ==
    LET c == IF n = 1 THEN c1 ELSE c2
        e == Entry(c, h)
    IN [cc |-> Without(c, e), ff |-> MarkEvicted(f, e)]

RCache(t) ==
    /\ pc[t] \in {"r.c1", "r.c2", "r.c3", "r.c4"}
    /\ LET n == WhichCache(pc[t])
           c == IF n = 1 THEN c1 ELSE c2
           e == Entry(c, op[t].h)
       IN IF e = 0
            THEN \* not cached
                 /\ pc' = [pc EXCEPT ![t] = NextAfterCache(t, pc[t])]
                 /\ UNCHANGED <<acc, c1, c2>>
            ELSE IF acc[e].isClosed
              THEN \* close() returns at once: "accessor will be closed by another goroutine"; then
                   \* cache.Remove(key)
                   /\ LET d == DropEntry(acc, n, op[t].h) IN
                        /\ acc' = Settle(d.ff, IF n = 1 THEN d.cc ELSE c1, IF n = 2 THEN d.cc ELSE c2, hnd)
                        /\ IF n = 1 THEN c1' = d.cc /\ UNCHANGED c2 ELSE c2' = d.cc /\ UNCHANGED c1
                   /\ pc' = [pc EXCEPT ![t] = NextAfterCache(t, pc[t])]
              ELSE /\ acc' = [acc EXCEPT ![e].isClosed = TRUE, ![e].closer = t]
                   /\ UNCHANGED <<c1, c2>>
                   /\ pc' = [pc EXCEPT ![t] = CASE pc[t] = "r.c1" -> "r.c1w" [] pc[t] = "r.c2" -> "r.c2w"
                                                   [] pc[t] = "r.c3" -> "r.c3w" [] pc[t] = "r.c4" -> "r.c4w"]
    /\ UNCHANGED <<ods, q4, lnk, hl, xl, op, nops, hnd, res, model, bad>>

\* the wait inside close(): until the entry this thread is closing has no references
RCacheWait(t) ==
    /\ pc[t] \in {"r.c1w", "r.c2w", "r.c3w", "r.c4w"}
    /\ \E a \in AccIds :
         /\ acc[a].closer = t /\ acc[a].isClosed /\ acc[a].open
         /\ (acc[a].refs = 0 \/ AllowTimeout)
         /\ LET n  == WhichCache(pc[t])
                f1 == [acc EXCEPT ![a].open = FALSE, ![a].closer = 0]
                c  == IF n = 1 THEN c1 ELSE c2
                e  == Entry(c, op[t].h)                 \* the key's entry NOW (may be a replacement)
                cc == Without(c, e)
                f2 == IF e = a THEN f1 ELSE MarkEvicted(f1, e)
            IN /\ IF n = 1 THEN c1' = cc /\ UNCHANGED c2 ELSE c2' = cc /\ UNCHANGED c1
               /\ acc' = Settle(f2, IF n = 1 THEN cc ELSE c1, IF n = 2 THEN cc ELSE c2, hnd)
    /\ pc' = [pc EXCEPT ![t] = NextAfterCache(t, pc[t])]
    /\ UNCHANGED <<ods, q4, lnk, hl, xl, op, nops, hnd, res, model, bad>>

RLink(t) ==
    /\ pc[t] = "r.link"
    /\ lnk' = [lnk EXCEPT ![op[t].h] = FALSE]
    /\ IF IsEmptyH(op[t].h)
         THEN \* only the link; removeQ4 returns at once for the empty block
              /\ model' = [model EXCEPT ![op[t].h] = Apply(@, op[t].kind, op[t].h)]
              /\ pc' = [pc EXCEPT ![t] = "unlock"]
         ELSE /\ UNCHANGED model
              /\ pc' = [pc EXCEPT ![t] = "r.ods"]
    /\ UNCHANGED <<ods, q4, acc, c1, c2, hl, xl, op, nops, hnd, res, bad>>

ROds(t) ==
    /\ pc[t] = "r.ods"
    /\ ods' = [ods EXCEPT ![op[t].h] = FALSE]
    /\ pc' = [pc EXCEPT ![t] = "r.c3"]
    /\ UNCHANGED <<q4, lnk, acc, c1, c2, hl, xl, op, nops, hnd, res, model, bad>>

RQ4(t) ==
    /\ pc[t] = "r.q4"
    /\ q4' = [q4 EXCEPT ![op[t].h] = "absent"]
    /\ model' = [model EXCEPT ![op[t].h] = Apply(@, op[t].kind, op[t].h)]
    /\ pc' = [pc EXCEPT ![t] = "unlock"]
    /\ UNCHANGED <<ods, lnk, acc, c1, c2, hl, xl, op, nops, hnd, res, bad>>

----------------------------------------------------------------------------
(* Readers.                                                                  *)
RLock(t) ==
    /\ pc[t] = "rlock"
    /\ LET s == HStripe[op[t].h] IN
         /\ CanR(hl[s], WaitH(s))
         /\ hl' = [hl EXCEPT ![s].r = @ \cup {t}]
    /\ pc' = [pc EXCEPT ![t] = CASE op[t].kind = "Get" -> "g.open" [] op[t].kind = "Has" -> "h.eval"
                                    [] op[t].kind = "CachedGet" -> "cg.load"]
    /\ UNCHANGED <<ods, q4, lnk, acc, c1, c2, xl, op, nops, hnd, res, model, bad>>

RUnlockOf(t) == [s \in HStripes |-> [hl[s] EXCEPT !.r = @ \ {t}]]

\* open heights/<h>.ods: a new file accessor that only this caller knows (no cache entry)
OpenFile(f, n, h, refs) ==
    [f EXCEPT ![n] = [h |-> h, src |-> "file", open |-> TRUE,
                      q4b |-> IF IsEmptyH(h) THEN "none" ELSE "unopened",
                      refs |-> refs, isClosed |-> FALSE, closer |-> 0]]

(* Store.GetByHeight under the read lock: cache.Get (recent, then serving), else open by path. *)
GOpen(t) ==
    /\ pc[t] = "g.open"
    /\ LET h  == op[t].h
           e1 == Entry(c1, h)
           e2 == Entry(c2, h)
       IN IF e1 # 0 /\ ~acc[e1].isClosed
            THEN /\ acc' = [acc EXCEPT ![e1].refs = @ + 1] /\ c1' = Touch(c1, e1) /\ UNCHANGED c2
                 /\ hnd' = [hnd EXCEPT ![t] = [a |-> e1, kind |-> "ref", lower |-> FALSE]]
                 /\ res' = [res EXCEPT ![t] = "found"]
            ELSE IF e2 # 0 /\ ~acc[e2].isClosed
              THEN /\ acc' = [acc EXCEPT ![e2].refs = @ + 1] /\ c2' = Touch(c2, e2)
                   /\ c1' = IF e1 # 0 THEN Touch(c1, e1) ELSE c1      \* lru.Get of the closed entry still touches it
                   /\ hnd' = [hnd EXCEPT ![t] = [a |-> e2, kind |-> "ref", lower |-> FALSE]]
                   /\ res' = [res EXCEPT ![t] = "found"]
              ELSE IF lnk[h]
                THEN /\ FreeIds # {}
                     /\ acc' = OpenFile(acc, NewId, h, 0)
                     /\ hnd' = [hnd EXCEPT ![t] = [a |-> NewId, kind |-> "own", lower |-> FALSE]]
                     /\ res' = [res EXCEPT ![t] = "found"]
                     /\ UNCHANGED <<c1, c2>>
                ELSE /\ res' = [res EXCEPT ![t] = "notfound"]
                     /\ UNCHANGED <<acc, c1, c2, hnd>>
    /\ hl' = RUnlockOf(t)
    /\ pc' = [pc EXCEPT ![t] = "hold"]
    /\ UNCHANGED <<ods, q4, lnk, xl, op, nops, model, bad>>

HEval(t) ==
    /\ pc[t] = "h.eval"
    /\ res' = [res EXCEPT ![t] = IF Entry(c1, op[t].h) # 0 \/ Entry(c2, op[t].h) # 0 \/ lnk[op[t].h]
                                   THEN "true" ELSE "false"]
    /\ hl' = RUnlockOf(t)
    /\ pc' = [pc EXCEPT ![t] = "idle"] /\ op' = [op EXCEPT ![t] = NoOp]
    /\ UNCHANGED <<ods, q4, lnk, acc, c1, c2, xl, nops, hnd, model, bad>>

(* CachedStore.GetByHeight: recent cache Get; on a miss GetOrLoad of the serving cache whose     *)
(* loader opens heights/<h>.ods -- without any store lock in the code as it is.                  *)
CGFirst(t) ==
    /\ pc[t] = "cg.first"
    /\ LET e1 == Entry(c1, op[t].h) IN
         IF e1 # 0 /\ ~acc[e1].isClosed
           THEN /\ acc' = [acc EXCEPT ![e1].refs = @ + 1] /\ c1' = Touch(c1, e1)
                /\ hnd' = [hnd EXCEPT ![t] = [a |-> e1, kind |-> "ref", lower |-> FALSE]]
                /\ res' = [res EXCEPT ![t] = "found"]
                /\ pc' = [pc EXCEPT ![t] = "hold"]
           ELSE /\ c1' = IF e1 # 0 THEN Touch(c1, e1) ELSE c1
                /\ UNCHANGED <<acc, hnd, res>>
                /\ pc' = [pc EXCEPT ![t] = IF CachedGetLocks THEN "rlock" ELSE "cg.load"]
    /\ UNCHANGED <<ods, q4, lnk, c2, hl, xl, op, nops, model, bad>>

CGLoad(t) ==
    /\ pc[t] = "cg.load"
    /\ LET h  == op[t].h
           e2 == Entry(c2, h)
       IN IF e2 # 0 /\ ~acc[e2].isClosed
            THEN /\ acc' = [acc EXCEPT ![e2].refs = @ + 1] /\ c2' = Touch(c2, e2)
                 /\ hnd' = [hnd EXCEPT ![t] = [a |-> e2, kind |-> "ref", lower |-> FALSE]]
                 /\ res' = [res EXCEPT ![t] = "found"]
            ELSE IF lnk[h]
              THEN /\ FreeIds # {}
                   /\ LET n  == NewId
                          cc == Without(c2, e2)
                          ev == Evictee(cc, C2Size)
                      IN /\ acc' = MarkEvicted(OpenFile(acc, n, h, 1), ev)
                         /\ c2' = AddTo(cc, C2Size, n)
                         /\ hnd' = [hnd EXCEPT ![t] = [a |-> n, kind |-> "ref", lower |-> FALSE]]
                   /\ res' = [res EXCEPT ![t] = "found"]
              ELSE /\ res' = [res EXCEPT ![t] = "notfound"]
                   /\ c2' = IF e2 # 0 THEN Touch(c2, e2) ELSE c2
                   /\ UNCHANGED <<acc, hnd>>
    /\ hl' = IF CachedGetLocks THEN RUnlockOf(t) ELSE hl
    /\ pc' = [pc EXCEPT ![t] = "hold"]
    /\ UNCHANGED <<ods, q4, lnk, c1, xl, op, nops, model, bad>>

(* A reader holding an accessor: reads, in particular the FIRST read of the lower half of the    *)
(* square, which opens the Q4 file lazily by path (ods_q4.go tryLoadQ4).                         *)
ReadLower(t) ==
    /\ pc[t] = "hold" /\ hnd[t].a # 0 /\ ~hnd[t].lower
    /\ LET a == hnd[t].a
           h == acc[a].h
       IN /\ IF ~acc[a].open
               THEN /\ bad' = bad \cup {"use-after-close"} /\ UNCHANGED acc
               ELSE IF acc[a].src = "file" /\ acc[a].q4b = "unopened"
                 THEN IF q4[h] = "full" \/ (q4[h] = "partial" /\ ~ValidateQ4OnOpen)
                        THEN /\ acc' = [acc EXCEPT ![a].q4b = "bound"]
                             /\ bad' = IF q4[h] = "partial" THEN bad \cup {"partial-q4-served"} ELSE bad
                        ELSE /\ acc' = [acc EXCEPT ![a].q4b = "none"] /\ UNCHANGED bad
                 ELSE UNCHANGED <<acc, bad>>
          /\ hnd' = [hnd EXCEPT ![t].lower = TRUE]
    /\ UNCHANGED <<ods, q4, lnk, c1, c2, hl, xl, pc, op, nops, res, model>>

CloseHandle(t) ==
    /\ pc[t] = "hold"
    /\ LET a  == hnd[t].a
           hh == [hnd EXCEPT ![t] = NoHnd]
       IN IF a = 0 THEN UNCHANGED acc
          ELSE IF hnd[t].kind = "ref"
            THEN acc' = Settle([acc EXCEPT ![a].refs = @ - 1], c1, c2, hh)
            ELSE acc' = Settle([acc EXCEPT ![a].open = FALSE], c1, c2, hh)
    /\ hnd' = [hnd EXCEPT ![t] = NoHnd]
    /\ pc' = [pc EXCEPT ![t] = "idle"] /\ op' = [op EXCEPT ![t] = NoOp]
    /\ UNCHANGED <<ods, q4, lnk, c1, c2, hl, xl, nops, res, model, bad>>

----------------------------------------------------------------------------
(* The goroutine started by the eviction call-back: close once the references are gone.       *)
AsyncClose(a) ==
    /\ acc[a].closer = -1 /\ acc[a].isClosed /\ acc[a].open
    /\ (acc[a].refs = 0 \/ AllowTimeout)
    /\ acc' = Settle([acc EXCEPT ![a].open = FALSE, ![a].closer = 0], c1, c2, hnd)
    /\ UNCHANGED <<ods, q4, lnk, c1, c2, hl, xl, pc, op, nops, hnd, res, model, bad>>

AllDone == \A t \in Threads : pc[t] = "idle" /\ nops[t] = MaxOpsPer[t]
Pending == \E a \in AccIds : acc[a].isClosed /\ acc[a].open
Quiescent == AllDone /\ ~Pending

Done == Quiescent /\ UNCHANGED vars

Next ==
    \/ \E t \in Threads :
          \/ Start(t) \/ PCache(t) \/ PUnref(t) \/ LockX(t) \/ LockH(t) \/ Unlock(t)
          \/ POds(t) \/ PQ4a(t) \/ PQ4b(t) \/ PLink(t)
          \/ RCache(t) \/ RCacheWait(t) \/ RLink(t) \/ ROds(t) \/ RQ4(t)
          \/ RLock(t) \/ GOpen(t) \/ HEval(t) \/ CGFirst(t) \/ CGLoad(t)
          \/ ReadLower(t) \/ CloseHandle(t)
    \/ \E a \in AccIds : AsyncClose(a)
    \/ Done

Spec == Init /\ [][Next]_vars

----------------------------------------------------------------------------
(* Properties                                                              *)

(* every read through an accessor returns the data of the block it was opened on: the only way  *)
(* to get anything else is a lazy Q4 open that binds to a half-written file                     *)
ReadersSeeOwnBlock == "partial-q4-served" \notin bad

(* no read reaches a closed accessor while the reader's handle is open                          *)
NoUseAfterClose == "use-after-close" \notin bad

(* the reference count of a cache entry is the number of handles on it                          *)
RefsBalanced ==
    \A a \in AccIds : acc[a].src # "none" =>
        acc[a].refs = Cardinality({t \in Threads : hnd[t].a = a /\ hnd[t].kind = "ref"})

(* an accessor that is not closed is reachable: cached, held by a reader, or being closed       *)
NoOrphan ==
    \A a \in AccIds : (acc[a].src # "none" /\ acc[a].open) =>
        \/ Cached(a) \/ acc[a].isClosed \/ \E t \in Threads : hnd[t].a = a

(* at quiescence the directory and the caches agree with the sequential specification applied   *)
(* in the order in which the writers held the height lock                                        *)
Linearizable ==
    Quiescent => \A h \in Heights :
        /\ FileAbs(h) = model[h]
        /\ (Entry(c1, h) # 0 \/ Entry(c2, h) # 0) => model[h] # "absent"

(* at quiescence every open descriptor belongs to a cached accessor of a block that is stored    *)
FilesReleased ==
    Quiescent => \A a \in AccIds :
        (acc[a].src = "file" /\ acc[a].open) => (Cached(a) /\ model[acc[a].h] # "absent")

(* locks are free at quiescence                                                                  *)
LocksFree == Quiescent => (\A s \in HStripes : hl[s] = Free) /\ (\A s \in XStripes : xl[s] = Free)

(* liveness: every run reaches quiescence (checked with weak fairness in the *_live configs)     *)
Fair == WF_vars(Next)
Terminates == <>[]Quiescent
=============================================================================
