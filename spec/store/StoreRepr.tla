----------------------------- MODULE StoreRepr -----------------------------
(***************************************************************************)
(* C05 - every way of reading a stored block returns exactly the block     *)
(* that was stored.                                                         *)
(*                                                                           *)
(* Store-level state machine for ONE block at ONE height: which            *)
(* REPRESENTATIONS of the block exist (files on disk, the in-memory        *)
(* accessor in the recent cache, the file accessor in the serving cache,    *)
(* an accessor a reader still holds) and how the ways of opening the block  *)
(* resolve to one of them.  The accessor objects and their read rules are   *)
(* in SRAccessor.tla, the square / file format in SRSquare.tla.             *)
(*                                                                           *)
(* Actions (store/store.go, store_cache.go, getter.go, cache/*.go):         *)
(*   PutODSQ4, PutODS   put(): recent-cache insertion FIRST (skipped when   *)
(*                      the serving cache already has the height), then     *)
(*                      the files; "exists" short-cut; ODSQ4 over an        *)
(*                      ODS-only block just adds the Q4 file (the ODS and   *)
(*                      the Q4 file are created independently, the size     *)
(*                      validation that follows finds both complete)        *)
(*   Reopen             NewStore over the same directory: caches empty      *)
(*   RemoveQ4           cache.Remove(height) + unlink Q4                    *)
(*   RemoveODSQ4        (Extended) cache.Remove + unlink link, ODS, Q4      *)
(*   EvictRecent, EvictServing   LRU eviction by another height             *)
(*   HoldStore, HoldCached       OpenViaStore / OpenViaCachedStore, the     *)
(*                      accessor is kept open across later actions          *)
(*   ReadUpperHeld, ReadAllHeld, CloseHeld     reads through the held one   *)
(*   GetterReadAll      store.Getter: open-read-close per call              *)
(*   CachedReadUpper, CachedReadAll   open-read-close through CachedStore   *)
(* Reads are macro steps (SRAccessor.WRead folded over a generating set of  *)
(* reads): "upper" = reads that need neither Q4 nor the whole ODS, "all" =  *)
(* every read.  This is what decides the later behaviour of an accessor:    *)
(* the Q4 file is looked up by path ONCE, at the first read that needs it.  *)
(*                                                                           *)
(* The whole store state is one record st (so that sequences of actions can *)
(* be composed inside operators: Pred(st) is the model's prediction for the *)
(* fixed sequence of probes the driver runs in every state).  hist is the   *)
(* action history (hidden from the VIEW); every transition is printed as an *)
(* EDGE record and replayed on the real store by the driver.                *)
(***************************************************************************)
EXTENDS SRAccessor, Json

CONSTANTS MaxObj,        \* bound on simultaneously live accessor objects
          Extended       \* TRUE: also RemoveODSQ4 (the block leaves the store; a held accessor keeps reading the
                         \* unlinked files) and Reopen while an accessor of the previous Store instance is still held

VARIABLES W,             \* the world: the square that is (to be) stored and its roots
          st,            \* the store: configuration, files, caches, accessor objects, held handle
          hist           \* history of actions (ghost)

vars == <<W, st, hist>>
view == <<W, st>>

WorldOf(L) == LET E == MkEDS(L) IN [E |-> E, roots |-> RootsOf(E), L |-> L]
IsEmptyBlock == IsEmptyEDS(W.E)

---------------------------------------------------------------------------
FreeSlot == [used |-> FALSE]
NoHeld   == [open |-> FALSE, id |-> 0, kind |-> "none"]

InitStore(cfgR, cfgS) ==
  [cfgR |-> cfgR, cfgS |-> cfgS,
   \* NewStore writes the empty block's files; any other block has no file before it is put
   odsF |-> IF IsEmptyBlock THEN [present |-> TRUE] @@ OdsFileOf(W.E) ELSE NoOdsFile,
   q4F  |-> IF IsEmptyBlock THEN [present |-> TRUE, cells |-> Q4FileOf(W.E)] ELSE NoQ4File,
   link |-> FALSE,
   objs |-> [i \in 1..MaxObj |-> FreeSlot],
   recent |-> 0, serving |-> 0, held |-> NoHeld]

Referenced(S) == ({S.recent, S.serving} \cup (IF S.held.open THEN {S.held.id} ELSE {})) \ {0}
Gc(S) == [S EXCEPT !.objs = [i \in 1..MaxObj |-> IF i \in Referenced(S) THEN S.objs[i] ELSE FreeSlot]]
HasFree(S) == \E i \in 1..MaxObj : ~S.objs[i].used
NewId(S) == CHOOSE i \in 1..MaxObj : ~S.objs[i].used /\ \A j \in 1..(i-1) : S.objs[j].used
Alloc(S, w) == [S EXCEPT !.objs[NewId(S)] = [used |-> TRUE, w |-> w]]

NewMemObj  == Wrap(MemInner(W.E))            \* wrapAccessor(&eds.Rsmt2D{square})
NewFileObj(S) == Wrap(FileInner(S.odsF))     \* openAccessor: OpenODS + ODSWithQ4(path), wrapped

---------------------------------------------------------------------------
(* How the block is found *)
StoreLookup(S) ==           \* s.cache.Get: recent cache, then (if WithCache was called) the serving cache
  IF S.cfgR /\ S.recent # 0 THEN S.recent ELSE IF S.cfgS /\ S.serving # 0 THEN S.serving ELSE 0
HasByHeight(S) == StoreLookup(S) # 0 \/ S.link

(* Store.GetByHeight: cache hit -> a reference to the shared object; else a fresh accessor over the *)
(* file behind the height link (owned by the caller, unknown to any cache)                         *)
OpenStore(S) ==
  IF StoreLookup(S) # 0
  THEN [found |-> TRUE, S |-> S, id |-> StoreLookup(S), kind |-> "ref",
        via |-> IF StoreLookup(S) = S.recent /\ S.cfgR THEN "recent" ELSE "serving"]
  ELSE IF S.link THEN [found |-> TRUE, S |-> Alloc(S, NewFileObj(S)), id |-> NewId(S), kind |-> "owned", via |-> "file"]
  ELSE [found |-> FALSE, S |-> S, id |-> 0, kind |-> "none", via |-> "none"]

(* CachedStore.GetByHeight: recent cache, then GetOrLoad on the serving cache                      *)
OpenCached(S) ==
  IF S.cfgR /\ S.recent # 0 THEN [found |-> TRUE, S |-> S, id |-> S.recent, kind |-> "ref", via |-> "recent"]
  ELSE IF S.serving # 0 THEN [found |-> TRUE, S |-> S, id |-> S.serving, kind |-> "ref", via |-> "serving"]
  ELSE IF S.link THEN [found |-> TRUE, S |-> [Alloc(S, NewFileObj(S)) EXCEPT !.serving = NewId(S)],
                       id |-> NewId(S), kind |-> "ref", via |-> "loaded"]
  ELSE [found |-> FALSE, S |-> S, id |-> 0, kind |-> "none", via |-> "none"]

(* Store.GetByHash: never a cache; a fresh accessor over the file, or, for the empty block, over    *)
(* the package-level in-memory square - wrapped like every accessor the store hands out             *)
ByHashVia(S) == IF IsEmptyBlock THEN "emptymem" ELSE IF S.odsF.present THEN "file" ELSE "none"

---------------------------------------------------------------------------
(* Macro reads: fold WRead over a generating set.  After "all" the object is in the same state as  *)
(* after every read of AllArgs in any order (row entries: half+extended+proofs; column entries:    *)
(* half; the Q4 look-up made; the ODS pulled into memory iff a lower/right axis had to be           *)
(* recomputed because there was no Q4 file).  SRObject!WarmIsCanon checks exactly this.            *)
RECURSIVE Fold(_, _, _)
Fold(w, dq4, reads) ==
  IF reads = <<>> THEN w ELSE Fold(WRead(W, w, dq4, Head(reads)[1], Head(reads)[2]).w, dq4, Tail(reads))
UpperReads(k) == [i \in 1..k |-> <<"Sample", <<i-1, 0>>>>] \o [i \in 1..k |-> <<"AxisHalf", <<"col", i-1>>>>]
                 \o <<<<"Range", <<0, 1>>>>, <<"Roots", <<>>>>>>
AllReads(k)   == [i \in 1..(2*k) |-> <<"Sample", <<i-1, 0>>>>] \o [i \in 1..(2*k) |-> <<"AxisHalf", <<"col", i-1>>>>]
                 \o <<<<"Shares", <<>>>>, <<"Reader", <<>>>>>>
Warm(S, id, which) ==
  LET k == EK(W.E) IN
  [S EXCEPT !.objs[id].w = Fold(@, S.q4F, IF which = "upper" THEN UpperReads(k) ELSE AllReads(k))]
Release(S, r) ==            \* Close of what OpenStore/OpenCached returned: an owned accessor ends here
  IF r.kind = "owned" THEN Gc([S EXCEPT !.objs[r.id] = FreeSlot]) ELSE S

---------------------------------------------------------------------------
(* put() *)
BlocksOnHeld(S) ==          \* cache.Remove waits for the references of a cached accessor to be released
  S.held.open /\ S.held.kind = "ref" /\ S.held.id \in {S.recent, S.serving}
CacheInsert(S) ==           \* s.cache.GetOrLoad(height, mem accessor), released at once
  IF S.cfgS /\ S.serving # 0 THEN S            \* DoubleCache.GetOrLoad looks into the serving cache first
  ELSE IF S.cfgR /\ S.recent = 0 THEN [Alloc(S, NewMemObj) EXCEPT !.recent = NewId(S)]
  ELSE S
DropCaches(S) == Gc([S EXCEPT !.recent = 0, !.serving = 0])
WriteOds(S) == [S EXCEPT !.odsF = [present |-> TRUE] @@ OdsFileOf(W.E), !.link = TRUE]
WriteQ4(S)  == [S EXCEPT !.q4F = [present |-> TRUE, cells |-> Q4FileOf(W.E)]]

DoPutODSQ4(S) ==
  IF IsEmptyBlock THEN [S EXCEPT !.link = TRUE]                       \* only the (sym)link
  ELSE LET S1 == CacheInsert(S) IN
       IF S1.odsF.present /\ S1.q4F.present THEN S1                   \* exists
       ELSE IF S1.odsF.present THEN WriteQ4(S1)                       \* ODS exists, Q4 is created; sizes validate; caches stay
       ELSE WriteQ4(WriteOds(S1))
DoPutODS(S) ==
  IF IsEmptyBlock THEN [S EXCEPT !.link = TRUE]
  ELSE LET S1 == CacheInsert(S) IN IF S1.odsF.present THEN S1 ELSE WriteOds(S1)

DoRemoveQ4(S) == IF IsEmptyBlock THEN S ELSE [DropCaches(S) EXCEPT !.q4F = NoQ4File]
(* removeODSQ4: removeODS (cache, height link, ODS file - for the empty block only the link) then removeQ4 *)
DoRemoveODSQ4(S) ==
  IF IsEmptyBlock THEN [DropCaches(S) EXCEPT !.link = FALSE]
  ELSE [DropCaches(S) EXCEPT !.link = FALSE, !.odsF = NoOdsFile, !.q4F = NoQ4File]

---------------------------------------------------------------------------
(* The actions as (enabled, effect) on the state record *)
Labels == {"PutODSQ4", "PutODS", "Reopen", "RemoveQ4", "RemoveODSQ4", "EvictRecent", "EvictServing", "HoldStore", "HoldCached",
           "ReadUpperHeld", "ReadAllHeld", "CloseHeld", "GetterReadAll", "CachedReadUpper", "CachedReadAll"}

Enabled(a, S) ==
  CASE a = "PutODSQ4" -> HasFree(S)
    [] a = "PutODS"   -> HasFree(S)
    [] a = "Reopen"   -> ~S.held.open \/ Extended
    [] a = "RemoveQ4" -> S.link /\ ~BlocksOnHeld(S)
    [] a = "RemoveODSQ4" -> Extended /\ S.link /\ ~BlocksOnHeld(S)
    [] a = "EvictRecent"  -> S.cfgR /\ S.recent # 0
    [] a = "EvictServing" -> S.cfgS /\ S.serving # 0
    [] a = "HoldStore"    -> ~S.held.open /\ HasFree(S) /\ OpenStore(S).found
    [] a = "HoldCached"   -> S.cfgS /\ ~S.held.open /\ HasFree(S) /\ OpenCached(S).found
    [] a \in {"ReadUpperHeld", "ReadAllHeld", "CloseHeld"} -> S.held.open
    [] a = "GetterReadAll" -> HasFree(S) /\ OpenStore(S).found
    [] a \in {"CachedReadUpper", "CachedReadAll"} -> S.cfgS /\ HasFree(S) /\ OpenCached(S).found

Apply(a, S) ==
  CASE a = "PutODSQ4" -> DoPutODSQ4(S)
    [] a = "PutODS"   -> DoPutODS(S)
    [] a = "Reopen"   -> DropCaches(S)
    [] a = "RemoveQ4" -> DoRemoveQ4(S)
    [] a = "RemoveODSQ4" -> DoRemoveODSQ4(S)
    [] a = "EvictRecent"  -> Gc([S EXCEPT !.recent = 0])
    [] a = "EvictServing" -> Gc([S EXCEPT !.serving = 0])
    [] a = "HoldStore"    -> LET r == OpenStore(S) IN [r.S EXCEPT !.held = [open |-> TRUE, id |-> r.id, kind |-> r.kind]]
    [] a = "HoldCached"   -> LET r == OpenCached(S) IN [r.S EXCEPT !.held = [open |-> TRUE, id |-> r.id, kind |-> r.kind]]
    [] a = "ReadUpperHeld" -> Warm(S, S.held.id, "upper")
    [] a = "ReadAllHeld"   -> Warm(S, S.held.id, "all")
    [] a = "CloseHeld"     -> Gc([S EXCEPT !.held = NoHeld])
    [] a = "GetterReadAll" -> LET r == OpenStore(S) IN Release(Warm(r.S, r.id, "all"), r)
    [] a = "CachedReadUpper" -> LET r == OpenCached(S) IN Release(Warm(r.S, r.id, "upper"), r)
    [] a = "CachedReadAll"   -> LET r == OpenCached(S) IN Release(Warm(r.S, r.id, "all"), r)

Step(a) == /\ Enabled(a, st)
           /\ st' = Apply(a, st)
           /\ (a \in {"ReadUpperHeld", "ReadAllHeld", "GetterReadAll", "CachedReadUpper", "CachedReadAll"} => st' # st)
           /\ hist' = Append(hist, a)
           /\ UNCHANGED W

PutODSQ4 == Step("PutODSQ4")          PutODS == Step("PutODS")
Reopen == Step("Reopen")              RemoveQ4 == Step("RemoveQ4")
RemoveODSQ4 == Step("RemoveODSQ4")
EvictRecent == Step("EvictRecent")    EvictServing == Step("EvictServing")
HoldStore == Step("HoldStore")        HoldCached == Step("HoldCached")
ReadUpperHeld == Step("ReadUpperHeld")  ReadAllHeld == Step("ReadAllHeld")
CloseHeld == Step("CloseHeld")        GetterReadAll == Step("GetterReadAll")
CachedReadUpper == Step("CachedReadUpper")  CachedReadAll == Step("CachedReadAll")

Next == \/ PutODSQ4 \/ PutODS \/ Reopen \/ RemoveQ4 \/ RemoveODSQ4 \/ EvictRecent \/ EvictServing \/ HoldStore \/ HoldCached
        \/ ReadUpperHeld \/ ReadAllHeld \/ CloseHeld \/ GetterReadAll \/ CachedReadUpper \/ CachedReadAll

---------------------------------------------------------------------------
(* Observables of an accessor object that the driver can see on the real one: which SIDE of a       *)
(* lower/right axis it hands out (Q4 file => parity side), the proof axis of samples in Q3, where   *)
(* the streamed ODS comes from.  Computed by actually reading through the model object.             *)
Obs(w, dq4) ==
  LET k == EK(W.E)
      wa == Fold(w, dq4, AllReads(k)) IN
  [lowerRowPar |-> WRead(W, wa, dq4, "AxisHalf", <<"row", k>>).res.par,
   lowerColPar |-> WRead(W, wa, dq4, "AxisHalf", <<"col", k>>).res.par,
   upperPar    |-> WRead(W, wa, dq4, "AxisHalf", <<"row", 0>>).res.par,
   q3axis      |-> WRead(W, wa, dq4, "Sample", <<k, 0>>).res.axis,
   reader      |-> WRead(W, wa, dq4, "Reader", <<>>).res.src,
   core        |-> w.inner.variant]
NoObs == [lowerRowPar |-> FALSE, lowerColPar |-> FALSE, upperPar |-> FALSE, q3axis |-> "none", reader |-> "none", core |-> "none"]

(* the same for the plain cores opened directly on the files (file.OpenODS, file.ODSWithQ4), read *)
(* in the order: Reader, lower row, right column, Q3 sample, Shares, Reader again                  *)
PObs(o, dq4) ==
  LET k == EK(W.E)
      r0 == PRead(W, o, dq4, "Reader", <<>>)
      h1 == PRead(W, r0.o, dq4, "AxisHalf", <<"row", k>>)
      h2 == PRead(W, h1.o, dq4, "AxisHalf", <<"col", k>>)
      s  == PRead(W, h2.o, dq4, "Sample", <<k, 0>>)
      sh == PRead(W, s.o, dq4, "Shares", <<>>)
      r1 == PRead(W, sh.o, dq4, "Reader", <<>>) IN
  [reader0 |-> r0.res.src, lowerRowPar |-> h1.res.par, lowerColPar |-> h2.res.par, q3axis |-> s.res.axis,
   reader1 |-> r1.res.src]
NoPObs == [reader0 |-> "none", lowerRowPar |-> FALSE, lowerColPar |-> FALSE, q3axis |-> "none", reader1 |-> "none"]

(* The model's prediction for the probe sequence the driver runs in EVERY state it reaches:        *)
(*   has; reads through the held accessor; Store.GetByHeight + all reads + Close; the getter;      *)
(*   CachedStore.GetByHeight + all reads + Close; Store.GetByHeight again; GetByHash.              *)
Pred(S) ==
  LET q == S.q4F
      s1 == IF S.held.open THEN Warm(S, S.held.id, "all") ELSE S
      o3 == OpenStore(s1)
      s3 == IF o3.found /\ HasFree(s1) THEN Release(Warm(o3.S, o3.id, "all"), o3) ELSE s1
      o5 == OpenCached(s3)
      s5 == IF S.cfgS /\ o5.found /\ HasFree(s3) THEN Release(Warm(o5.S, o5.id, "all"), o5) ELSE s3
      o6 == OpenStore(s5)
      obsOf(o) == IF o.found THEN Obs(o.S.objs[o.id].w, q) ELSE NoObs IN
  [has   |-> HasByHeight(S),
   held  |-> IF S.held.open THEN [open |-> TRUE, kind |-> S.held.kind, obs |-> Obs(S.objs[S.held.id].w, q)]
             ELSE [open |-> FALSE, kind |-> "none", obs |-> NoObs],
   store |-> [found |-> o3.found, via |-> o3.via, obs |-> obsOf(o3)],
   cached |-> IF S.cfgS THEN [found |-> o5.found, via |-> o5.via, obs |-> obsOf(o5)]
              ELSE [found |-> FALSE, via |-> "off", obs |-> NoObs],
   store2 |-> [found |-> o6.found, via |-> o6.via, obs |-> obsOf(o6)],
   byhash |-> [via |-> ByHashVia(S),
               obs |-> IF ByHashVia(S) = "file" THEN Obs(NewFileObj(S), q)
                       ELSE IF ByHashVia(S) = "emptymem" THEN Obs(NewMemObj, q) ELSE NoObs],
   plainq4  |-> IF S.odsF.present THEN PObs(FileInner(S.odsF), q) ELSE NoPObs,
   plainods |-> IF S.odsF.present THEN PObs(PlainOdsInner(S.odsF), q) ELSE NoPObs,
   disk |-> [ods |-> S.odsF.present, q4 |-> S.q4F.present, link |-> S.link]]

(* Abstract description of a store state (what the VIEW distinguishes, in readable form): used to  *)
(* join EDGE records (transitions) with STATE records (predictions), and in the driver's reports.   *)
LevelOf(w) == LET k == KOf(w.inner) IN
              IF ~w.pc[<<"row", 0>>].has THEN "cold" ELSE IF w.pc[<<"row", k>>].has THEN "all" ELSE "upper"
ObjAbs(S, id) ==
  IF id = 0 THEN [core |-> "none", q4 |-> "none", mem |-> FALSE, level |-> "none"]
  ELSE LET w == S.objs[id].w IN [core |-> w.inner.variant, q4 |-> w.inner.q4.st, mem |-> w.inner.mem, level |-> LevelOf(w)]
Abs(S) ==
  [cfgR |-> S.cfgR, cfgS |-> S.cfgS, ods |-> S.odsF.present, q4 |-> S.q4F.present, link |-> S.link,
   recent |-> ObjAbs(S, S.recent), serving |-> ObjAbs(S, S.serving),
   held |-> [open |-> S.held.open, kind |-> S.held.kind,
             which |-> IF ~S.held.open THEN "none" ELSE IF S.held.id = S.recent THEN "recent"
                       ELSE IF S.held.id = S.serving THEN "serving" ELSE "own",
             obj |-> ObjAbs(S, IF S.held.open THEN S.held.id ELSE 0)]]

(* EDGE records: evaluated on every generated transition (ACTION_CONSTRAINT), before the           *)
(* de-duplication of states, so every edge of the representation graph is printed exactly once,    *)
(* with a shortest history leading to its source state.  STATE records: once per distinct state,   *)
(* the predictions for the probes.  bin/check joins the two on (empty, abs).                       *)
PrintEdge ==
  PrintT(<<"EDGE", ToJson([hist |-> hist', empty |-> IsEmptyBlock, abs |-> Abs(st')])>>)
PrintState ==
  PrintT(<<"STATE", ToJson([hist |-> hist, empty |-> IsEmptyBlock, abs |-> Abs(st), pred |-> Pred(st)])>>)

---------------------------------------------------------------------------
(* Invariants *)
LiveObjs(S) == { i \in 1..MaxObj : S.objs[i].used }

(* THE property on the model: whatever accessor object is alive, in whatever state the history    *)
(* left it, every read through it - for every argument - is the specified one.                    *)
ReadsCorrect == \A i \in LiveObjs(st) : WrappedReadsCorrect(W, st.objs[i].w, st.q4F)

(* ... and an accessor about to be created by any way of opening the block as well                *)
OpensCorrect ==
  /\ (st.link /\ HasFree(st)) => WrappedReadsCorrect(W, NewFileObj(st), st.q4F)
  /\ (st.odsF.present /\ ~IsEmptyBlock) => PlainReadsCorrect(W, FileInner(st.odsF), st.q4F) /\ PlainReadsCorrect(W, PlainOdsInner(st.odsF), st.q4F)
  /\ PlainReadsCorrect(W, MemInner(W.E), st.q4F)

(* files are written once and always in the specified format; the link implies the ODS file       *)
DiskOK == /\ st.odsF.present => ([present |-> TRUE] @@ OdsFileOf(W.E)) = st.odsF
          /\ st.q4F.present => st.q4F.cells = Q4FileOf(W.E)
          /\ st.link => st.odsF.present

(* the two latent oddities of proofs_cache.go are unreachable: an axis half of the FIRST half of   *)
(* rows is never the parity side, in any representation                                           *)
LatentUnreachable ==
  \A i \in LiveObjs(st) : \A r \in 0..(EK(W.E)-1) :
     /\ st.objs[i].w.pc[<<"row", r>>].has => ~st.objs[i].w.pc[<<"row", r>>].half.par
     /\ ~InnerAxisHalf(W, st.objs[i].w.inner, st.q4F, "row", r).res.par

(* every accessor object that exists is canonical (SRAccessor!CanonObj): with the object-level      *)
(* result (SRObject) this gives ReadsCorrect for every layout without re-reading in every state    *)
ObjsCanon == \A i \in LiveObjs(st) : CanonObj(W, st.objs[i].w)

RefsOK == /\ st.recent # 0 => st.objs[st.recent].used /\ st.objs[st.recent].w.inner.variant = "mem"
          /\ st.serving # 0 => st.objs[st.serving].used /\ st.objs[st.serving].w.inner.variant = "odsq4"
          /\ st.held.open => st.objs[st.held.id].used
          /\ ~st.cfgR => st.recent = 0
          /\ ~st.cfgS => st.serving = 0
=============================================================================
