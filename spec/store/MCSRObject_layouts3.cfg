\* Layout facts only (LAYOUT records for the driver): every layout of width 1 and 2 with three namespaces
\* (two namespaces) and the empty block; the format is lossless on each (FormatLossless).
SPECIFICATION Spec
CONSTANTS
  Ks = {1, 2}
  NsSeq <- Ns3
  WithEmpty = TRUE
  Levels = {"cold"}
  MaxStep = 0
  Plain = TRUE
  OnlyLayouts = TRUE
  FullProduct = FALSE
INVARIANTS FormatLossless PrintLayout
CHECK_DEADLOCK FALSE
