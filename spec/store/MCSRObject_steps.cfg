\* Object level, thorough: widths 1 and 2, FOUR namespaces incl. reserved ones, full product of object states,
\* two single-read steps from every object (intermediate proof-cache states).
SPECIFICATION Spec
CONSTANTS
  Ks = {1, 2}
  NsSeq <- Ns4
  WithEmpty = TRUE
  Levels = {"cold", "upper", "all"}
  MaxStep = 2
  Plain = TRUE
  OnlyLayouts = FALSE
  FullProduct = TRUE
INVARIANTS ObjCorrect FormatLossless SideRule LatentUnreachable WarmIsCanon
CHECK_DEADLOCK FALSE
