\* Store level, thorough: all layouts of width 1 and 2 with three namespaces and the empty block.
SPECIFICATION Spec
CONSTANTS
  MaxObj = 4
  Extended = TRUE
  Ks = {1, 2}
  NsSeq <- Ns3
  WithEmpty = TRUE
  CfgRs = {TRUE, FALSE}
  CfgSs = {TRUE, FALSE}
VIEW view
INVARIANTS RefsOK DiskOK ObjsCanon LatentUnreachable
CHECK_DEADLOCK FALSE
