\* with the one-minute time-out allowed to fire the accessor can be closed under a reader (DESIGN.md section 11):
\* TLC reports NoUseAfterClose / ClosedOnlyUnreferenced violated -- documented behaviour, not checked on the code
SPECIFICATION Spec
CONSTANTS
  Clients = {1, 2}
  Keys = {1}
  Cap = 1
  MaxOps = 2
  MaxAcc = 4
  AllowTimeout = TRUE
INVARIANTS RefsBalanced NoPanic ClosedOnce NoUseAfterClose
