---------------------------- MODULE AccessorCache ----------------------------
(***************************************************************************)
(* The reference-counted LRU cache of open accessors                       *)
(* (store/cache/accessor_cache.go), at the granularity of its own          *)
(* synchronisation: the stripe RW lock of the cache, the entry's mutex,    *)
(* its atomic counter, its `done` channel (closed when the last reference  *)
(* goes, RE-CREATED when a first reference comes), the isClosed flag, the  *)
(* refCloser's compare-and-swap that makes a handle's Close idempotent.    *)
(*                                                                         *)
(*   Get(k)        RLock stripe; lru.Get; addRef (fails on isClosed)       *)
(*   GetOrLoad(k)  Lock stripe; lru.Get; addRef; on miss/closed: load a    *)
(*                 new accessor, take its first reference, THEN lru.Add    *)
(*                 (which replaces the value of an existing key without    *)
(*                 the eviction call-back, or evicts the oldest entry)     *)
(*   Remove(k)     RLock stripe; lru.Get; RUnlock; entry.close(); then     *)
(*                 lru.Remove(k)  -- of whatever entry k has by then       *)
(*   eviction      call-back starts a goroutine running entry.close()      *)
(*   close()       lock; if isClosed return; isClosed = true; d = done;    *)
(*                 unlock; wait for d (or the time-out); inner Close()     *)
(*                                                                         *)
(* StoreConc.tla uses the atomic abstraction {refs, isClosed}; this module *)
(* justifies it: the counter equals the number of open handles, the inner  *)
(* accessor is closed exactly once and only when no handle is open (unless *)
(* the explicit time-out fires), no channel is closed twice, Remove and    *)
(* the eviction goroutine terminate once the readers close.                *)
(***************************************************************************)
EXTENDS Integers, Sequences, FiniteSets, TLC

CONSTANTS
    Clients,       \* client threads
    Keys,          \* heights (all on one stripe of the cache's striped lock: k mod 256 equal)
    Cap,           \* LRU capacity (>= 1)
    MaxOps,        \* operations per client
    MaxAcc,        \* bound on accessor objects ever created
    AllowTimeout   \* may the one-minute close time-out fire?

AccIds == 1..MaxAcc
NoHnd == [a |-> 0, closed |-> TRUE]

VARIABLES
    lru,        \* sequence of [k, a], most recently used first
    sl,         \* stripe lock [w |-> client or 0, r |-> set of clients]
    \* per accessor object
    made,       \* number of accessors created so far (ids 1..made exist)
    key,        \* [AccIds -> key]
    refs,       \* atomic counter
    isClosed,   \* flag under the entry's mutex
    chanGen,    \* generation of the current `done` channel (0 = nil)
    chanClosed, \* is the current `done` channel closed
    inner,      \* "open" | "closed"     the wrapped accessor
    ncloses,    \* how often inner Close() was called
    \* closers: goroutines inside close() (clients in Remove, or eviction goroutines)
    closers,    \* set of [who, a, gen] : who = client or 0 (eviction goroutine); gen = captured channel
    \* clients
    pc, arg, held, nops, hnd,
    \* monitors
    panics

vars == <<lru, sl, made, key, refs, isClosed, chanGen, chanClosed, inner, ncloses, closers, pc, arg, held, nops, hnd, panics>>

Find(k) == IF \E i \in 1..Len(lru) : lru[i].k = k
             THEN (CHOOSE i \in 1..Len(lru) : lru[i].k = k) ELSE 0
Drop(i) == SubSeq(lru, 1, i - 1) \o SubSeq(lru, i + 1, Len(lru))
Front(i) == <<lru[i]>> \o Drop(i)

Init ==
    /\ lru = <<>> /\ sl = [w |-> 0, r |-> {}]
    /\ made = 0
    /\ key = [a \in AccIds |-> 0] /\ refs = [a \in AccIds |-> 0] /\ isClosed = [a \in AccIds |-> FALSE]
    /\ chanGen = [a \in AccIds |-> 0] /\ chanClosed = [a \in AccIds |-> FALSE]
    /\ inner = [a \in AccIds |-> "open"] /\ ncloses = [a \in AccIds |-> 0]
    /\ closers = {}
    /\ pc = [c \in Clients |-> "idle"] /\ arg = [c \in Clients |-> 0] /\ held = [c \in Clients |-> 0]
    /\ nops = [c \in Clients |-> 0] /\ hnd = [c \in Clients |-> NoHnd]
    /\ panics = {}

----------------------------------------------------------------------------
(* entry.addRef / removeRef / close step 1, each atomic under the entry's mutex *)

\* returns via the primed variables; ok tells whether the reference was granted
AddRefOK(a) == ~isClosed[a]
DoAddRef(a) ==
    /\ refs' = [refs EXCEPT ![a] = @ + 1]
    /\ IF refs[a] + 1 = 1
         THEN chanGen' = [chanGen EXCEPT ![a] = @ + 1] /\ chanClosed' = [chanClosed EXCEPT ![a] = FALSE]
         ELSE UNCHANGED <<chanGen, chanClosed>>

DoRemoveRef(a) ==
    /\ refs' = [refs EXCEPT ![a] = @ - 1]
    /\ IF refs[a] - 1 <= 0
         THEN /\ chanClosed' = [chanClosed EXCEPT ![a] = TRUE]
              /\ panics' = panics \cup (IF chanGen[a] = 0 THEN {"close of nil channel"} ELSE {})
                                  \cup (IF chanGen[a] # 0 /\ chanClosed[a] THEN {"close of closed channel"} ELSE {})
         ELSE UNCHANGED <<chanClosed, panics>>

\* close(), first part: who = the goroutine; joins `closers` unless somebody closes already
BeginClose(who, a) ==
    IF isClosed[a] THEN UNCHANGED <<isClosed, closers>>
    ELSE /\ isClosed' = [isClosed EXCEPT ![a] = TRUE]
         /\ closers' = closers \cup {[who |-> who, a |-> a, gen |-> chanGen[a]]}

----------------------------------------------------------------------------
(* client operations *)
Start(c) ==
    /\ pc[c] = "idle" /\ nops[c] < MaxOps /\ hnd[c].closed
    /\ \E k \in Keys, o \in {"get", "getorload", "remove"} :
         /\ arg' = [arg EXCEPT ![c] = k]
         /\ pc' = [pc EXCEPT ![c] = o]
    /\ nops' = [nops EXCEPT ![c] = @ + 1]
    /\ UNCHANGED <<lru, sl, made, key, refs, isClosed, chanGen, chanClosed, inner, ncloses, closers, held, hnd, panics>>

\* Get: RLock; lru.Get (moves to front); newRefCloser -> addRef; RUnlock       (one atomic step: the
\* stripe lock is only read-held and the entry's mutex makes addRef atomic)
Get(c) ==
    /\ pc[c] = "get" /\ sl.w = 0
    /\ LET i == Find(arg[c]) IN
         IF i = 0 THEN /\ UNCHANGED <<lru, refs, chanGen, chanClosed, hnd>>
         ELSE /\ lru' = Front(i)
              /\ IF AddRefOK(lru[i].a)
                   THEN DoAddRef(lru[i].a) /\ hnd' = [hnd EXCEPT ![c] = [a |-> lru[i].a, closed |-> FALSE]]
                   ELSE UNCHANGED <<refs, chanGen, chanClosed, hnd>>
    /\ pc' = [pc EXCEPT ![c] = "idle"]
    /\ UNCHANGED <<sl, made, key, isClosed, inner, ncloses, closers, arg, held, nops, panics>>

\* GetOrLoad, step 1: take the stripe lock exclusively
GolLock(c) ==
    /\ pc[c] = "getorload" /\ sl.w = 0 /\ sl.r = {}
    /\ sl' = [sl EXCEPT !.w = c]
    /\ pc' = [pc EXCEPT ![c] = "gol.look"]
    /\ UNCHANGED <<lru, made, key, refs, isClosed, chanGen, chanClosed, inner, ncloses, closers, arg, held, nops, hnd, panics>>

\* step 2: look up; a live entry is returned
GolLook(c) ==
    /\ pc[c] = "gol.look"
    /\ LET i == Find(arg[c]) IN
         IF i # 0 /\ AddRefOK(lru[i].a)
           THEN /\ lru' = Front(i) /\ DoAddRef(lru[i].a)
                /\ hnd' = [hnd EXCEPT ![c] = [a |-> lru[i].a, closed |-> FALSE]]
                /\ sl' = [sl EXCEPT !.w = 0]
                /\ pc' = [pc EXCEPT ![c] = "idle"]
                /\ UNCHANGED <<made, key, held>>
           ELSE \* load a new accessor and take its first reference (not yet in the LRU)
                /\ made < MaxAcc
                /\ made' = made + 1
                /\ key' = [key EXCEPT ![made + 1] = arg[c]]
                /\ DoAddRef(made + 1)
                /\ held' = [held EXCEPT ![c] = made + 1]
                /\ lru' = IF i # 0 THEN Front(i) ELSE lru
                /\ pc' = [pc EXCEPT ![c] = "gol.add"]
                /\ UNCHANGED <<sl, hnd>>
    /\ UNCHANGED <<isClosed, inner, ncloses, closers, arg, nops, panics>>

\* step 3: lru.Add -- replaces the value of an existing key (no call-back) or evicts the oldest entry
\* (call-back: a goroutine that runs close() on it)
GolAdd(c) ==
    /\ pc[c] = "gol.add"
    /\ LET a == held[c]
           i == Find(arg[c])
       IN IF i # 0
            THEN /\ lru' = <<[k |-> arg[c], a |-> a]>> \o Drop(i)
                 /\ UNCHANGED <<isClosed, closers>>
            ELSE IF Len(lru) >= Cap
              THEN /\ lru' = <<[k |-> arg[c], a |-> a]>> \o SubSeq(lru, 1, Len(lru) - 1)
                   /\ BeginClose(0, lru[Len(lru)].a)
              ELSE /\ lru' = <<[k |-> arg[c], a |-> a]>> \o lru
                   /\ UNCHANGED <<isClosed, closers>>
    /\ hnd' = [hnd EXCEPT ![c] = [a |-> held[c], closed |-> FALSE]]
    /\ held' = [held EXCEPT ![c] = 0]
    /\ sl' = [sl EXCEPT !.w = 0]
    /\ pc' = [pc EXCEPT ![c] = "idle"]
    /\ UNCHANGED <<made, key, refs, chanGen, chanClosed, inner, ncloses, arg, nops, panics>>

\* Remove, step 1: RLock; lru.Get; RUnlock
RmLook(c) ==
    /\ pc[c] = "remove" /\ sl.w = 0
    /\ LET i == Find(arg[c]) IN
         IF i = 0 THEN pc' = [pc EXCEPT ![c] = "idle"] /\ UNCHANGED <<lru, held>>
         ELSE /\ lru' = Front(i) /\ held' = [held EXCEPT ![c] = lru[i].a]
              /\ pc' = [pc EXCEPT ![c] = "rm.close"]
    /\ UNCHANGED <<sl, made, key, refs, isClosed, chanGen, chanClosed, inner, ncloses, closers, arg, nops, hnd, panics>>

\* step 2: entry.close(), first part
RmClose(c) ==
    /\ pc[c] = "rm.close"
    /\ BeginClose(c, held[c])
    /\ pc' = [pc EXCEPT ![c] = IF isClosed[held[c]] THEN "rm.drop" ELSE "rm.wait"]
    /\ UNCHANGED <<lru, sl, made, key, refs, chanGen, chanClosed, inner, ncloses, arg, held, nops, hnd, panics>>

\* the wait inside close(), for a client or an eviction goroutine: the captured channel is closed
\* (captured nil channel: blocks for ever, only the time-out helps)
Waited(cl) == (cl.gen # 0 /\ chanGen[cl.a] = cl.gen /\ chanClosed[cl.a]) \/ (cl.gen # 0 /\ chanGen[cl.a] # cl.gen)

FinishClose(cl) ==
    /\ cl \in closers
    /\ Waited(cl) \/ AllowTimeout
    /\ inner' = [inner EXCEPT ![cl.a] = "closed"]
    /\ ncloses' = [ncloses EXCEPT ![cl.a] = @ + 1]
    /\ closers' = closers \ {cl}
    /\ IF cl.who # 0 THEN pc' = [pc EXCEPT ![cl.who] = "rm.drop"] ELSE UNCHANGED pc
    /\ UNCHANGED <<lru, sl, made, key, refs, isClosed, chanGen, chanClosed, arg, held, nops, hnd, panics>>

\* step 3: lru.Remove(k): whatever entry the key has now; its call-back starts a closing goroutine
RmDrop(c) ==
    /\ pc[c] = "rm.drop"
    /\ LET i == Find(arg[c]) IN
         IF i = 0 THEN UNCHANGED <<lru, isClosed, closers>>
         ELSE lru' = Drop(i) /\ BeginClose(0, lru[i].a)
    /\ held' = [held EXCEPT ![c] = 0]
    /\ pc' = [pc EXCEPT ![c] = "idle"]
    /\ UNCHANGED <<sl, made, key, refs, chanGen, chanClosed, inner, ncloses, arg, nops, hnd, panics>>

\* a reader uses its handle
Use(c) ==
    /\ pc[c] = "idle" /\ ~hnd[c].closed
    /\ panics' = panics \cup (IF inner[hnd[c].a] = "closed" THEN {"use after close"} ELSE {})
    /\ UNCHANGED <<lru, sl, made, key, refs, isClosed, chanGen, chanClosed, inner, ncloses, closers, pc, arg, held, nops, hnd>>

\* refCloser.Close: compare-and-swap, then removeRef
CloseHnd(c) ==
    /\ pc[c] = "idle" /\ ~hnd[c].closed
    /\ DoRemoveRef(hnd[c].a)
    /\ hnd' = [hnd EXCEPT ![c].closed = TRUE]
    /\ UNCHANGED <<lru, sl, made, key, isClosed, chanGen, inner, ncloses, closers, pc, arg, held, nops>>

AllDone == \A c \in Clients : pc[c] = "idle" /\ hnd[c].closed /\ nops[c] = MaxOps
Quiescent == AllDone /\ closers = {}
Done == Quiescent /\ UNCHANGED vars

Next ==
    \/ \E c \in Clients : Start(c) \/ Get(c) \/ GolLock(c) \/ GolLook(c) \/ GolAdd(c)
                          \/ RmLook(c) \/ RmClose(c) \/ RmDrop(c) \/ Use(c) \/ CloseHnd(c)
    \/ \E cl \in closers : FinishClose(cl)
    \/ Done

Spec == Init /\ [][Next]_vars
FairSpec == Spec /\ WF_vars(Next)

----------------------------------------------------------------------------
Handles(a) == {c \in Clients : hnd[c].a = a /\ ~hnd[c].closed} \cup {c \in Clients : held[c] = a /\ pc[c] = "gol.add"}

RefsBalanced   == \A a \in 1..made : refs[a] = Cardinality(Handles(a))
NoPanic        == panics \cap {"close of nil channel", "close of closed channel"} = {}
NoUseAfterClose == "use after close" \notin panics
ClosedOnce     == \A a \in AccIds : ncloses[a] <= 1
\* the inner accessor is closed only when no handle is open (the property the time-out gives up)
ClosedOnlyUnreferenced == \A a \in 1..made : inner[a] = "closed" => Handles(a) = {}
\* at most one entry per key; a key's entry belongs to that key
LruSane == /\ Len(lru) <= Cap
           /\ \A i, j \in 1..Len(lru) : (i # j) => lru[i].k # lru[j].k
           /\ \A i \in 1..Len(lru) : key[lru[i].a] = lru[i].k
\* at quiescence everything that left the cache is closed and nothing in it is closed
NoLeak == Quiescent =>
            \A a \in 1..made : (\E i \in 1..Len(lru) : lru[i].a = a) \/ inner[a] = "closed"
NoClosedCached == Quiescent => \A i \in 1..Len(lru) : inner[lru[i].a] = "open" /\ ~isClosed[lru[i].a]
Terminates == <>[]Quiescent
=============================================================================
