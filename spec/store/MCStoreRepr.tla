---------------------------- MODULE MCStoreRepr ----------------------------
(* Model-checking harness for StoreRepr: which layouts, which configurations.                      *)
EXTENDS StoreRepr

CONSTANTS Ks,          \* ODS widths
          NsSeq,       \* ascending sequence of the namespaces data shares may carry
          WithEmpty,   \* include the empty block
          CfgRs, CfgSs \* store configurations: recent cache on/off, serving cache (Store.WithCache) on/off

Ns1 == <<4>>           \* one user namespace
Ns2 == <<3, 6>>        \* primary reserved padding + a user namespace
Ns3 == <<1, 3, 6>>     \* Tx (reserved), primary reserved padding, a user namespace

MCLayouts == UNION { Layouts(k, NsSeq) : k \in Ks } \cup (IF WithEmpty THEN {EmptyLayout} ELSE {})

Init == \E L \in MCLayouts, cfgR \in CfgRs, cfgS \in CfgSs :
          /\ W = WorldOf(L)
          /\ st = InitStore(cfgR, cfgS)
          /\ hist = <<>>
Spec == Init /\ [][Next]_vars
=============================================================================
