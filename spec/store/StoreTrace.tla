----------------------------- MODULE StoreTrace -----------------------------
(***************************************************************************)
(* B1 binding of Store.tla: validation of marker traces recorded from the  *)
(* real store (harness/drivers/storecrash, build tag verif).               *)
(*                                                                         *)
(* The driver writes one NDJSON file (path in the environment variable     *)
(* VERIF_TRACE) made of segments, one per executed operation:              *)
(*   {"ev":"reset", "up":b, "dirs":n, "ods":[..], "q4":[..], "lnk":[..],   *)
(*    "dsz":[..]}                 abstract disk before the operation        *)
(*   {"ev":"start","kind":k,"h":h}                                         *)
(*   one line per crash-point marker reached, in the order in which the    *)
(*   markers were reached (the ODS writer and the Q4 writer are separate   *)
(*   goroutines: their lines interleave), each with the abstract disk      *)
(*   right after the marked effect                                         *)
(*   {"ev":"end","ok":b}          the operation returned                   *)
(*                                                                         *)
(* A segment is accepted iff the marker sequence is a behaviour of Store's *)
(* operation started in the segment's disk state AND the model's disk      *)
(* equals the observed disk after every marker.  So a put that links       *)
(* before both files are closed, forgets to unlink before removing, skips  *)
(* the size validation, ... is rejected on every trace, crash or not.      *)
(* All state invariants of Store.tla are evaluated on every state of the   *)
(* matched behaviour.                                                      *)
(*                                                                         *)
(* Acceptance = POSTCONDITION: the high-water mark of consumed lines       *)
(* equals the length of the file (TLC -workers 1).                         *)
(***************************************************************************)
EXTENDS Store, IOUtils

Trace == ndJsonDeserialize(IOEnv.VERIF_TRACE)

VARIABLE l            \* number of trace lines consumed
tvars == <<dirs, ods, q4, lnk, dsz, phase, cache, op, mpc, opc, qpc, round, tf, last, nops, ncrash, cp, lm, lq, hist, l>>

TInit == Init /\ l = 0 /\ TLCSet(1, 0)

\* The observed abstract disk of line e equals the model's next disk.  The two writer goroutines
\* run concurrently and an effect becomes visible on the disk BEFORE its marker is recorded, so a
\* line of one goroutine is only compared on what the other goroutine is not writing right now:
\* a Q4-writer line on the Q4 file it writes; every other line on everything except the Q4 file of
\* a Q4 writer that is still running.
IsQ4Line(e)  == e.ev \in {"q4.create", "q4.created", "q4.create.err", "q4.share", "q4.flushed", "q4.closed"}
Q4Running    == qpc' \notin {"na", "closed", "exists"}
DiskMatches(e) ==
    IF IsQ4Line(e) THEN q4'[tf'] = e.q4[tf' + 1]
    ELSE /\ dirs' = e.dirs
         /\ \A f \in Files : ods'[f] = e.ods[f + 1] /\ ((f # tf' \/ ~Q4Running) => q4'[f] = e.q4[f + 1])
         /\ \A h \in Heights : lnk'[h] = e.lnk[h] /\ (lnk'[h] = "detached" => dsz'[h] = e.dsz[h])

Stutter == UNCHANGED vars

DoReset(e) ==
    /\ dirs' = e.dirs
    /\ ods' = [f \in Files |-> e.ods[f + 1]]
    /\ q4' = [f \in Files |-> e.q4[f + 1]]
    /\ lnk' = [h \in Heights |-> e.lnk[h]]
    /\ dsz' = [h \in Heights |-> e.dsz[h]]
    /\ phase' = IF e.up THEN "up" ELSE "down"
    /\ cache' = {} /\ op' = NoOp /\ mpc' = "idle" /\ opc' = "na" /\ qpc' = "na"
    /\ round' = 0 /\ tf' = E /\ last' = NoOp
    /\ nops' = 0 /\ ncrash' = 0 /\ cp' = NoCp /\ lm' = "none" /\ lq' = "none" /\ hist' = <<>>

DoStart(e) ==
    IF e.kind = "NewStore" THEN R(Recover) ELSE R(StartOp(e.kind, e.h))

\* the operation returned: in the model it must have reached its end, and it must have succeeded
DoEnd(e) == op = NoOp /\ mpc = "idle" /\ e.ok /\ Stutter

\* marker name -> model action (the binding table)
DoMarker(e) ==
    /\ CASE e.ev = "put.cached"      -> M("PutCached", PutCached)
         [] e.ev = "put.locked"      -> M("PutLocked", PutLocked)
         [] e.ev \in {"removeodsq4.locked", "removeq4.locked"} -> M("RmLocked", RmLocked)
         [] e.ev = "ods.create"      -> M("OdsEnter", OdsEnter)
         [] e.ev = "ods.created"     -> M("OdsCreate", OdsCreate) /\ opc' = "created"
         [] e.ev = "ods.create.err"  -> M("OdsCreate", OdsCreate) /\ opc' = "exists"
         [] e.ev = "ods.hdr"         -> M("OdsHdr", OdsHdr)
         [] e.ev = "ods.share"       -> \/ M("OdsFlushPartial", OdsFlushPartial)
                                        \/ M("OdsFlushFull", OdsFlushFull)
                                        \/ (mpc = "create" /\ opc = "partial" /\ Stutter)   \* a further intermediate flush
         [] e.ev = "ods.flushed"     -> \/ M("OdsFlushFull", OdsFlushFull)
                                        \/ (mpc = "create" /\ opc = "full" /\ Stutter)      \* nothing left in the buffer
         [] e.ev = "ods.closed"      -> M("OdsClose", OdsClose)
         [] e.ev = "q4.create"       -> Q("Q4Enter", Q4Enter)
         [] e.ev = "q4.created"      -> Q("Q4Create", Q4Create) /\ qpc' = "created"
         [] e.ev = "q4.create.err"   -> Q("Q4Create", Q4Create) /\ qpc' = "exists"
         [] e.ev = "q4.share"        -> \/ Q("Q4FlushPartial", Q4FlushPartial)
                                        \/ Q("Q4FlushFull", Q4FlushFull)
                                        \/ (mpc = "create" /\ qpc = "partial" /\ Stutter)
         [] e.ev = "q4.flushed"      -> \/ Q("Q4FlushFull", Q4FlushFull)
                                        \/ (mpc = "create" /\ qpc = "full" /\ Stutter)
         [] e.ev = "q4.closed"       -> Q("Q4Close", Q4Close)
         [] e.ev = "cache.removed"   -> M("RmCache1", RmCache1) \/ M("RmCache2", RmCache2)
         [] e.ev = "fs.remove"       -> \/ (e.pc = "lnk" /\ e.h = op.h /\ M("RmLink", RmLink))
                                        \/ (e.pc = "ods" /\ e.f # E /\ e.f = tf /\ M("RmOds", RmOds))
                                        \/ (e.pc = "q4" /\ e.f # E /\ e.f = tf /\ M("RmQ4", RmQ4))
                                        \/ (e.pc = "ods" /\ e.f = E /\ M("NsRmOds", NsRmOds))
                                        \/ (e.pc = "q4" /\ e.f = E /\ M("NsRmQ4", NsRmQ4))
         [] e.ev \in {"fs.link", "fs.symlink"}         -> lnk[op.h] = "absent" /\ M("Link", Link)
         [] e.ev \in {"fs.link.err", "fs.symlink.err"} -> lnk[op.h] # "absent" /\ M("Link", Link)
         [] e.ev \in {"put.end", "removeodsq4.end", "removeq4.end"} -> M("OpEnd", OpEnd)
         [] e.ev = "fs.mkdir"        -> \/ (e.pc = "dir1" /\ M("NsMkdir1", NsMkdir1))
                                        \/ (e.pc = "dir2" /\ M("NsMkdir2", NsMkdir2))
         [] e.ev = "newstore.ready"  -> M("NsReady", NsReady)
         [] OTHER -> FALSE
    /\ DiskMatches(e)

Consume ==
    /\ l < Len(Trace)
    /\ LET e == Trace[l + 1] IN
         CASE e.ev = "reset" -> DoReset(e)
           [] e.ev = "start" -> DoStart(e)
           [] e.ev = "end"   -> DoEnd(e)
           [] OTHER          -> DoMarker(e)
    /\ l' = l + 1
    /\ TLCSet(1, IF TLCGet(1) < l + 1 THEN l + 1 ELSE TLCGet(1))

\* the only silent step of the model: both writers returned
Silent == S(Join) /\ UNCHANGED l

TNext == Consume \/ Silent

TSpec == TInit /\ [][TNext]_tvars

Accepted ==
    IF TLCGet(1) = Len(Trace) THEN TRUE
    ELSE /\ PrintT(<<"STUCK", ToJson([consumed |-> TLCGet(1), total |-> Len(Trace),
                                       line |-> Trace[TLCGet(1) + 1]])>>)
         /\ FALSE

=============================================================================
