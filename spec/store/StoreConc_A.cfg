\* C08 / A: two writers (put / remove / prune / re-put) on two heights that collide on both lock
\* stripes, one reader through Store.GetByHeight holding its accessor; recent cache of size 1.
SPECIFICATION Spec
CONSTANTS
  Threads <- A_Threads
  DataHeights = {1, 2}
  EmptyHeights = {}
  HStripe <- AllOne
  XStripe <- AllOne
  Menu <- A_Menu
  HMenu <- A_HMenu
  MaxOpsPer <- A_Ops
  C1Size = 1
  C2Size = 0
  MaxAcc = 4
  ValidateQ4OnOpen = TRUE
  CachedGetLocks = FALSE
  SwappedOrder = {}
  AllowTimeout = FALSE
INVARIANTS TypeOK ReadersSeeOwnBlock NoUseAfterClose RefsBalanced NoOrphan Linearizable FilesReleased LocksFree
