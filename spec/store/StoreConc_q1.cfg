\* C08 quick 1: two writers + a reader holding an accessor of Store.GetByHeight; heights 1,2 collide on both stripes; recent cache 1
SPECIFICATION Spec
CONSTANTS
  Threads <- A_Threads
  DataHeights = {1, 2}
  EmptyHeights = {}
  HStripe <- AllOne
  XStripe <- AllOne
  Menu <- Aq_Menu
  HMenu <- Aq_HMenu
  MaxOpsPer <- Aq_Ops
  C1Size = 1
  C2Size = 0
  MaxAcc = 4
  ValidateQ4OnOpen = TRUE
  CachedGetLocks = FALSE
  SwappedOrder = {}
  AllowTimeout = FALSE
INVARIANTS TypeOK ReadersSeeOwnBlock NoUseAfterClose RefsBalanced NoOrphan Linearizable FilesReleased LocksFree
