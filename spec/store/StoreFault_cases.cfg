\* C07 under I/O faults (cases): one data block, the empty block, 2 operations, 1 crashes, 1 fault(s).
SPECIFICATION SpecF
CONSTANTS
  DataHeights = {1}
  EmptyHeights = {2}
  MaxOps = 2
  MaxCrashes = 1
  MaxFaults = 1
  OpKinds = {"PutODSQ4", "PutODS", "RemoveODSQ4", "RemoveQ4"}
  ValidateQ4OnOpen = TRUE
  Prealloc = FALSE
  EmitCases = FALSE
  EmitFault = TRUE
VIEW fview
INVARIANTS TypeOK NoReadableWrong FailedPutReported ReputAfterFailureSucceeds PutNeverFails EmptyFileComplete DirsFirst FaultOut
