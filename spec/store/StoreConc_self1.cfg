\* self-test 1 (must violate Linearizable): CachedStore loader without the height lock
SPECIFICATION Spec
CONSTANTS
  Threads <- B_Threads
  DataHeights = {1}
  EmptyHeights = {3}
  HStripe <- Collide
  XStripe <- AllOne
  Menu <- S1_Menu
  HMenu <- S1_HMenu
  MaxOpsPer <- S1_Ops
  C1Size = 1
  C2Size = 1
  MaxAcc = 4
  ValidateQ4OnOpen = TRUE
  CachedGetLocks = FALSE
  SwappedOrder = {}
  AllowTimeout = FALSE
INVARIANTS TypeOK ReadersSeeOwnBlock NoUseAfterClose RefsBalanced NoOrphan Linearizable FilesReleased LocksFree
