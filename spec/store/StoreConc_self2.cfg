\* self-test 2 (must dead-lock): RemoveQ4 takes the height stripe before the hash stripe
SPECIFICATION Spec
CONSTANTS
  Threads <- S2_Threads
  DataHeights = {1, 2}
  EmptyHeights = {}
  HStripe <- AllOne
  XStripe <- AllOne
  Menu <- S2_Menu
  HMenu <- S2_HMenu
  MaxOpsPer <- S2_Ops
  C1Size = 1
  C2Size = 0
  MaxAcc = 4
  ValidateQ4OnOpen = TRUE
  CachedGetLocks = FALSE
  SwappedOrder = {"RemoveQ4"}
  AllowTimeout = FALSE
INVARIANTS TypeOK ReadersSeeOwnBlock NoUseAfterClose RefsBalanced NoOrphan Linearizable FilesReleased LocksFree
