\* liveness: Remove and the eviction goroutines terminate once the readers close (weak fairness)
SPECIFICATION FairSpec
CONSTANTS
  Clients = {1, 2}
  Keys = {1, 2}
  Cap = 1
  MaxOps = 2
  MaxAcc = 4
  AllowTimeout = FALSE
PROPERTIES Terminates
