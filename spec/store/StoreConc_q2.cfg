\* C08 quick 2: removal / re-put against the serving cache (CachedStore) on a data height and an empty-block height; caches 1/1
SPECIFICATION Spec
CONSTANTS
  Threads <- B_Threads
  DataHeights = {1}
  EmptyHeights = {3}
  HStripe <- Collide
  XStripe <- AllOne
  Menu <- Bq_Menu
  HMenu <- Bq_HMenu
  MaxOpsPer <- Bq_Ops
  C1Size = 1
  C2Size = 1
  MaxAcc = 4
  ValidateQ4OnOpen = TRUE
  CachedGetLocks = TRUE
  SwappedOrder = {}
  AllowTimeout = FALSE
INVARIANTS TypeOK ReadersSeeOwnBlock NoUseAfterClose RefsBalanced NoOrphan Linearizable FilesReleased LocksFree
