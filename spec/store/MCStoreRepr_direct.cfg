\* Store level, direct form of the property (no appeal to the object-level result): in every reachable
\* state every read through every live accessor object and through every accessor that an open would create
\* is the specified one.  Expensive (all reads in all states): width 1, two namespaces, and the empty block.
SPECIFICATION Spec
CONSTANTS
  MaxObj = 4
  Extended = FALSE
  Ks = {1}
  NsSeq <- Ns1
  WithEmpty = TRUE
  CfgRs = {TRUE, FALSE}
  CfgSs = {TRUE, FALSE}
VIEW view
INVARIANTS RefsOK DiskOK ObjsCanon LatentUnreachable ReadsCorrect OpensCorrect
CHECK_DEADLOCK FALSE
