\* C07: the tree WITHOUT the Q4 size validation on lazy open (candidate defect #10): TLC reports LookupRight violated.
SPECIFICATION Spec
CONSTANTS
  DataHeights = {1}
  EmptyHeights = {2}
  MaxOps = 3
  MaxCrashes = 2
  OpKinds = {"PutODSQ4", "PutODS", "RemoveODSQ4", "RemoveQ4"}
  ValidateQ4OnOpen = FALSE
  EmitCases = FALSE
VIEW view
INVARIANTS TypeOK LinkedIsComplete NoPartialServed LookupRight PutNeverFails RePutWorks RemoveRemoves EmptyFileComplete DirsFirst CaseOut
PROPERTIES ReRemoveIdempotent EmptyNeverWritten
