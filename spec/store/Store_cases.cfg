\* C07 case generation for the B2 driver: every crash point of every operation over every start
\* state reachable with 2 operations and 1 earlier crash; one CASE line per crash state.
SPECIFICATION Spec
CONSTANTS
  DataHeights = {1}
  EmptyHeights = {2}
  MaxOps = 3
  MaxCrashes = 2
  OpKinds = {"PutODSQ4", "PutODS", "RemoveODSQ4", "RemoveQ4"}
  ValidateQ4OnOpen = TRUE
  Prealloc = FALSE
  EmitCases = TRUE
VIEW view
INVARIANTS TypeOK LinkedIsComplete NoPartialServed LookupRight PutNeverFails RePutWorks RemoveRemoves EmptyFileComplete DirsFirst CaseOut
PROPERTIES ReRemoveIdempotent EmptyNeverWritten
