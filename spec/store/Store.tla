------------------------------- MODULE Store -------------------------------
(***************************************************************************)
(* File-system level model of the EDS store of celestia-node              *)
(* (store/store.go, store/file/{ods,q4,ods_q4}.go) for property C07:      *)
(*                                                                         *)
(*   "If the process dies at any point while a block is being written to  *)
(*    or removed from the store, then after restart a lookup of that      *)
(*    height either reports the block absent or returns the complete,     *)
(*    correct block, and storing the same block again always succeeds and *)
(*    leaves it fully readable.  Partially written files are detected and *)
(*    replaced; they are never linked to a height or served."             *)
(*                                                                         *)
(* The model is shaped like the code: ONE ACTION PER FILE-SYSTEM EFFECT,   *)
(* in the code's order, and every action corresponds to one crash-point    *)
(* marker (`verifMark`, build tag verif) in /repo, so that                 *)
(*   B1  a recorded marker sequence of a real put/remove/NewStore can be   *)
(*       validated against this module (StoreTrace.tla), and               *)
(*   B2  every crash point reachable here can be forced on the real code   *)
(*       with the markers used as gates (harness/drivers/storecrash).      *)
(*                                                                         *)
(* On-disk layout (store.go:25-31):                                        *)
(*   blocks/<hash>.ods   header + axis roots + ODS shares (row-major, up   *)
(*                       to the first tail-padding share)                  *)
(*   blocks/<hash>.q4    fourth quadrant                                   *)
(*   blocks/heights/<h>.ods   HARD LINK to blocks/<hash>.ods, or a         *)
(*                       SYMLINK ../<emptyhash>.ods for the empty block    *)
(*                                                                         *)
(* Abstraction of a file's content: how much of the complete file's bytes  *)
(* is on the disk (a prefix: files are written append-only by one writer). *)
(* This is CONTENT, not size: the driver compares the bytes of the real    *)
(* file with the image of the complete file.  In the code as it is the     *)
(* size equals the written prefix; with Prealloc it does not.              *)
(*   "absent"  no directory entry                                          *)
(*   "empty"   created, header not (completely) written                    *)
(*   "hdr"     65-byte header on disk, everything else still in the        *)
(*             64 KiB bufio buffer              (ODS only)                 *)
(*   "partial" one or more buffer flushes reached the disk, not all        *)
(*   "full"    complete                                                    *)
(* A hard link shares the inode of blocks/<hash>.ods: lnk = "same".  If    *)
(* the blocks/ name were unlinked first the height link would keep the     *)
(* inode alive ("detached", its size frozen in dsz); TLC shows that the    *)
(* code never produces that state, but the model does not assume it.       *)
(*                                                                         *)
(* Crash = the process dies (DESIGN.md section 4): what was passed to      *)
(* write(2) stays, user-space buffers and every volatile variable are      *)
(* lost.  Crash is enabled in EVERY state, also during recovery.           *)
(* I/O errors other than "already exists" are outside C07 and not          *)
(* modelled HERE; StoreFault.tla extends this module with them.           *)
(***************************************************************************)
EXTENDS Naturals, Sequences, FiniteSets, TLC, Json, SequencesExt

CONSTANTS
    DataHeights,       \* heights whose block is a (distinct) non-empty block; integers >= 1
    EmptyHeights,      \* heights whose block is the empty block; integers >= 1
    MaxOps,            \* number of store operations started over the whole behaviour
    MaxCrashes,        \* number of crashes
    OpKinds,           \* subset of {"PutODSQ4","PutODS","RemoveODSQ4","RemoveQ4"}
    ValidateQ4OnOpen,  \* TRUE: the lazy open of the Q4 file refuses a file of the wrong size
                       \*       (tree with the fix); FALSE: any existing file is served (defect #10)
    Prealloc,          \* TRUE: the writers reserve the file's final size before writing (Truncate /
                       \*       fallocate): a half-written file has the SIZE of a complete one, so every
                       \*       size-based detection of partial files is blind (seeded change C07-2).
                       \*       FALSE: the code as it is (files grow with every flushed buffer).
    EmitCases          \* TRUE: print one CASE line per crash point (for the B2 driver)

ASSUME DataHeights \cap EmptyHeights = {}
ASSUME \A h \in DataHeights \cup EmptyHeights : h \in Nat /\ h >= 1

Heights == DataHeights \cup EmptyHeights
E       == 0                       \* key of the empty block's files blocks/<emptyhash>.{ods,q4}
Files   == DataHeights \cup {E}    \* one data hash per data height: the files are keyed by height
IsEmptyH(h) == h \in EmptyHeights

OdsSizes == {"absent", "empty", "hdr", "partial", "full"}
Q4Sizes  == {"absent", "empty", "partial", "full"}

NoOp == [kind |-> "none", h |-> 0]
NoCp == [kind |-> "none", h |-> 0, m |-> "-", o |-> "-", q |-> "-", r |-> 0, lm |-> "-", lq |-> "-"]

VARIABLES
    \* ---- persistent (survives Crash)
    dirs,     \* 0: nothing, 1: blocks/ exists, 2: blocks/ and blocks/heights/ exist
    ods,      \* [Files -> OdsSizes]   blocks/<hash>.ods
    q4,       \* [Files -> Q4Sizes]    blocks/<hash>.q4
    lnk,      \* [Heights -> {"absent","sym","same","detached"}]  blocks/heights/<h>.ods
    dsz,      \* [Heights -> OdsSizes] size of the inode behind a detached hard link
    \* ---- volatile (lost by Crash)
    phase,    \* "down" | "booting" (inside NewStore) | "up"
    cache,    \* set of heights held by the recent-blocks cache
    op,       \* operation in progress, or NoOp
    mpc,      \* program counter of the goroutine executing the operation
    opc,      \* program counter of the ODS writer  (CreateODS; same goroutine as mpc)
    qpc,      \* program counter of the Q4 writer   (createQ4; its own goroutine)
    round,    \* 1: first Create*, 2: re-creation after a failed size validation
    tf,       \* file key the writers work on
    last,     \* last operation that returned success, no other effect since (ghost)
    \* ---- bookkeeping
    nops, ncrash,
    cp,       \* crash point of the last Crash (cleared by Recover)
    lm, lq,   \* name of the last marker-producing action of the operation's goroutine / of the Q4
              \* goroutine since the operation started (tells the B2 driver at which marker to hold
              \* each goroutine); maintained by the wrappers M/Q/S/R around the actions in Next
    hist      \* history of completed operations and crashes (ghost; excluded from the VIEW)

disk  == <<dirs, ods, q4, lnk, dsz>>
vol   == <<phase, cache, op, mpc, opc, qpc, round, tf, last>>
vars  == <<dirs, ods, q4, lnk, dsz, phase, cache, op, mpc, opc, qpc, round, tf, last, nops, ncrash, cp, lm, lq, hist>>
view  == <<dirs, ods, q4, lnk, dsz, phase, cache, op, mpc, opc, qpc, round, tf, last, nops, ncrash, cp, lm, lq>>

TypeOK ==
    /\ dirs \in 0..2
    /\ ods \in [Files -> OdsSizes]
    /\ q4 \in [Files -> Q4Sizes]
    /\ lnk \in [Heights -> {"absent", "sym", "same", "detached"}]
    /\ dsz \in [Heights -> OdsSizes]
    /\ phase \in {"down", "booting", "up"}
    /\ cache \subseteq Heights
    /\ round \in 0..3
    /\ nops \in 0..MaxOps /\ ncrash \in 0..MaxCrashes

Init ==
    /\ dirs = 0
    /\ ods = [f \in Files |-> "absent"]
    /\ q4 = [f \in Files |-> "absent"]
    /\ lnk = [h \in Heights |-> "absent"]
    /\ dsz = [h \in Heights |-> "absent"]
    /\ phase = "down" /\ cache = {} /\ op = NoOp /\ mpc = "idle" /\ opc = "na" /\ qpc = "na"
    /\ round = 0 /\ tf = E /\ last = NoOp
    /\ nops = 0 /\ ncrash = 0 /\ cp = NoCp /\ lm = "none" /\ lq = "none" /\ hist = <<>>

----------------------------------------------------------------------------
(* What a reader gets.                                                     *)

\* size class of the ODS inode reached through the height link
OdsVia(h) == CASE lnk[h] = "same"     -> ods[h]
               [] lnk[h] = "detached" -> dsz[h]
               [] OTHER               -> "absent"

\* Would the lazy open of blocks/<hash>.q4 (ods_q4.go tryLoadQ4: by PATH, once, on the first
\* read of a lower-half axis) bind the accessor to the file that is there?
Q4Bound(f) == IF ValidateQ4OnOpen /\ ~Prealloc THEN q4[f] = "full" ELSE q4[f] # "absent"

\* Result of GetByHeight(h) on a freshly opened store over the current disk (NewStore regenerates
\* the empty block's files, so a symlink always resolves to a complete file), judged against the
\* reference block:
\*   "notfound"  ErrNotFound
\*   "error"     the header cannot be read: an error, nothing is served
\*   "wrong"     an accessor is returned and some read path returns data that differs from the
\*               block (readRowHalf/readColHalf complete a short read with tail padding)
\*   "right"     an accessor is returned and every read path returns the block
DiskLookup(h) ==
    IF IsEmptyH(h) THEN (IF lnk[h] = "absent" THEN "notfound" ELSE "right")
    ELSE CASE lnk[h] = "absent"                 -> "notfound"
           [] OdsVia(h) \in {"absent", "empty"} -> "error"
           [] OdsVia(h) \in {"hdr", "partial"}  -> "wrong"
           [] OTHER -> IF Q4Bound(h) /\ q4[h] # "full" THEN "wrong" ELSE "right"

----------------------------------------------------------------------------
(* Helpers                                                                 *)

WritesQ4 == op.kind \in {"PutODSQ4", "NewStore"}
IsPut    == op.kind \in {"PutODSQ4", "PutODS"}

\* entering Create{ODS,ODSQ4}: the Q4 goroutine is started, then CreateODS runs in the caller
Spawn(r) == /\ round' = r
            /\ mpc' = "create"
            /\ opc' = "spawned"
            /\ qpc' = IF WritesQ4 THEN "spawned" ELSE "na"

Record(rec) == hist' = Append(hist, rec)

----------------------------------------------------------------------------
(* Start of an operation (driver's choice).                                *)

StartOp(k, h) ==
    /\ phase = "up" /\ op = NoOp /\ nops < MaxOps
    /\ op' = [kind |-> k, h |-> h]
    /\ mpc' = "start"
    /\ tf' = IF IsEmptyH(h) THEN E ELSE h
    /\ nops' = nops + 1
    /\ last' = NoOp
    /\ UNCHANGED <<disk, phase, cache, opc, qpc, round, ncrash, cp, hist>>

(* put(): the in-memory accessor is published to the recent cache BEFORE any lock is taken  *)
(* (store.go:140-148); not for the empty block.                     marker: put.cached      *)
PutCached ==
    /\ IsPut /\ mpc = "start" /\ ~IsEmptyH(op.h)
    /\ cache' = cache \cup {op.h}
    /\ mpc' = "cached"
    /\ UNCHANGED <<disk, phase, op, opc, qpc, round, tf, last, nops, ncrash, cp, hist>>

(* hash lock, then height lock (height lock only for the empty block).  marker: put.locked  *)
PutLocked ==
    /\ IsPut
    /\ \/ /\ mpc = "cached"
          /\ Spawn(1)
       \/ /\ mpc = "start" /\ IsEmptyH(op.h)
          /\ mpc' = "tolink"
          /\ UNCHANGED <<opc, qpc, round>>
    /\ UNCHANGED <<disk, phase, cache, op, tf, last, nops, ncrash, cp, hist>>

(* RemoveODSQ4 / RemoveQ4 take both locks.      marker: removeodsq4.locked / removeq4.locked *)
RmLocked ==
    /\ op.kind \in {"RemoveODSQ4", "RemoveQ4"} /\ mpc = "start"
    /\ mpc' = IF op.kind = "RemoveODSQ4" THEN "rm.cache1"
              ELSE IF IsEmptyH(op.h) THEN "toend" ELSE "rm.cache2"
    /\ UNCHANGED <<disk, phase, cache, op, opc, qpc, round, tf, last, nops, ncrash, cp, hist>>

----------------------------------------------------------------------------
(* The ODS writer: file.CreateODS (ods.go:47-96).                          *)

OdsEnter ==                                                   \* marker: ods.create
    /\ mpc = "create" /\ opc = "spawned"
    /\ opc' = "enter"
    /\ UNCHANGED <<disk, phase, cache, op, mpc, qpc, round, tf, last, nops, ncrash, cp, hist>>

OdsCreate ==           \* O_CREATE|O_EXCL              marker: ods.created / ods.create.err
    /\ mpc = "create" /\ opc = "enter"
    /\ IF ods[tf] = "absent"
         THEN /\ ods' = [ods EXCEPT ![tf] = "empty"] /\ opc' = "created"
         ELSE /\ UNCHANGED ods /\ opc' = "exists"
    /\ UNCHANGED <<dirs, q4, lnk, dsz, phase, cache, op, mpc, qpc, round, tf, last, nops, ncrash, cp, hist>>

OdsHdr ==              \* writeHeader goes to the file directly, unbuffered       marker: ods.hdr
    /\ mpc = "create" /\ opc = "created"
    /\ ods' = [ods EXCEPT ![tf] = "hdr"] /\ opc' = "hdr"
    /\ UNCHANGED <<dirs, q4, lnk, dsz, phase, cache, op, mpc, qpc, round, tf, last, nops, ncrash, cp, hist>>

OdsFlushPartial ==     \* a share write fills the 64 KiB buffer: an intermediate flush.
                       \* marker: ods.share (only those after which the file size changed);
                       \* further intermediate flushes are partial -> partial stuttering steps
    /\ mpc = "create" /\ opc = "hdr" /\ tf # E
    /\ ods' = [ods EXCEPT ![tf] = "partial"] /\ opc' = "partial"
    /\ UNCHANGED <<dirs, q4, lnk, dsz, phase, cache, op, mpc, qpc, round, tf, last, nops, ncrash, cp, hist>>

OdsFlushFull ==        \* the last bytes reach the file (final buf.Flush)     marker: ods.flushed
    /\ mpc = "create" /\ opc \in {"hdr", "partial"}
    /\ ods' = [ods EXCEPT ![tf] = "full"] /\ opc' = "full"
    /\ UNCHANGED <<dirs, q4, lnk, dsz, phase, cache, op, mpc, qpc, round, tf, last, nops, ncrash, cp, hist>>

OdsClose ==                                                    \* marker: ods.closed
    /\ mpc = "create" /\ opc = "full"
    /\ opc' = "closed"
    /\ UNCHANGED <<disk, phase, cache, op, mpc, qpc, round, tf, last, nops, ncrash, cp, hist>>

(* The Q4 writer: file.createQ4 (q4.go:24-72), its own goroutine.           *)

Q4Enter ==                                                     \* marker: q4.create
    /\ mpc = "create" /\ qpc = "spawned"
    /\ qpc' = "enter"
    /\ UNCHANGED <<disk, phase, cache, op, mpc, opc, round, tf, last, nops, ncrash, cp, hist>>

Q4Create ==                                         \* marker: q4.created / q4.create.err
    /\ mpc = "create" /\ qpc = "enter"
    /\ IF q4[tf] = "absent"
         THEN /\ q4' = [q4 EXCEPT ![tf] = "empty"] /\ qpc' = "created"
         ELSE /\ UNCHANGED q4 /\ qpc' = "exists"
    /\ UNCHANGED <<dirs, ods, lnk, dsz, phase, cache, op, mpc, opc, round, tf, last, nops, ncrash, cp, hist>>

Q4FlushPartial ==                                   \* marker: q4.share (size changed)
    /\ mpc = "create" /\ qpc = "created" /\ tf # E
    /\ q4' = [q4 EXCEPT ![tf] = "partial"] /\ qpc' = "partial"
    /\ UNCHANGED <<dirs, ods, lnk, dsz, phase, cache, op, mpc, opc, round, tf, last, nops, ncrash, cp, hist>>

Q4FlushFull ==                                      \* marker: q4.flushed
    /\ mpc = "create" /\ qpc \in {"created", "partial"}
    /\ q4' = [q4 EXCEPT ![tf] = "full"] /\ qpc' = "full"
    /\ UNCHANGED <<dirs, ods, lnk, dsz, phase, cache, op, mpc, opc, round, tf, last, nops, ncrash, cp, hist>>

Q4Close ==                                          \* marker: q4.closed
    /\ mpc = "create" /\ qpc = "full"
    /\ qpc' = "closed"
    /\ UNCHANGED <<disk, phase, cache, op, mpc, opc, round, tf, last, nops, ncrash, cp, hist>>

----------------------------------------------------------------------------
(* Both writers returned (ods_q4.go:50-62 `q4Err := <-errCh`).  No file-system effect, no    *)
(* marker: a silent step.  "already exists" of either file leads to the size validation      *)
(* (store.go:193-199, 257-264: ValidateODS[Q4]Size = stat of blocks/<hash>.ods [and .q4]     *)
(* against the sizes computed from the square that is being put); a mismatch leads to        *)
(* remove-and-recreate.  A second "exists" after the removal would make put return an error. *)

WritersDone == opc \in {"closed", "exists"} /\ qpc \in {"closed", "exists", "na"}
AnyExists   == opc = "exists" \/ qpc = "exists"
\* what the SIZE validation sees: with Prealloc every file whose header is readable has the expected size
SizesValid  == IF Prealloc
                 THEN ods[tf] \notin {"absent", "empty"} /\ (WritesQ4 => q4[tf] # "absent")
                 ELSE ods[tf] = "full" /\ (WritesQ4 => q4[tf] = "full")

Join ==
    /\ mpc = "create" /\ WritersDone
    /\ mpc' = IF op.kind = "NewStore" THEN (IF AnyExists THEN "failed" ELSE "toready")
              ELSE IF ~AnyExists THEN "tolink"
              ELSE IF round = 2 THEN "failed"
              ELSE IF SizesValid THEN "tolink"
              ELSE "rm.cache1"
    /\ opc' = "na" /\ qpc' = "na"
    /\ UNCHANGED <<disk, phase, cache, op, round, tf, last, nops, ncrash, cp, hist>>

----------------------------------------------------------------------------
(* Removal steps: removeODS = cache drop, unlink height, unlink ODS;        *)
(*                removeQ4  = cache drop, unlink Q4   (store.go:474-538).   *)
(* Used by RemoveODSQ4, RemoveQ4 and by the recovery branch of put.         *)
(* os.Remove of a missing name is not an error: the steps are idempotent.   *)

AfterRmLink == IF IsEmptyH(op.h) THEN "toend" ELSE "rm.ods"   \* empty block: only the link
\* round = 3 (only reachable in StoreFault.tla): the removal is put's ROLL-BACK after an I/O fault
\* (store.go createODSFile: removeODS; createODSQ4File: removeODSQ4), after which put returns the error
AfterRmOds  == IF round = 3 THEN (IF op.kind = "PutODS" THEN "tofail" ELSE "rm.cache2")
               ELSE IF op.kind = "PutODS" THEN "recreate" ELSE "rm.cache2"
AfterRmQ4   == IF round = 3 THEN "tofail"
               ELSE IF op.kind = "PutODSQ4" THEN "recreate" ELSE "toend"

RmCache1 ==                                                    \* marker: cache.removed
    /\ mpc = "rm.cache1"
    /\ cache' = cache \ {op.h}
    /\ mpc' = "rm.link"
    /\ UNCHANGED <<disk, phase, op, opc, qpc, round, tf, last, nops, ncrash, cp, hist>>

RmLink ==                                                      \* marker: fs.remove heights/<h>.ods
    /\ mpc = "rm.link"
    /\ lnk' = [lnk EXCEPT ![op.h] = "absent"]
    /\ dsz' = [dsz EXCEPT ![op.h] = "absent"]
    /\ mpc' = AfterRmLink
    /\ UNCHANGED <<dirs, ods, q4, phase, cache, op, opc, qpc, round, tf, last, nops, ncrash, cp, hist>>

RmOds ==                                                       \* marker: fs.remove blocks/<hash>.ods
    /\ mpc = "rm.ods"
    /\ ods' = [ods EXCEPT ![op.h] = "absent"]
    /\ IF lnk[op.h] = "same"
         THEN /\ lnk' = [lnk EXCEPT ![op.h] = "detached"]
              /\ dsz' = [dsz EXCEPT ![op.h] = ods[op.h]]
         ELSE UNCHANGED <<lnk, dsz>>
    /\ IF AfterRmOds = "recreate" THEN Spawn(2)
       ELSE mpc' = AfterRmOds /\ UNCHANGED <<opc, qpc, round>>
    /\ UNCHANGED <<dirs, q4, phase, cache, op, tf, last, nops, ncrash, cp, hist>>

RmCache2 ==                                                    \* marker: cache.removed
    /\ mpc = "rm.cache2"
    /\ cache' = cache \ {op.h}
    /\ mpc' = "rm.q4"
    /\ UNCHANGED <<disk, phase, op, opc, qpc, round, tf, last, nops, ncrash, cp, hist>>

RmQ4 ==                                                        \* marker: fs.remove blocks/<hash>.q4
    /\ mpc = "rm.q4"
    /\ q4' = [q4 EXCEPT ![op.h] = "absent"]
    /\ IF AfterRmQ4 = "recreate" THEN Spawn(2)
       ELSE mpc' = AfterRmQ4 /\ UNCHANGED <<opc, qpc, round>>
    /\ UNCHANGED <<dirs, ods, lnk, dsz, phase, cache, op, tf, last, nops, ncrash, cp, hist>>

----------------------------------------------------------------------------
(* linkHeight (store.go:306-317): only reached after both writers returned without error or  *)
(* the existing files passed the size validation.  "link exists" counts as success.          *)
(* markers: fs.link / fs.link.err ; fs.symlink / fs.symlink.err                              *)
Link ==
    /\ mpc = "tolink"
    /\ IF lnk[op.h] # "absent"
         THEN /\ UNCHANGED lnk /\ mpc' = "toend"
         ELSE IF IsEmptyH(op.h)
                THEN /\ lnk' = [lnk EXCEPT ![op.h] = "sym"] /\ mpc' = "toend"
                ELSE IF ods[op.h] = "absent"
                       THEN /\ UNCHANGED lnk /\ mpc' = "failed"     \* ENOENT: would be an error
                       ELSE /\ lnk' = [lnk EXCEPT ![op.h] = "same"] /\ mpc' = "toend"
    /\ UNCHANGED <<dirs, ods, q4, dsz, phase, cache, op, opc, qpc, round, tf, last, nops, ncrash, cp, hist>>

(* the operation returns nil (deferred unlock).     markers: put.end / remove*.end           *)
OpEnd ==
    /\ mpc = "toend"
    /\ last' = op
    /\ op' = NoOp /\ mpc' = "idle" /\ round' = 0
    /\ Record([t |-> "op", kind |-> op.kind, h |-> op.h])
    /\ UNCHANGED <<disk, phase, cache, opc, qpc, tf, nops, ncrash, cp>>

----------------------------------------------------------------------------
(* NewStore (store.go:59-96, 322-337): ensure the directories, remove the empty block's      *)
(* files and write them again (through the same CreateODSQ4).                                *)

Recover ==
    /\ phase = "down"
    /\ phase' = "booting" /\ op' = [kind |-> "NewStore", h |-> 0] /\ mpc' = "ns.mkdir1" /\ tf' = E
    /\ cp' = NoCp
    /\ UNCHANGED <<disk, cache, opc, qpc, round, last, nops, ncrash, hist>>

NsMkdir1 ==                                                    \* marker: fs.mkdir blocks
    /\ mpc = "ns.mkdir1"
    /\ dirs' = IF dirs = 0 THEN 1 ELSE dirs
    /\ mpc' = "ns.mkdir2"
    /\ UNCHANGED <<ods, q4, lnk, dsz, phase, cache, op, opc, qpc, round, tf, last, nops, ncrash, cp, hist>>

NsMkdir2 ==                                                    \* marker: fs.mkdir blocks/heights
    /\ mpc = "ns.mkdir2"
    /\ dirs' = 2
    /\ mpc' = "ns.rmods"
    /\ UNCHANGED <<ods, q4, lnk, dsz, phase, cache, op, opc, qpc, round, tf, last, nops, ncrash, cp, hist>>

NsRmOds ==                                                     \* marker: fs.remove blocks/<empty>.ods
    /\ mpc = "ns.rmods"
    /\ ods' = [ods EXCEPT ![E] = "absent"]
    /\ mpc' = "ns.rmq4"
    /\ UNCHANGED <<dirs, q4, lnk, dsz, phase, cache, op, opc, qpc, round, tf, last, nops, ncrash, cp, hist>>

NsRmQ4 ==                                                      \* marker: fs.remove blocks/<empty>.q4
    /\ mpc = "ns.rmq4"
    /\ q4' = [q4 EXCEPT ![E] = "absent"]
    /\ Spawn(1)
    /\ UNCHANGED <<dirs, ods, lnk, dsz, phase, cache, op, tf, last, nops, ncrash, cp, hist>>

NsReady ==                                                     \* marker: newstore.ready
    /\ mpc = "toready"
    /\ phase' = "up" /\ op' = NoOp /\ mpc' = "idle" /\ round' = 0
    /\ UNCHANGED <<disk, cache, opc, qpc, tf, last, nops, ncrash, cp, hist>>

----------------------------------------------------------------------------
(* The process dies.  Enabled in every state in which it runs.              *)
Crash ==
    /\ phase # "down" /\ ncrash < MaxCrashes
    /\ cp' = [kind |-> op.kind, h |-> op.h, m |-> mpc, o |-> opc, q |-> qpc, r |-> round, lm |-> lm, lq |-> lq]
    /\ Record([t |-> "crash", kind |-> op.kind, h |-> op.h, m |-> mpc, o |-> opc, q |-> qpc, r |-> round,
               lm |-> lm, lq |-> lq])
    /\ phase' = "down" /\ cache' = {} /\ op' = NoOp /\ mpc' = "idle" /\ opc' = "na" /\ qpc' = "na"
    /\ round' = 0 /\ tf' = E /\ last' = NoOp
    /\ ncrash' = ncrash + 1
    /\ UNCHANGED <<disk, nops>>

(* Wrappers that maintain lm / lq.  M: an action of the operation's goroutine that has a      *)
(* marker; Q: one of the Q4 goroutine; S: a silent step (no marker); R: start of an operation,  *)
(* of NewStore, or a crash.  Entering Create* (opc' = "spawned") starts a fresh Q4 goroutine.   *)
M(name, A) == A /\ lm' = name /\ lq' = (IF opc' = "spawned" THEN "none" ELSE lq)
Q(name, A) == A /\ lq' = name /\ UNCHANGED lm
S(A)       == A /\ UNCHANGED <<lm, lq>>
R(A)       == A /\ lm' = "none" /\ lq' = "none"

MainStep ==
    \/ M("PutCached", PutCached) \/ M("PutLocked", PutLocked) \/ M("RmLocked", RmLocked)
    \/ M("OdsEnter", OdsEnter) \/ M("OdsCreate", OdsCreate) \/ M("OdsHdr", OdsHdr)
    \/ M("OdsFlushPartial", OdsFlushPartial) \/ M("OdsFlushFull", OdsFlushFull) \/ M("OdsClose", OdsClose)
    \/ M("RmCache1", RmCache1) \/ M("RmLink", RmLink) \/ M("RmOds", RmOds)
    \/ M("RmCache2", RmCache2) \/ M("RmQ4", RmQ4)
    \/ M("Link", Link) \/ M("OpEnd", OpEnd)
    \/ M("NsMkdir1", NsMkdir1) \/ M("NsMkdir2", NsMkdir2) \/ M("NsRmOds", NsRmOds) \/ M("NsRmQ4", NsRmQ4)
    \/ M("NsReady", NsReady)

Q4Step ==
    \/ Q("Q4Enter", Q4Enter) \/ Q("Q4Create", Q4Create) \/ Q("Q4FlushPartial", Q4FlushPartial)
    \/ Q("Q4FlushFull", Q4FlushFull) \/ Q("Q4Close", Q4Close)

Next ==
    \/ \E k \in OpKinds, h \in Heights : R(StartOp(k, h))
    \/ MainStep \/ Q4Step
    \/ S(Join)
    \/ R(Recover)
    \/ R(Crash)

Spec == Init /\ [][Next]_vars

----------------------------------------------------------------------------
(* Properties                                                              *)

(* A height link never points to an incomplete ODS file: linking happens only after the     *)
(* writer closed the file, and recovery unlinks before it removes.                           *)
LinkedIsComplete == \A h \in DataHeights : lnk[h] \in {"same", "detached"} => OdsVia(h) = "full"

(* The Q4 file an accessor would bind to (lazily, by path) is never a partial one.          *)
NoPartialServed == \A h \in DataHeights : (lnk[h] # "absent" /\ Q4Bound(h)) => q4[h] = "full"

(* C07, first half: in EVERY state, if the process died now and restarted, a lookup of any   *)
(* height reports the block absent or returns the complete, correct block.                   *)
LookupRight == \A h \in Heights : DiskLookup(h) \in {"notfound", "right"}

(* C07, second half: a put never fails (crashes are the only faults), ...                    *)
PutNeverFails == mpc # "failed"

(* ... and a put that returned success leaves the block linked, complete and readable; a     *)
(* PutODSQ4 moreover leaves a complete Q4 file.                                               *)
RePutWorks ==
    last.kind \in {"PutODSQ4", "PutODS"} =>
        /\ lnk[last.h] # "absent"
        /\ DiskLookup(last.h) = "right"
        /\ ~IsEmptyH(last.h) => ods[last.h] = "full" /\ OdsVia(last.h) = "full"
        /\ (~IsEmptyH(last.h) /\ last.kind = "PutODSQ4") => q4[last.h] = "full"

(* a removal that returned success removed everything it is responsible for                   *)
RemoveRemoves ==
    /\ last.kind = "RemoveODSQ4" =>
          /\ lnk[last.h] = "absent"
          /\ ~IsEmptyH(last.h) => ods[last.h] = "absent" /\ q4[last.h] = "absent"
    /\ (last.kind = "RemoveQ4" /\ ~IsEmptyH(last.h)) => q4[last.h] = "absent"

(* removing again is a no-op on the disk (idempotence)                                        *)
Removed(h) == lnk[h] = "absent" /\ (~IsEmptyH(h) => ods[h] = "absent" /\ q4[h] = "absent")
ReRemoveIdempotent ==
    [][(op.kind = "RemoveODSQ4" /\ Removed(op.h)) => UNCHANGED disk]_vars

(* The empty block is never written per height: only NewStore touches its files.             *)
EmptyNeverWritten ==
    [][(op.kind # "NewStore") => (ods'[E] = ods[E] /\ q4'[E] = q4[E])]_vars

(* While the store is up its empty block's files are complete.                               *)
EmptyFileComplete == phase = "up" => (ods[E] = "full" /\ q4[E] = "full")

(* Nothing exists outside the directories.                                                   *)
DirsFirst == dirs < 2 => (\A f \in Files : ods[f] = "absent" /\ q4[f] = "absent") /\ (\A h \in Heights : lnk[h] = "absent")

----------------------------------------------------------------------------
(* Case generation for the B2 driver: one CASE per distinct (disk, crash point, budget)      *)
(* state right after a Crash.  The history tells the driver how to get there on the real     *)
(* code; `disk` and `lookup` are the model's predictions, compared with the real directory   *)
(* and the real lookups.                                                                     *)

FileRec(f) == [f |-> f, ods |-> ods[f], q4 |-> q4[f]]
LinkRec(h) == [h |-> h, lnk |-> lnk[h], via |-> OdsVia(h), lookup |-> DiskLookup(h), empty |-> IsEmptyH(h)]
DiskJson  == [dirs |-> dirs,
              files |-> [i \in 1..Cardinality(Files) |-> FileRec(SetToSeq(Files)[i])],
              links |-> [i \in 1..Cardinality(Heights) |-> LinkRec(SetToSeq(Heights)[i])]]

CaseOut ==
    (EmitCases /\ phase = "down" /\ cp # NoCp) =>
        PrintT(<<"CASE", ToJson([hist |-> hist, cp |-> cp, disk |-> DiskJson])>>)

=============================================================================
