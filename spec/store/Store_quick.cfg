\* C07 quick: one data block (height 1), the empty block (height 2), 3 operations, 2 crashes.
SPECIFICATION Spec
CONSTANTS
  DataHeights = {1}
  EmptyHeights = {2}
  MaxOps = 3
  MaxCrashes = 2
  OpKinds = {"PutODSQ4", "PutODS", "RemoveODSQ4", "RemoveQ4"}
  ValidateQ4OnOpen = TRUE
  Prealloc = FALSE
  EmitCases = FALSE
VIEW view
INVARIANTS TypeOK LinkedIsComplete NoPartialServed LookupRight PutNeverFails RePutWorks RemoveRemoves EmptyFileComplete DirsFirst CaseOut
PROPERTIES ReRemoveIdempotent EmptyNeverWritten
