\* validation of linearized executions of the real store (file from $VERIF_TRACE)
SPECIFICATION TSpec
CONSTANTS
  EmptyHeights = {4}
  TraceHeights = {1, 2, 3, 4}
POSTCONDITION Accepted
