\* Object level, quick: width 4, every padding amount 0..15 (one namespace),
\* consistent object states, cold and fully warm proof cache, no read steps.
SPECIFICATION Spec
CONSTANTS
  Ks = {4}
  NsSeq <- Ns1
  WithEmpty = FALSE
  Levels = {"cold", "all"}
  MaxStep = 0
  Plain = TRUE
  OnlyLayouts = FALSE
  FullProduct = FALSE
INVARIANTS ObjCorrect FormatLossless SideRule LatentUnreachable PrintLayout
CHECK_DEADLOCK FALSE
