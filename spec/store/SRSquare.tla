------------------------------ MODULE SRSquare ------------------------------
(***************************************************************************)
(* Square abstraction used by the read-path specification of the EDS store *)
(* (property C05).  Self-contained on purpose (spec/common/Square.tla is    *)
(* written concurrently by somebody else and is not depended upon).         *)
(*                                                                           *)
(*  - a LAYOUT is the original data square (ODS) of width k in row-major    *)
(*    order: a non-decreasing sequence of namespaces; the distinguished     *)
(*    namespace TP (tail padding) is the largest one a data cell can carry, *)
(*    so tail padding is always a suffix;                                   *)
(*  - the extended square (EDS, width 2k) adds three parity quadrants whose *)
(*    cells are TERMS over the data (ideal Reed-Solomon: a parity symbol is *)
(*    a function of the half it was computed from; any half determines the  *)
(*    axis; row- and column-extension commute on Q4);                       *)
(*  - ideal cryptography: an axis root is an injective function of the      *)
(*    axis' leaves, a range proof is the tree it was cut from plus the      *)
(*    range, the data hash is an injective function of the roots;           *)
(*  - the ON-DISK FORMAT: ODS file = header o roots o FileShares, where     *)
(*    FileShares is the row-major prefix of the ODS up to the first tail    *)
(*    padding share; Q4 file = all Q4 cells row-major;                      *)
(*  - the two low-level file read rules (row half: one contiguous read,     *)
(*    column half: one read per share, stopping at the first empty read),   *)
(*    both substituting tail padding for whatever lies past end of file.    *)
(*                                                                           *)
(* Code anchors: store/file/ods.go (writeODS 101-121, readRowHalf 437-465,  *)
(* readColHalf 469-499), store/file/q4.go (writeQ4), share/eds/read.go      *)
(* (ReadShares), share/extend.go, store/file/square.go (computeAxisHalf).   *)
(***************************************************************************)
EXTENDS Integers, Sequences, FiniteSets, TLC

(* Namespaces are small integers, mapped monotonically to real namespaces  *)
(* by the driver: 1 Tx (reserved), 2 PayForBlob (reserved), 3 primary      *)
(* reserved padding, 4..7 user namespaces, 8 tail padding, 9 parity.       *)
TP  == 8
PAR == 9
ProbeNs == 1..9                  \* namespaces asked for (present, absent, reserved, invalid)
ValidForData(ns) == ns \in 1..7  \* Namespace.ValidateForData: parity and tail padding are refused

---------------------------------------------------------------------------
(* Cells *)
D(ns, i) == <<"d", ns, i>>       \* data share: namespace + payload identity (its ODS index)
TPc      == <<"tp">>             \* THE tail padding share (all of them are byte-identical)
P(h, j)  == <<"p", h, j>>        \* j-th parity symbol (0-based) of the RS extension of half h
NsOf(c)  == IF c[1] = "d" THEN c[2] ELSE IF c[1] = "tp" THEN TP ELSE PAR

---------------------------------------------------------------------------
(* Layouts.  L = [k |-> width of the ODS, ns |-> Seq of k*k namespaces].   *)
(* Enumerated constructively: a non-decreasing sequence over the ordered   *)
(* namespaces nsSeq[1] < ... < nsSeq[m] < TP is given by its cut points.   *)
NonDecr(f, m) == \A i \in 1..(m-1) : f[i] <= f[i+1]

LayoutOf(k, nsSeq, cut) ==
  LET m == Len(nsSeq)
      nsAt(i) == IF \E j \in 1..m : i <= cut[j]
                 THEN nsSeq[CHOOSE j \in 1..m : i <= cut[j] /\ \A j2 \in 1..(j-1) : i > cut[j2]]
                 ELSE TP
  IN [k |-> k, ns |-> [i \in 1..(k*k) |-> nsAt(i)]]

(* every padding amount 0..k*k-1 (at least one data share) ...             *)
Layouts(k, nsSeq) ==
  LET m == Len(nsSeq) IN
  { LayoutOf(k, nsSeq, cut) : cut \in { f \in [1..m -> 0..(k*k)] : NonDecr(f, m) /\ f[m] >= 1 } }

(* ... and the empty block: width 1, its only share is tail padding        *)
EmptyLayout == [k |-> 1, ns |-> <<TP>>]
IsEmptyLayout(L) == L.k = 1 /\ L.ns[1] = TP

PadOf(L)      == Cardinality({ i \in 1..Len(L.ns) : L.ns[i] = TP })
OdsCell(L, i) == IF L.ns[i+1] = TP THEN TPc ELSE D(L.ns[i+1], i)      \* 0-based row-major index

---------------------------------------------------------------------------
(* The extended square as a function E[r][c], r,c in 0..2k-1 (built once   *)
(* per behaviour and kept in a state variable, everything else indexes it) *)
(* Q4 cells are bilinear in the whole ODS; they are written <<"pp", i, j>> (row i, column j of Q4). *)
(* The only identities between Q4 cells come from a transpose-symmetric ODS (then the EDS is       *)
(* symmetric too), which is made explicit so that equal bytes are equal terms.                     *)
MkEDS(L) ==
  LET k == L.k
      q1(r, c)  == OdsCell(L, r*k + c)
      rowQ1(r)  == [c \in 1..k |-> q1(r, c-1)]
      colQ1(c)  == [r \in 1..k |-> q1(r-1, c)]
      sym       == \A r \in 0..(k-1) : \A c \in 0..(k-1) : q1(r, c) = q1(c, r)
      q4(i, j)  == IF sym /\ j < i THEN <<"pp", j, i>> ELSE <<"pp", i, j>>
  IN [r \in 0..(2*k-1) |-> [c \in 0..(2*k-1) |->
        IF r < k /\ c < k THEN q1(r, c)
        ELSE IF r < k THEN P(rowQ1(r), c-k)                 \* Q2: parity of a data row
        ELSE IF c < k THEN P(colQ1(c), r-k)                 \* Q3: parity of a data column
        ELSE q4(r-k, c-k)]]

EW(E) == Cardinality(DOMAIN E)         \* width of the EDS
EK(E) == EW(E) \div 2                  \* width of the ODS

Axis(E, ax, i)   == IF ax = "row" THEN [c \in 1..EW(E) |-> E[i][c-1]]
                                  ELSE [r \in 1..EW(E) |-> E[r-1][i]]
FirstHalf(s)     == SubSeq(s, 1, Len(s) \div 2)
SecondHalf(s)    == SubSeq(s, Len(s) \div 2 + 1, Len(s))
OdsFlat(E)       == [i \in 1..(EK(E)*EK(E)) |-> E[(i-1) \div EK(E)][(i-1) % EK(E)]]
Q4Flat(E)        == [i \in 1..(EK(E)*EK(E)) |-> E[EK(E) + ((i-1) \div EK(E))][EK(E) + ((i-1) % EK(E))]]
IsEmptyEDS(E)    == EK(E) = 1 /\ E[0][0] = TPc

---------------------------------------------------------------------------
(* Ideal Reed-Solomon.                                                     *)
(* Extend: data half -> whole axis.  The product code commutes: extending  *)
(* a Q3 row and extending a Q2 column both land in Q4; parity of anything  *)
(* else is the free term P(h,j), so equal halves have equal parity.        *)
ParSym(E, h, j) ==
  LET k == EK(E) IN
  IF \E r \in k..(2*k-1) : h = FirstHalf(Axis(E, "row", r))           \* a Q3 row extends into its Q4 row
  THEN E[CHOOSE r \in k..(2*k-1) : h = FirstHalf(Axis(E, "row", r))][k + j]
  ELSE IF \E c \in k..(2*k-1) : h = FirstHalf(Axis(E, "col", c))      \* a Q2 column extends into its Q4 column
  THEN E[k + j][CHOOSE c \in k..(2*k-1) : h = FirstHalf(Axis(E, "col", c))]
  ELSE P(h, j)
Extend(E, h) == h \o [j \in 1..Len(h) |-> ParSym(E, h, j-1)]

(* Reconstruct: parity half -> whole axis.  Decoding a genuine parity half *)
(* of the square gives the axis; anything else decodes to garbage.         *)
Garbage(ph) == [i \in 1..(2*Len(ph)) |-> <<"garbage", ph, i>>]
Reconstruct(E, ph) ==
  LET cands == { <<ax, i>> \in {"row", "col"} \X (0..(EW(E)-1)) : SecondHalf(Axis(E, ax, i)) = ph } IN
  IF cands = {} THEN Garbage(ph)
  ELSE LET a == CHOOSE a \in cands : TRUE IN Axis(E, a[1], a[2])

(* shwap.AxisHalf.Extended *)
ExtendHalf(E, half) == IF half.par THEN Reconstruct(E, half.shares) ELSE Extend(E, half.shares)

---------------------------------------------------------------------------
(* Ideal cryptography *)
AxisRoot(leaves) == <<"root", leaves>>
RootsOf(E) == [row |-> [i \in 0..(EW(E)-1) |-> AxisRoot(Axis(E, "row", i))],
               col |-> [i \in 0..(EW(E)-1) |-> AxisRoot(Axis(E, "col", i))]]
HashOf(roots) == <<"hash", roots>>
(* range proof cut from the tree over `leaves` for positions [start,end) (0-based)                   *)
Proof(leaves, start, end) == [tree |-> leaves, start |-> start, end |-> end, absence |-> FALSE]
AbsenceProof(leaves)      == [tree |-> leaves, start |-> 0, end |-> 0, absence |-> TRUE]
NoProof == [tree |-> <<>>, start |-> 0, end |-> 0, absence |-> FALSE]

(* namespace range committed to by the root of row i (nmt with IgnoreMaxNamespace: parity leaves do  *)
(* not widen the range unless the row is all parity)                                                 *)
RowNsRange(E, i) ==
  IF i >= EK(E) THEN <<PAR, PAR>>
  ELSE LET h == FirstHalf(Axis(E, "row", i)) IN <<NsOf(h[1]), NsOf(h[Len(h)])>>
NsInRowRange(E, ns, i) == RowNsRange(E, i)[1] <= ns /\ ns <= RowNsRange(E, i)[2]
RowsWithNs(E, ns) == { i \in 0..(EW(E)-1) : NsInRowRange(E, ns, i) }      \* share.RowsWithNamespace

---------------------------------------------------------------------------
(* The on-disk format *)
NoFile == "nofile"
FileShares(E) ==                            \* writeODS: row-major, stop at the first tail-padding share
  LET flat == OdsFlat(E)
      n == IF \E i \in 1..Len(flat) : flat[i] = TPc
           THEN (CHOOSE i \in 1..Len(flat) : flat[i] = TPc /\ \A j \in 1..(i-1) : flat[j] # TPc) - 1
           ELSE Len(flat)
  IN SubSeq(flat, 1, n)
OdsFileOf(E) == [k |-> EK(E), hash |-> HashOf(RootsOf(E)), roots |-> RootsOf(E), shares |-> FileShares(E)]
Q4FileOf(E)  == Q4Flat(E)

(* readRowHalf: ONE contiguous read of k shares at the row's offset; what was not read is padding    *)
ReadRowHalf(shares, k, i) ==
  LET avail == Len(shares) - i*k
      n == IF avail < 0 THEN 0 ELSE IF avail > k THEN k ELSE avail
  IN [c \in 1..k |-> IF c <= n THEN shares[i*k + c] ELSE TPc]
(* readColHalf: one read per share at positions j, j+k, ...; the first empty read ends the loop and  *)
(* the rest is padding                                                                               *)
ReadColHalf(shares, k, j) ==
  LET empty(i) == j + i*k >= Len(shares)               \* 0-based position at or past end of file
      stop == IF \E i \in 0..(k-1) : empty(i)
              THEN CHOOSE i \in 0..(k-1) : empty(i) /\ \A i2 \in 0..(i-1) : ~empty(i2)
              ELSE k
  IN [r \in 1..k |-> IF r-1 >= stop THEN TPc ELSE shares[j + (r-1)*k + 1]]
ReadHalfAt(shares, k, ax, i) == IF ax = "row" THEN ReadRowHalf(shares, k, i) ELSE ReadColHalf(shares, k, i)

(* eds.ReadShares: k*k shares from a stream, tail padding after EOF *)
ReadSharesPad(stream, k) == [i \in 1..(k*k) |-> IF i <= Len(stream) THEN stream[i] ELSE TPc]
=============================================================================
