\* Object level, thorough: widths 1, 2 and 4, two namespaces incl. a reserved one (every padding amount,
\* namespace boundary at every cell), FULL product of object states, proof cache cold/upper/all, plain cores.
SPECIFICATION Spec
CONSTANTS
  Ks = {1, 2, 4}
  NsSeq <- Ns2
  WithEmpty = TRUE
  Levels = {"cold", "upper", "all"}
  MaxStep = 0
  Plain = TRUE
  OnlyLayouts = FALSE
  FullProduct = TRUE
INVARIANTS ObjCorrect FormatLossless SideRule LatentUnreachable
CHECK_DEADLOCK FALSE
