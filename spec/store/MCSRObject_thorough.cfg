\* Object level, thorough: widths 1, 2 and 4, three namespaces (969 layouts of width 4: every padding amount,
\* namespaces ending/starting at every cell incl. row boundaries), consistent object states, cold/upper/all.
SPECIFICATION Spec
CONSTANTS
  Ks = {1, 2, 4}
  NsSeq <- Ns3
  WithEmpty = TRUE
  Levels = {"cold", "upper", "all"}
  MaxStep = 0
  OnlyLayouts = FALSE
  FullProduct = FALSE
INVARIANTS ObjCorrect FormatLossless SideRule LatentUnreachable
CHECK_DEADLOCK FALSE
