\* C07: writers that reserve the final file size before writing (seeded change C07-2): size validation is blind; TLC reports LinkedIsComplete / RePutWorks violated.
SPECIFICATION Spec
CONSTANTS
  DataHeights = {1}
  EmptyHeights = {2}
  MaxOps = 3
  MaxCrashes = 2
  OpKinds = {"PutODSQ4", "PutODS", "RemoveODSQ4", "RemoveQ4"}
  ValidateQ4OnOpen = TRUE
  Prealloc = TRUE
  EmitCases = FALSE
VIEW view
INVARIANTS TypeOK LinkedIsComplete NoPartialServed LookupRight PutNeverFails RePutWorks RemoveRemoves EmptyFileComplete DirsFirst CaseOut
PROPERTIES ReRemoveIdempotent EmptyNeverWritten
