\* B1: validation of marker traces of the real store against Store.tla (file from $VERIF_TRACE).
SPECIFICATION TSpec
CONSTANTS
  DataHeights = {1}
  EmptyHeights = {2}
  MaxOps = 1000000000
  MaxCrashes = 1000000000
  OpKinds = {"PutODSQ4", "PutODS", "RemoveODSQ4", "RemoveQ4"}
  ValidateQ4OnOpen = TRUE
  Prealloc = FALSE
  EmitCases = FALSE
INVARIANTS LinkedIsComplete NoPartialServed LookupRight PutNeverFails RePutWorks RemoveRemoves DirsFirst
POSTCONDITION Accepted
