\* C07 under I/O faults (thorough): one data block, the empty block, 3 operations, 2 crashes, 2 fault(s).
SPECIFICATION SpecF
CONSTANTS
  DataHeights = {1}
  EmptyHeights = {2}
  MaxOps = 3
  MaxCrashes = 2
  MaxFaults = 2
  OpKinds = {"PutODSQ4", "PutODS", "RemoveODSQ4", "RemoveQ4"}
  ValidateQ4OnOpen = TRUE
  Prealloc = FALSE
  EmitCases = FALSE
  EmitFault = FALSE
VIEW fview
INVARIANTS TypeOK NoReadableWrong FailedPutReported ReputAfterFailureSucceeds PutNeverFails EmptyFileComplete DirsFirst FaultOut
