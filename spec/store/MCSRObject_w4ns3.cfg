\* Object level, thorough: width 4 with THREE namespaces (969 layouts: every padding amount, two namespace
\* boundaries at every pair of cells incl. row boundaries), the store's accessors with a fully warm proof cache.
SPECIFICATION Spec
CONSTANTS
  Ks = {4}
  NsSeq <- Ns3
  WithEmpty = FALSE
  Levels = {"all"}
  MaxStep = 0
  Plain = FALSE
  OnlyLayouts = FALSE
  FullProduct = FALSE
INVARIANTS ObjCorrect FormatLossless SideRule LatentUnreachable
CHECK_DEADLOCK FALSE
