\* the cache entry protocol, quick: 2 clients x 2 operations (+ use / close of their handles), 2 keys, capacity 1
SPECIFICATION Spec
CONSTANTS
  Clients = {1, 2}
  Keys = {1, 2}
  Cap = 1
  MaxOps = 2
  MaxAcc = 6
  AllowTimeout = FALSE
INVARIANTS RefsBalanced NoPanic NoUseAfterClose ClosedOnce ClosedOnlyUnreferenced LruSane NoLeak NoClosedCached
