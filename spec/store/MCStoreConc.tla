---------------------------- MODULE MCStoreConc ----------------------------
(* Model-checking instances of StoreConc.tla (constants that cannot be written in a .cfg). *)
EXTENDS StoreConc

\* heights 1 and 2 collide on the height-lock stripe (h, h+1024) AND on the hash-lock stripe;
\* height 3 (when used) is the empty block on its own height stripe (its hash stripe is shared).
Collide == [h \in Heights |-> IF h = 3 THEN 2 ELSE 1]
AllOne  == [h \in Heights |-> 1]

\* --- A: two writers and one reader through Store.GetByHeight, recent cache of size 1
A_Threads == {1, 2, 3}
A_Menu    == (1 :> {"PutODSQ4", "RemoveODSQ4"}) @@ (2 :> {"PutODS", "RemoveQ4", "PutODSQ4"}) @@ (3 :> {"Get", "Has"})
A_HMenu   == (1 :> {1, 2}) @@ (2 :> {1}) @@ (3 :> {1})
A_Ops     == (1 :> 2) @@ (2 :> 2) @@ (3 :> 2)

\* --- B: removal/pruning against the serving cache (CachedStore) incl. the empty block
B_Threads == {1, 2, 3}
B_Menu    == (1 :> {"PutODSQ4", "RemoveODSQ4", "RemoveQ4"}) @@ (2 :> {"CachedGet"}) @@ (3 :> {"CachedGet", "Get", "Has"})
B_HMenu   == (1 :> {1, 3}) @@ (2 :> {1, 3}) @@ (3 :> {1, 3})
B_Ops     == (1 :> 3) @@ (2 :> 2) @@ (3 :> 1)

\* --- C: eviction: caches of size 1, two heights
C_Threads == {1, 2, 3}
C_Menu    == (1 :> {"PutODSQ4", "RemoveODSQ4"}) @@ (2 :> {"CachedGet", "Get"}) @@ (3 :> {"CachedGet", "PutODS"})
C_HMenu   == (1 :> {1, 2}) @@ (2 :> {1, 2}) @@ (3 :> {2})
C_Ops     == (1 :> 2) @@ (2 :> 2) @@ (3 :> 1)

\* --- quick variants (smaller programs)
Aq_Menu   == (1 :> {"PutODSQ4", "RemoveODSQ4"}) @@ (2 :> {"PutODS", "RemoveQ4"}) @@ (3 :> {"Get", "Has"})
Aq_HMenu  == (1 :> {1, 2}) @@ (2 :> {1}) @@ (3 :> {1})
Aq_Ops    == (1 :> 2) @@ (2 :> 1) @@ (3 :> 2)
Bq_Menu   == (1 :> {"PutODSQ4", "RemoveODSQ4"}) @@ (2 :> {"CachedGet"}) @@ (3 :> {"Get", "Has", "CachedGet"})
Bq_HMenu  == (1 :> {1, 3}) @@ (2 :> {1, 3}) @@ (3 :> {3})
Bq_Ops    == (1 :> 2) @@ (2 :> 2) @@ (3 :> 1)

\* --- self-tests of the model's sensitivity (each must FAIL in the stated way)
\* S1: the loader of CachedStore without the height lock -> stale entry of a removed empty block
S1_Menu   == (1 :> {"PutODSQ4", "RemoveODSQ4"}) @@ (2 :> {"CachedGet"}) @@ (3 :> {"Has"})
S1_HMenu  == (1 :> {3}) @@ (2 :> {3}) @@ (3 :> {3})
S1_Ops    == (1 :> 2) @@ (2 :> 1) @@ (3 :> 1)
\* S2: RemoveQ4 taking height-then-hash against a put taking hash-then-height -> dead-lock
S2_Threads == {1, 2}
S2_Menu   == (1 :> {"PutODSQ4"}) @@ (2 :> {"RemoveQ4"})
S2_HMenu  == (1 :> {1}) @@ (2 :> {2})
S2_Ops    == (1 :> 1) @@ (2 :> 1)
\* S3: lazy Q4 open without the size validation -> a held accessor binds to a half-written Q4
S3_Threads == {1, 2}
S3_Menu   == (1 :> {"PutODSQ4", "RemoveODSQ4"}) @@ (2 :> {"Get"})
S3_HMenu  == (1 :> {1}) @@ (2 :> {1})
S3_Ops    == (1 :> 3) @@ (2 :> 1)
=============================================================================
