----------------------------- MODULE StoreFault -----------------------------
(***************************************************************************)
(* C07 extended to I/O FAULTS (ENOSPC / EIO / EACCES style failures of      *)
(* create, write, flush, close, link, remove, mkdir).  Extends Store.tla:   *)
(* every fault is an explicit action at the file-system effect it hits, and *)
(* the steps the code REALLY performs afterwards are the ordinary removal   *)
(* actions of Store.tla (a Crash is possible between any two of them):      *)
(*                                                                         *)
(*  CreateODS / createQ4 (ods.go, q4.go): open fails -> error, no file;     *)
(*    header / share write / final flush fails -> Close, error, the file    *)
(*    keeps what earlier flushes wrote; Close fails -> error, file complete.*)
(*  CreateODSQ4 (ods_q4.go) waits for BOTH writers and joins their errors.  *)
(*  createODS[Q4]File (store.go:175-304):                                   *)
(*    joined error contains "exists" -> size validation; valid -> link      *)
(*      (so a fault of one writer next to an existing valid pair is         *)
(*      swallowed); invalid -> remove* and re-create; an error of the       *)
(*      re-creation is returned WITHOUT roll-back (files stay, unlinked);   *)
(*    other error -> ROLL-BACK removeODS (PutODS: cache, link, ods) or      *)
(*      removeODSQ4 (PutODSQ4: + cache, q4), then the error is returned;    *)
(*    link fails (not EEXIST) -> the same roll-back, error returned;        *)
(*    empty block: link error returned, nothing to roll back.               *)
(*  remove* : the first failing os.Remove ends the removal with an error    *)
(*    (also inside a roll-back or a validation recovery).                   *)
(*  NewStore: mkdir / remove / create faults make NewStore return an error  *)
(*    (populateEmptyFile runs BOTH removes before it reports).              *)
(*                                                                         *)
(* Every fault point has a `verifFault` call site in /repo (tag verif), so  *)
(* the driver forces each (start disk, operation, fault) case printed here  *)
(* on the real store and compares every directory it sees afterwards.       *)
(***************************************************************************)
EXTENDS Store

CONSTANTS MaxFaults,    \* number of injected faults over the behaviour
          EmitFault     \* TRUE: print one FSTATE line per state of a faulted operation after its writers returned

VARIABLES nf,    \* faults injected so far
          d0,    \* disk when the current operation started (ghost)
          fc     \* the faulted operation: [kind, h, f (fault point), r (round), d0] or NoFc (ghost)

NoFc == [kind |-> "none"]
fvars == <<vars, nf, d0, fc>>
fview == <<view, nf, fc>>

CanFault == nf < MaxFaults /\ op # NoOp
Hit(name) == /\ nf' = nf + 1
             /\ fc' = [kind |-> op.kind, h |-> op.h, f |-> name, r |-> round, d0 |-> d0]
             /\ UNCHANGED <<d0, lm, lq, hist, nops, ncrash, cp, phase, op, tf, last, dirs, lnk, dsz>>

\* ---- writer faults: the writer returns an error ("err"); the file keeps what reached it
FOdsCreate == /\ CanFault /\ mpc = "create" /\ opc = "enter" /\ opc' = "err" /\ Hit("ods.create")
              /\ UNCHANGED <<ods, q4, cache, mpc, qpc, round>>
FOdsHdr    == /\ CanFault /\ mpc = "create" /\ opc = "created" /\ opc' = "err" /\ Hit("ods.hdr")
              /\ UNCHANGED <<ods, q4, cache, mpc, qpc, round>>
FOdsWrite  == /\ CanFault /\ mpc = "create" /\ opc \in {"hdr", "partial"} /\ opc' = "err" /\ Hit("ods.write." \o opc)
              /\ UNCHANGED <<ods, q4, cache, mpc, qpc, round>>
FOdsClose  == /\ CanFault /\ mpc = "create" /\ opc = "full" /\ opc' = "err" /\ Hit("ods.close")
              /\ UNCHANGED <<ods, q4, cache, mpc, qpc, round>>
FQ4Create  == /\ CanFault /\ mpc = "create" /\ qpc = "enter" /\ qpc' = "err" /\ Hit("q4.create")
              /\ UNCHANGED <<ods, q4, cache, mpc, opc, round>>
FQ4Write   == /\ CanFault /\ mpc = "create" /\ qpc \in {"created", "partial"} /\ qpc' = "err" /\ Hit("q4.write." \o qpc)
              /\ UNCHANGED <<ods, q4, cache, mpc, opc, round>>
FQ4Close   == /\ CanFault /\ mpc = "create" /\ qpc = "full" /\ qpc' = "err" /\ Hit("q4.close")
              /\ UNCHANGED <<ods, q4, cache, mpc, opc, round>>

\* ---- both writers returned, at least one with a real error (silent step)
JoinF ==
    /\ mpc = "create"
    /\ opc \in {"closed", "exists", "err"} /\ qpc \in {"closed", "exists", "err", "na"}
    /\ (opc = "err" \/ qpc = "err")
    /\ IF op.kind = "NewStore" THEN mpc' = "nsfail" /\ UNCHANGED round
       ELSE IF AnyExists   \* errors.Is(joined, os.ErrExist): the validation branch wins
              THEN /\ mpc' = IF round = 2 THEN "tofail" ELSE IF SizesValid THEN "tolink" ELSE "rm.cache1"
                   /\ UNCHANGED round
              ELSE IF round = 2 THEN mpc' = "tofail" /\ UNCHANGED round      \* "recreating ...": no roll-back
                   ELSE mpc' = "rm.cache1" /\ round' = 3                       \* roll-back
    /\ opc' = "na" /\ qpc' = "na"
    /\ UNCHANGED <<disk, phase, cache, op, tf, last, nops, ncrash, cp, hist, lm, lq, nf, d0, fc>>

\* ---- linkHeight fails with something else than EEXIST (the hook fires before os.Link)
FLink == /\ CanFault /\ mpc = "tolink" /\ Hit("link")
         /\ IF IsEmptyH(op.h) THEN mpc' = "tofail" /\ UNCHANGED round
            ELSE mpc' = "rm.cache1" /\ round' = 3
         /\ UNCHANGED <<ods, q4, cache, opc, qpc>>

\* ---- an os.Remove fails: the removal (Remove*, validation recovery or roll-back) returns the error
FRm == /\ CanFault /\ mpc \in {"rm.link", "rm.ods", "rm.q4"} /\ Hit(mpc)
       /\ mpc' = "tofail"
       /\ UNCHANGED <<ods, q4, cache, opc, qpc, round>>

\* ---- NewStore
FNsMkdir == /\ CanFault /\ mpc \in {"ns.mkdir1", "ns.mkdir2"} /\ Hit(mpc) /\ mpc' = "nsfail"
            /\ UNCHANGED <<ods, q4, cache, opc, qpc, round>>
FNsRmOds == /\ CanFault /\ mpc = "ns.rmods" /\ Hit(mpc) /\ mpc' = "ns.rmq4x"   \* errors.Join(remove(ods), remove(q4))
            /\ UNCHANGED <<ods, q4, cache, opc, qpc, round>>
NsRmQ4x  == /\ mpc = "ns.rmq4x" /\ q4' = [q4 EXCEPT ![E] = "absent"] /\ mpc' = "nsfail"
            /\ UNCHANGED <<dirs, ods, lnk, dsz, phase, cache, op, opc, qpc, round, tf, last, nops, ncrash, cp, hist, lm, lq, nf, d0, fc>>
FNsRmQ4  == /\ CanFault /\ mpc = "ns.rmq4" /\ Hit(mpc) /\ mpc' = "nsfail"
            /\ UNCHANGED <<ods, q4, cache, opc, qpc, round>>
\* NewStore returned an error: there is no store; the directory stays as it is
NsFail == /\ mpc = "nsfail"
          /\ phase' = "down" /\ op' = NoOp /\ mpc' = "idle" /\ round' = 0 /\ cache' = {} /\ last' = NoOp
          /\ UNCHANGED <<disk, opc, qpc, tf, nops, ncrash, cp, hist, lm, lq, nf, d0, fc>>

\* ---- the operation returns an error (deferred unlock)
OpFail == /\ mpc = "tofail"
          /\ last' = [kind |-> "failed", h |-> op.h]
          /\ op' = NoOp /\ mpc' = "idle" /\ round' = 0
          /\ hist' = Append(hist, [t |-> "fail", kind |-> op.kind, h |-> op.h])
          /\ UNCHANGED <<disk, phase, cache, opc, qpc, tf, nops, ncrash, cp, lm, lq, nf, d0, fc>>

Faults == FOdsCreate \/ FOdsHdr \/ FOdsWrite \/ FOdsClose \/ FQ4Create \/ FQ4Write \/ FQ4Close
          \/ FLink \/ FRm \/ FNsMkdir \/ FNsRmOds \/ FNsRmQ4

\* a step of Store.tla: d0 is taken when an operation (or NewStore) starts, fc is forgotten then
Base == /\ Next /\ UNCHANGED nf
        /\ d0' = IF op = NoOp /\ op' # NoOp THEN DiskJson ELSE d0
        /\ fc' = IF op = NoOp THEN NoFc ELSE fc

NextF == Base \/ Faults \/ JoinF \/ NsRmQ4x \/ NsFail \/ OpFail

InitF == Init /\ nf = 0 /\ d0 = DiskJson /\ fc = NoFc
SpecF == InitF /\ [][NextF]_fvars

----------------------------------------------------------------------------
(* Properties under faults (the invariants of Store.tla are checked as well) *)

(* (ii) never a block that Has/Get report present but whose content is wrong or partial: in    *)
(* EVERY state -- also between two roll-back steps -- a restart + lookup is absent or right.   *)
NoReadableWrong == LookupRight /\ LinkedIsComplete /\ NoPartialServed

(* (i) an operation that a fault hit and that nevertheless returns SUCCESS has fully recovered:  *)
(* its post-condition holds (a put leaves the block linked, complete, readable; a removal        *)
(* removed).  Every other faulted operation ends in OpFail = returns the error.                 *)
FailedPutReported == RePutWorks /\ RemoveRemoves

(* (iii) after a failed operation (and after a crash following it) a fault-free re-put never     *)
(* runs into an unexpected error (second EEXIST, ENOENT on link) and ends with RePutWorks.       *)
ReputAfterFailureSucceeds == (nf = MaxFaults /\ fc = NoFc) => mpc \notin {"failed", "tofail", "nsfail"}

FaultOut ==
    (EmitFault /\ fc # NoFc /\ mpc # "create") =>
        PrintT(<<"FSTATE", ToJson([fc |-> fc, disk |-> DiskJson, done |-> (op = NoOp),
                                    res |-> IF op # NoOp THEN "-" ELSE IF last.kind = "failed" \/ fc.kind = "NewStore" THEN "err" ELSE "ok",
                                    down |-> (phase = "down")])>>)
=============================================================================
