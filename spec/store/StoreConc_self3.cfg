\* self-test 3 (must violate ReadersSeeOwnBlock): lazy Q4 open without size validation (defect #10/#11)
SPECIFICATION Spec
CONSTANTS
  Threads <- S3_Threads
  DataHeights = {1}
  EmptyHeights = {}
  HStripe <- AllOne
  XStripe <- AllOne
  Menu <- S3_Menu
  HMenu <- S3_HMenu
  MaxOpsPer <- S3_Ops
  C1Size = 0
  C2Size = 0
  MaxAcc = 4
  ValidateQ4OnOpen = FALSE
  CachedGetLocks = FALSE
  SwappedOrder = {}
  AllowTimeout = FALSE
INVARIANTS TypeOK ReadersSeeOwnBlock NoUseAfterClose RefsBalanced NoOrphan Linearizable FilesReleased LocksFree
