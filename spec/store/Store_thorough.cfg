\* C07 thorough: 4 operations, 2 crashes (invariants only; the cases for the driver come from Store_cases.cfg)
SPECIFICATION Spec
CONSTANTS
  DataHeights = {1}
  EmptyHeights = {2}
  MaxOps = 4
  MaxCrashes = 2
  OpKinds = {"PutODSQ4", "PutODS", "RemoveODSQ4", "RemoveQ4"}
  ValidateQ4OnOpen = TRUE
  Prealloc = FALSE
  EmitCases = FALSE
VIEW view
INVARIANTS TypeOK LinkedIsComplete NoPartialServed LookupRight PutNeverFails RePutWorks RemoveRemoves EmptyFileComplete DirsFirst CaseOut
PROPERTIES ReRemoveIdempotent EmptyNeverWritten
