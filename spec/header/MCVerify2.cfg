\* thorough tier: pairs of mutations of the untrusted header, set-change chain and the 4-validator chain
SPECIFICATION Spec
VIEW View
CONSTANTS
  Chains = {"chg", "sk4"}
  IdxSet = {1, 2, 3, 4}
  MaxMut = 2
  Mode = "verify"
  Emit = TRUE
INVARIANTS
  VerifySound
  ValidVerifies
  ValidateSound
  HashStable
  EmitCase
CHECK_DEADLOCK FALSE
