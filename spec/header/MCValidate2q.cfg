\* quick tier: every PAIR of mutations of the first header signed by the new validator set of the
\* set-change chain (4 validators, skewed powers, 4+4 roots)
SPECIFICATION Spec
VIEW View
CONSTANTS
  Chains = {"chg"}
  IdxSet = {3}
  MaxMut = 2
  Mode = "validate"
  Emit = TRUE
INVARIANTS
  ValidateSound
  EveryFieldCounts
  ValidAccepted
  HashStable
  MsgIdDependsOnBlockOnly
  EmitCase
CHECK_DEADLOCK FALSE
