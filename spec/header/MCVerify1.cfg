\* every (trusted, untrusted) pair of every chain, adjacent and not, untrusted header valid or with one
\* mutation (incl. the self-consistent forgeries)
SPECIFICATION Spec
VIEW View
CONSTANTS
  Chains = {"one", "eq3", "sk3", "eq4", "sk4", "chg"}
  IdxSet = {1, 2, 3, 4}
  MaxMut = 1
  Mode = "verify"
  Emit = TRUE
INVARIANTS
  VerifySound
  ValidVerifies
  ValidateSound
  HashStable
  EmitCase
CHECK_DEADLOCK FALSE
