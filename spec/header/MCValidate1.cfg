\* all chains, all headers, every single mutation (exhaustive)
SPECIFICATION Spec
VIEW View
CONSTANTS
  Chains = {"one", "eq3", "sk3", "eq4", "sk4", "chg"}
  IdxSet = {1, 2, 3, 4}
  MaxMut = 1
  Mode = "validate"
  Emit = TRUE
INVARIANTS
  ValidateSound
  EveryFieldCounts
  ValidAccepted
  HashStable
  MsgIdDependsOnBlockOnly
  EmitCase
CHECK_DEADLOCK FALSE
