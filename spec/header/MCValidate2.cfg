\* thorough tier: every pair of mutations of every header of every chain (model only; the driver replays
\* a seeded sample of these plus all of MCValidate2q)
SPECIFICATION Spec
VIEW View
CONSTANTS
  Chains = {"one", "eq3", "sk3", "eq4", "sk4", "chg"}
  IdxSet = {1, 2, 3, 4}
  MaxMut = 2
  Mode = "validate"
  Emit = TRUE
INVARIANTS
  ValidateSound
  EveryFieldCounts
  ValidAccepted
  HashStable
  MsgIdDependsOnBlockOnly
  EmitCase
CHECK_DEADLOCK FALSE
