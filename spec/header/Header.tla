------------------------------- MODULE Header -------------------------------
(***************************************************************************)
(* C16 -- only internally consistent, properly signed headers are          *)
(* accepted; the hash / gossip message id depend on the block only.        *)
(*                                                                         *)
(* The module has three layers.                                            *)
(*                                                                         *)
(*  1. ABSTRACT HEADERS over IDEAL CRYPTOGRAPHY.  A header is a record     *)
(*       raw     the 14 fields of the signed block header (the version is  *)
(*               split in block/app), EVERY ONE of which participates in   *)
(*               the header hash HH(raw);                                  *)
(*       dah     [rows, cols]  sequences of axis roots;                    *)
(*       valset  sequence of [id, power, addr]  (id = the key, addr = the  *)
(*               address claimed for it; addr = id for an honest entry);   *)
(*       commit  [height, round, blockId=[hash,parts], sigs], a signature  *)
(*               being [addr, by, over, flag, ts]: "key `by` signed the    *)
(*               vote message `over`", filed under address `addr`.         *)
(*     Hashes are injective (a hash IS the tagged value it was taken of),  *)
(*     a signature verifies iff `by` is the validator's key and `over` is  *)
(*     exactly the canonical vote of the commit it sits in.  This is the   *)
(*     ASSUMPTION of the model; the driver exercises its concrete          *)
(*     counterpart (SHA-256 merkle trees, ed25519) on every case.          *)
(*                                                                         *)
(*  2. THE PROPERTY's own definitions:  Consistent(h)  (DAH hashes to the  *)
(*     data hash, validator set hashes to the validators hash, the commit  *)
(*     is for this very header and carries > 2/3 of that set's power),     *)
(*     VerifyConsistent(T,h)  (links to T / signed by > 1/3 of T's set).   *)
(*                                                                         *)
(*  3. THE IMPLEMENTATION, transcribed check by check IN CODE ORDER:       *)
(*     ImplValidate == header/header.go Validate (returns the name of the  *)
(*     first failing stage), ImplVerify == header/header.go Verify, with   *)
(*     the celestia-core routines they call (VerifyCommitLight,            *)
(*     VerifyCommitLightTrusting incl. their early exit and the            *)
(*     batch-vs-single error classification) and the oddities of           *)
(*     da.DataAvailabilityHeader.Hash (2*len(rows) leaves: surplus column  *)
(*     roots are NOT hashed, missing ones are hashed as empty leaves).     *)
(*                                                                         *)
(* The state space is the space of INPUTS: a state is one (chain, header,  *)
(* <=MaxMut composed structured mutations) -- in verify mode additionally  *)
(* a trusted header.  TLC enumerates it exhaustively and checks            *)
(*     ValidateSound, EveryFieldCounts, VerifySound, HashStable,           *)
(*     MsgIdDependsOnBlockOnly                                             *)
(* in every state; every state is also printed as one CASE (the mutation   *)
(* list and the model's verdicts) which harness/drivers/header             *)
(* materialises with real keys / signatures / squares and throws at the    *)
(* real Validate / Verify / Hash / MsgID / (Un)Marshal{Binary,JSON}.       *)
(***************************************************************************)
EXTENDS Naturals, Sequences, FiniteSets, TLC, Json

CONSTANTS
    Chains,     \* the chains explored by this configuration (subset of AllChains)
    IdxSet,     \* the header positions put under test (1..4 = all)
    MaxMut,     \* number of composed mutations (0 .. 2)
    Mode,       \* "validate" | "verify"
    Emit        \* TRUE: print every state as a CASE for the driver

VARIABLES
    cid,        \* chain name
    idx,        \* index of the header under test in the chain
    tix,        \* verify mode: index of the trusted header (0 in validate mode)
    h,          \* the header under test, after the mutations
    muts        \* the mutations applied so far (history; hidden by the VIEW)

vars == <<cid, idx, tix, h, muts>>

(***************************************************************************)
(* Small helpers                                                           *)
(***************************************************************************)
\* sum of a sequence of naturals
SumNat(s) == LET f[k \in 0..Len(s)] == IF k = 0 THEN 0 ELSE f[k - 1] + s[k] IN f[Len(s)]

Range(s) == {s[k] : k \in DOMAIN s}
RemoveAt(s, k) == [j \in 1..(Len(s) - 1) |-> IF j < k THEN s[j] ELSE s[j + 1]]
SwapAt(s, j, k) == [s EXCEPT ![j] = s[k], ![k] = s[j]]
Min(a, b) == IF a < b THEN a ELSE b

(***************************************************************************)
(* Validator sets.  Keys 1..5 are the honest validators, 7..9 belong to    *)
(* the adversary ("non-members"), 99 is "no key at all" (a corrupted       *)
(* signature).  Sets are listed the way the real ValidatorSet orders them: *)
(* by power (descending), ties by address (ascending) -- the driver hands  *)
(* out real keys so that addresses ascend with the ids.                    *)
(***************************************************************************)
V(i, p) == [id |-> i, power |-> p, addr |-> i]

VS1  == << V(1, 1) >>                                 \* a single validator
VS3e == << V(1, 10), V(2, 10), V(3, 10) >>            \* equal: all three are needed (20 is not > 2/3 of 30)
VS3s == << V(1, 5), V(2, 3), V(3, 2) >>               \* skewed: {1,2}=8, {1,3}=7 suffice, {2,3}=5 does not
VS4e == << V(1, 1), V(2, 1), V(3, 1), V(4, 1) >>      \* equal: any three suffice
VS4s == << V(1, 4), V(2, 3), V(3, 2), V(4, 1) >>      \* skewed: {1,2}=7 suffices, {1,3}=6 and {2,3,4}=6 do not
VSA  == << V(1, 5), V(2, 3), V(3, 2) >>               \* set change A -> B in the middle of chain "chg":
VSB  == << V(4, 7), V(5, 4), V(1, 3), V(3, 1) >>      \* {4,5}=11 > 10 is B-valid with NO trusted (A) power

AllChains == {"one", "eq3", "sk3", "eq4", "sk4", "chg"}

ChainLen(c) == IF c = "chg" THEN 4 ELSE 3

\* validator set of header i of chain c (defined for i = ChainLen+1 too: the "next" set of the last header)
VSof(c, i) ==
    CASE c = "one" -> VS1
      [] c = "eq3" -> VS3e
      [] c = "sk3" -> VS3s
      [] c = "eq4" -> VS4e
      [] c = "sk4" -> VS4s
      [] c = "chg" -> IF i <= 2 THEN VSA ELSE VSB

\* Number of roots per axis.  Width 2 is the 1x1 original square: its extended square has identical
\* row and column roots (row k and column k hold the same two leaves) -- modelled as such, so that the
\* abstract DAH and the real one have the same equalities.
Width(c) == IF c \in {"one", "eq4"} THEN 2 ELSE 4
MinWidth == 2       \* da.minExtendedSquareWidth; the upper bound (2*SquareSizeUpperBound) is out of model scope

Root(c, i, axis, k) == IF Width(c) = 2 THEN <<"root", "x", i, k>> ELSE <<"root", axis, i, k>>

VDah(c, i) == [rows |-> [k \in 1..Width(c) |-> Root(c, i, "r", k)],
               cols |-> [k \in 1..Width(c) |-> Root(c, i, "c", k)]]

(***************************************************************************)
(* Ideal hashing                                                           *)
(***************************************************************************)
\* The data root as the Celestia specification defines it: merkle root of rowRoots || columnRoots.
IdealDahHash(d) == <<"dah", d.rows \o d.cols>>

\* What da.DataAvailabilityHeader.Hash() computes: a slice of 2*len(RowRoots) leaves, the row roots
\* copied to the front and the column roots copied behind them -- copy() drops surplus column roots and
\* leaves the slots of missing ones empty.
NilLeaf == <<"nilleaf">>
PadTrunc(s, n) == [k \in 1..n |-> IF k <= Len(s) THEN s[k] ELSE NilLeaf]
ImplDahHash(d) == <<"dah", d.rows \o PadTrunc(d.cols, Len(d.rows))>>

\* ValidatorSet.Hash(): merkle root over (pubkey, power) of every member in order; neither the address
\* nor the proposer / proposer priorities are covered.
HVals(vs) == <<"vh", [k \in DOMAIN vs |-> <<vs[k].id, vs[k].power>>]>>

\* The valid raw header i of chain c.  Header hashes of VALID headers are named <<"hh", c, i>> (so that
\* the chain link needs no recursion); any other raw header hashes to itself (injective).
VRaw(c, i) ==
    [vblock |-> <<"ok">>, vapp |-> <<"ok">>, chainId |-> <<"chain">>, height |-> i, time |-> <<"t", i>>,
     lastBlockId |-> IF i = 1 THEN [hash |-> <<"hh", c, 0>>, parts |-> <<"ps", 0>>]
                     ELSE [hash |-> <<"hh", c, i - 1>>, parts |-> <<"ps", i - 1>>],
     lastCommitHash |-> <<"lch", i>>,
     dataHash |-> IdealDahHash(VDah(c, i)),
     validatorsHash |-> HVals(VSof(c, i)),
     nextValidatorsHash |-> HVals(VSof(c, i + 1)),
     consensusHash |-> <<"cons", i>>, appHash |-> <<"app", i>>, lastResultsHash |-> <<"lrh", i>>,
     evidenceHash |-> <<"ev", i>>, proposer |-> <<"prop", i>>]

VRawTab == [c \in AllChains |-> [i \in 1..4 |-> VRaw(c, i)]]      \* constant: evaluated once

\* core.Header.Hash(): merkle root over all 14 fields; nil when ValidatorsHash is empty.
HH(c, r) ==
    IF r.validatorsHash = <<"empty">> THEN <<"nilhash">>
    ELSE IF \E i \in 1..ChainLen(c) : r = VRawTab[c][i]
         THEN <<"hh", c, CHOOSE i \in 1..ChainLen(c) : r = VRawTab[c][i]>>
         ELSE <<"hx", r>>

(***************************************************************************)
(* Votes, signatures, valid headers                                        *)
(***************************************************************************)
\* canonical vote a commit signature at timestamp ts signs (types.VoteSignBytes): chain id, height,
\* round, block id (hash AND part-set header), timestamp.  NOT: validator address / index.
VoteMsg(chain, cm, ts) == [chainId |-> chain, height |-> cm.height, round |-> cm.round, blockId |-> cm.blockId, ts |-> ts]

NoBlock == [hash |-> <<"none">>, parts |-> <<"none">>]
NoMsg   == [chainId |-> <<"none">>, height |-> 0, round |-> 0, blockId |-> NoBlock, ts |-> <<"zero">>]
AbsentSig == [addr |-> 0, by |-> 0, over |-> NoMsg, flag |-> "absent", ts |-> <<"zero">>]

\* key `key` signs the commit cm (as it is now) at time ts, filed under address a
SignedBy(key, a, chain, cm, ts) == [addr |-> a, by |-> key, over |-> VoteMsg(chain, cm, ts), flag |-> "commit", ts |-> ts]

SignAll(vs, chain, cm, ts) ==
    [cm EXCEPT !.sigs = [k \in DOMAIN vs |-> SignedBy(vs[k].id, vs[k].addr, chain, cm, ts)]]

VCommit(c, i) ==
    SignAll(VSof(c, i), <<"chain">>,
            [height |-> i, round |-> 0, blockId |-> [hash |-> <<"hh", c, i>>, parts |-> <<"ps", i>>], sigs |-> <<>>],
            <<"t", i>>)

Valid(c, i) == [raw |-> VRawTab[c][i], dah |-> VDah(c, i), valset |-> VSof(c, i), commit |-> VCommit(c, i)]

ValidTab == [c \in AllChains |-> [i \in 1..4 |-> Valid(c, i)]]

Total(vs) == SumNat([k \in DOMAIN vs |-> vs[k].power])

\* does signature s (sitting in commit cm of a header of chain `chain`) verify under key `key`?
SigVerifies(s, key, chain, cm) == s.by = key /\ s.over = VoteMsg(chain, cm, s.ts)

(***************************************************************************)
(* 2. The property's definitions                                           *)
(***************************************************************************)
\* Power of the members of vs for whom the commit carries a valid signature for the block -- the most
\* liberal reading (any slot, each member once), so that Consistent never demands more than the text.
SignedPower(vs, chain, cm) ==
    SumNat([j \in DOMAIN vs |->
        IF \E k \in DOMAIN cm.sigs : cm.sigs[k].flag = "commit" /\ SigVerifies(cm.sigs[k], vs[j].id, chain, cm)
        THEN vs[j].power ELSE 0])

ConsDah(c, x)    == IdealDahHash(x.dah) = x.raw.dataHash
ConsVals(c, x)   == HVals(x.valset) = x.raw.validatorsHash
ConsCommit(c, x) == x.commit.blockId.hash = HH(c, x.raw) /\ x.commit.height = x.raw.height
ConsPower(c, x)  == 3 * SignedPower(x.valset, x.raw.chainId, x.commit) > 2 * Total(x.valset)

Consistent(c, x) == ConsDah(c, x) /\ ConsVals(c, x) /\ ConsCommit(c, x) /\ ConsPower(c, x)

Adjacent(T, x) == T.raw.height + 1 = x.raw.height

Links(c, T, x) == x.raw.lastBlockId.hash = HH(c, T.raw) /\ x.raw.validatorsHash = T.raw.nextValidatorsHash

TrustedPowerOK(T, x) == 3 * SignedPower(T.valset, T.raw.chainId, x.commit) > Total(T.valset)

\* what "passes verification against a trusted header" may rest on
VerifyConsistent(c, T, x) == IF Adjacent(T, x) THEN Links(c, T, x) ELSE TrustedPowerOK(T, x)

(***************************************************************************)
(* 3. The implementation                                                   *)
(***************************************************************************)
WellHash(x) == x # <<"badlen">>                     \* types.ValidateHash: empty or 32 bytes

\* core.Header.ValidateBasic
RawBasicOK(r) ==
    /\ r.vblock = <<"ok">>
    /\ r.chainId # <<"toolong">>
    /\ r.height > 0
    /\ WellHash(r.lastBlockId.hash) /\ WellHash(r.lastBlockId.parts)
    /\ WellHash(r.lastCommitHash) /\ WellHash(r.dataHash) /\ WellHash(r.evidenceHash)
    /\ r.proposer # <<"badlen">>
    /\ WellHash(r.validatorsHash) /\ WellHash(r.nextValidatorsHash)
    /\ WellHash(r.consensusHash) /\ WellHash(r.lastResultsHash)       \* AppHash: arbitrary length

AppVersionOK(r) == r.vapp \in {<<"ok">>, <<"ok2">>}                    \* 0 < app <= appconsts.Version

\* CommitSig.ValidateBasic
SigBasicOK(s) ==
    IF s.flag = "absent" THEN s.addr = 0 /\ s.by = 0 /\ s.ts = <<"zero">>
    ELSE s.addr # 0 /\ s.addr # 98 /\ s.by # 0         \* 98: an address of the wrong length

\* Commit.ValidateBasic (heights here are >= 1)
CommitBasicOK(cm) ==
    /\ cm.blockId # NoBlock
    /\ Len(cm.sigs) > 0
    /\ \A k \in DOMAIN cm.sigs : SigBasicOK(cm.sigs[k])

\* ValidatorSet.ValidateBasic: non-empty, every address derived from its key (the proposer is one of
\* the members in every materialised set)
ValsetBasicOK(vs) == Len(vs) > 0 /\ \A k \in DOMAIN vs : vs[k].addr = vs[k].id

\* DataAvailabilityHeader.ValidateBasic
DahBasicOK(d) == Len(d.rows) >= MinWidth /\ Len(d.cols) >= MinWidth /\ Len(d.rows) = Len(d.cols)

\* types.VerifyCommitLight(chainID, vals, commit.BlockID, height, commit): signatures are looked up BY
\* INDEX; only flag=commit counts; the walk stops as soon as the tally exceeds 2/3 -- signatures behind
\* that point are never looked at; an address mismatch met before that point is an error.
RECURSIVE LightWalk(_, _, _, _, _, _)
LightWalk(vs, chain, cm, k, tally, needed) ==
    IF k > Len(cm.sigs) THEN FALSE                                     \* not enough power
    ELSE LET s == cm.sigs[k] IN
         IF s.flag # "commit" THEN LightWalk(vs, chain, cm, k + 1, tally, needed)
         ELSE IF vs[k].addr # s.addr THEN FALSE
         ELSE IF ~SigVerifies(s, vs[k].id, chain, cm) THEN FALSE      \* (batch or single: same verdict)
         ELSE IF tally + vs[k].power > needed THEN TRUE
         ELSE LightWalk(vs, chain, cm, k + 1, tally + vs[k].power, needed)

CommitLightOK(x) ==
    /\ Len(x.valset) = Len(x.commit.sigs)
    /\ LightWalk(x.valset, x.raw.chainId, x.commit, 1, 0, (Total(x.valset) * 2) \div 3)

\* header.ExtendedHeader.Validate -- name of the first failing stage, in code order
ImplValidate(c, x) ==
    IF ~RawBasicOK(x.raw) THEN "raw-basic"
    ELSE IF ~AppVersionOK(x.raw) THEN "app-version"
    ELSE IF ~CommitBasicOK(x.commit) THEN "commit-basic"
    ELSE IF ~ValsetBasicOK(x.valset) THEN "valset-basic"
    ELSE IF x.raw.validatorsHash # HVals(x.valset) THEN "valset-hash"
    ELSE IF ImplDahHash(x.dah) # x.raw.dataHash THEN "dah-hash"
    ELSE IF x.commit.height # x.raw.height THEN "commit-height"
    ELSE IF x.commit.blockId.hash # HH(c, x.raw) THEN "commit-hash"
    ELSE IF ~CommitLightOK(x) THEN "commit-light"
    ELSE IF ~DahBasicOK(x.dah) THEN "dah-basic"
    ELSE "ok"

\* types.VerifyCommitLightTrusting(chainID, trustedVals, commit, 1/3): signatures are looked up BY
\* ADDRESS in the trusted set, unknown addresses are skipped, a second signature of the same validator is
\* an error.  Batch mode (>= 2 signatures): tally first, then "not enough" (soft) before any signature
\* is verified, then the batch.  Single mode: each signature is verified when met.
ByAddr(vs, a) == {k \in DOMAIN vs : vs[k].addr = a}

RECURSIVE TrustWalk(_, _, _, _, _, _, _, _)
TrustWalk(vs, chain, cm, k, tally, seen, allValid, needed) ==
    LET batch == Len(cm.sigs) >= 2
        finish(t, av) == IF t <= needed THEN "soft" ELSE IF av THEN "ok" ELSE "hard"
    IN  IF k > Len(cm.sigs) THEN finish(tally, allValid)
        ELSE LET s == cm.sigs[k] IN
             IF s.flag # "commit" THEN TrustWalk(vs, chain, cm, k + 1, tally, seen, allValid, needed)
             ELSE IF ~batch /\ ~SigBasicOK(s) THEN "hard"
             ELSE IF ByAddr(vs, s.addr) = {} THEN TrustWalk(vs, chain, cm, k + 1, tally, seen, allValid, needed)
             ELSE LET j == CHOOSE j \in ByAddr(vs, s.addr) : TRUE
                      ok == SigVerifies(s, vs[j].id, chain, cm)
                  IN  IF j \in seen THEN "hard"                                   \* double vote
                      ELSE IF ~batch /\ ~ok THEN "hard"
                      ELSE IF tally + vs[j].power > needed
                           THEN finish(tally + vs[j].power, allValid /\ ok)        \* early exit
                           ELSE TrustWalk(vs, chain, cm, k + 1, tally + vs[j].power, seen \cup {j}, allValid /\ ok, needed)

\* header.ExtendedHeader.Verify: "ok" | "valhash" | "lasthash" | "soft" | "hard"
ImplVerify(T, x) ==
    IF Adjacent(T, x)
    THEN IF x.raw.validatorsHash # T.raw.nextValidatorsHash THEN "valhash"
         ELSE IF x.raw.lastBlockId.hash # T.commit.blockId.hash THEN "lasthash"     \* Hash() = commit's block hash
         ELSE "ok"
    ELSE TrustWalk(T.valset, T.raw.chainId, x.commit, 1, 0, {}, TRUE, Total(T.valset) \div 3)

\* ExtendedHeader.Hash(): taken from the commit without recomputation
ImplHash(x) == x.commit.blockId.hash

\* header.MsgID: the commit's block id (hash AND part-set header) when the commit decodes (which includes
\* Commit.ValidateBasic), otherwise a hash of the whole message
ImplMsgId(x) == IF CommitBasicOK(x.commit) THEN <<"bid", x.commit.blockId>> ELSE <<"blake", x>>

(***************************************************************************)
(* The mutation space.  A mutation is a record [k, f, a, b, s] (uniform    *)
(* shape): kind, field/operation name, replacement name, two indices, an   *)
(* index set.                                                              *)
(***************************************************************************)
MV(k, f, v, a, b, s) == [k |-> k, f |-> f, v |-> v, a |-> a, b |-> b, s |-> s]
M(k, f, a, b, s) == MV(k, f, "", a, b, s)

\* --- raw header fields: <<field, replacement>>; "mut" = a different well-formed value
HashFields == {"lastCommitHash", "dataHash", "validatorsHash", "nextValidatorsHash", "consensusHash",
               "lastResultsHash", "evidenceHash"}
RawAlternatives ==
    {<<"vblock", "other">>, <<"vapp", "ok2">>, <<"vapp", "zero">>, <<"vapp", "toonew">>,
     <<"chainId", "other">>, <<"chainId", "toolong">>, <<"height", "plus1">>, <<"height", "zero">>,
     <<"time", "mut">>, <<"lastBlockId", "mut">>, <<"lastBlockId", "mutparts">>, <<"lastBlockId", "badlen">>,
     <<"appHash", "mut">>, <<"appHash", "empty">>, <<"proposer", "mut">>, <<"proposer", "badlen">>}
    \cup (HashFields \X {"mut", "badlen", "empty"})

RawMuts == {MV("raw", p[1], p[2], 0, 0, {}) : p \in RawAlternatives}

ApplyRaw(x, f, v) ==
    CASE f = "height" -> [x EXCEPT !.raw.height = IF v = "plus1" THEN @ + 1 ELSE 0]
      [] f = "lastBlockId" -> IF v = "mutparts" THEN [x EXCEPT !.raw.lastBlockId.parts = <<"mut">>]
                              ELSE [x EXCEPT !.raw.lastBlockId.hash = <<v>>]
      [] OTHER -> [x EXCEPT !.raw[f] = <<v>>]

\* --- what an adversary can recompute after a change (no key needed)
FixMuts == {M("fix", f, 0, 0, {}) : f \in {"dataHash", "validatorsHash", "commitHash", "commitHeight"}}

ApplyFix(c, x, f) ==
    CASE f = "dataHash" -> [x EXCEPT !.raw.dataHash = IdealDahHash(x.dah)]
      [] f = "validatorsHash" -> [x EXCEPT !.raw.validatorsHash = HVals(x.valset)]
      [] f = "commitHash" -> [x EXCEPT !.commit.blockId.hash = HH(c, x.raw)]
      [] f = "commitHeight" -> [x EXCEPT !.commit.height = x.raw.height]

\* --- re-pointing the commit at the header as it stands now and re-signing it: by the members' own keys
\* (an honest alternative commit / block -- only the validators can do that), or by an adversary key
\* filed under the members' addresses
ResignMuts == {M("resign", f, 0, 0, {}) : f \in {"members", "outsiders"}}

ApplyResign(c, x, f) ==
    LET cm == [x.commit EXCEPT !.blockId.hash = HH(c, x.raw), !.height = x.raw.height]
        n == Len(x.valset)
    IN  [x EXCEPT !.commit = [cm EXCEPT !.sigs = [k \in 1..n |->
            SignedBy(IF f = "members" THEN x.valset[k].id ELSE 7, x.valset[k].addr, x.raw.chainId, cm, <<"t2">>)]]]

\* --- a fork: the honest validators themselves sign another block at this height, differing in one field.
\* With f = lastBlockId the fork does not link to its predecessor (adjacent verification must refuse it,
\* non-adjacent verification rightly accepts: it IS signed by the trusted validators).
ForkMuts == {M("fork", f, 0, 0, {}) : f \in {"lastBlockId", "appHash"}}

ApplyFork(c, x, f) == ApplyResign(c, ApplyRaw(x, f, "mut"), "members")

\* --- a fully self-consistent forgery: own validator set, validators hash recomputed, commit re-pointed
\* at the new header hash and signed by the adversary's keys (and by colluding member 1 where listed).
\* Validate accepts these BY DESIGN (they are internally consistent); Verify is what must stop them.
ForgeSets ==
    [f1 |-> [vs |-> << V(8, 5), V(9, 5) >>, signers |-> {8, 9}],                  \* all foreign
     f2 |-> [vs |-> << V(1, 5), V(8, 5), V(9, 5) >>, signers |-> {8, 9}],         \* member listed, not signing: 10/15 = 2/3 exactly
     f3 |-> [vs |-> << V(8, 6), V(9, 5), V(1, 1) >>, signers |-> {8, 9}],         \* 11/12, no trusted power
     f4 |-> [vs |-> << V(8, 6), V(9, 5), V(1, 1) >>, signers |-> {1, 8, 9}],      \* member 1 colludes (5 of A's 10: > 1/3)
     f5 |-> [vs |-> << V(8, 6), V(9, 5), V(2, 1) >>, signers |-> {2, 8, 9}]]      \* member 2 colludes (3 of A's 10: NOT > 1/3)
ForgeMuts == {M("forge", f, 0, 0, {}) : f \in DOMAIN ForgeSets}

ApplyForge(c, x, f) ==
    LET fs == ForgeSets[f]
        x1 == [x EXCEPT !.valset = fs.vs, !.raw.validatorsHash = HVals(fs.vs)]
        cm == [x1.commit EXCEPT !.blockId.hash = HH(c, x1.raw), !.height = x1.raw.height]
    IN  [x1 EXCEPT !.commit = [cm EXCEPT !.sigs = [k \in DOMAIN fs.vs |->
            IF fs.vs[k].id \in fs.signers THEN SignedBy(fs.vs[k].id, fs.vs[k].addr, x1.raw.chainId, cm, <<"t2">>)
            ELSE AbsentSig]]]

\* --- DAH roots: positions 1..Len(rows) are rows, Len(rows)+1.. are columns
FreshRoot == <<"root", "new", 0, 0>>
DahAll(d) == d.rows \o d.cols
DahSplit(s, nr) == [rows |-> SubSeq(s, 1, nr), cols |-> SubSeq(s, nr + 1, Len(s))]

DahMuts(x) ==
    LET n == Len(DahAll(x.dah)) IN
    {M("dah", "change", p, 0, {}) : p \in 1..n}
    \cup {M("dah", "remove", p, 0, {}) : p \in 1..n}
    \cup {M("dah", op, 0, 0, {}) : op \in {"addrow", "addcol", "duprow", "dupcol", "shiftrc", "shiftcr"}}
    \cup {M("dah", "swap", pq[1], pq[2], {}) : pq \in {z \in (1..n) \X (1..n) : z[1] < z[2]}}

ApplyDah(x, f, a, b) ==
    LET d == x.dah
        nr == Len(d.rows)
        all == DahAll(d)
    IN  CASE f = "change" -> [x EXCEPT !.dah = DahSplit([all EXCEPT ![a] = FreshRoot], nr)]
          [] f = "remove" -> [x EXCEPT !.dah = DahSplit(RemoveAt(all, a), IF a <= nr THEN nr - 1 ELSE nr)]
          [] f = "swap" -> IF a < b THEN [x EXCEPT !.dah = DahSplit(SwapAt(all, a, b), nr)] ELSE x
          [] f = "addrow" -> [x EXCEPT !.dah.rows = Append(@, FreshRoot)]
          [] f = "addcol" -> [x EXCEPT !.dah.cols = Append(@, FreshRoot)]
          [] f = "duprow" -> IF nr > 0 THEN [x EXCEPT !.dah.rows = Append(@, d.rows[nr])] ELSE x
          [] f = "dupcol" -> IF Len(d.cols) > 0 THEN [x EXCEPT !.dah.cols = Append(@, d.cols[Len(d.cols)])] ELSE x
          \* move the row/column boundary: the concatenation rowRoots || columnRoots stays the same
          [] f = "shiftrc" -> IF nr > 0 THEN [x EXCEPT !.dah = DahSplit(all, nr - 1)] ELSE x
          [] f = "shiftcr" -> IF Len(d.cols) > 0 THEN [x EXCEPT !.dah = DahSplit(all, nr + 1)] ELSE x

\* --- validator set members / powers / order
VsMuts(x) ==
    LET n == Len(x.valset) IN
    {M("vs", op, k, 0, {}) : op \in {"powerinc", "powerzero", "remove", "replace", "addr"}, k \in 1..n}
    \cup {M("vs", "add", 0, 0, {})}
    \cup {M("vs", "swap", jk[1], jk[2], {}) : jk \in {z \in (1..n) \X (1..n) : z[1] < z[2]}}

ApplyVs(x, f, a, b) ==
    LET vs == x.valset IN
    CASE f = "powerinc" -> [x EXCEPT !.valset[a].power = @ + 1]
      [] f = "powerzero" -> [x EXCEPT !.valset[a].power = 0]
      [] f = "remove" -> [x EXCEPT !.valset = RemoveAt(vs, a)]
      [] f = "replace" -> [x EXCEPT !.valset[a] = V(9, vs[a].power)]       \* a non-member with the same power
      [] f = "addr" -> [x EXCEPT !.valset[a].addr = 9]                     \* address not derived from the key
      [] f = "add" -> [x EXCEPT !.valset = Append(vs, V(9, 1))]
      [] f = "swap" -> IF a < b THEN [x EXCEPT !.valset = SwapAt(vs, a, b)] ELSE x

\* --- the commit
CommitMuts(c, x) ==
    LET n == Len(x.commit.sigs) IN
    {M("commit", op, 0, 0, {}) : op \in {"height", "round", "hashmut", "hashnb", "parts", "appendsig"}}
    \cup {M("sig", op, k, 0, {}) : op \in {"absent", "nilflag", "corrupt", "ts", "retarget", "outsider",
                                           "outsiderAddr", "badaddr", "removeslot"}, k \in 1..n}
    \cup {M("sig", "dup", jk[1], jk[2], {}) : jk \in {z \in (1..n) \X (1..n) : z[1] # z[2]}}
    \cup {M("sig", "keeponly", 0, 0, S) : S \in SUBSET (1..n)}

ApplyCommit(c, i, x, f) ==
    CASE f = "height" -> [x EXCEPT !.commit.height = @ + 1]
      [] f = "round" -> [x EXCEPT !.commit.round = @ + 1]
      [] f = "hashmut" -> [x EXCEPT !.commit.blockId.hash = <<"mut">>]
      \* the hash of the neighbouring valid header
      [] f = "hashnb" -> [x EXCEPT !.commit.blockId.hash = <<"hh", c, IF i > 1 THEN i - 1 ELSE i + 1>>]
      [] f = "parts" -> [x EXCEPT !.commit.blockId.parts = <<"mut">>]
      \* one more signature slot, properly signed by an adversary key under its own address
      [] f = "appendsig" -> [x EXCEPT !.commit.sigs = Append(@, SignedBy(9, 9, x.raw.chainId, x.commit, <<"t2">>))]

ApplySig(c, x, f, a, b, S) ==
    LET cm == x.commit
        s == IF a \in DOMAIN cm.sigs THEN cm.sigs[a] ELSE AbsentSig
        other == [cm EXCEPT !.blockId = [hash |-> <<"mut">>, parts |-> <<"mut">>]]
    IN  CASE f = "absent" -> [x EXCEPT !.commit.sigs[a] = AbsentSig]
          [] f = "nilflag" -> IF s.flag = "commit" THEN [x EXCEPT !.commit.sigs[a].flag = "nil"] ELSE x
          [] f = "corrupt" -> IF s.flag # "absent" THEN [x EXCEPT !.commit.sigs[a].by = 99] ELSE x
          [] f = "ts" -> IF s.flag # "absent" THEN [x EXCEPT !.commit.sigs[a].ts = <<"t3">>] ELSE x
          \* the validator's own key, but over a different block (an equivocation it did sign)
          [] f = "retarget" -> IF s.flag # "absent" /\ a \in DOMAIN x.valset
                               THEN [x EXCEPT !.commit.sigs[a] = [SignedBy(x.valset[a].id, s.addr, x.raw.chainId, other, s.ts) EXCEPT !.flag = s.flag]]
                               ELSE x
          \* an adversary key signs the right vote; filed under the member's address ...
          [] f = "outsider" -> IF s.flag # "absent" THEN [x EXCEPT !.commit.sigs[a] = [SignedBy(7, s.addr, x.raw.chainId, cm, s.ts) EXCEPT !.flag = s.flag]] ELSE x
          \* ... or under its own
          [] f = "outsiderAddr" -> [x EXCEPT !.commit.sigs[a] = SignedBy(7, 7, x.raw.chainId, cm, <<"t2">>)]
          [] f = "badaddr" -> IF s.flag # "absent" THEN [x EXCEPT !.commit.sigs[a].addr = 98] ELSE x
          [] f = "removeslot" -> [x EXCEPT !.commit.sigs = RemoveAt(cm.sigs, a)]
          [] f = "dup" -> IF a # b THEN [x EXCEPT !.commit.sigs[b] = cm.sigs[a]] ELSE x      \* copy slot a into slot b
          \* every signature outside S becomes absent: all subsets -> every threshold
          [] f = "keeponly" -> [x EXCEPT !.commit.sigs = [k \in DOMAIN cm.sigs |-> IF k \in S THEN cm.sigs[k] ELSE AbsentSig]]

\* --- substitution of a part by the same part of a neighbouring VALID header (a = neighbour index)
SubParts == {"raw", "dah", "valset", "commit", "sigs", "blockId", "dataHash", "validatorsHash", "lastBlockId"}
SubMuts(c, i) == {M("sub", p, j, 0, {}) : p \in SubParts, j \in {i - 1, i + 1} \cap (1..ChainLen(c))}

ApplySub(c, x, p, j) ==
    LET nb == ValidTab[c][j] IN
    CASE p = "raw" -> [x EXCEPT !.raw = nb.raw]
      [] p = "dah" -> [x EXCEPT !.dah = nb.dah]
      [] p = "valset" -> [x EXCEPT !.valset = nb.valset]
      [] p = "commit" -> [x EXCEPT !.commit = nb.commit]
      [] p = "sigs" -> [x EXCEPT !.commit.sigs = nb.commit.sigs]
      [] p = "blockId" -> [x EXCEPT !.commit.blockId = nb.commit.blockId]
      [] p = "dataHash" -> [x EXCEPT !.raw.dataHash = nb.raw.dataHash]
      [] p = "validatorsHash" -> [x EXCEPT !.raw.validatorsHash = nb.raw.validatorsHash]
      [] p = "lastBlockId" -> [x EXCEPT !.raw.lastBlockId = nb.raw.lastBlockId]

Mutations(c, i, x) ==
    RawMuts \cup FixMuts \cup ResignMuts \cup ForkMuts \cup ForgeMuts \cup DahMuts(x) \cup VsMuts(x) \cup CommitMuts(c, x) \cup SubMuts(c, i)

Apply(c, i, x, m) ==
    CASE m.k = "raw" -> ApplyRaw(x, m.f, m.v)
      [] m.k = "fix" -> ApplyFix(c, x, m.f)
      [] m.k = "resign" -> ApplyResign(c, x, m.f)
      [] m.k = "fork" -> ApplyFork(c, x, m.f)
      [] m.k = "forge" -> ApplyForge(c, x, m.f)
      [] m.k = "dah" -> ApplyDah(x, m.f, m.a, m.b)
      [] m.k = "vs" -> ApplyVs(x, m.f, m.a, m.b)
      [] m.k = "commit" -> ApplyCommit(c, i, x, m.f)
      [] m.k = "sig" -> ApplySig(c, x, m.f, m.a, m.b, m.s)
      [] m.k = "sub" -> ApplySub(c, x, m.f, m.a)

\* single mutations of a part every bit of which is committed to (directly or through a hash): the
\* statement's "changing any committed field, any row or column root, the validator set ... makes it fail"
CommittedKind(m) ==
    \/ m.k \in {"raw", "dah", "vs"}
    \/ m.k = "commit" /\ m.f \in {"height", "round", "hashmut", "hashnb", "parts"}
    \/ m.k = "sub" /\ m.f \in {"raw", "dah", "valset", "blockId", "dataHash", "validatorsHash", "lastBlockId"}

(***************************************************************************)
(* State machine: pick a case, then compose mutations                      *)
(***************************************************************************)
Init ==
    /\ cid \in Chains
    /\ idx \in (1..ChainLen(cid)) \cap IdxSet
    /\ tix \in IF Mode = "verify" THEN {t \in 1..ChainLen(cid) : t < idx} ELSE {0}
    /\ h = ValidTab[cid][idx]
    /\ muts = <<>>

Next ==
    /\ Len(muts) < MaxMut
    /\ \E m \in Mutations(cid, idx, h) :
         LET h2 == Apply(cid, idx, h, m) IN
         /\ h2 # h                                   \* the mutation must change something
         /\ h' = h2
         /\ muts' = Append(muts, m)
    /\ UNCHANGED <<cid, idx, tix>>

Spec == Init /\ [][Next]_vars

\* Distinct states = distinct inputs; the path is history.  The NUMBER of mutations stays in the view: the
\* same header reached by one mutation and by two must both be kept, because only the former is extended
\* further (parallel breadth-first search may meet the longer path first).
View == <<cid, idx, tix, h, Len(muts)>>

(***************************************************************************)
(* Properties                                                              *)
(***************************************************************************)
Trusted == ValidTab[cid][tix]

\* Acceptance is sound: whatever Validate lets through is consistent in the property's sense.
ValidateSound == ImplValidate(cid, h) = "ok" => Consistent(cid, h)

\* Every committed field participates in some check: no single change of one goes unnoticed.
EveryFieldCounts == (Len(muts) = 1 /\ CommittedKind(muts[1])) => ImplValidate(cid, h) # "ok"

\* Unmutated headers are accepted (the model's chains are valid).
ValidAccepted == muts = <<>> => (ImplValidate(cid, h) = "ok" /\ Consistent(cid, h))

\* Verification (of a header that passed validation) is sound.
VerifySound ==
    (Mode = "verify" /\ ImplValidate(cid, h) = "ok" /\ ImplVerify(Trusted, h) = "ok")
        => VerifyConsistent(cid, Trusted, h)

\* ... and the honest chain verifies, adjacent or not
ValidVerifies == (Mode = "verify" /\ muts = <<>>) => ImplVerify(Trusted, h) = "ok"

\* Hash() (taken from the commit) is the header's real hash for every accepted header.
HashStable == ImplValidate(cid, h) = "ok" => ImplHash(h) = HH(cid, h.raw)

\* The gossip id of a header with a decodable commit is a function of the block id alone: equal to the
\* original's exactly when the block id is the original's, whatever else (signature set!) differs.
MsgIdDependsOnBlockOnly ==
    LET o == ValidTab[cid][idx] IN
    CommitBasicOK(h.commit) =>
        ((ImplMsgId(h) = ImplMsgId(o)) <=> (h.commit.blockId = o.commit.blockId))

(***************************************************************************)
(* Case output (returns TRUE; listed under INVARIANT)                      *)
(***************************************************************************)
CaseRecord ==
    [c |-> cid, i |-> idx, t |-> tix, m |-> muts,
     iv |-> ImplValidate(cid, h),
     cons |-> Consistent(cid, h),
     cd |-> ConsDah(cid, h), cv |-> ConsVals(cid, h), cc |-> ConsCommit(cid, h), cp |-> ConsPower(cid, h),
     sameBlock |-> h.commit.blockId = ValidTab[cid][idx].commit.blockId,
     cbasic |-> CommitBasicOK(h.commit),
     ver |-> IF Mode = "verify" THEN ImplVerify(Trusted, h) ELSE "-",
     vcons |-> IF Mode = "verify" THEN VerifyConsistent(cid, Trusted, h) ELSE FALSE,
     adj |-> IF Mode = "verify" THEN Adjacent(Trusted, h) ELSE FALSE]

EmitCase == Emit => PrintT(<<"CASE", ToJson(CaseRecord)>>)

\* The tables the driver materialises (validator sets per height, widths, forgeries) come from here, not
\* from a copy in Go: printed once per run from the constant level.
ChainRecord(c) ==
    [c |-> c, n |-> ChainLen(c), w |-> Width(c),
     sets |-> [i \in 1..(ChainLen(c) + 1) |-> [k \in DOMAIN VSof(c, i) |-> <<VSof(c, i)[k].id, VSof(c, i)[k].power>>]]]

ForgeRecord(f) == [f |-> f, vs |-> [k \in DOMAIN ForgeSets[f].vs |-> <<ForgeSets[f].vs[k].id, ForgeSets[f].vs[k].power>>],
                   signers |-> ForgeSets[f].signers]

ASSUME Emit => /\ \A c \in AllChains : PrintT(<<"CHAIN", ToJson(ChainRecord(c))>>)
               /\ \A f \in DOMAIN ForgeSets : PrintT(<<"FORGE", ToJson(ForgeRecord(f))>>)
=============================================================================
