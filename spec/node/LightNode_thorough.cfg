CONSTANTS
  MaxHeight = 2
  Range = 2
  Conc = 1
  TailH = 1
  FailBudget = 2
  CancelBudget = 0
  StopBudget = 1
  BgStore = FALSE
  FixSilentExit = TRUE
  FixResumeDone = TRUE
  FixRecentCp = TRUE
  Coords = {0, 1, 2}
  K = 2
  Ks = {}
  NoCaller = 0
  NoHeight = 0
  EmptyHeights = {}
  OutsideHeights = {}
  CascadeModes = {TRUE}
  PersistOnEmpty = TRUE
  CrashForgiven = TRUE
  MaxCalls = 6
  MaxEnv = 2
  MaxJobs = 4
INIT Init
NEXT Next
INVARIANTS SampledMeansVerified ReportedHeadVerified ComponentInvariants
CHECK_DEADLOCK FALSE
