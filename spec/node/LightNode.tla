----------------------------- MODULE LightNode -----------------------------
(***************************************************************************)
(* Composition: the sampling pipeline of a light node.                     *)
(*                                                                         *)
(*   header subscription --> DASer (spec/das/DAS.tla)                      *)
(*                             | worker.sample(h) = SharesAvailable(h)     *)
(*                             v                                           *)
(*                  light availability (spec/light/LightAvail.tla)         *)
(*                             | GetSamples(remaining coordinates)         *)
(*                             v                                           *)
(*                        getter (environment: any outcome)                *)
(*                                                                         *)
(* Both component specifications are instantiated unchanged; this module   *)
(* only says how they are wired in nodebuilder (das.NewDASer(da = light    *)
(* availability)): a DASer worker that samples height h IS a caller of     *)
(* SharesAvailable(h) -- worker id = caller id --, the verdict of the call *)
(* is the outcome of the worker's step, and a crash of the process is a    *)
(* crash of both (the DASer checkpoint and the sampling results live in    *)
(* the same datastore).                                                    *)
(*                                                                         *)
(* End-to-end property (what a user of the light node relies on): the     *)
(* sampled-chain head the DASer reports never reaches a height for which   *)
(* fewer than min(K, area) distinct coordinates have been delivered with   *)
(* valid samples -- across retries, concurrent recent/catch-up/retry       *)
(* workers on the same height, and crashes.                                *)
(***************************************************************************)
EXTENDS Integers, FiniteSets, Sequences, TLC

CONSTANTS
  \* DAS
  MaxHeight, Range, Conc, TailH, FailBudget, CancelBudget, StopBudget, BgStore,
  FixSilentExit, FixResumeDone, FixRecentCp,
  \* LightAvail
  Coords, K, Ks, NoCaller, NoHeight, EmptyHeights, OutsideHeights, CascadeModes, PersistOnEmpty,
  CrashForgiven, MaxCalls, MaxEnv,
  MaxJobs          \* bound on worker ids = callers

VARIABLES
  \* DAS
  phase, cpc, next, head, failed, inRetry, jobs, nextId, done, persisted, snap, bgPrev, storeHead,
  tail, sampledOK, budget,
  \* LightAvail
  disk, buf, session, pc, hgt, ctxDone, smp, woken, got, drawn, seen, okGiven, lost, calls, envs, k, hist,
  \* composition ghost: coordinates ever delivered with a non-empty (verified) sample, per height
  delivered

dvars == <<phase, cpc, next, head, failed, inRetry, jobs, nextId, done, persisted, snap, bgPrev,
           storeHead, tail, sampledOK, budget>>
lvars == <<disk, buf, session, pc, hgt, ctxDone, smp, woken, got, drawn, seen, okGiven, lost, calls,
           envs, k, hist>>
vars == <<dvars, lvars, delivered>>

JobIds == 1..MaxJobs
D == INSTANCE DAS
L == INSTANCE LightAvail WITH Callers <- JobIds, Heights <- 1..MaxHeight, RecordHist <- FALSE

Need == IF k < Cardinality(Coords) THEN k ELSE Cardinality(Coords)   \* k = sample amount of the running instance

Init == D!Init /\ L!Init /\ delivered = [h \in 1..MaxHeight |-> {}]

(* verdict of SharesAvailable -> outcome of the worker's step (worker.go: sample / run) *)
Outcome(v) == CASE v = "ok" -> "ok"
                [] v = "outside" -> "outside"
                [] v = "notAvailable" -> "fail"
                [] v = "cancelled" -> "cancel"

Sampling(id) == id \in DOMAIN jobs /\ jobs[id].st = "sampling" /\ phase \in {"running", "stopping"}

(* the worker enters SharesAvailable for its next height *)
WorkerCalls(id) ==
  /\ Sampling(id) /\ id \in JobIds
  /\ L!Call(id, D!NextHeightOf(jobs[id]))
  /\ UNCHANGED <<dvars, delivered>>

(* steps inside the availability that do not return *)
AvailInternal(id) ==
  /\ \/ L!StartSession(id) \/ L!FindHeld(id) \/ L!Wake(id) \/ L!LoadOrDraw(id) \/ L!GetterEnter(id)
  /\ UNCHANGED <<dvars, delivered>>

GetterAnswers(id) ==
  \E o \in L!Outcomes(smp[id].rem), m \in CascadeModes :
    /\ L!GetterReturn(id, o, m)
    /\ delivered' = [delivered EXCEPT ![hgt[id]] = @ \cup L!Through(o, m).served]
    /\ UNCHANGED dvars

(* the call returns: the verdict is the worker's outcome (setResult, or the silent exit) *)
Returns(id) ==
  /\ Sampling(id)
  /\ \/ L!EmptyOrOutside(id) /\ D!WorkerStep(id, Outcome(L!EmptyOrOutsideVerdict(id)))
     \/ L!AllDone(id) /\ D!WorkerStep(id, "ok")
     \/ L!ReturnNothing(id) /\ D!WorkerStep(id, "fail")
     \/ L!ReturnInvalid(id) /\ D!WorkerStep(id, "fail")     \* "invalid sampling result" is an error like any other
     \/ L!PersistAndReturn(id) /\ D!WorkerStep(id, Outcome(L!PersistVerdict(id)))
  /\ UNCHANGED delivered

(* steps of the DASer that do not involve the availability *)
DaserStep ==
  /\ \/ D!Start \/ (\E h \in 1..MaxHeight : D!SpawnRetry(h)) \/ D!SpawnCatchup \/ D!SpawnEnd
     \/ (\E h \in 1..MaxHeight : D!NewHead(h)) \/ (\E id \in DOMAIN jobs : D!Deliver(id)) \/ D!Poke
     \/ D!BgSnapshot \/ D!BgPersist \/ (\E h \in 1..MaxHeight : D!StoreAdvance(h))
     \/ (\E h \in 1..MaxHeight : D!BackoffExpire(h))
  /\ nextId' <= MaxJobs
  /\ UNCHANGED <<lvars, delivered>>

(* the autobatch buffer reaches the datastore *)
Flush == L!Flush /\ UNCHANGED <<dvars, delivered>>

(* the process dies: DASer and availability lose their volatile state together *)
Crash == D!Crash /\ L!Crash /\ UNCHANGED delivered

Next ==
  \/ DaserStep \/ Flush \/ Crash
  \/ \E id \in JobIds : WorkerCalls(id) \/ AvailInternal(id) \/ GetterAnswers(id) \/ Returns(id)

Spec == Init /\ [][Next]_vars

(***************************************************************************)
(* End-to-end properties                                                   *)
(***************************************************************************)
Normal(h) == h \notin EmptyHeights /\ h \notin OutsideHeights

(* a height the DASer counts as sampled was verified at >= min(K, area) distinct coordinates *)
SampledMeansVerified ==
  \A h \in sampledOK : Normal(h) => Cardinality(delivered[h]) >= Need

(* ... hence so is everything below the sampled-chain head it reports *)
ReportedHeadVerified ==
  phase \in {"running", "stopping"} =>
    \A h \in tail..D!SampledChainHead : Normal(h) => Cardinality(delivered[h]) >= Need

(* the component invariants still hold in the composition *)
ComponentInvariants ==
  /\ D!NoLostHeight /\ D!SampledHeadSound /\ D!CheckpointCovers /\ D!ConcBound /\ D!DoneExact
  /\ L!AvailableSound /\ L!SessionMutex
=============================================================================
