\* C15 quick: 3 heights, every window/emptiness assignment, both modes, <= 5 steps
\* (the source id only labels a step in the model: S = 1 loses nothing; the replay uses 3 sources)
SPECIFICATION Spec
CONSTANTS
  H = 3
  S = 1
  MaxEvents = 5
  Modes = {"pruned", "archival"}
  KeepHist = FALSE
  Depth = 0
VIEW View
INVARIANTS TypeOK StoredMatchesHeader FailedLeavesNothing InsideWindowStored PolicyRespected RetryWorks
CHECK_DEADLOCK FALSE
