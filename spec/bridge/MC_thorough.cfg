\* C15 thorough: 4 heights, <= 6 steps (the source id only labels a step: S = 1 loses nothing in the model)
SPECIFICATION Spec
CONSTANTS
  H = 4
  S = 1
  MaxEvents = 6
  Modes = {"pruned", "archival"}
  KeepHist = FALSE
  Depth = 0
VIEW View
INVARIANTS TypeOK StoredMatchesHeader FailedLeavesNothing InsideWindowStored PolicyRespected RetryWorks
CHECK_DEADLOCK FALSE
