------------------------------- MODULE Bridge -------------------------------
(***************************************************************************)
(* C15 -- a bridge node stores exactly the block it announces or was asked *)
(* to keep.                                                                *)
(*                                                                         *)
(* Two ways a block gets into the EDS store of a bridge node:              *)
(*                                                                         *)
(*  (1) consensus ingest, core/listener.go: sources (core endpoints, fanned *)
(*      in by core.MultiSource, which only tags events with their source)  *)
(*      announce heights in any order, with duplicates, gaps and replays;  *)
(*      handleNewBlockEvent = dedup by the store, fetch the block from the *)
(*      announcing source (no fall-back), drop historic blocks (pruned     *)
(*      node), ask the same source for its sync state, then                *)
(*      handleNewSignedBlock = build the square from the block's           *)
(*      transactions, make the extended header with that square's DAH,     *)
(*      storeEDS (core/eds.go), broadcast the data hash (synced source     *)
(*      only) and the header (locally only when the source is syncing).    *)
(*                                                                         *)
(*  (2) availability path, share/availability/full/availability.go         *)
(*      SharesAvailable(header): window gate, empty-block link, already-   *)
(*      stored shortcut, GetEDS from the network, error mapping, store.    *)
(*                                                                         *)
(* Both share one store (the dedup gate), so they are one module.          *)
(* Every action is one complete call: the Listener handles events strictly *)
(* one after the other (one goroutine, unbuffered hand-over), and          *)
(* SharesAvailable calls are driven one at a time by the binding.          *)
(*                                                                         *)
(* Data is abstract: height h has one consensus block with content         *)
(* identity Content(h); its square's DAH is identified with it (ideal      *)
(* hashing), and the header the network gives for h carries the same DAH   *)
(* (consistent consensus blocks -- the property's premise).  What a store  *)
(* entry / published header really contain is compared by the driver       *)
(* (harness/drivers/bridge) with a DAH computed independently from the     *)
(* block's transactions.                                                   *)
(***************************************************************************)
EXTENDS Integers, Sequences, FiniteSets, TLC, Json

CONSTANTS
  H,            \* heights 1..H
  S,            \* sources 1..S
  MaxEvents,    \* bound on the number of steps of a behaviour
  Modes,        \* subset of {"pruned", "archival"}
  KeepHist, Depth

Heights == 1..H
Sources == 1..S
FetchOut == {"ok", "fail"}                 \* GetSignedBlockFrom of the announcing source
SyncOut  == {"synced", "syncing", "fail"}  \* IsSyncingFrom of the announcing source
\* store.put: the square goes into the recent-blocks cache first, then its files are created, then the height
\* is linked.  Where the write fails decides which clean-up path of store.go runs (all of them must leave
\* nothing readable under the height -- cache included):
\*   fail_create   file.CreateODSQ4 / CreateODS cannot create the files (storage unavailable)
\*   fail_recover  a file of that name exists, is not a valid one, and cannot be replaced
\*   fail_link     the files are written but the height cannot be linked
StoreFail == {"fail_create", "fail_recover", "fail_link"}
StoreOut  == {"ok"} \cup StoreFail
\* outcomes of getter.GetEDS in SharesAvailable
GetOut   == {"square", "notfound", "deadline", "cancelled", "byzantine", "byz_notfound", "byz_deadline", "other"}

VARIABLES
  mode,         \* "pruned" | "archival"
  inWin,        \* [Heights -> BOOLEAN]: block time inside the availability window
  empty,        \* [Heights -> BOOLEAN]: the block has no transactions (empty square)
  stored,       \* [Heights -> {"none", "odsq4", "ods", "emptylink"}]: what the store holds by height
  storedDah,    \* [Heights -> 0..H]: content identity of what is stored (0: nothing)
  published,    \* sequence of [h, dah, local]: headers handed to the header broadcaster
  announced,    \* sequence of [h, dah]: data-hash notifications (shrex-sub)
  n,            \* steps so far
  act, hist     \* last step with its verdict / optional history

vars == <<mode, inWin, empty, stored, storedDah, published, announced, n, act, hist>>
\* exhaustive runs identify states up to what the invariants read of the last step (the source id and the
\* individual outcomes only label the step: the transition depends on them through `res` alone)
ActView == [n |-> act.n, h |-> act.h, res |-> act.res, pre |-> act.pre, obt |-> act.obt]
View == <<mode, inWin, empty, stored, storedDah, published, announced, n, ActView>>

Content(h) == h

Snap == [stored |-> stored', pub |-> Len(published'), ann |-> Len(announced')]
Log(a) == /\ act' = a
          /\ hist' = IF KeepHist THEN Append(hist, a @@ Snap) ELSE hist

Init ==
  /\ mode \in Modes
  /\ inWin \in [Heights -> BOOLEAN]
  /\ empty \in [Heights -> BOOLEAN]
  /\ stored = [h \in Heights |-> "none"]
  /\ storedDah = [h \in Heights |-> 0]
  /\ published = <<>> /\ announced = <<>>
  /\ n = 0
  /\ act = [n |-> "Init", h |-> 0, res |-> "", pre |-> "none", obt |-> FALSE]
  /\ hist = IF KeepHist THEN <<[n |-> "Init", mode |-> mode, inWin |-> inWin, empty |-> empty]>> ELSE <<>>

(***************************************************************************)
(* store.Put: an empty square is only linked by height; otherwise ODS+Q4   *)
(* inside the window and ODS alone outside (archival).                     *)
(***************************************************************************)
KindFor(h) == IF empty[h] THEN "emptylink" ELSE IF inWin[h] THEN "odsq4" ELSE "ods"

(***************************************************************************)
(* core/listener.go handleNewBlockEvent + handleNewSignedBlock + storeEDS. *)
(* The event comes from source s; fetch / sync / store are what the        *)
(* announcing source and the file system do for this event.                *)
(***************************************************************************)
Announce(s, h, fetch, sync, st) ==
  LET res ==
        IF stored[h] # "none" THEN "duplicate"                       \* dedup gate: HasByHeight
        ELSE IF fetch = "fail" THEN "fetch_error"                    \* GetSignedBlockFrom (no fall-back)
        ELSE IF mode = "pruned" /\ ~inWin[h] THEN "historic"         \* dropped right after the fetch
        ELSE IF sync = "fail" THEN "sync_error"                      \* IsSyncingFrom, before storing
        ELSE IF st \in StoreFail /\ ~empty[h] THEN "store_error"          \* storeEDS failed: nothing published
        ELSE "processed"                                             \* (an empty square is only linked)
  IN
  /\ n < MaxEvents
  /\ n' = n + 1
  /\ UNCHANGED <<mode, inWin, empty>>
  /\ IF res = "processed"
     THEN /\ stored' = [stored EXCEPT ![h] = KindFor(h)]
          /\ storedDah' = [storedDah EXCEPT ![h] = Content(h)]
          \* the header is built from the same square: its DAH is the stored square's DAH
          /\ published' = Append(published, [h |-> h, dah |-> Content(h), local |-> (sync = "syncing")])
          /\ announced' = IF sync = "synced" THEN Append(announced, [h |-> h, dah |-> Content(h)]) ELSE announced
     ELSE UNCHANGED <<stored, storedDah, published, announced>>
  /\ Log([n |-> "Announce", s |-> s, h |-> h, fetch |-> fetch, sync |-> sync, st |-> st, res |-> res,
          pre |-> stored[h],
          \* the block was successfully obtained and could be written
          obt |-> (fetch = "ok" /\ sync \in {"synced", "syncing"} /\ (st = "ok" \/ empty[h]))])

(***************************************************************************)
(* full.SharesAvailable(header of h): availability.go:57-108.              *)
(***************************************************************************)
Available(h, get, st) ==
  LET res ==
        IF mode # "archival" /\ ~inWin[h] THEN "outside_window"      \* ErrOutsideSamplingWindow
        ELSE IF empty[h] THEN "ok_empty"                             \* link the height to the empty EDS
        ELSE IF stored[h] # "none" THEN "ok_stored"                  \* shortcut
        ELSE IF get = "cancelled" THEN "cancelled"                   \* context.Canceled passed through
        ELSE IF get \in {"notfound", "deadline"} THEN "not_available"
        ELSE IF get = "byz_notfound" THEN "not_available_or_byzantine"
             \* `Is(ErrNotFound) || Is(DeadlineExceeded) && !As(byzantine)`: by precedence a byzantine error
             \* joined with not-found is reported as "not available" (candidate #19).  Which of the two
             \* errors is reported is outside the property's statement: the model leaves it open and the
             \* binding accepts either; nothing is stored in both cases.
        ELSE IF get \in {"byzantine", "byz_deadline"} THEN "byzantine"
        ELSE IF get = "other" THEN "other_error"
        ELSE IF st \in StoreFail THEN "store_error"
        ELSE "ok_fetched"
  IN
  /\ n < MaxEvents
  /\ n' = n + 1
  /\ UNCHANGED <<mode, inWin, empty, published, announced>>
  /\ IF res = "ok_empty" /\ stored[h] = "none"
     THEN /\ stored' = [stored EXCEPT ![h] = "emptylink"]
          /\ storedDah' = [storedDah EXCEPT ![h] = Content(h)]
     ELSE IF res = "ok_fetched"
     THEN /\ stored' = [stored EXCEPT ![h] = KindFor(h)]
          /\ storedDah' = [storedDah EXCEPT ![h] = Content(h)]
     ELSE UNCHANGED <<stored, storedDah>>
  /\ Log([n |-> "Available", s |-> 0, h |-> h, get |-> get, st |-> st, res |-> res, pre |-> stored[h],
          obt |-> (get = "square" /\ st = "ok")])

\* Only the outcomes a step consults are chosen ("na" = not consulted: the binding must see no such call).
AnnOutcomes(h) ==
  IF stored[h] # "none" THEN {<<"na", "na", "na">>}
  ELSE {<<"fail", "na", "na">>} \cup
       (IF mode = "pruned" /\ ~inWin[h] THEN {<<"ok", "na", "na">>}
        ELSE {<<"ok", "fail", "na">>} \cup
             {<<"ok", y, st>> : y \in {"synced", "syncing"}, st \in (IF empty[h] THEN {"na"} ELSE StoreOut)})
AvOutcomes(h) ==
  IF (mode # "archival" /\ ~inWin[h]) \/ empty[h] \/ stored[h] # "none" THEN {<<"na", "na">>}
  ELSE {<<g, "na">> : g \in GetOut \ {"square"}} \cup {<<"square", st>> : st \in StoreOut}

Next ==
  \/ \E s \in Sources, h \in Heights : \E o \in AnnOutcomes(h) : Announce(s, h, o[1], o[2], o[3])
  \/ \E h \in Heights : \E o \in AvOutcomes(h) : Available(h, o[1], o[2])

Spec == Init /\ [][Next]_vars

-----------------------------------------------------------------------------
TypeOK ==
  /\ stored \in [Heights -> {"none", "odsq4", "ods", "emptylink"}]
  /\ storedDah \in [Heights -> 0..H]

\* the square stored under a height has the DAH of the header published / given for that height,
\* which is the DAH of that height's consensus block
StoredMatchesHeader ==
  /\ \A h \in Heights : stored[h] # "none" => storedDah[h] = Content(h)
  /\ \A i \in 1..Len(published) : /\ published[i].dah = Content(published[i].h)
                                  /\ stored[published[i].h] # "none"
                                  /\ storedDah[published[i].h] = published[i].dah
  /\ \A i \in 1..Len(announced) : announced[i].dah = Content(announced[i].h)

\* a failed ingest leaves nothing stored and is reported as such
Failures == {"fetch_error", "sync_error", "store_error", "historic", "outside_window", "cancelled",
             "not_available", "not_available_or_byzantine", "byzantine", "other_error"}
FailedLeavesNothing ==
  act.res \in Failures => (act.pre = "none" => stored[act.h] = "none") /\ (stored[act.h] = act.pre)

\* every successfully obtained block inside the window is stored and (consensus ingest) published once
PubCount(h) == Cardinality({i \in 1..Len(published) : published[i].h = h})
InsideWindowStored ==
  /\ \A h \in Heights : PubCount(h) <= 1                              \* never twice for one height
  /\ (act.n = "Announce" /\ act.res = "processed") =>
        /\ stored[act.h] # "none"
        /\ published[Len(published)].h = act.h                        \* exactly this ingest published it
  /\ (act.n = "Announce" /\ act.obt /\ inWin[act.h]) =>
        stored[act.h] # "none"                                        \* obtained + inside window => stored
  /\ (act.n = "Available" /\ act.res \in {"ok_fetched", "ok_empty", "ok_stored"}) => stored[act.h] # "none"

\* a pruned node never stores blocks outside the window; an archival node stores them without Q4
PolicyRespected ==
  \A h \in Heights :
    /\ (mode = "pruned" /\ ~inWin[h]) => stored[h] = "none"
    /\ stored[h] = "ods" => (mode = "archival" /\ ~inWin[h])
    /\ stored[h] = "odsq4" => inWin[h]
    /\ stored[h] = "emptylink" => empty[h]

\* a later announcement of a height whose earlier ingest failed is processed, not skipped:
\* the only reason to skip an announcement is that the height IS stored
RetryWorks ==
  (act.n = "Announce" /\ act.res = "duplicate") => act.pre # "none"

PrintBehaviour ==
  (KeepHist /\ TLCGet("level") >= Depth) => PrintT(<<"BEH", ToJson(hist)>>)
=============================================================================
