\* C15: behaviours for the replay driver
SPECIFICATION Spec
CONSTANTS
  H = 4
  S = 3
  MaxEvents = 14
  Modes = {"pruned", "archival"}
  KeepHist = TRUE
  Depth = 15
INVARIANTS TypeOK StoredMatchesHeader FailedLeavesNothing InsideWindowStored PolicyRespected RetryWorks PrintBehaviour
CHECK_DEADLOCK FALSE
