\* C15 / Exchange: behaviours for the replay driver
SPECIFICATION Spec
CONSTANTS
  H = 4
  MaxEvents = 10
  Modes = {"pruned", "archival"}
  KeepHist = TRUE
  Depth = 11
INVARIANTS TypeOK ExStoredMatchesHeader ExReturnedIsStored ExFailureReported ExPolicyRespected PrintBehaviour
CHECK_DEADLOCK FALSE
