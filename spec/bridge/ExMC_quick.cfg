\* C15 / Exchange quick: 3 heights, every window position / emptiness, both modes, <= 3 requests
SPECIFICATION Spec
CONSTANTS
  H = 3
  MaxEvents = 3
  Modes = {"pruned", "archival"}
  KeepHist = FALSE
  Depth = 0
VIEW View
INVARIANTS TypeOK ExStoredMatchesHeader ExReturnedIsStored ExFailureReported ExPolicyRespected
CHECK_DEADLOCK FALSE
