\* C15 / Exchange thorough: 4 heights, every window position / emptiness, both modes, <= 4 requests
SPECIFICATION Spec
CONSTANTS
  H = 4
  MaxEvents = 4
  Modes = {"pruned", "archival"}
  KeepHist = FALSE
  Depth = 0
VIEW View
INVARIANTS TypeOK ExStoredMatchesHeader ExReturnedIsStored ExFailureReported ExPolicyRespected
CHECK_DEADLOCK FALSE
