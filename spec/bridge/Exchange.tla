------------------------------ MODULE Exchange ------------------------------
(***************************************************************************)
(* C15, second half -- core.Exchange (core/exchange.go): the header        *)
(* exchange of a bridge node.  Every request fetches the block from the    *)
(* consensus node (BlockFetcher over gRPC), extends the transactions to    *)
(* the square, constructs the extended header with that square's DAH and   *)
(* calls storeEDS (core/eds.go) -- the same storage policy as the          *)
(* Listener of Bridge.tla (same representations: "none", "odsq4", "ods",   *)
(* "emptylink"; same KindFor).  Unlike the Listener, the Exchange has no   *)
(* dedup gate (store.Put of an existing height is a no-op) and publishes   *)
(* nothing: what it hands out is the RETURNED header.                      *)
(*                                                                         *)
(*   ExByHeight(h)  GetByHeight -> getExtendedHeaderByHeight(h)            *)
(*   ExHead         Head        -> getExtendedHeaderByHeight(0) = latest   *)
(*   ExByHash(h)    Get(hash of header h): GetBlockByHash, GetBlockInfo    *)
(*                  (commit + validator set), hash comparison, storeEDS    *)
(*   ExRange(f,t)   GetRangeByHeight(header f, t): heights f+1..t-1 are    *)
(*                  fetched concurrently, EVERY height runs to completion  *)
(*                  (so every fetched block is stored), the contiguous     *)
(*                  prefix is returned (error only when the first fails),  *)
(*                  then verified as a chain.                              *)
(*                                                                         *)
(* What the code really does, transcribed (not demanded by the property):  *)
(*  - getExtendedHeaderByHeight does NOT compare the height of the block   *)
(*    it received with the one it asked for: a fetcher answering height g  *)
(*    for a request of h yields the header of g, stored under g (header    *)
(*    and store stay consistent -- the property holds; the caller, e.g.    *)
(*    the syncer or GetRangeByHeight's Verify, refuses it).  Outcome       *)
(*    "wrong_height".                                                      *)
(*  - Get(hash) compares the hash BEFORE storing: a block with another     *)
(*    hash is refused and nothing is stored ("wrong_hash").                *)
(*  - a storeEDS error is returned INSTEAD of the header.                  *)
(*  - a pruned node outside the window returns the header, stores nothing. *)
(*                                                                         *)
(* Block times increase with the height (as on a chain), so the window is  *)
(* a suffix of the heights: h is inside iff h >= winFrom.                  *)
(* Data is abstract as in Bridge.tla (Content(h) identifies block, square  *)
(* and DAH); the driver compares with a DAH computed independently.        *)
(***************************************************************************)
EXTENDS Integers, Sequences, FiniteSets, TLC, Json

CONSTANTS H, MaxEvents, Modes, KeepHist, Depth

Heights == 1..H
StoreFail == {"fail_create", "fail_recover", "fail_link"}     \* as in Bridge.tla
StoreOut  == {"ok"} \cup StoreFail

VARIABLES
  mode,       \* "pruned" | "archival"
  winFrom,    \* 1..H+1: heights >= winFrom are inside the availability window
  empty,      \* [Heights -> BOOLEAN]
  stored,     \* [Heights -> {"none","odsq4","ods","emptylink"}]
  storedDah,  \* [Heights -> 0..H]
  n, act, hist

vars == <<mode, winFrom, empty, stored, storedDah, n, act, hist>>
View == <<mode, winFrom, empty, stored, storedDah, n, [k \in DOMAIN act \ {"st", "fetch"} |-> act[k]]>>

Content(h) == h
InWin(h)   == h >= winFrom
Keeps(h)   == mode = "archival" \/ InWin(h)           \* storeEDS stores it at all
KindFor(h) == IF empty[h] THEN "emptylink" ELSE IF InWin(h) THEN "odsq4" ELSE "ods"

Snap == [stored |-> stored']
Log(a) == /\ act' = a
          /\ hist' = IF KeepHist THEN Append(hist, a @@ Snap) ELSE hist

Init ==
  /\ mode \in Modes
  /\ winFrom \in 1..(H + 1)
  /\ empty \in [Heights -> BOOLEAN]
  /\ stored = [h \in Heights |-> "none"]
  /\ storedDah = [h \in Heights |-> 0]
  /\ n = 0
  /\ act = [n |-> "Init", h |-> 0, res |-> "", ret |-> {}, pre |-> stored, fetch |-> "", st |-> "",
            got |-> 0, to |-> 0, failing |-> {}, wf |-> FALSE]
  /\ hist = IF KeepHist
            THEN <<[n |-> "Init", mode |-> mode, inWin |-> [h \in Heights |-> InWin(h)], empty |-> empty]>>
            ELSE <<>>

\* storeEDS(header of g, square of g) with write outcome st: <<result, stored', storedDah'>>
WriteFails(g, st) == Keeps(g) /\ stored[g] = "none" /\ ~empty[g] /\ st \in StoreFail
StoreRes(g, st) == IF WriteFails(g, st) THEN "store_error" ELSE "ok"
StoredAfter(G) ==  \* the heights of G that storeEDS writes successfully
  [h \in Heights |-> IF h \in G /\ Keeps(h) /\ stored[h] = "none" THEN KindFor(h) ELSE stored[h]]
DahAfter(G) ==
  [h \in Heights |-> IF h \in G /\ Keeps(h) /\ stored[h] = "none" THEN Content(h) ELSE storedDah[h]]

Step(name, h, fetch, st, res, ret, G, x) ==
  /\ n < MaxEvents /\ n' = n + 1
  /\ UNCHANGED <<mode, winFrom, empty>>
  /\ stored' = StoredAfter(G) /\ storedDah' = DahAfter(G)
  /\ Log([n |-> name, h |-> h, fetch |-> fetch, st |-> st, res |-> res, ret |-> ret, pre |-> stored] @@ x)

X(got, to, failing, wf) == [got |-> got, to |-> to, failing |-> failing, wf |-> wf]

\* got = the height of the block the fetcher really answered with
ByHeightLike(name, h, got, fetch, st) ==
  IF fetch = "fail" THEN Step(name, h, fetch, "na", "fetch_error", {}, {}, X(0, 0, {}, FALSE))
  ELSE IF WriteFails(got, st) THEN Step(name, h, fetch, st, "store_error", {}, {}, X(got, 0, {}, TRUE))
  ELSE Step(name, h, fetch, st, "ok", {got}, {got}, X(got, 0, {}, FALSE))

ExByHeight(h, fetch, got, st) == ByHeightLike("ExByHeight", h, got, fetch, st)
ExHead(fetch, st) == ByHeightLike("ExHead", H, H, fetch, st)

\* Get(hash of h): wrong_hash = the fetcher answers with the block `got` # h
ExByHash(h, fetch, got, st) ==
  IF fetch = "fail" THEN Step("ExByHash", h, fetch, "na", "fetch_error", {}, {}, X(0, 0, {}, FALSE))
  ELSE IF fetch = "info_fail" THEN Step("ExByHash", h, fetch, "na", "info_error", {}, {}, X(h, 0, {}, FALSE))
  ELSE IF fetch = "wrong_hash" THEN Step("ExByHash", h, fetch, "na", "hash_mismatch", {}, {}, X(got, 0, {}, FALSE))
  ELSE IF WriteFails(h, st) THEN Step("ExByHash", h, fetch, st, "store_error", {}, {}, X(h, 0, {}, TRUE))
  ELSE Step("ExByHash", h, fetch, st, "ok", {h}, {h}, X(h, 0, {}, FALSE))

\* GetRangeByHeight(trusted header f, t): heights f+1..t-1; F = heights whose fetch fails (no write failures
\* here: the writes run concurrently).  Every fetched height is stored; the contiguous prefix is returned.
ExRange(f, t, F) ==
  LET req  == (f + 1)..(t - 1)
      okH  == req \ F
      pref == {g \in req : \A y \in (f + 1)..g : y \notin F}
      res  == IF req = {} THEN "ok" ELSE IF (f + 1) \in F THEN "fetch_error" ELSE "ok"
  IN Step("ExRange", f, IF F = {} THEN "ok" ELSE "fail", "na", res, IF res = "ok" THEN pref ELSE {}, okH,
          X(0, t, F, FALSE))

\* only the outcomes a step consults are chosen ("na": storeEDS does not write -- block not kept, already stored, or empty)
StOpts(g) == IF Keeps(g) /\ stored[g] = "none" /\ ~empty[g] THEN StoreOut ELSE {"na"}

Next ==
  \/ \E h \in Heights :
        \/ \E st \in StOpts(h) : ExByHeight(h, "ok", h, st) \/ ExByHash(h, "ok", h, st)
        \/ \E g \in Heights \ {h} : \/ \E st \in StOpts(g) : ExByHeight(h, "wrong_height", g, st)
                                    \/ ExByHash(h, "wrong_hash", g, "na")
        \/ ExByHeight(h, "fail", h, "na") \/ ExByHash(h, "fail", h, "na") \/ ExByHash(h, "info_fail", h, "na")
  \/ \E st \in StOpts(H) : ExHead("ok", st)
  \/ ExHead("fail", "na")
  \/ \E f \in Heights, t \in 2..(H + 1) : t > f /\ \E F \in SUBSET ((f + 1)..(t - 1)) : ExRange(f, t, F)

Spec == Init /\ [][Next]_vars
-----------------------------------------------------------------------------
TypeOK == stored \in [Heights -> {"none", "odsq4", "ods", "emptylink"}] /\ storedDah \in [Heights -> 0..H]

\* whatever is stored is the block of that height (= the DAH of the header returned for it)
ExStoredMatchesHeader == \A h \in Heights : stored[h] # "none" => storedDah[h] = Content(h)

\* every returned header whose block is to be kept (inside the window, or archival) has its square stored
ExReturnedIsStored == \A g \in act.ret : Keeps(g) => stored[g] # "none" /\ storedDah[g] = Content(g)

\* a write failure is reported and yields no header; a refused block (other hash) yields none and stores none
ExFailureReported ==
  /\ (act.n \in {"ExByHeight", "ExHead", "ExByHash"} /\ act.wf) => (act.res = "store_error" /\ act.ret = {})
  /\ act.res \in {"fetch_error", "info_error", "hash_mismatch", "store_error"} =>
        (act.ret = {} /\ (act.n # "ExRange" => stored = act.pre))
  /\ act.fetch = "wrong_hash" => act.res = "hash_mismatch"

ExPolicyRespected ==
  \A h \in Heights :
    /\ (mode = "pruned" /\ ~InWin(h)) => stored[h] = "none"
    /\ stored[h] = "ods" => (mode = "archival" /\ ~InWin(h))
    /\ stored[h] = "odsq4" => InWin(h)
    /\ stored[h] = "emptylink" => empty[h]

PrintBehaviour == (KeepHist /\ TLCGet("level") >= Depth) => PrintT(<<"BEH", ToJson(hist)>>)
=============================================================================
