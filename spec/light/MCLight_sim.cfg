\* behaviour generation for the replay driver: run with -simulate; prints the stimuli of finished behaviours
SPECIFICATION Spec
CONSTANTS
  Coords = {0, 1, 2, 3}
  K = 2
  Ks = {}
  Callers = {1, 2}
  Heights = {1, 2}
  NoCaller = 0
  NoHeight = 0
  EmptyHeights = {}
  OutsideHeights = {}
  CascadeModes = {FALSE, TRUE}
  PersistOnEmpty = TRUE
  CrashForgiven = TRUE
  MaxCalls = 5
  MaxEnv = 3
  RecordHist = TRUE
INVARIANTS PrintBehaviour AvailableSound PendingStable SameCoords NoPartialPromotion SessionMutex
