\* empty block and block outside the sampling window next to a normal one
SPECIFICATION Spec
CONSTANTS
  Coords = {c0, c1, c2, c3}
  K = 2
  Ks = {}
  Callers = {p1, p2}
  Heights = {h1, h2, h3}
  NoCaller = NoCaller
  NoHeight = NoHeight
  EmptyHeights = {h2}
  OutsideHeights = {h3}
  CascadeModes = {FALSE}
  PersistOnEmpty = TRUE
  CrashForgiven = TRUE
  MaxCalls = 3
  MaxEnv = 1
  RecordHist = FALSE
SYMMETRY SymCC
INVARIANTS TypeOK AvailableSound PendingStable SameCoords NoPartialPromotion SessionMutex
