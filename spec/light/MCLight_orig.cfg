\* the code as found (candidate defect #8): nothing is stored when the getter returns nothing. EXPECTED: SameCoords is violated; the counterexample (hist) is replayed on the real code by the driver.
SPECIFICATION Spec
CONSTANTS
  Coords = {0, 1, 2, 3}
  K = 2
  Ks = {}
  Callers = {1}
  Heights = {1}
  NoCaller = 0
  NoHeight = 0
  EmptyHeights = {}
  OutsideHeights = {}
  CascadeModes = {FALSE, TRUE}
  PersistOnEmpty = FALSE
  CrashForgiven = TRUE
  MaxCalls = 2
  MaxEnv = 0
  RecordHist = TRUE
INVARIANTS SameCoords
