\* liveness under fairness of the code's steps and of getter answers: waiters proceed, calls return
SPECIFICATION FairSpec
CONSTANTS
  Coords = {0, 1}
  K = 1
  Ks = {}
  Callers = {1, 2}
  Heights = {1}
  NoCaller = 0
  NoHeight = 0
  EmptyHeights = {}
  OutsideHeights = {}
  CascadeModes = {FALSE}
  PersistOnEmpty = TRUE
  CrashForgiven = TRUE
  MaxCalls = 3
  MaxEnv = 1
  RecordHist = FALSE
PROPERTIES WaitersProceed CallsReturn
