----------------------------- MODULE LightAvail -----------------------------
(***************************************************************************)
(* Light-node availability (property C03).                                 *)
(*                                                                         *)
(* A transcription, step by step, of                                       *)
(*     share/availability/light/availability.go  ShareAvailability.SharesAvailable *)
(*     share/availability/light/sample.go        NewSamplingResult         *)
(*     libs/utils/sessions.go                    Sessions.StartSession     *)
(*     share/shwap/getters/cascade.go            cascadeGetters (what it lets through) *)
(* together with the datastore stack the constructor builds                *)
(*     namespace.Wrap(ds) -> autobatch.NewAutoBatching(ds, 2048)           *)
(* i.e. every Put lands in a user-space buffer and reaches the underlying  *)
(* datastore only on Flush (Close) -- or after 2048 buffered writes, which *)
(* the unconstrained Flush action over-approximates.                        *)
(*                                                                         *)
(* One action per step of the code:                                        *)
(*   Call            SharesAvailable(ctx, header) is entered               *)
(*   EmptyOrOutside  the two short-circuits (empty square, outside window) *)
(*   StartSession    sync.Map.LoadOrStore succeeded: the caller owns the height *)
(*   FindHeld        LoadOrStore found another session: the caller waits on its channel *)
(*   Wake            that session was released; the caller tries again     *)
(*   WaitAbort       the caller's context ended while it waited            *)
(*   LoadOrDraw      ds.Get; found -> unmarshal, not found -> NewSamplingResult *)
(*                   (the draw is ANY min(K,|Coords|)-subset: TLC covers every draw) *)
(*   AllDone         len(Remaining) = 0 -> nil                             *)
(*   GetterEnter     getter.GetSamples(ctx, header, Remaining) is called   *)
(*   GetterReturn    the getter answers: any subset served positionally, an error *)
(*                   kind, or a zero-length slice; wrapped in CascadeGetter, any *)
(*                   error turns the answer into "nothing at all"          *)
(*   ReturnNothing   len(smpls) = 0 -> ErrNotAvailable                     *)
(*                   (PersistOnEmpty = FALSE is the code as found: nothing is stored; *)
(*                    TRUE is the repaired code: the sampling result is stored first) *)
(*   PersistAndReturn  non-empty samples move to Available, the rest stays Remaining, *)
(*                   ds.Put, then the verdict                              *)
(*   CancelCtx       the caller's context is cancelled (any time)          *)
(*   Flush           ShareAvailability.Close: autobatch.Flush              *)
(*   GracefulRestart Close, then a new instance over the same datastore    *)
(*   Crash           a new instance over what the underlying datastore holds; the buffer, *)
(*                   the sessions and the running calls are gone           *)
(*                                                                         *)
(*   Plant           a record without coordinates appears under the block's key        *)
(* A restarted instance may be configured with another sample amount (Ks): a stored record *)
(* whose size is neither that amount nor the square area is refused ("invalid sampling result"). *)
(* Not modelled: Prune (property C14), datastore I/O errors (the harness uses a map *)
(* datastore which never fails).                                           *)
(***************************************************************************)
EXTENDS Naturals, FiniteSets, Sequences, TLC

CONSTANTS
    Coords,          \* coordinates of the extended square (naturals row*width+col in traces and
                     \* simulation; model values under symmetry in exhaustive runs)
    K,               \* SampleAmount the first instance is configured with (>= 1; may exceed |Coords|)
    Ks,              \* SampleAmounts a restarted instance may be configured with instead ({} = never changes)
    Callers,         \* concurrent callers
    Heights,         \* heights; one data root per height
    NoCaller, NoHeight,  \* "nobody" / "none"
    EmptyHeights,    \* heights whose square is the empty square
    OutsideHeights,  \* heights whose header is older than the sampling window
    CascadeModes,    \* subset of BOOLEAN: getter used raw (FALSE) and/or inside CascadeGetter (TRUE)
    PersistOnEmpty,  \* TRUE = repaired tree (candidate defect #8 fixed), FALSE = code as found
    CrashForgiven,   \* TRUE = a re-draw after a crash that lost the buffer is not held against
                     \*        the code (DESIGN.md section 11); FALSE = demand it too (candidate #9)
    MaxCalls,        \* bound on the number of SharesAvailable calls
    MaxEnv,          \* bound on the number of cancel / flush / restart / crash actions
    RecordHist       \* TRUE = keep the sequence of stimuli in hist (behaviour generation)

ASSUME K \in Nat \ {0} /\ IsFiniteSet(Coords)
ASSUME NoCaller \notin Callers /\ NoHeight \notin Heights

VARIABLES
    disk,      \* underlying datastore:   [Heights -> Res]
    buf,       \* autobatch buffer:       [Heights -> Res]  (set = FALSE: no buffered write)
    session,   \* Sessions.active:        [Heights -> Callers \cup {NoCaller}]
    pc,        \* per caller: where it is inside SharesAvailable
    hgt,       \* per caller: the height it was called for (NoHeight outside a call)
    ctxDone,   \* per caller: its context is cancelled
    smp,       \* per caller: the local SamplingResult
    woken,     \* per caller: the session channel it waits on has been closed
    got,       \* per caller: what GetSamples returned (as far as the code looks at it)
    drawn,     \* ghost: the first draw per height  [set, d]
    seen,      \* ghost: coordinates the availability ever received as non-empty samples
    okGiven,   \* ghost: heights for which the verdict "available" has been returned
    lost,      \* ghost: a crash discarded deliveries that were not yet in the underlying datastore
    calls, envs,
    k,         \* SampleAmount of the running instance
    hist       \* ghost: stimuli so far (only when RecordHist)

vars == <<disk, buf, session, pc, hgt, ctxDone, smp, woken, got,
          drawn, seen, okGiven, lost, calls, envs, k, hist>>

varsNoK == <<disk, buf, session, pc, hgt, ctxDone, smp, woken, got,
             drawn, seen, okGiven, lost, calls, envs, hist>>

Area   == Cardinality(Coords)
Need   == IF k < Area THEN k ELSE Area            \* min(configured sample count, square area)
Draws  == {D \in SUBSET Coords : Cardinality(D) = Need}
NoRes  == [set |-> FALSE, avail |-> {}, rem |-> {}]
MkRes(a, r) == [set |-> TRUE, avail |-> a, rem |-> r]
Read(h) == IF buf[h].set THEN buf[h] ELSE disk[h]       \* autobatch.Get: buffer first
Kinds  == {"none", "error", "deadline", "cancelled"}
NoGot  == [served |-> {}, len0 |-> FALSE, cancelled |-> FALSE]
Normal(h) == h \notin EmptyHeights /\ h \notin OutsideHeights

\* what an (inner) getter may answer to a request for the coordinates R
Outcomes(R) == {[served |-> S, len0 |-> FALSE, kind |-> kd] : S \in SUBSET R, kd \in Kinds}
          \cup {[served |-> {}, len0 |-> TRUE, kind |-> kd] : kd \in Kinds}
IsOutcome(o, R) ==          \* o \in Outcomes(R), without enumerating the set
    /\ o.served \subseteq R /\ o.kind \in Kinds /\ o.len0 \in BOOLEAN
    /\ o.len0 => o.served = {}
\* what the availability receives: cascadeGetters returns the zero value on ANY error
Through(o, viaCascade) ==
    IF viaCascade /\ o.kind # "none" THEN [served |-> {}, len0 |-> TRUE, kind |-> o.kind] ELSE o

Rank(S, x) == Cardinality({y \in S : y < x})            \* position of x in S sorted ascending
Log(e) == hist' = IF RecordHist THEN Append(hist, e) ELSE hist

InSession(c) == pc[c] \in {"locked", "loaded", "invalid", "inGetter", "post"}
Active(c)    == pc[c] # "idle"

Init ==
    /\ disk = [h \in Heights |-> NoRes] /\ buf = [h \in Heights |-> NoRes]
    /\ session = [h \in Heights |-> NoCaller]
    /\ pc = [c \in Callers |-> "idle"] /\ hgt = [c \in Callers |-> NoHeight]
    /\ ctxDone = [c \in Callers |-> FALSE] /\ smp = [c \in Callers |-> NoRes]
    /\ woken = [c \in Callers |-> FALSE] /\ got = [c \in Callers |-> NoGot]
    /\ drawn = [h \in Heights |-> [set |-> FALSE, d |-> {}]]
    /\ seen = [h \in Heights |-> {}] /\ okGiven = {}
    /\ lost = [h \in Heights |-> FALSE]
    /\ calls = 0 /\ envs = 0 /\ k = K /\ hist = <<>>

-----------------------------------------------------------------------------
\* SharesAvailable is entered.
Call(c, h) ==
    /\ pc[c] = "idle" /\ calls < MaxCalls
    /\ pc' = [pc EXCEPT ![c] = "start"] /\ hgt' = [hgt EXCEPT ![c] = h]
    /\ calls' = calls + 1
    /\ Log([a |-> "call", c |-> c, h |-> h])
    /\ UNCHANGED <<disk, buf, session, ctxDone, smp, woken, got, drawn, seen, okGiven, lost, envs, k>>

\* common tail: the verdict res is handed to the caller; its locals die
Finish(c, res) ==
    /\ pc' = [pc EXCEPT ![c] = "idle"] /\ hgt' = [hgt EXCEPT ![c] = NoHeight]
    /\ ctxDone' = [ctxDone EXCEPT ![c] = FALSE]
    /\ smp' = [smp EXCEPT ![c] = NoRes] /\ got' = [got EXCEPT ![c] = NoGot]
    /\ okGiven' = IF res = "ok" /\ Normal(hgt[c]) THEN okGiven \cup {hgt[c]} ELSE okGiven

\* deferred release(): close(lockChan) wakes everybody waiting on it; active.Delete(key)
Release(c) ==
    /\ session' = [session EXCEPT ![hgt[c]] = NoCaller]
    /\ woken' = [d \in Callers |-> woken[d] \/ (pc[d] = "waiting" /\ hgt[d] = hgt[c])]

\* The verdict each returning step gives (the trace specification compares it with the
\* error the real call returned).
EmptyOrOutsideVerdict(c) == IF hgt[c] \in EmptyHeights THEN "ok" ELSE "outside"
PersistVerdict(c) ==
    IF got[c].cancelled THEN "cancelled"
    ELSE IF smp[c].rem \ got[c].served # {} THEN "notAvailable" ELSE "ok"

\* availability.go:84-92  empty square -> nil ; outside the window -> ErrOutsideSamplingWindow
EmptyOrOutside(c) ==
    /\ pc[c] = "start" /\ ~Normal(hgt[c])
    /\ Finish(c, EmptyOrOutsideVerdict(c))
    /\ UNCHANGED <<disk, buf, session, woken, drawn, seen, lost, calls, envs, hist, k>>

\* sessions.go:28  LoadOrStore stored our channel (no context check on this path)
StartSession(c) ==
    /\ pc[c] = "start" /\ Normal(hgt[c]) /\ session[hgt[c]] = NoCaller
    /\ session' = [session EXCEPT ![hgt[c]] = c]
    /\ pc' = [pc EXCEPT ![c] = "locked"]
    /\ UNCHANGED <<disk, buf, hgt, ctxDone, smp, woken, got, drawn, seen, okGiven, lost, calls, envs, hist, k>>

\* sessions.go:29-35  another session is active: wait on *its* channel
FindHeld(c) ==
    /\ pc[c] = "start" /\ Normal(hgt[c]) /\ session[hgt[c]] # NoCaller
    /\ pc' = [pc EXCEPT ![c] = "waiting"]
    /\ UNCHANGED <<disk, buf, session, hgt, ctxDone, smp, woken, got, drawn, seen, okGiven, lost,
                   calls, envs, hist, k>>

\* sessions.go:32,37  the awaited session was released -> StartSession again
Wake(c) ==
    /\ pc[c] = "waiting" /\ woken[c]
    /\ pc' = [pc EXCEPT ![c] = "start"] /\ woken' = [woken EXCEPT ![c] = FALSE]
    /\ UNCHANGED <<disk, buf, session, hgt, ctxDone, smp, got, drawn, seen, okGiven, lost,
                   calls, envs, hist, k>>

\* sessions.go:33-34  ctx.Done while waiting -> ctx.Err()  (select: also possible when woken)
WaitAbort(c) ==
    /\ pc[c] = "waiting" /\ ctxDone[c]
    /\ Finish(c, "cancelled") /\ woken' = [woken EXCEPT ![c] = FALSE]
    /\ UNCHANGED <<disk, buf, session, drawn, seen, lost, calls, envs, hist, k>>

\* availability.go:104-129  load the previous result, or draw.  D is the fresh draw (used only
\* when nothing is stored); the trace specification instantiates D with the observed request.
LoadOrDrawWith(c, D) ==
    /\ pc[c] = "locked"
    /\ LET h == hgt[c] IN
       IF Read(h).set
       THEN /\ smp' = [smp EXCEPT ![c] = Read(h)]
            /\ UNCHANGED drawn
            \* availability.go:116-122  "Verify total samples count": a stored record whose size is
            \* neither the configured sample amount nor the square area is refused
            /\ LET total == Cardinality(Read(h).avail) + Cardinality(Read(h).rem) IN
               pc' = [pc EXCEPT ![c] = IF total # k /\ total # Area THEN "invalid" ELSE "loaded"]
       ELSE /\ smp' = [smp EXCEPT ![c] = MkRes({}, D)]
            /\ drawn' = IF drawn[h].set THEN drawn ELSE [drawn EXCEPT ![h] = [set |-> TRUE, d |-> D]]
            /\ pc' = [pc EXCEPT ![c] = "loaded"]
    /\ UNCHANGED <<disk, buf, session, hgt, ctxDone, woken, got, seen, okGiven, lost, calls, envs, k, hist>>

\* availability.go:120  return fmt.Errorf("invalid sampling result: ...")
ReturnInvalid(c) ==
    /\ pc[c] = "invalid"
    /\ Finish(c, "invalid") /\ Release(c)
    /\ UNCHANGED <<disk, buf, drawn, seen, lost, calls, envs, k, hist>>

LoadOrDraw(c) ==
    /\ pc[c] = "locked"
    /\ IF Read(hgt[c]).set THEN LoadOrDrawWith(c, {}) ELSE \E D \in Draws : LoadOrDrawWith(c, D)

\* availability.go:131-134
AllDone(c) ==
    /\ pc[c] = "loaded" /\ smp[c].rem = {}
    /\ Finish(c, "ok") /\ Release(c)
    /\ UNCHANGED <<disk, buf, drawn, seen, lost, calls, envs, hist, k>>

\* availability.go:150  la.getter.GetSamples(samplingCtx, header, idxs)
GetterEnter(c) ==
    /\ pc[c] = "loaded" /\ smp[c].rem # {}
    /\ pc' = [pc EXCEPT ![c] = "inGetter"]
    /\ UNCHANGED <<disk, buf, session, hgt, ctxDone, smp, woken, got, drawn, seen, okGiven, lost,
                   calls, envs, hist, k>>

\* the (inner) getter answers with outcome o; the availability receives Through(o, viaCascade)
\* and looks at three things: the length, which samples are non-empty, and whether the error
\* is context.Canceled
GetterReturn(c, o, viaCascade) ==
    /\ pc[c] = "inGetter" /\ IsOutcome(o, smp[c].rem)
    /\ LET h == hgt[c]  t == Through(o, viaCascade) IN
         /\ got' = [got EXCEPT ![c] = [served |-> t.served, len0 |-> t.len0,
                                       cancelled |-> (t.kind = "cancelled")]]
         /\ seen' = [seen EXCEPT ![h] = @ \cup t.served]
    /\ pc' = [pc EXCEPT ![c] = "post"]
    /\ Log([a |-> "ret", c |-> c, served |-> {Rank(smp[c].rem, x) : x \in o.served},
            len0 |-> o.len0, kind |-> o.kind, casc |-> viaCascade])
    /\ UNCHANGED <<disk, buf, session, hgt, ctxDone, smp, woken, drawn, okGiven, lost, calls, envs, k>>

\* availability.go:151-153  len(smpls) == 0 -> ErrNotAvailable
ReturnNothing(c) ==
    /\ pc[c] = "post" /\ got[c].len0
    /\ buf' = IF PersistOnEmpty THEN [buf EXCEPT ![hgt[c]] = smp[c]] ELSE buf
    /\ Finish(c, "notAvailable") /\ Release(c)
    /\ UNCHANGED <<disk, drawn, seen, lost, calls, envs, hist, k>>

\* availability.go:155-189
PersistAndReturn(c) ==
    /\ pc[c] = "post" /\ ~got[c].len0
    /\ buf' = [buf EXCEPT ![hgt[c]] = MkRes(smp[c].avail \cup got[c].served, smp[c].rem \ got[c].served)]
    /\ Finish(c, PersistVerdict(c)) /\ Release(c)
    /\ UNCHANGED <<disk, drawn, seen, lost, calls, envs, hist, k>>

-----------------------------------------------------------------------------
CancelCtx(c) ==
    /\ Active(c) /\ ~ctxDone[c] /\ envs < MaxEnv
    /\ ctxDone' = [ctxDone EXCEPT ![c] = TRUE] /\ envs' = envs + 1
    /\ Log([a |-> "cancel", c |-> c])
    /\ UNCHANGED <<disk, buf, session, pc, hgt, smp, woken, got, drawn, seen, okGiven, lost, calls, k>>

DoFlush ==
    /\ disk' = [h \in Heights |-> IF buf[h].set THEN buf[h] ELSE disk[h]]
    /\ buf' = [h \in Heights |-> NoRes]

Flush ==
    /\ envs < MaxEnv /\ \E h \in Heights : buf[h].set
    /\ DoFlush /\ envs' = envs + 1
    /\ Log([a |-> "flush"])
    /\ UNCHANGED <<session, pc, hgt, ctxDone, smp, woken, got, drawn, seen, okGiven, lost, calls, k>>

Quiet == \A c \in Callers : ~Active(c)

\* Close, then a new instance over the same datastore, configured with sample amount nk.
\* Verdicts are an instance's: okGiven starts empty again.
GracefulRestartTo(nk) ==
    /\ envs < MaxEnv /\ Quiet /\ calls > 0 /\ calls < MaxCalls
    /\ DoFlush /\ envs' = envs + 1
    /\ k' = nk /\ okGiven' = {}
    /\ Log([a |-> "restart", k |-> IF nk = k THEN 0 ELSE nk])
    /\ UNCHANGED <<session, pc, hgt, ctxDone, smp, woken, got, drawn, seen, lost, calls>>

GracefulRestart == \E nk \in Ks \cup {k} : GracefulRestartTo(nk)

CrashTo(nk) ==
    /\ envs < MaxEnv /\ calls > 0 /\ calls < MaxCalls
    /\ buf' = [h \in Heights |-> NoRes]
    /\ session' = [h \in Heights |-> NoCaller]
    /\ pc' = [c \in Callers |-> "idle"] /\ hgt' = [c \in Callers |-> NoHeight]
    /\ woken' = [c \in Callers |-> FALSE] /\ ctxDone' = [c \in Callers |-> FALSE]
    /\ smp' = [c \in Callers |-> NoRes] /\ got' = [c \in Callers |-> NoGot]
    \* a height none of whose results reached the underlying datastore starts from scratch;
    \* under CrashForgiven the re-draw is not compared with the draw the crash wiped out
    /\ LET forgiven(h) == CrashForgiven /\ ~disk[h].set IN
         /\ drawn' = [h \in Heights |-> IF forgiven(h) THEN [set |-> FALSE, d |-> {}] ELSE drawn[h]]
         /\ seen'  = [h \in Heights |-> IF forgiven(h) THEN {} ELSE seen[h]]
         \* deliveries that had not reached the underlying datastore are forgotten
         /\ lost'  = [h \in Heights |-> IF forgiven(h) THEN lost[h]
                                        ELSE lost[h] \/ ~(seen[h] \subseteq disk[h].avail)]
    /\ k' = nk /\ okGiven' = {}
    /\ envs' = envs + 1
    /\ Log([a |-> "crash", k |-> IF nk = k THEN 0 ELSE nk])
    /\ UNCHANGED <<disk, calls>>

Crash == \E nk \in Ks \cup {k} : CrashTo(nk)

\* Somebody else wrote a record without coordinates under the block's key (null, {}, empty lists,
\* a damaged value): possible only while nothing of the block is stored or in flight.  The empty
\* record plays the part of the block's "first draw" in the ghost bookkeeping.
Plant(h) ==
    /\ envs < MaxEnv /\ Normal(h) /\ ~Read(h).set /\ ~drawn[h].set
    /\ \A c \in Callers : hgt[c] # h
    /\ disk' = [disk EXCEPT ![h] = MkRes({}, {})]
    /\ drawn' = [drawn EXCEPT ![h] = [set |-> TRUE, d |-> {}]]
    /\ envs' = envs + 1
    /\ Log([a |-> "plant", h |-> h])
    /\ UNCHANGED <<buf, session, pc, hgt, ctxDone, smp, woken, got, seen, okGiven, lost, calls, k>>

CallerStep(c) ==
    \/ EmptyOrOutside(c) \/ StartSession(c) \/ FindHeld(c) \/ Wake(c) \/ WaitAbort(c)
    \/ LoadOrDraw(c) \/ ReturnInvalid(c) \/ AllDone(c) \/ GetterEnter(c)
    \/ ReturnNothing(c) \/ PersistAndReturn(c)

GetterStep(c) == \E o \in Outcomes(smp[c].rem), m \in CascadeModes : GetterReturn(c, o, m)

Next ==
    \/ \E c \in Callers, h \in Heights : Call(c, h)
    \/ \E c \in Callers : CallerStep(c) \/ GetterStep(c) \/ CancelCtx(c)
    \/ Flush \/ GracefulRestart \/ Crash \/ \E h \in Heights : Plant(h)

Spec == Init /\ [][Next]_vars

\* fairness for the liveness check: every step of the code and every getter answer eventually
\* happens; the environment (calls, cancel, flush, restart, crash) is not forced.
FairSpec == Spec /\ \A c \in Callers : WF_vars(CallerStep(c)) /\ WF_vars(GetterStep(c))

-----------------------------------------------------------------------------
(* Properties of C03 *)

TypeOK ==
    /\ \A h \in Heights : /\ disk[h].avail \cup disk[h].rem \subseteq Coords
                          /\ buf[h].avail \cup buf[h].rem \subseteq Coords
                          /\ session[h] \in Callers \cup {NoCaller}
    /\ \A c \in Callers : pc[c] \in {"idle", "start", "waiting", "locked", "loaded", "invalid", "inGetter", "post"}

\* The verdict "available" for a non-empty block inside the window is given only when every
\* coordinate of the draw made when the block was first checked -- min(K, area) distinct
\* coordinates for the sample amount of the instance that gives the verdict -- has been delivered
\* by the getter as a non-empty (verified) sample.
AvailableSound ==
    \A h \in okGiven :
        /\ drawn[h].set /\ Cardinality(drawn[h].d) >= Need
        /\ drawn[h].d \subseteq seen[h]

\* A coordinate of the draw that no getter answer has delivered is still pending in the
\* stored result (it leaves Remaining only by being served with a non-empty sample).
PendingStable ==
    \A h \in Heights : (drawn[h].set /\ Read(h).set) => (drawn[h].d \ seen[h]) \subseteq Read(h).rem

\* The same, as a step property: Remaining shrinks only by coordinates delivered so far, and
\* a stored result never disappears except by a crash.
PendingStableStep ==
    [][\A h \in Heights :
          Read(h).set =>
            \/ /\ Read(h)'.set
               /\ (Read(h).rem \ Read(h)'.rem) \subseteq seen'[h]
            \/ /\ ~Read(h)'.set /\ Crash]_vars

\* Every request to the getter asks for coordinates of the first draw, never drops a
\* coordinate that was not delivered, and -- unless a crash lost results -- asks for exactly
\* the coordinates still owed; stored results always partition the first draw.
SameCoords ==
    /\ \A h \in Heights : Read(h).set =>
          /\ drawn[h].set
          /\ Read(h).avail \cup Read(h).rem = drawn[h].d
          /\ Read(h).avail \cap Read(h).rem = {}
    /\ \A c \in Callers : pc[c] \in {"loaded", "inGetter", "post"} =>
          LET h == hgt[c] IN
          /\ drawn[h].set
          /\ smp[c].rem \subseteq drawn[h].d
          /\ (drawn[h].d \ seen[h]) \subseteq smp[c].rem
          /\ (pc[c] # "post" /\ ~lost[h]) => smp[c].rem = drawn[h].d \ seen[h]

\* Failed, partial or cancelled attempts never mark as sampled a coordinate that was not
\* delivered as a non-empty sample.
NoPartialPromotion ==
    /\ \A h \in Heights : Read(h).avail \subseteq seen[h] /\ disk[h].avail \subseteq seen[h]
    /\ \A c \in Callers : hgt[c] = NoHeight \/ smp[c].avail \subseteq seen[hgt[c]]

\* At most one sampling session per height; the session table agrees with the callers.
SessionMutex ==
    /\ \A c1, c2 \in Callers : (c1 # c2 /\ InSession(c1) /\ InSession(c2)) => hgt[c1] # hgt[c2]
    /\ \A c \in Callers : InSession(c) => session[hgt[c]] = c
    /\ \A h \in Heights : session[h] # NoCaller => (InSession(session[h]) /\ hgt[session[h]] = h)

\* Liveness (FairSpec): whoever waits for a session gets it or gives up, every call returns.
WaitersProceed == \A c \in Callers : (pc[c] \in {"start", "waiting"}) ~> (pc[c] \notin {"start", "waiting"})
CallsReturn    == \A c \in Callers : Active(c) ~> ~Active(c)

-----------------------------------------------------------------------------
(* Behaviour generation for the replay driver (B2): in simulation mode the stimuli of a    *)
(* finished behaviour are printed as JSON (MCLight.tla).                                    *)
Terminal == calls = MaxCalls /\ Quiet
=============================================================================
