\* quick exhaustive: area 4, K=2, 2 callers, 2 heights, raw and cascade wiring, 3 calls, 2 environment actions (cancel/flush/restart/crash)
SPECIFICATION Spec
CONSTANTS
  Coords = {c0, c1, c2, c3}
  K = 2
  Ks = {}
  Callers = {p1, p2}
  Heights = {h1, h2}
  NoCaller = NoCaller
  NoHeight = NoHeight
  EmptyHeights = {}
  OutsideHeights = {}
  CascadeModes = {FALSE, TRUE}
  PersistOnEmpty = TRUE
  CrashForgiven = TRUE
  MaxCalls = 3
  MaxEnv = 2
  RecordHist = FALSE
SYMMETRY Sym
INVARIANTS TypeOK AvailableSound PendingStable SameCoords NoPartialPromotion SessionMutex
PROPERTIES PendingStableStep
