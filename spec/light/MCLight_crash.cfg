\* candidate #9: demand the same coordinates across a crash too. EXPECTED: SameCoords is violated (the autobatch buffer is lost); the counterexample is replayed on the real code.
SPECIFICATION Spec
CONSTANTS
  Coords = {0, 1, 2, 3}
  K = 2
  Ks = {}
  Callers = {1}
  Heights = {1}
  NoCaller = 0
  NoHeight = 0
  EmptyHeights = {}
  OutsideHeights = {}
  CascadeModes = {FALSE, TRUE}
  PersistOnEmpty = TRUE
  CrashForgiven = FALSE
  MaxCalls = 2
  MaxEnv = 1
  RecordHist = TRUE
INVARIANTS SameCoords
