\* a restarted instance configured with another sample amount, and records without coordinates
\* planted under a block's key: the count validation of loaded records ("invalid sampling result")
SPECIFICATION Spec
CONSTANTS
  Coords = {c0, c1, c2, c3}
  K = 2
  Ks = {1, 3, 5}
  Callers = {p1, p2}
  Heights = {h1}
  NoCaller = NoCaller
  NoHeight = NoHeight
  EmptyHeights = {}
  OutsideHeights = {}
  CascadeModes = {FALSE}
  PersistOnEmpty = TRUE
  CrashForgiven = TRUE
  MaxCalls = 4
  MaxEnv = 3
  RecordHist = FALSE
SYMMETRY Sym
INVARIANTS TypeOK AvailableSound PendingStable SameCoords NoPartialPromotion SessionMutex
PROPERTIES PendingStableStep
