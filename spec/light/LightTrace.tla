----------------------------- MODULE LightTrace -----------------------------
(***************************************************************************)
(* Trace validation (binding B1) of the real light.ShareAvailability        *)
(* against LightAvail.                                                      *)
(*                                                                         *)
(* The driver harness/drivers/light records one NDJSON line per observation: *)
(*   reset                      a new scenario (fresh datastore, fresh instance) *)
(*   call    c h                SharesAvailable entered by caller c for height h *)
(*   enter   c h coords         the stub getter was called with these coordinates *)
(*   ret     c served len0 kind casc   the answer the harness gave the stub  *)
(*   seen    c n nonempty cancelled    what the getter as wired into the availability *)
(*                              (raw stub or CascadeGetter([stub])) returned *)
(*   return  c res              SharesAvailable returned (ok / notAvailable / cancelled / outside) *)
(*   cancel  c                  the caller's context was cancelled            *)
(*   flush | restart | crash  disk [k]  Close / Close+new instance / new instance over a *)
(*                              snapshot; disk = decoded content of the underlying datastore; *)
(*                              k = sample amount the new instance is configured with       *)
(*   plant   h                  a record without coordinates was written under h's key      *)
(*                                                                         *)
(* Steps of the code that cannot be observed (StartSession, FindHeld, LoadOrDraw, and the *)
(* return steps, whose observation may lag behind the release of the session) are taken *)
(* silently.  A fresh draw is bound to the coordinates of the caller's next request.  A *)
(* return step taken before its "return" line leaves the verdict in owed[c]; the line must *)
(* then carry that verdict.  The trace is accepted iff some interleaving of silent steps *)
(* consumes every line (POSTCONDITION Accepted); all LightAvail invariants are evaluated on *)
(* every state on the way.                                                   *)
(***************************************************************************)
EXTENDS LightAvail, Json

CONSTANT TracePath      \* the NDJSON file recorded by the driver (set in the generated cfg)

Trace == ndJsonDeserialize(TracePath)
N == Len(Trace)

VARIABLES
    i,      \* next line to consume
    owed    \* per caller: verdict of a return step already taken, "-" if none

tvars == <<vars, i, owed>>

AsSet(s) == {s[j] : j \in DOMAIN s}
Ev == Trace[i]
Advance == i' = i + 1 /\ TLCSet(1, IF TLCGet(1) > i + 1 THEN TLCGet(1) ELSE i + 1)
NoOwed == [c \in Callers |-> "-"]

ResetVars ==
    /\ disk' = [h \in Heights |-> NoRes] /\ buf' = [h \in Heights |-> NoRes]
    /\ session' = [h \in Heights |-> NoCaller]
    /\ pc' = [c \in Callers |-> "idle"] /\ hgt' = [c \in Callers |-> NoHeight]
    /\ ctxDone' = [c \in Callers |-> FALSE] /\ smp' = [c \in Callers |-> NoRes]
    /\ woken' = [c \in Callers |-> FALSE] /\ got' = [c \in Callers |-> NoGot]
    /\ drawn' = [h \in Heights |-> [set |-> FALSE, d |-> {}]]
    /\ seen' = [h \in Heights |-> {}] /\ okGiven' = {}
    /\ lost' = [h \in Heights |-> FALSE]
    /\ calls' = 0 /\ envs' = 0 /\ k' = K /\ hist' = <<>>

TraceInit == Init /\ i = 1 /\ owed = NoOwed /\ TLCSet(1, 1)

\* the logged content of the underlying datastore equals the model's disk (after the step)
DiskMatches(d) ==
    \A h \in Heights :
        /\ disk'[h].set = d[h].set
        /\ disk'[h].avail = AsSet(d[h].avail)
        /\ disk'[h].rem = AsSet(d[h].rem)

\* the caller's next own line (enter or return) from position i on; 0 if the scenario ends or
\* the instance crashes first, or if it is further away than Window lines (a silent step is
\* only ever needed shortly before the line that reveals it: the harness waits for every
\* caller to block or return before its next stimulus)
Window == 200
RECURSIVE FindOwn(_, _)
FindOwn(c, j) ==
    IF j > N \/ j > i + Window THEN 0
    ELSE IF Trace[j].ev \in {"reset", "crash"} THEN 0
    ELSE IF Trace[j].ev \in {"enter", "return"} /\ Trace[j].c = c THEN j
    ELSE FindOwn(c, j + 1)
NextOwn(c) == FindOwn(c, i)

-----------------------------------------------------------------------------
(* lines *)

TReset    == Ev.ev = "reset" /\ ResetVars /\ owed' = NoOwed /\ Advance

TCall     == Ev.ev = "call" /\ owed[Ev.c] = "-" /\ Call(Ev.c, Ev.h) /\ UNCHANGED owed /\ Advance

TEnter    == /\ Ev.ev = "enter"
             /\ hgt[Ev.c] = Ev.h /\ smp[Ev.c].rem = AsSet(Ev.coords)
             /\ GetterEnter(Ev.c) /\ UNCHANGED owed /\ Advance

TRet      == /\ Ev.ev = "ret"
             /\ GetterReturn(Ev.c, [served |-> AsSet(Ev.served), len0 |-> Ev.len0, kind |-> Ev.kind], Ev.casc)
             /\ UNCHANGED owed /\ Advance

\* what the real getter wiring handed to the availability is what the model says it receives
TSeen     == /\ Ev.ev = "seen" /\ pc[Ev.c] = "post"
             /\ got[Ev.c].len0 = (Ev.n = 0)
             /\ got[Ev.c].served = AsSet(Ev.nonempty)
             /\ (Ev.n # 0) => (Ev.n = Cardinality(smp[Ev.c].rem) /\ got[Ev.c].cancelled = Ev.cancelled)
             /\ UNCHANGED <<vars, owed>> /\ Advance

TReturn   == /\ Ev.ev = "return"
             /\ LET c == Ev.c  res == Ev.res IN
                IF owed[c] # "-"
                THEN owed[c] = res /\ owed' = [owed EXCEPT ![c] = "-"] /\ UNCHANGED vars
                ELSE /\ UNCHANGED owed
                     /\ \/ EmptyOrOutside(c) /\ EmptyOrOutsideVerdict(c) = res
                        \/ WaitAbort(c) /\ res = "cancelled"
                        \/ ReturnInvalid(c) /\ res = "invalid"
                        \/ AllDone(c) /\ res = "ok"
                        \/ ReturnNothing(c) /\ res = "notAvailable"
                        \/ PersistAndReturn(c) /\ PersistVerdict(c) = res
             /\ Advance

TCancel   == Ev.ev = "cancel" /\ CancelCtx(Ev.c) /\ UNCHANGED owed /\ Advance

\* Close with nothing buffered is a no-op the model does not bother to have
TFlush    == /\ Ev.ev = "flush"
             /\ IF \E h \in Heights : buf[h].set THEN Flush ELSE UNCHANGED vars
             /\ DiskMatches(Ev.disk) /\ UNCHANGED owed /\ Advance

TRestart  == /\ Ev.ev = "restart" /\ owed = NoOwed
             /\ IF calls > 0 THEN GracefulRestartTo(Ev.k) ELSE (Quiet /\ k' = Ev.k /\ UNCHANGED varsNoK)
             /\ DiskMatches(Ev.disk) /\ UNCHANGED owed /\ Advance

TCrash    == /\ Ev.ev = "crash"
             /\ IF calls > 0 THEN CrashTo(Ev.k) ELSE (k' = Ev.k /\ UNCHANGED varsNoK)
             /\ DiskMatches(Ev.disk) /\ owed' = NoOwed /\ Advance

\* a record without coordinates was written under the block's key behind the instance's back
TPlant    == Ev.ev = "plant" /\ Plant(Ev.h) /\ UNCHANGED owed /\ Advance

-----------------------------------------------------------------------------
(* silent steps of a caller that still has a line to come *)

Silent(c) ==
    /\ Active(c) /\ owed[c] = "-" /\ UNCHANGED i
    /\ LET j == NextOwn(c) IN
         /\ j # 0
         /\ \/ StartSession(c) /\ UNCHANGED owed
            \/ FindHeld(c) /\ ctxDone[c] /\ Trace[j].ev = "return" /\ UNCHANGED owed
            \/ /\ pc[c] = "locked"
               /\ IF Trace[j].ev = "enter"
                  THEN LoadOrDrawWith(c, AsSet(Trace[j].coords))
                  ELSE Read(hgt[c]).set /\ LoadOrDrawWith(c, {})
               /\ UNCHANGED owed
            \* return steps ahead of their line: the verdict is owed
            \/ /\ Trace[j].ev = "return" /\ j # i
               /\ \/ AllDone(c) /\ owed' = [owed EXCEPT ![c] = "ok"]
                  \/ ReturnInvalid(c) /\ owed' = [owed EXCEPT ![c] = "invalid"]
                  \/ ReturnNothing(c) /\ owed' = [owed EXCEPT ![c] = "notAvailable"]
                  \/ PersistAndReturn(c) /\ owed' = [owed EXCEPT ![c] = PersistVerdict(c)]

TraceNext ==
    /\ i <= N
    /\ \/ TReset \/ TCall \/ TEnter \/ TRet \/ TSeen \/ TReturn \/ TCancel
       \/ TFlush \/ TRestart \/ TCrash \/ TPlant
       \/ \E c \in Callers : Silent(c)

TraceSpec == TraceInit /\ [][TraceNext]_tvars

\* every line was consumed along some behaviour of LightAvail
Accepted ==
    IF TLCGet(1) = N + 1 THEN TRUE
    ELSE Print(<<"STUCK", TLCGet(1), Trace[TLCGet(1)]>>, FALSE)
=============================================================================
