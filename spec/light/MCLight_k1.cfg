\* thorough: K=1
SPECIFICATION Spec
CONSTANTS
  Coords = {c0, c1, c2, c3}
  K = 1
  Ks = {}
  Callers = {p1, p2}
  Heights = {h1, h2}
  NoCaller = NoCaller
  NoHeight = NoHeight
  EmptyHeights = {}
  OutsideHeights = {}
  CascadeModes = {FALSE, TRUE}
  PersistOnEmpty = TRUE
  CrashForgiven = TRUE
  MaxCalls = 4
  MaxEnv = 2
  RecordHist = FALSE
SYMMETRY Sym
INVARIANTS TypeOK AvailableSound PendingStable SameCoords NoPartialPromotion SessionMutex
PROPERTIES PendingStableStep
