------------------------------ MODULE MCLight ------------------------------
(* Model-checking wrapper of LightAvail: symmetry for exhaustive runs, behaviour printing  *)
(* for the replay driver.                                                                  *)
EXTENDS LightAvail, Json

\* exhaustive runs: coordinates, callers and heights are interchangeable (model values)
Sym == Permutations(Coords) \cup Permutations(Callers) \cup Permutations(Heights)
\* with an empty and an outside-window height the heights are no longer interchangeable
SymCC == Permutations(Coords) \cup Permutations(Callers)

\* listed as INVARIANT in the simulation configuration (integer constants, RecordHist = TRUE):
\* prints the stimuli of every finished behaviour (all calls made and returned); always TRUE
PrintBehaviour == Terminal => PrintT(<<"BEH", ToJson(hist)>>)
=============================================================================
