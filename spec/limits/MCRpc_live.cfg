\* MCRpc_live.cfg -- generated from checks/X_limits.py (job rpc_live); run: tlc -config MCRpc_live.cfg MCRpcLimits.tla
CONSTANTS
  Keys = {"a", "b"}
  Reqs = {1, 2}
  Kinds = {"plain", "ws"}
  CacheSize = 1
  Burst = 1
  Rate = 1
  MaxConns = 1
  RateOn = TRUE
  Atomic = FALSE
  DeferRelease = TRUE
  WatchTime = 0
  WatchEvict = 0
SPECIFICATION MCFairSpecNoWatch
VIEW View
PROPERTIES SlotsComeBack PassageEnds BucketsRefill
CHECK_DEADLOCK FALSE
