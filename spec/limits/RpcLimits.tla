----------------------------- MODULE RpcLimits -----------------------------
(***************************************************************************)
(* Admission control of the JSON-RPC server, transcribed from              *)
(*   api/rpc/middleware.go   connLimit, rateLimit (getLimiter), extractIP   *)
(*   api/rpc/metrics.go      trackWebsocket, isWebsocketUpgrade             *)
(*   api/rpc/server.go       newHandlerStack (order of the layers)          *)
(*   golang.org/x/time/rate  Limiter.Allow  (token bucket, lazily advanced) *)
(*   hashicorp/golang-lru/v2 Cache.Get / PeekOrAdd / Add (eviction)         *)
(*                                                                         *)
(* Layers, outermost first (server.go newHandlerStack):                    *)
(*     rateLimit (opt-in) -> connLimit -> [cors/auth/otel] ->              *)
(*     trackWebsocket -> RPC handler                                       *)
(*                                                                         *)
(* The state is the code's own state:                                      *)
(*   cache   the LRU list of per-IP limiter OBJECTS (front = least         *)
(*           recently used); a limiter object may outlive its cache entry  *)
(*           while a request that fetched it has not called Allow yet      *)
(*           (an "orphan"), exactly as a *rate.Limiter pointer does        *)
(*   tok     tokens of every live limiter object.  x/time/rate advances    *)
(*           the bucket lazily from (last, tokens); with time in whole     *)
(*           units that is the same function as refilling every live       *)
(*           bucket at each Tick, which keeps the state finite             *)
(*   sem     occupancy of the connLimit channel                            *)
(*   wsOpen  the gauge trackWebsocket keeps                                *)
(*   pc      where each request is: one label per critical section of the  *)
(*           code (cache.Get / cache.PeekOrAdd / limiter.Allow / select on *)
(*           the semaphore / inside the handler)                           *)
(*                                                                         *)
(* Requests of kind "ws" are websocket upgrades: their ServeHTTP call      *)
(* blocks for the life of the connection, so the slot (and the gauge) is   *)
(* held until the connection closes (Return), the handler panics (Panic)   *)
(* or the client goes away and the handler returns on the cancelled        *)
(* context (Cancel).                                                       *)
(*                                                                         *)
(* What the code does that a reader might not expect (all in the model):   *)
(*  - the rate limit is the OUTER layer: a request answered 503 by         *)
(*    connLimit has already paid a token;                                  *)
(*  - a request answered 429 still refreshes the recency of its address    *)
(*    (cache.Get runs first): flooding keeps one's own bucket cached, it   *)
(*    cannot evict it; evicting an address takes CacheSize OTHER addresses;*)
(*  - an eviction hands the address a fresh full bucket on its next        *)
(*    request (documented in RateLimitConfig) -- WindowBound says exactly  *)
(*    how much that is worth;                                              *)
(*  - a *rate.Limiter fetched before its eviction is still honoured by the *)
(*    request that holds it ("orphan"): at most one extra admission per    *)
(*    request that was between cache.Get and Allow at that moment.         *)
(*                                                                         *)
(* Atomic = TRUE serialises each request's passage through the middleware  *)
(* (what a harness can replay one stimulus at a time); Atomic = FALSE is   *)
(* every interleaving of the critical sections.                            *)
(***************************************************************************)
EXTENDS Integers, Sequences, FiniteSets, TLC

CONSTANTS
    Keys,          \* client addresses as produced by extractIP (strings)
    Reqs,          \* request identities, a set of naturals: bounds the requests inside the server at once
    Kinds,         \* subset of {"plain", "ws"}: ordinary calls / websocket upgrades
    CacheSize,     \* RateLimitConfig.CacheSize  (>= 1; lru.New panics on 0, the node config refuses it)
    Burst,         \* RateLimitConfig.Burst
    Rate,          \* tokens a bucket gains per Tick (the driver runs the code at 1 request/s and lets Rate seconds pass
                   \* per Tick); 0 = RequestsPerSec 0: the bucket never refills
    MaxConns,      \* maxConcurrentConns
    RateOn,        \* RateLimitConfig.Enabled
    Atomic,        \* see above
    DeferRelease,  \* TRUE = the code (`defer func() { <-sem }()`); FALSE = released after next.ServeHTTP returns
                   \*        (not on a panic): a defect configuration that SlotsMatchHandlers must notice
    WatchTime,     \* bound on the length of the observed window (ticks)
    WatchEvict     \* bound on the evictions of the watched key inside the window

NoLim == <<"-", 0>>
LimIds == Keys \X (0..Cardinality(Reqs))     \* limiter objects: <<key, serial>>; at most 1 cached + |Reqs| orphans per key

VARIABLES
    pc,        \* [Reqs -> {"free","get","add","allow","sem","handler"}]
    rkey,      \* [Reqs -> Keys]       key of the request (extractIP(r))
    rkind,     \* [Reqs -> Kinds]
    rlim,      \* [Reqs -> LimIds \cup {NoLim}]  the *rate.Limiter the request got from getLimiter
    cache,     \* Seq(LimIds), least recently used first
    live,      \* limiter objects reachable from the cache or from a request
    tok,       \* [LimIds -> 0..Burst]
    since,     \* [Keys -> SUBSET Keys]  other keys that touched the cache since the key's last touch (auxiliary)
    evictOK,   \* auxiliary: every eviction so far happened after >= CacheSize distinct other keys
    sem,       \* slots taken
    wsOpen,    \* live-websocket gauge
    watch,     \* observer of one window for one key (auxiliary), see StartWatch
    lab,       \* label of the step just taken (for replay; not part of the state identity)
    out        \* what the step decided for its request: "-" | "admitted" | "429" | "503" | "returned" | "panicked" | "cancelled"

core == <<pc, rkey, rkind, rlim, cache, live, tok, since, evictOK, sem, wsOpen>>
vars == <<core, watch, lab, out>>

Min(S) == CHOOSE x \in S : \A y \in S : x <= y
AnyKey == CHOOSE k \in Keys : TRUE
Range(s) == {s[i] : i \in 1..Len(s)}
Remove(s, i) == SubSeq(s, 1, i - 1) \o SubSeq(s, i + 1, Len(s))
IdxOf(k) == {i \in 1..Len(cache) : cache[i][1] = k}
InCache(k) == IdxOf(k) # {}
Pos(k) == CHOOSE i \in IdxOf(k) : TRUE
FreshLim(k) == <<k, Min({n \in 0..Cardinality(Reqs) : <<k, n>> \notin live})>>
HeldBy(p, l) == \E r \in Reqs : p[r] = "allow" /\ rlim[r] = l
Touch(k) == [j \in Keys |-> IF j = k THEN {} ELSE since[j] \cup {k}]

Busy == {r \in Reqs : pc[r] \in {"get", "add", "allow", "sem"}}
EnvMay == ~Atomic \/ Busy = {}
ReqMay(r) == ~Atomic \/ Busy \subseteq {r}

NoWatch == [on |-> FALSE, key |-> AnyKey, el |-> 0, cnt |-> 0, stale |-> 0, ev |-> 0]

Init ==
    /\ pc = [r \in Reqs |-> "free"] /\ rkey = [r \in Reqs |-> AnyKey] /\ rkind = [r \in Reqs |-> "plain"]
    /\ rlim = [r \in Reqs |-> NoLim]
    /\ cache = <<>> /\ live = {} /\ tok = [l \in LimIds |-> 0]
    /\ since = [k \in Keys |-> {}] /\ evictOK = TRUE
    /\ sem = 0 /\ wsOpen = 0 /\ watch = NoWatch
    /\ lab = [op |-> "init"] /\ out = "-"

(* A request reaches the outermost layer.  Identities are handed out smallest-first (symmetry). *)
Arrive(r, k, kind) ==
    /\ EnvMay /\ pc[r] = "free" /\ r = Min({q \in Reqs : pc[q] = "free"})
    /\ pc' = [pc EXCEPT ![r] = IF RateOn THEN "get" ELSE "sem"]
    /\ rkey' = [rkey EXCEPT ![r] = k] /\ rkind' = [rkind EXCEPT ![r] = kind]
    /\ lab' = [op |-> "arrive", r |-> r, key |-> k, kind |-> kind] /\ out' = "-"
    /\ UNCHANGED <<rlim, cache, live, tok, since, evictOK, sem, wsOpen, watch>>

(* getLimiter: `limiter, ok := cache.Get(ip)` -- a hit moves the entry to the most-recently-used end *)
CacheGet(r) ==
    /\ ReqMay(r) /\ pc[r] = "get"
    /\ IF InCache(rkey[r])
       THEN /\ rlim' = [rlim EXCEPT ![r] = cache[Pos(rkey[r])]]
            /\ cache' = Append(Remove(cache, Pos(rkey[r])), cache[Pos(rkey[r])])
            /\ since' = Touch(rkey[r])
            /\ pc' = [pc EXCEPT ![r] = "allow"]
       ELSE /\ pc' = [pc EXCEPT ![r] = "add"]
            /\ UNCHANGED <<rlim, cache, since>>
    /\ lab' = [op |-> "get", r |-> r] /\ out' = "-"
    /\ UNCHANGED <<rkey, rkind, live, tok, evictOK, sem, wsOpen, watch>>

(* getLimiter: `cache.PeekOrAdd(ip, rate.NewLimiter(rateL, burst))`.  Found (another request added the key
   meanwhile): the existing limiter is used and the recency is NOT refreshed.  Otherwise a full bucket
   is appended and, beyond CacheSize, the least recently used entry is dropped.  The dropped limiter
   object stays alive while a request that already fetched it has not called Allow. *)
CacheAdd(r) ==
    /\ ReqMay(r) /\ pc[r] = "add"
    /\ pc' = [pc EXCEPT ![r] = "allow"]
    /\ IF InCache(rkey[r])
       THEN /\ rlim' = [rlim EXCEPT ![r] = cache[Pos(rkey[r])]]
            /\ UNCHANGED <<cache, live, tok, since, evictOK, watch>>
       ELSE LET l == FreshLim(rkey[r])
                full == Len(cache) >= CacheSize
                victim == IF full THEN Head(cache) ELSE l     \* (not full: no victim; l keeps the EXCEPTs total)
                kept == IF full THEN Tail(cache) ELSE cache
                dead == full /\ ~HeldBy(pc', victim)
            IN /\ rlim' = [rlim EXCEPT ![r] = l]
               /\ cache' = Append(kept, l)
               /\ live' = (live \cup {l}) \ (IF dead THEN {victim} ELSE {})
               /\ tok' = [tok EXCEPT ![l] = Burst, ![victim] = IF dead THEN 0 ELSE @]
               /\ since' = Touch(rkey[r])
               /\ evictOK' = (evictOK /\ (full => Cardinality(since[victim[1]] \cup {rkey[r]}) >= CacheSize))
               /\ watch' = IF full /\ watch.on /\ watch.key = victim[1]
                           THEN [watch EXCEPT !.ev = @ + 1] ELSE watch
    /\ (~InCache(rkey[r]) /\ Len(cache) >= CacheSize /\ watch.on) => (watch.key = Head(cache)[1] => watch.ev < WatchEvict)
    /\ lab' = [op |-> "add", r |-> r] /\ out' = "-"
    /\ UNCHANGED <<rkey, rkind, sem, wsOpen>>

(* `getLimiter(ip).Allow()`: one token or 429.  An orphaned limiter dies with its last holder. *)
Allow(r) ==
    /\ ReqMay(r) /\ pc[r] = "allow"
    /\ LET l == rlim[r]
           ok == tok[l] >= 1
           p2 == [pc EXCEPT ![r] = IF ok THEN "sem" ELSE "free"]
           gone == l \notin Range(cache) /\ ~HeldBy(p2, l)
       IN /\ pc' = p2
          /\ tok' = [tok EXCEPT ![l] = IF gone THEN 0 ELSE IF ok THEN @ - 1 ELSE @]
          /\ live' = IF gone THEN live \ {l} ELSE live
          /\ out' = IF ok THEN "-" ELSE "429"
          /\ rkey' = IF ok THEN rkey ELSE [rkey EXCEPT ![r] = AnyKey]
          /\ rkind' = IF ok THEN rkind ELSE [rkind EXCEPT ![r] = "plain"]
          /\ watch' = IF ok /\ watch.on /\ watch.key = l[1]
                      THEN IF l \in Range(cache) THEN [watch EXCEPT !.cnt = @ + 1] ELSE [watch EXCEPT !.stale = @ + 1]
                      ELSE watch
    /\ rlim' = [rlim EXCEPT ![r] = NoLim]
    /\ lab' = [op |-> "allow", r |-> r]
    /\ UNCHANGED <<cache, since, evictOK, sem, wsOpen>>

(* connLimit: `select { case sem <- struct{}{}: ... default: 503 }`; inside the slot trackWebsocket
   counts a websocket upgrade before the (blocking) handler runs *)
Acquire(r) ==
    /\ ReqMay(r) /\ pc[r] = "sem"
    /\ IF sem < MaxConns
       THEN /\ sem' = sem + 1 /\ pc' = [pc EXCEPT ![r] = "handler"]
            /\ wsOpen' = IF rkind[r] = "ws" THEN wsOpen + 1 ELSE wsOpen
            /\ out' = "admitted" /\ UNCHANGED rkind
            /\ rkey' = [rkey EXCEPT ![r] = AnyKey]      \* past the rate limit the address plays no role
       ELSE /\ pc' = [pc EXCEPT ![r] = "free"] /\ out' = "503" /\ UNCHANGED <<sem, wsOpen>>
            /\ rkey' = [rkey EXCEPT ![r] = AnyKey] /\ rkind' = [rkind EXCEPT ![r] = "plain"]
    /\ lab' = [op |-> "acquire", r |-> r]
    /\ UNCHANGED <<rlim, cache, live, tok, since, evictOK, watch>>

(* The handler ends: how \in "returned" (normal return; for a websocket: the connection closed),
   "panicked" (the panic unwinds through both deferred calls), "cancelled" (client went away, the
   handler returned on its cancelled context). *)
Finish(r, how) ==
    /\ EnvMay /\ pc[r] = "handler"
    /\ pc' = [pc EXCEPT ![r] = "free"]
    /\ sem' = IF DeferRelease \/ how # "panicked" THEN sem - 1 ELSE sem
    /\ wsOpen' = IF rkind[r] = "ws" THEN wsOpen - 1 ELSE wsOpen
    /\ rkey' = [rkey EXCEPT ![r] = AnyKey] /\ rkind' = [rkind EXCEPT ![r] = "plain"]
    /\ lab' = [op |-> "finish", r |-> r, how |-> how] /\ out' = how
    /\ UNCHANGED <<rlim, cache, live, tok, since, evictOK, watch>>

(* One unit of time: every live bucket gains Rate tokens up to Burst. *)
Tick ==
    /\ EnvMay
    /\ watch.on => watch.el < WatchTime
    /\ tok' = [l \in LimIds |-> IF l \in live THEN (IF tok[l] + Rate > Burst THEN Burst ELSE tok[l] + Rate) ELSE 0]
    /\ watch' = IF watch.on THEN [watch EXCEPT !.el = @ + 1] ELSE watch
    /\ lab' = [op |-> "tick"] /\ out' = "-"
    /\ UNCHANGED <<pc, rkey, rkind, rlim, cache, live, since, evictOK, sem, wsOpen>>

(* The observer starts a window for key k now (once per behaviour, at any state: every window of every
   behaviour is the window of some observer). *)
StartWatch(k) ==
    /\ ~watch.on
    /\ watch' = [on |-> TRUE, key |-> k, el |-> 0, cnt |-> 0, stale |-> 0, ev |-> 0]
    /\ lab' = [op |-> "watch"] /\ out' = "-"
    /\ UNCHANGED core

SysNext ==
    \/ \E r \in Reqs, k \in Keys, kind \in Kinds : Arrive(r, k, kind)
    \/ \E r \in Reqs : CacheGet(r) \/ CacheAdd(r) \/ Allow(r) \/ Acquire(r)
    \/ \E r \in Reqs, how \in {"returned", "panicked", "cancelled"} : Finish(r, how)
    \/ Tick
Next == SysNext \/ \E k \in Keys : StartWatch(k)

Spec == Init /\ [][Next]_vars

(* Fairness for the liveness properties: the middleware's own steps always proceed, handlers end, time passes. *)
FairSpec ==
    /\ Spec
    /\ \A r \in Reqs : WF_vars(CacheGet(r) \/ CacheAdd(r) \/ Allow(r) \/ Acquire(r))
    /\ \A q \in Reqs : WF_vars(\E how \in {"returned", "panicked", "cancelled"} : Finish(q, how))
    /\ WF_vars(Tick)

-----------------------------------------------------------------------------
InHandler == {r \in Reqs : pc[r] = "handler"}

TypeOK ==
    /\ pc \in [Reqs -> {"free", "get", "add", "allow", "sem", "handler"}]
    /\ rkey \in [Reqs -> Keys] /\ rkind \in [Reqs -> Kinds]
    /\ rlim \in [Reqs -> LimIds \cup {NoLim}]
    /\ live \subseteq LimIds /\ tok \in [LimIds -> 0..Burst]
    /\ sem \in 0..MaxConns /\ wsOpen \in 0..MaxConns

(* in-flight admitted requests never exceed the limit *)
ConnBound == Cardinality(InHandler) <= MaxConns

(* a slot is held exactly while its request is inside the handler: taken once on admission, given back
   exactly once on every way out (return, panic, cancelled context, websocket close); a rejected request
   (429 / 503 -> "free") holds nothing *)
SlotsMatchHandlers == sem = Cardinality(InHandler)

(* the live-websocket gauge is the number of upgraded requests inside the handler *)
WsGaugeExact == wsOpen = Cardinality({r \in InHandler : rkind[r] = "ws"})

(* when nothing is in flight every slot is free again *)
QuiescentFree == (\A r \in Reqs : pc[r] = "free") => (sem = 0 /\ wsOpen = 0)

(* the cache never exceeds its bound and holds at most one bucket per key *)
CacheBound ==
    /\ Len(cache) <= CacheSize
    /\ \A i, j \in 1..Len(cache) : cache[i][1] = cache[j][1] => i = j
    /\ Range(cache) \subseteq live

(* bookkeeping of limiter objects: a request between Get and Allow holds a live limiter of its own key *)
LimitersSound ==
    /\ \A r \in Reqs : pc[r] = "allow" => (rlim[r] \in live /\ rlim[r][1] = rkey[r])
    /\ \A r \in Reqs : pc[r] # "allow" => rlim[r] = NoLim
    /\ \A l \in LimIds : l \notin live => tok[l] = 0
    /\ \A l \in live : l \in Range(cache) \/ HeldBy(pc, l)

(* an entry is evicted only after at least CacheSize distinct OTHER keys touched the cache since the
   evicted key's own last touch (what "least recently used" buys: a client cannot reset its own bucket
   without CacheSize other addresses) *)
EvictionNeedsDistinctKeys == evictOK

(* THE RATE BOUND, as the code guarantees it.  In any window of el ticks, the requests of one key admitted
   through the bucket that is in the cache at that moment number at most
          (1 + evictions of the key inside the window) * Burst + Rate * el :
   every eviction hands the key one fresh burst, nothing more.  Admissions through an ORPHANED bucket
   (fetched before the eviction, used after it) come on top; each needs a request that was between
   cache.Get and Allow when the key was evicted, so there are at most |Reqs| of them at a time; with
   serialised passages (Atomic) there are none. *)
WindowBound == watch.on => watch.cnt <= (1 + watch.ev) * Burst + Rate * watch.el
NoStaleWhenAtomic == Atomic => watch.stale = 0
(* the naive bound (orphans counted too): holds only for serialised passages *)
NaiveWindowBound == watch.on => watch.cnt + watch.stale <= (1 + watch.ev) * Burst + Rate * watch.el

(* different keys are independent: a step of a request for key j changes neither the tokens nor the
   cache membership of another key k -- except the one sanctioned interference, the eviction of k when
   j is added to a full cache.  (The connection limit is deliberately global.) *)
TokOfKey(k, c, t) == IF \E i \in 1..Len(c) : c[i][1] = k THEN t[c[CHOOSE i \in 1..Len(c) : c[i][1] = k]] ELSE -1
KeysIndependent ==
    [][\A r \in Reqs, k \in Keys :
          (lab'.op \in {"get", "add", "allow", "acquire", "finish", "arrive"} /\ lab'.r = r
           /\ (IF lab'.op = "arrive" THEN lab'.key ELSE rkey[r]) # k)
          => \/ TokOfKey(k, cache', tok') = TokOfKey(k, cache, tok)
             \/ (lab'.op = "add" /\ Len(cache) >= CacheSize /\ Head(cache)[1] = k /\ TokOfKey(k, cache', tok') = -1)]_vars

(* tokens only grow by the passage of time *)
TokensOnlyRefillByTime ==
    [][\A l \in LimIds : (l \in live /\ l \in live' /\ tok'[l] > tok[l]) => lab'.op = "tick"]_vars

(* liveness: a full semaphore does not stay full once handlers end; a request inside the middleware
   always comes out; an empty cached bucket refills (Rate > 0) *)
SlotsComeBack == (sem = MaxConns) ~> (sem < MaxConns)
PassageEnds == \A r \in Reqs : (pc[r] \in {"get", "add", "allow", "sem"}) ~> (pc[r] \in {"free", "handler"})
BucketsRefill == Rate > 0 => \A l \in LimIds : (l \in Range(cache) /\ tok[l] = 0) ~> (l \notin Range(cache) \/ tok[l] > 0)

-----------------------------------------------------------------------------
(***************************************************************************)
(* extractIP (case enumeration): RemoteAddr forms and the bucket key.      *)
(* net.SplitHostPort succeeds for "host:port" and "[v6]:port"; everything  *)
(* else (no port, bare IPv6, brackets without port, empty) is used as-is.  *)
(* What the rate limiter needs: the same host with different ports is ONE  *)
(* key; different hosts are different keys.                                *)
(***************************************************************************)
AddrForms == {"v4port", "v6port", "v4bare", "v6bare", "v6brackets", "empty", "hostport", "zoneport"}
ExtractCases ==
    {[form |-> f, host |-> h, port |-> p] : f \in AddrForms, h \in {1, 2}, p \in {1, 2}}
(* TRUE iff the key is the bare host (the port is stripped) *)
Strips(f) == f \in {"v4port", "v6port", "hostport", "zoneport"}
=============================================================================
