\* MCRpc_watch.cfg -- generated from checks/X_limits.py (job rpc_full_watch); run: tlc -config MCRpc_watch.cfg MCRpcLimits.tla
CONSTANTS
  Keys = {"a", "b"}
  Reqs = {1, 2}
  Kinds = {"plain"}
  CacheSize = 1
  Burst = 1
  Rate = 1
  MaxConns = 1
  RateOn = TRUE
  Atomic = FALSE
  DeferRelease = TRUE
  WatchTime = 2
  WatchEvict = 2
INIT MCInit
VIEW View
CHECK_DEADLOCK FALSE
NEXT MCNext
INVARIANTS TypeOK ConnBound SlotsMatchHandlers WsGaugeExact QuiescentFree CacheBound LimitersSound EvictionNeedsDistinctKeys WindowBound
