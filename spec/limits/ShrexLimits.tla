---------------------------- MODULE ShrexLimits ----------------------------
(***************************************************************************)
(* Admission control of the shrex server, transcribed from                 *)
(*   share/shwap/p2p/shrex/limits.go      SetResourceLimits: which scopes  *)
(*                                        get which stream / memory limits *)
(*   share/shwap/p2p/shrex/rate_limit.go  newPeerRateLimiter, remoteIP     *)
(*   share/shwap/p2p/shrex/server.go      streamHandler: SetService ->     *)
(*                                        rateLimiter.Allow -> store ->    *)
(*                                        ReserveMemory / ReleaseMemory -> *)
(*                                        Close | Reset                    *)
(*   go-libp2p p2p/host/resource-manager  the scopes a stream is counted   *)
(*                                        in, and when it leaves them      *)
(*   go-libp2p x/rate                     SubnetLimiter.Allow: per-address *)
(*                                        buckets in a heap ordered by the *)
(*                                        time they are full again + grace *)
(*                                                                         *)
(* ShrexServer.tla (C09) is ONE run of the handler with injected faults.   *)
(* This module is what lies around it: MANY streams of several peers and   *)
(* protocols competing for the resource manager's counters and for the     *)
(* per-address token buckets, with refusals produced by the limits         *)
(* themselves.                                                             *)
(*                                                                         *)
(* Two-tier enforcement (limits.go): the PROTOCOL scopes (protocol,        *)
(* protocol x peer) count a stream from the moment the host attached the   *)
(* protocol -- before the handler runs; the SERVICE scopes (service,       *)
(* service x peer) count it from SetService inside the handler, and hold   *)
(* the memory reserved with ReserveMemory.  Everything a stream holds is   *)
(* given back when its scope is done (Close / Reset of the stream).        *)
(*                                                                         *)
(* The rate limiter keys on the remote ADDRESS, not the peer: identities   *)
(* behind one address share a bucket; loopback is exempt; addresses that   *)
(* are not IP all share one bucket.  A bucket is dropped from the heap once *)
(* it has been full for Grace ticks -- by then it is indistinguishable     *)
(* from a new one, so, unlike the RPC server's LRU eviction, dropping it   *)
(* never grants anything (ExpiryGrantsNothing, WindowBound).  The heap has *)
(* no size bound: it is bounded only by the addresses seen during one      *)
(* refill-plus-grace period.                                               *)
(***************************************************************************)
EXTENDS Integers, Sequences, FiniteSets, TLC

CONSTANTS
    Peers, Protos, Streams,   \* Streams: a set of naturals (identities handed out smallest-first)
    PeerIP,                   \* [Peers -> address]; "lo" is loopback (exempt); "none" stands for every remote address that
                              \* does not start with an IP component: remoteIP maps them all to the invalid address, whose
                              \* prefix is the zero prefix -- ONE shared bucket (they are NOT refused, whatever the comment
                              \* on remoteIP says: netip.Addr{}.Prefix() returns no error)
    Need,                     \* [Protos -> memory units ReserveMemory asks for] (requestID.ResponseSize)
    ProtoLim, ProtoPeerLim,   \* [Protos -> inbound streams]  (AddProtocolLimit / AddProtocolPeerLimit)
    SvcLim, SvcPeerLim,       \* inbound streams              (AddServiceLimit / AddServicePeerLimit)
    SvcMem, SvcPeerMem,       \* memory units at the service scopes
    Burst, Rate, Grace,       \* bucket size, tokens per Tick, ticks a full bucket is kept
    RateOn,                   \* FALSE: CELESTIA_SHREX_DISABLE_RATE_LIMITING=1 (rateLimiter == nil)
    Atomic,                   \* TRUE: a handler runs from one gate to the next without interleaving
    CloseOnLimit,             \* TRUE = the code: a refused stream is reset (its scope is done); FALSE: defect configuration
    Hows,                     \* ways a response ends, subset of {"served", "failed", "panicked"}
    WatchTime

IPs == {PeerIP[p] : p \in Peers}
Limited(ip) == ip # "lo"

VARIABLES
    st,        \* [Streams -> [stage, peer, proto]], stage \in
               \*   "free"  not in use
               \*   "open"  the host attached the protocol; the handler has not started
               \*   "hsvc"  handler: about to call SetService          (transient)
               \*   "hrate" handler: about to call rateLimiter.Allow   (transient)
               \*   "svc"   handler waits for the store (GetByHeight)
               \*   "hmem"  handler: about to call ReserveMemory       (transient)
               \*   "held"  memory reserved, the response is being produced
    cProto, cProtoPeer, cSvc, cSvcPeer,   \* stream counters of the four scopes
    mSvc, mSvcPeer,                       \* memory counters of the service scopes
    bkt,       \* [IPs -> [on, tok, exp]]  exp = ticks until the bucket is dropped (full-again + grace)
    watch,     \* window observer for one address (auxiliary)
    lab, out   \* label / outcome of the last step (not part of the state identity)

core == <<st, cProto, cProtoPeer, cSvc, cSvcPeer, mSvc, mSvcPeer, bkt>>
vars == <<core, watch, lab, out>>

Min(S) == CHOOSE x \in S : \A y \in S : x <= y
AnyPeer == CHOOSE p \in Peers : TRUE
AnyProto == CHOOSE q \in Protos : TRUE
Free == [stage |-> "free", peer |-> AnyPeer, proto |-> AnyProto]
NoBkt == [on |-> FALSE, tok |-> 0, exp |-> 0]
CeilDiv(a, b) == IF b = 0 THEN 0 ELSE (a + b - 1) \div b
(* ticks until a bucket holding t tokens is full again, plus the grace period *)
ExpiryOf(t) == CeilDiv(Burst - t, Rate) + Grace

Transient == {"hsvc", "hrate", "hmem"}
Busy == {s \in Streams : st[s].stage \in Transient}
EnvMay == ~Atomic \/ Busy = {}
StrMay(s) == ~Atomic \/ Busy \subseteq {s}

NoWatch == [on |-> FALSE, ip |-> "lo", el |-> 0, cnt |-> 0]

Init ==
    /\ st = [s \in Streams |-> Free]
    /\ cProto = [q \in Protos |-> 0] /\ cProtoPeer = [q \in Protos |-> [p \in Peers |-> 0]]
    /\ cSvc = 0 /\ cSvcPeer = [p \in Peers |-> 0] /\ mSvc = 0 /\ mSvcPeer = [p \in Peers |-> 0]
    /\ bkt = [i \in IPs |-> NoBkt] /\ watch = NoWatch
    /\ lab = [op |-> "init"] /\ out = "-"

(* what a stream holds, by stage *)
InSvc(stage) == stage \in {"hrate", "svc", "hmem", "held"}
HoldsMem(stage) == stage = "held"

(* the stream's scope is done: every counter it is in goes down (rcmgr streamScope.Done) *)
Release(s) ==
    LET r == st[s] IN
    /\ cProto' = [cProto EXCEPT ![r.proto] = @ - 1]
    /\ cProtoPeer' = [cProtoPeer EXCEPT ![r.proto][r.peer] = @ - 1]
    /\ cSvc' = IF InSvc(r.stage) THEN cSvc - 1 ELSE cSvc
    /\ cSvcPeer' = IF InSvc(r.stage) THEN [cSvcPeer EXCEPT ![r.peer] = @ - 1] ELSE cSvcPeer
    /\ mSvc' = IF HoldsMem(r.stage) THEN mSvc - Need[r.proto] ELSE mSvc
    /\ mSvcPeer' = IF HoldsMem(r.stage) THEN [mSvcPeer EXCEPT ![r.peer] = @ - Need[r.proto]] ELSE mSvcPeer
    /\ st' = [st EXCEPT ![s] = Free]

(* a refusal inside the handler: ResetWithError -- the scope is done, unless the defect configuration *)
Refuse(s) ==
    IF CloseOnLimit THEN Release(s)
    ELSE /\ st' = [st EXCEPT ![s].stage = "open"]      \* the stream lingers, still counted where it was
         /\ UNCHANGED <<cProto, cProtoPeer, cSvc, cSvcPeer, mSvc, mSvcPeer>>

(* The host accepted a stream and attached the protocol: protocol and protocol x peer scopes.  A refusal
   here happens before any handler runs. *)
Open(s, p, q) ==
    /\ EnvMay /\ st[s].stage = "free" /\ s = Min({x \in Streams : st[x].stage = "free"})
    /\ lab' = [op |-> "open", s |-> s, peer |-> p, proto |-> q]
    /\ IF cProto[q] < ProtoLim[q] /\ cProtoPeer[q][p] < ProtoPeerLim[q]
       THEN /\ st' = [st EXCEPT ![s] = [stage |-> "open", peer |-> p, proto |-> q]]
            /\ cProto' = [cProto EXCEPT ![q] = @ + 1]
            /\ cProtoPeer' = [cProtoPeer EXCEPT ![q][p] = @ + 1]
            /\ out' = "opened"
       ELSE /\ out' = "refused-protocol" /\ UNCHANGED <<st, cProto, cProtoPeer>>
    /\ UNCHANGED <<cSvc, cSvcPeer, mSvc, mSvcPeer, bkt, watch>>

(* the handler starts *)
Handle(s) ==
    /\ EnvMay /\ st[s].stage = "open"
    /\ st' = [st EXCEPT ![s].stage = "hsvc"]
    /\ lab' = [op |-> "handle", s |-> s] /\ out' = "-"
    /\ UNCHANGED <<cProto, cProtoPeer, cSvc, cSvcPeer, mSvc, mSvcPeer, bkt, watch>>

(* s.Scope().SetService("shrex"): service and service x peer stream limits *)
SetService(s) ==
    /\ StrMay(s) /\ st[s].stage = "hsvc"
    /\ lab' = [op |-> "setservice", s |-> s]
    /\ LET p == st[s].peer IN
       IF cSvc < SvcLim /\ cSvcPeer[p] < SvcPeerLim
       THEN /\ cSvc' = cSvc + 1 /\ cSvcPeer' = [cSvcPeer EXCEPT ![p] = @ + 1]
            /\ st' = [st EXCEPT ![s].stage = "hrate"] /\ out' = "-"
            /\ UNCHANGED <<cProto, cProtoPeer, mSvc, mSvcPeer>>
       ELSE out' = "refused-service" /\ Refuse(s)
    /\ UNCHANGED <<bkt, watch>>

(* srv.rateLimiter.Allow(remoteIP(s)): buckets that have been full for Grace are dropped first (cleanUp
   runs inside every Allow; dropping at the Tick is the same function), then the address' bucket -- a new
   full one if there is none -- gives a token or refuses. *)
RateCheck(s) ==
    /\ StrMay(s) /\ st[s].stage = "hrate"
    /\ lab' = [op |-> "rate", s |-> s]
    /\ LET ip == PeerIP[st[s].peer]
           b == IF bkt[ip].on THEN bkt[ip] ELSE [on |-> TRUE, tok |-> Burst, exp |-> Grace]
           ok == ~RateOn \/ ip = "lo" \/ b.tok >= 1
       IN /\ IF ok
             THEN /\ st' = [st EXCEPT ![s].stage = "svc"] /\ out' = "handling"
                  /\ UNCHANGED <<cProto, cProtoPeer, cSvc, cSvcPeer, mSvc, mSvcPeer>>
             ELSE out' = "rate-limited" /\ Refuse(s)
          /\ bkt' = IF RateOn /\ Limited(ip) /\ b.tok >= 1
                    THEN [bkt EXCEPT ![ip] = [on |-> TRUE, tok |-> b.tok - 1, exp |-> ExpiryOf(b.tok - 1)]]
                    ELSE bkt       \* a refusal does not touch the heap (the bucket was not even inserted)
          /\ watch' = IF ok /\ watch.on /\ watch.ip = ip THEN [watch EXCEPT !.cnt = @ + 1] ELSE watch

(* the store answered; the handler goes on to reserve memory (go = "reserve"), or ends without a
   reservation: NOT_FOUND / error / panic inside the store (go = "end") *)
StoreAnswers(s, go) ==
    /\ EnvMay /\ st[s].stage = "svc"
    /\ lab' = [op |-> "store", s |-> s, go |-> go]
    /\ IF go = "reserve"
       THEN /\ st' = [st EXCEPT ![s].stage = "hmem"] /\ out' = "-"
            /\ UNCHANGED <<cProto, cProtoPeer, cSvc, cSvcPeer, mSvc, mSvcPeer>>
       ELSE out' = "closed" /\ Release(s)
    /\ UNCHANGED <<bkt, watch>>

(* stream.Scope().ReserveMemory(ResponseSize, ReservationPriorityAlways) at service and service x peer *)
Reserve(s) ==
    /\ StrMay(s) /\ st[s].stage = "hmem"
    /\ lab' = [op |-> "reserve", s |-> s]
    /\ LET p == st[s].peer
           n == Need[st[s].proto]
       IN IF mSvc + n <= SvcMem /\ mSvcPeer[p] + n <= SvcPeerMem
          THEN /\ mSvc' = mSvc + n /\ mSvcPeer' = [mSvcPeer EXCEPT ![p] = @ + n]
               /\ st' = [st EXCEPT ![s].stage = "held"] /\ out' = "reserved"
               /\ UNCHANGED <<cProto, cProtoPeer, cSvc, cSvcPeer>>
          ELSE out' = "refused-memory" /\ Refuse(s)
    /\ UNCHANGED <<bkt, watch>>

(* the response was produced (or failed / panicked): the deferred ReleaseMemory runs, the stream is closed
   or reset, its scope is done *)
Finish(s, how) ==
    /\ EnvMay /\ st[s].stage = "held"
    /\ lab' = [op |-> "finish", s |-> s, how |-> how] /\ out' = how
    /\ Release(s)
    /\ UNCHANGED <<bkt, watch>>

(* the remote side resets a stream the handler has not been started for *)
RemoteReset(s) ==
    /\ EnvMay /\ st[s].stage = "open"
    /\ lab' = [op |-> "remotereset", s |-> s] /\ out' = "closed"
    /\ Release(s)
    /\ UNCHANGED <<bkt, watch>>

Tick ==
    /\ EnvMay
    /\ watch.on => watch.el < WatchTime
    /\ bkt' = [i \in IPs |->
                 IF ~bkt[i].on THEN NoBkt
                 ELSE IF bkt[i].exp <= 1 THEN NoBkt
                 ELSE [on |-> TRUE, tok |-> (IF bkt[i].tok + Rate > Burst THEN Burst ELSE bkt[i].tok + Rate), exp |-> bkt[i].exp - 1]]
    /\ watch' = IF watch.on THEN [watch EXCEPT !.el = @ + 1] ELSE watch
    /\ lab' = [op |-> "tick"] /\ out' = "-"
    /\ UNCHANGED <<st, cProto, cProtoPeer, cSvc, cSvcPeer, mSvc, mSvcPeer>>

StartWatch(i) ==
    /\ ~watch.on /\ Limited(i)
    /\ watch' = [on |-> TRUE, ip |-> i, el |-> 0, cnt |-> 0]
    /\ lab' = [op |-> "watch"] /\ out' = "-"
    /\ UNCHANGED core

SysNext ==
    \/ \E s \in Streams, p \in Peers, q \in Protos : Open(s, p, q)
    \/ \E s \in Streams : Handle(s) \/ SetService(s) \/ RateCheck(s) \/ Reserve(s) \/ RemoteReset(s)
    \/ \E s \in Streams, go \in {"reserve", "end"} : StoreAnswers(s, go)
    \/ \E s \in Streams, how \in Hows : Finish(s, how)
    \/ Tick
Next == SysNext \/ \E i \in IPs : StartWatch(i)

Spec == Init /\ [][Next]_vars

-----------------------------------------------------------------------------
Using(stages) == {s \in Streams : st[s].stage \in stages}
Counted == {"open", "hsvc", "hrate", "svc", "hmem", "held"}
SvcStages == {"hrate", "svc", "hmem", "held"}

TypeOK ==
    /\ \A s \in Streams : st[s].stage \in Counted \cup {"free"}
    /\ \A i \in IPs : bkt[i].tok \in 0..Burst /\ bkt[i].exp \in 0..(CeilDiv(Burst, Rate) + Grace)
    /\ \A i \in IPs : ~Limited(i) => ~bkt[i].on

(* every counter is exactly the number of live streams in that scope: taken once, given back once on
   every way out (served, failed, panic, refusal at any layer, remote reset) *)
CountersExact ==
    /\ \A q \in Protos : cProto[q] = Cardinality({s \in Using(Counted) : st[s].proto = q})
    /\ \A q \in Protos, p \in Peers : cProtoPeer[q][p] = Cardinality({s \in Using(Counted) : st[s].proto = q /\ st[s].peer = p})
    /\ cSvc = Cardinality(Using(SvcStages))
    /\ \A p \in Peers : cSvcPeer[p] = Cardinality({s \in Using(SvcStages) : st[s].peer = p})

SumNeed(S) == LET RECURSIVE Sum(_)
                  Sum(T) == IF T = {} THEN 0 ELSE LET x == CHOOSE y \in T : TRUE IN Need[st[x].proto] + Sum(T \ {x})
              IN Sum(S)
MemoryExact ==
    /\ mSvc = SumNeed(Using({"held"}))
    /\ \A p \in Peers : mSvcPeer[p] = SumNeed({s \in Using({"held"}) : st[s].peer = p})

(* the limits hold *)
WithinLimits ==
    /\ \A q \in Protos : cProto[q] <= ProtoLim[q] /\ \A p \in Peers : cProtoPeer[q][p] <= ProtoPeerLim[q]
    /\ cSvc <= SvcLim /\ \A p \in Peers : cSvcPeer[p] <= SvcPeerLim
    /\ mSvc <= SvcMem /\ \A p \in Peers : mSvcPeer[p] <= SvcPeerMem

(* when no stream is alive nothing is held *)
QuiescentFree ==
    (\A s \in Streams : st[s].stage = "free") =>
        (cSvc = 0 /\ mSvc = 0 /\ \A q \in Protos : cProto[q] = 0)

(* a bucket is dropped only when it is full: dropping it grants nothing *)
ExpiryGrantsNothing == \A i \in IPs : (bkt[i].on /\ bkt[i].exp <= 1 /\ Rate > 0) => bkt[i].tok + Rate >= Burst
(* a bucket is kept at least until it is full again *)
BucketKeptWhileNotFull == \A i \in IPs : (bkt[i].on /\ Rate > 0) => bkt[i].exp >= CeilDiv(Burst - bkt[i].tok, Rate)

(* in any window of el ticks at most Burst + Rate * el requests of one address reach the store, whatever
   the number of peer identities behind the address, whatever buckets were dropped in between *)
WindowBound == watch.on => watch.cnt <= Burst + Rate * watch.el

(* addresses are independent: a step of a stream of another address leaves the bucket alone *)
AddressesIndependent ==
    [][\A s \in Streams, i \in IPs :
          (lab'.op = "rate" /\ lab'.s = s /\ PeerIP[st[s].peer] # i) => bkt'[i] = bkt[i]]_vars

(* a refused stream never reaches the store: the step that refuses a stream ends it (or, refused at the
   protocol scope, it never existed); only a stream that passed SetService and the rate check waits for
   the store *)
RefusedStreamEnds ==
    [][\A s \in Streams :
          (out' \in {"refused-service", "rate-limited", "refused-memory"} /\ lab'.s = s) => st'[s].stage = "free"]_vars

(* liveness: streams that are handled end; full counters do not stay full *)
FairSpec ==
    /\ Spec
    /\ \A s \in Streams : WF_vars(SetService(s) \/ RateCheck(s) \/ Reserve(s))
    /\ \A s \in Streams : WF_vars(Handle(s))
    /\ \A s \in Streams : WF_vars(\E go \in {"reserve", "end"} : StoreAnswers(s, go))
    /\ \A s \in Streams : WF_vars(\E how \in Hows : Finish(s, how))
    /\ WF_vars(Tick)
StreamsEnd == \A s \in Streams : (st[s].stage # "free") ~> (st[s].stage = "free")
ServiceSlotsComeBack == (cSvc = SvcLim) ~> (cSvc < SvcLim)
MemoryComesBack == (mSvc > 0) ~> (mSvc = 0)

-----------------------------------------------------------------------------
(***************************************************************************)
(* remoteIP + the prefix table of newPeerRateLimiter (case enumeration).   *)
(* class of the remote multiaddr -> how the limiter treats it:             *)
(*   "bucket:<k>"  limited, shares the bucket k                            *)
(*   "exempt"      loopback (127.0.0.0/8, ::1)                             *)
(* An address that does not START with an IP component (dns) becomes the   *)
(* invalid netip.Addr; its Prefix() is the zero prefix WITHOUT an error,   *)
(* so all such addresses share one bucket "NOIP" (the comment on remoteIP  *)
(* claims they are refused).                                               *)
(* A circuit-relay address starts with the RELAY's IP, so manet.ToIP       *)
(* yields that: relayed peers are not denied (as the comment on remoteIP   *)
(* says) but share the bucket of their relay's address.                    *)
(***************************************************************************)
AddrClasses == {"ip4", "ip4other", "ip4mapped6", "quic4", "relayvia4", "ip6", "ip6other", "lo4", "lo4high", "lo6", "dns", "dnsother"}
Treatment(c) ==
    CASE c \in {"ip4", "ip4mapped6", "quic4", "relayvia4"} -> "bucket:A4"   \* ::ffff:a.b.c.d is unmapped: the bucket of a.b.c.d
      [] c = "ip4other"                       -> "bucket:B4"
      [] c = "ip6"                            -> "bucket:A6"
      [] c = "ip6other"                       -> "bucket:B6"
      [] c \in {"lo4", "lo4high", "lo6"}      -> "exempt"
      [] c \in {"dns", "dnsother"}            -> "bucket:NOIP"
=============================================================================
