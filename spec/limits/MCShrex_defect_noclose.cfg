\* MCShrex_defect_noclose.cfg -- generated from checks/X_limits.py (job sh_defect_noclose); run: tlc -config MCShrex_defect_noclose.cfg MCShrexLimits.tla
CONSTANTS
  Peers = {1, 2}
  Protos = {1, 2}
  Streams = {1, 2}
  PeerIP <- MCPeerIP
  Need <- MCNeed
  ProtoLim <- MCProtoLim
  ProtoPeerLim <- MCProtoPeerLim
  IP1 = "x"
  IP2 = "y"
  IP3 = "lo"
  IP4 = "none"
  Need1 = 4
  Need2 = 1
  ProtoLim1 = 2
  ProtoLim2 = 3
  ProtoPeerLim1 = 1
  ProtoPeerLim2 = 2
  SvcLim = 1
  SvcPeerLim = 2
  SvcMem = 5
  SvcPeerMem = 4
  Burst = 2
  Rate = 1
  Grace = 1
  RateOn = TRUE
  Atomic = FALSE
  CloseOnLimit = FALSE
  WatchTime = 0
  Hows = {"served", "failed", "panicked"}
INIT MCInit
VIEW View
CHECK_DEADLOCK FALSE
NEXT MCNextNoWatch
INVARIANTS CountersExact
