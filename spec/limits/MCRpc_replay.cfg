\* MCRpc_replay.cfg -- generated from checks/X_limits.py (job rpc_replay_a); run: tlc -config MCRpc_replay.cfg MCRpcLimits.tla
CONSTANTS
  Keys = {"a", "b", "c"}
  Reqs = {1, 2, 3}
  Kinds = {"plain", "ws"}
  CacheSize = 2
  Burst = 2
  Rate = 1
  MaxConns = 2
  RateOn = TRUE
  Atomic = TRUE
  DeferRelease = TRUE
  WatchTime = 0
  WatchEvict = 0
INIT MCInit
NEXT MCNextNoWatch
VIEW ViewReplay
ACTION_CONSTRAINT EdgeOut
INVARIANTS TypeOK ConnBound SlotsMatchHandlers WsGaugeExact QuiescentFree CacheBound LimitersSound EvictionNeedsDistinctKeys InitOut ExtractOut
CHECK_DEADLOCK FALSE
