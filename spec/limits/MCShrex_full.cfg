\* every interleaving of handler steps of three streams, two peers, two protocols (scopes only)
CONSTANTS
  Peers = {1, 2}
  Protos = {1, 2}
  Streams = {1, 2, 3}
  PeerIP <- MCPeerIP
  Need <- MCNeed
  ProtoLim <- MCProtoLim
  ProtoPeerLim <- MCProtoPeerLim
  IP1 = "x"
  IP2 = "y"
  IP3 = "lo"
  IP4 = "none"
  Need1 = 4
  Need2 = 1
  ProtoLim1 = 2
  ProtoLim2 = 3
  ProtoPeerLim1 = 1
  ProtoPeerLim2 = 2
  SvcLim = 3
  SvcPeerLim = 2
  SvcMem = 5
  SvcPeerMem = 4
  Burst = 2
  Rate = 1
  Grace = 1
  RateOn = FALSE
  Atomic = FALSE
  CloseOnLimit = TRUE
  Hows = {"served", "failed", "panicked"}
  WatchTime = 0
INIT MCInit
NEXT MCNextNoWatch
VIEW View
INVARIANTS TypeOK CountersExact MemoryExact WithinLimits QuiescentFree ExpiryGrantsNothing BucketKeptWhileNotFull
PROPERTIES RefusedStreamEnds
CHECK_DEADLOCK FALSE
