\* MCShrex_rate.cfg -- generated from checks/X_limits.py (job sh_full_rate); run: tlc -config MCShrex_rate.cfg MCShrexLimits.tla
CONSTANTS
  Peers = {1, 2, 3}
  Protos = {1}
  Streams = {1, 2}
  PeerIP <- MCPeerIP
  Need <- MCNeed
  ProtoLim <- MCProtoLim
  ProtoPeerLim <- MCProtoPeerLim
  IP1 = "x"
  IP2 = "x"
  IP3 = "y"
  IP4 = "none"
  Need1 = 4
  Need2 = 1
  ProtoLim1 = 9
  ProtoLim2 = 3
  ProtoPeerLim1 = 9
  ProtoPeerLim2 = 2
  SvcLim = 9
  SvcPeerLim = 9
  SvcMem = 99
  SvcPeerMem = 99
  Burst = 2
  Rate = 1
  Grace = 1
  RateOn = TRUE
  Atomic = FALSE
  CloseOnLimit = TRUE
  WatchTime = 3
  Hows = {"served", "failed", "panicked"}
INIT MCInit
VIEW View
CHECK_DEADLOCK FALSE
NEXT MCNext
INVARIANTS TypeOK CountersExact MemoryExact WithinLimits QuiescentFree ExpiryGrantsNothing BucketKeptWhileNotFull WindowBound
PROPERTIES AddressesIndependent RefusedStreamEnds
