---------------------------- MODULE MCRpcLimits ----------------------------
(***************************************************************************)
(* Model-checking wrapper of RpcLimits.                                    *)
(*  - View: the labels of the last step (lab, out) are not part of the     *)
(*    state identity.                                                      *)
(*  - EdgeOut (ACTION_CONSTRAINT of the Atomic replay configurations):     *)
(*    prints every transition of the state graph once, as                  *)
(*    <<"EDGE", json([f, l, o, t, p])>>: source state, label, outcome,     *)
(*    target state and the projection of the target the Go driver compares *)
(*    with the real middleware.  checks/X_limits.py turns the graph into a *)
(*    set of paths that covers every edge.                                 *)
(*  - hist: random behaviours of larger instances (`-simulate file=...`):  *)
(*    the last state of every trace file carries the whole behaviour.      *)
(*  - ExtractCases: the case enumeration for extractIP.                    *)
(***************************************************************************)
EXTENDS RpcLimits, Json

VARIABLE hist

mcvars == <<vars, hist>>
View == <<core, watch>>
(* replay graph: the auxiliary variables do not influence the behaviour and are left out of the identity *)
ViewReplay == <<pc, rkey, rkind, rlim, cache, live, tok, sem, wsOpen>>

(* what the driver can observe of the real middleware between two stimuli *)
Proj == [cache |-> [i \in 1..Len(cache) |-> [k |-> cache[i][1], t |-> tok[cache[i]]]],
         sem |-> sem, ws |-> wsOpen,
         inh |-> [r \in Reqs |-> IF pc[r] = "handler" THEN rkind[r] ELSE "-"],
         quiet |-> (Busy = {})]

(* identity of a state of the Atomic graph, serialisable *)
Sid == [pc |-> pc, rk |-> rkey, rd |-> rkind, rl |-> rlim,
        c |-> [i \in 1..Len(cache) |-> <<cache[i][1], cache[i][2], tok[cache[i]]>>],
        sem |-> sem, ws |-> wsOpen]

MCInit == Init /\ hist = <<>>
(* one named action per disjunct, so that TLC's coverage statistics are per action *)
MCArrive == (\E r \in Reqs, k \in Keys, kind \in Kinds : Arrive(r, k, kind)) /\ hist' = <<>>
MCCacheGet == (\E r \in Reqs : CacheGet(r)) /\ hist' = <<>>
MCCacheAdd == (\E r \in Reqs : CacheAdd(r)) /\ hist' = <<>>
MCAllow == (\E r \in Reqs : Allow(r)) /\ hist' = <<>>
MCAcquire == (\E r \in Reqs : Acquire(r)) /\ hist' = <<>>
MCFinish == (\E r \in Reqs, how \in {"returned", "panicked", "cancelled"} : Finish(r, how)) /\ hist' = <<>>
MCTick == Tick /\ hist' = <<>>
MCNextNoWatch == MCArrive \/ MCCacheGet \/ MCCacheAdd \/ MCAllow \/ MCAcquire \/ MCFinish \/ MCTick
MCStartWatch == (\E k \in Keys : StartWatch(k)) /\ hist' = <<>>
MCNext == MCNextNoWatch \/ MCStartWatch
MCSimNext == SysNext /\ hist' = Append(hist, [l |-> lab', o |-> out', p |-> Proj'])

EdgeOut == PrintT(<<"EDGE", ToJson([f |-> Sid, l |-> lab', o |-> out', t |-> Sid', p |-> Proj'])>>)
InitOut == (lab.op = "init") => PrintT(<<"INIT", ToJson([f |-> Sid, p |-> Proj])>>)

(* liveness configurations: the fairness of RpcLimits!FairSpec, with the history variable pinned *)
H(A) == A /\ hist' = <<>>
MCFairSpecNoWatch ==
              /\ MCInit /\ [][MCNextNoWatch]_mcvars
              /\ \A r \in Reqs : WF_mcvars(H(CacheGet(r) \/ CacheAdd(r) \/ Allow(r) \/ Acquire(r)))
              /\ \A q \in Reqs : WF_mcvars(H(\E how \in {"returned", "panicked", "cancelled"} : Finish(q, how)))
              /\ WF_mcvars(H(Tick))

(* extractIP cases (printed once, from the initial state) *)
ExtractOut == (lab.op = "init") =>
    \A c \in ExtractCases : PrintT(<<"XCASE", ToJson([form |-> c.form, host |-> c.host, port |-> c.port, strips |-> Strips(c.form)])>>)
=============================================================================
