\* every interleaving of the critical sections; all invariants, the window observer, action properties
CONSTANTS
  Keys = {"a", "b"}
  Reqs = {1, 2, 3}
  Kinds = {"plain", "ws"}
  CacheSize = 1
  Burst = 1
  Rate = 1
  MaxConns = 2
  RateOn = TRUE
  Atomic = FALSE
  DeferRelease = TRUE
  WatchTime = 2
  WatchEvict = 2
INIT MCInit
NEXT MCNext
VIEW View
INVARIANTS TypeOK ConnBound SlotsMatchHandlers WsGaugeExact QuiescentFree CacheBound LimitersSound EvictionNeedsDistinctKeys WindowBound NoStaleWhenAtomic
PROPERTIES KeysIndependent TokensOnlyRefillByTime
CHECK_DEADLOCK FALSE
