\* MCRpc_full.cfg -- generated from checks/X_limits.py (job rpc_full_nowatch); run: tlc -config MCRpc_full.cfg MCRpcLimits.tla
CONSTANTS
  Keys = {"a", "b"}
  Reqs = {1, 2, 3}
  Kinds = {"plain", "ws"}
  CacheSize = 1
  Burst = 1
  Rate = 1
  MaxConns = 2
  RateOn = TRUE
  Atomic = FALSE
  DeferRelease = TRUE
  WatchTime = 0
  WatchEvict = 0
INIT MCInit
VIEW View
CHECK_DEADLOCK FALSE
NEXT MCNextNoWatch
INVARIANTS TypeOK ConnBound SlotsMatchHandlers WsGaugeExact QuiescentFree CacheBound LimitersSound EvictionNeedsDistinctKeys
PROPERTIES KeysIndependent TokensOnlyRefillByTime
