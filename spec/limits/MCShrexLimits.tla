--------------------------- MODULE MCShrexLimits ---------------------------
(***************************************************************************)
(* Model-checking wrapper of ShrexLimits (same devices as MCRpcLimits):    *)
(* View / ViewReplay, EdgeOut for the serialised state graph, hist for     *)
(* seeded simulations, AddrOut for the remoteIP / prefix-table cases.      *)
(* Peers and Protos are 1..n so that the per-peer / per-protocol constants *)
(* can be written as tuples in a .cfg file.                                *)
(***************************************************************************)
EXTENDS ShrexLimits, Json

(* scalar constants a .cfg file can state; the function-valued constants of ShrexLimits are built from them
   (PeerIP <- MCPeerIP etc.).  Unused positions are ignored. *)
CONSTANTS IP1, IP2, IP3, IP4, Need1, Need2, ProtoLim1, ProtoLim2, ProtoPeerLim1, ProtoPeerLim2
MCPeerIP == [p \in Peers |-> CASE p = 1 -> IP1 [] p = 2 -> IP2 [] p = 3 -> IP3 [] OTHER -> IP4]
MCNeed == [q \in Protos |-> IF q = 1 THEN Need1 ELSE Need2]
MCProtoLim == [q \in Protos |-> IF q = 1 THEN ProtoLim1 ELSE ProtoLim2]
MCProtoPeerLim == [q \in Protos |-> IF q = 1 THEN ProtoPeerLim1 ELSE ProtoPeerLim2]

VARIABLE hist
mcvars == <<vars, hist>>
View == <<core, watch>>
ViewReplay == <<st, cProto, cProtoPeer, cSvc, cSvcPeer, mSvc, mSvcPeer, bkt>>

SumOver(S, f(_)) == LET RECURSIVE Sm(_)
                        Sm(T) == IF T = {} THEN 0 ELSE LET x == CHOOSE y \in T : TRUE IN f(x) + Sm(T \ {x})
                    IN Sm(S)

(* what the driver reads from the real resource manager (rcmgr Stat) and its own bookkeeping *)
Proj == [svc |-> cSvc, mem |-> mSvc,
         proto |-> [q \in Protos |-> cProto[q]],
         peer |-> [p \in Peers |-> LET F(q) == cProtoPeer[q][p] IN SumOver(Protos, F)],
         peermem |-> [p \in Peers |-> mSvcPeer[p]],
         stage |-> [s \in Streams |-> st[s].stage],
         quiet |-> (Busy = {})]

Sid == [st |-> st, a |-> cProto, b |-> cProtoPeer, c |-> cSvc, d |-> cSvcPeer, e |-> mSvc, f |-> mSvcPeer,
        k |-> [i \in IPs |-> <<bkt[i].on, bkt[i].tok, bkt[i].exp>>]]

MCInit == Init /\ hist = <<>>
(* one named action per disjunct, so that TLC's coverage statistics are per action *)
MCOpen == (\E s \in Streams, p \in Peers, q \in Protos : Open(s, p, q)) /\ hist' = <<>>
MCHandle == (\E s \in Streams : Handle(s)) /\ hist' = <<>>
MCSetService == (\E s \in Streams : SetService(s)) /\ hist' = <<>>
MCRateCheck == (\E s \in Streams : RateCheck(s)) /\ hist' = <<>>
MCStoreAnswers == (\E s \in Streams, go \in {"reserve", "end"} : StoreAnswers(s, go)) /\ hist' = <<>>
MCReserve == (\E s \in Streams : Reserve(s)) /\ hist' = <<>>
MCFinish == (\E s \in Streams, how \in Hows : Finish(s, how)) /\ hist' = <<>>
MCRemoteReset == (\E s \in Streams : RemoteReset(s)) /\ hist' = <<>>
MCTick == Tick /\ hist' = <<>>
MCNextNoWatch == MCOpen \/ MCHandle \/ MCSetService \/ MCRateCheck \/ MCStoreAnswers \/ MCReserve \/ MCFinish
                 \/ MCRemoteReset \/ MCTick
MCStartWatch == (\E i \in IPs : StartWatch(i)) /\ hist' = <<>>
MCNext == MCNextNoWatch \/ MCStartWatch
MCSimNext == SysNext /\ hist' = Append(hist, [l |-> lab', o |-> out', p |-> Proj'])

EdgeOut == PrintT(<<"EDGE", ToJson([f |-> Sid, l |-> lab', o |-> out', t |-> Sid', p |-> Proj'])>>)
InitOut == (lab.op = "init") => PrintT(<<"INIT", ToJson([f |-> Sid, p |-> Proj])>>)
AddrOut == (lab.op = "init") =>
    \A c \in AddrClasses : PrintT(<<"ACASE", ToJson([class |-> c, treat |-> Treatment(c)])>>)

H(A) == A /\ hist' = <<>>
MCFairSpecNoWatch ==
    /\ MCInit /\ [][MCNextNoWatch]_mcvars
    /\ \A s \in Streams : WF_mcvars(H(SetService(s) \/ RateCheck(s) \/ Reserve(s)))
    /\ \A s \in Streams : WF_mcvars(H(Handle(s)))
    /\ \A s \in Streams : WF_mcvars(H(\E go \in {"reserve", "end"} : StoreAnswers(s, go)))
    /\ \A s \in Streams : WF_mcvars(H(\E how \in Hows : Finish(s, how)))
    /\ WF_mcvars(H(Tick))
=============================================================================
