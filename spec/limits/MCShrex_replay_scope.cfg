\* serialised handler steps; the state graph is printed edge by edge and replayed on the real server
CONSTANTS
  Peers = {1, 2}
  Protos = {1, 2}
  Streams = {1, 2, 3}
  PeerIP <- MCPeerIP
  Need <- MCNeed
  ProtoLim <- MCProtoLim
  ProtoPeerLim <- MCProtoPeerLim
  IP1 = "x"
  IP2 = "y"
  IP3 = "lo"
  IP4 = "none"
  Need1 = 4
  Need2 = 1
  ProtoLim1 = 2
  ProtoLim2 = 3
  ProtoPeerLim1 = 1
  ProtoPeerLim2 = 2
  SvcLim = 3
  SvcPeerLim = 2
  SvcMem = 5
  SvcPeerMem = 4
  Burst = 2
  Rate = 1
  Grace = 1
  RateOn = FALSE
  Atomic = TRUE
  CloseOnLimit = TRUE
  Hows = {"served", "failed", "panicked"}
  WatchTime = 0
INIT MCInit
NEXT MCNextNoWatch
VIEW ViewReplay
ACTION_CONSTRAINT EdgeOut
INVARIANTS TypeOK CountersExact MemoryExact WithinLimits QuiescentFree ExpiryGrantsNothing BucketKeptWhileNotFull InitOut AddrOut
CHECK_DEADLOCK FALSE
