\* MCRpc_defect_naive_window.cfg -- generated from checks/X_limits.py (job rpc_defect_naive_window); run: tlc -config MCRpc_defect_naive_window.cfg MCRpcLimits.tla
CONSTANTS
  Keys = {"a", "b"}
  Reqs = {1, 2, 3}
  Kinds = {"plain"}
  CacheSize = 1
  Burst = 1
  Rate = 1
  MaxConns = 2
  RateOn = TRUE
  Atomic = FALSE
  DeferRelease = TRUE
  WatchTime = 1
  WatchEvict = 1
INIT MCInit
VIEW View
CHECK_DEADLOCK FALSE
NEXT MCNext
INVARIANTS NaiveWindowBound
