\* MCRpc_defect_nodefer.cfg -- generated from checks/X_limits.py (job rpc_defect_nodefer); run: tlc -config MCRpc_defect_nodefer.cfg MCRpcLimits.tla
CONSTANTS
  Keys = {"a"}
  Reqs = {1, 2}
  Kinds = {"plain", "ws"}
  CacheSize = 1
  Burst = 1
  Rate = 1
  MaxConns = 2
  RateOn = TRUE
  Atomic = FALSE
  DeferRelease = FALSE
  WatchTime = 0
  WatchEvict = 0
INIT MCInit
VIEW View
CHECK_DEADLOCK FALSE
NEXT MCNextNoWatch
INVARIANTS SlotsMatchHandlers
