\* MCShrex_live.cfg -- generated from checks/X_limits.py (job sh_live); run: tlc -config MCShrex_live.cfg MCShrexLimits.tla
CONSTANTS
  Peers = {1, 2}
  Protos = {1}
  Streams = {1, 2}
  PeerIP <- MCPeerIP
  Need <- MCNeed
  ProtoLim <- MCProtoLim
  ProtoPeerLim <- MCProtoPeerLim
  IP1 = "x"
  IP2 = "y"
  IP3 = "lo"
  IP4 = "none"
  Need1 = 4
  Need2 = 1
  ProtoLim1 = 2
  ProtoLim2 = 3
  ProtoPeerLim1 = 1
  ProtoPeerLim2 = 2
  SvcLim = 1
  SvcPeerLim = 2
  SvcMem = 4
  SvcPeerMem = 4
  Burst = 2
  Rate = 1
  Grace = 1
  RateOn = TRUE
  Atomic = FALSE
  CloseOnLimit = TRUE
  WatchTime = 0
  Hows = {"served", "failed", "panicked"}
SPECIFICATION MCFairSpecNoWatch
VIEW View
PROPERTIES StreamsEnd ServiceSlotsComeBack
CHECK_DEADLOCK FALSE
