\* MCShrex_replay_mix.cfg -- generated from checks/X_limits.py (job sh_replay_mix); run: tlc -config MCShrex_replay_mix.cfg MCShrexLimits.tla
CONSTANTS
  Peers = {1, 2}
  Protos = {1}
  Streams = {1, 2, 3}
  PeerIP <- MCPeerIP
  Need <- MCNeed
  ProtoLim <- MCProtoLim
  ProtoPeerLim <- MCProtoPeerLim
  IP1 = "x"
  IP2 = "x"
  IP3 = "lo"
  IP4 = "none"
  Need1 = 4
  Need2 = 1
  ProtoLim1 = 9
  ProtoLim2 = 3
  ProtoPeerLim1 = 9
  ProtoPeerLim2 = 2
  SvcLim = 1
  SvcPeerLim = 1
  SvcMem = 99
  SvcPeerMem = 99
  Burst = 2
  Rate = 1
  Grace = 1
  RateOn = TRUE
  Atomic = TRUE
  CloseOnLimit = TRUE
  WatchTime = 0
  Hows = {"served", "failed", "panicked"}
INIT MCInit
NEXT MCNextNoWatch
VIEW ViewReplay
ACTION_CONSTRAINT EdgeOut
INVARIANTS TypeOK CountersExact MemoryExact WithinLimits QuiescentFree ExpiryGrantsNothing BucketKeptWhileNotFull InitOut AddrOut
CHECK_DEADLOCK FALSE
