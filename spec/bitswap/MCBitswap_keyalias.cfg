\* Sensitivity of RegistryKeyInjective: a registry keyed by the identifier bytes (b shares a's key).
\* Expected to be VIOLATED; not a verdict on the code.
SPECIFICATION Spec
CONSTANTS
  IDs = {"a", "b"}
  WideIDs = {}
  WideBase <- NoWide
  RefuseWide = TRUE
  Fetchers = {"f1", "f2"}
  Wants <- WantsCross
  Threads = {"t1"}
  MaxMsgs = 0
  Bodies <- BodiesAB
  PopulatedShortcut = FALSE
  KeyAlias <- AliasBA
  RecordHist = FALSE
INVARIANTS
  RegistryKeyInjective
CHECK_DEADLOCK FALSE
