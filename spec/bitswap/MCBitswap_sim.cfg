\* C10 behaviour generation (B2): random behaviours with the action history, printed when every Fetch
\* has returned; run with  -simulate num=N  -depth 60
SPECIFICATION Spec
CONSTANTS
  IDs = {"a", "b"}
  WideIDs = {}
  WideBase <- NoWide
  RefuseWide = TRUE
  Fetchers = {"f1", "f2"}
  Wants <- Wants2
  Threads = {"t1", "t2"}
  MaxMsgs = 5
  Bodies <- BodiesCore
  PopulatedShortcut = FALSE
  KeyAlias <- NoWide
  RecordHist = TRUE
INVARIANTS
  HasherAcceptsOnlyVerified
  NoPanic
  StoredOnlyVerified
  RegistryKeyInjective
  TypeOK
  FilledOnlyIfVerified
  ServedBlockAccepted
  LockReleased
  EmitBehaviour
CONSTRAINT
  SimFocus
CHECK_DEADLOCK FALSE
