\* DoneMeansFilled is expected to be VIOLATED by the model of the current code: the hasher may hold the registry
\* entry of a Fetch that has already returned (stale entry), fill that dead Block, and the block is then handed to a
\* later Fetch of the same CID, which returns nil with an empty container.  The check replays the counterexample on
\* the real code; only a reproduced behaviour counts (known finding).
SPECIFICATION Spec
CONSTANTS
  IDs = {"a"}
  WideIDs = {}
  WideBase <- NoWide
  RefuseWide = TRUE
  Fetchers = {"f1", "f2"}
  Wants <- WantsSame
  Threads = {"t1"}
  MaxMsgs = 2
  Bodies <- BodiesTiny
  PopulatedShortcut = FALSE
  KeyAlias <- NoWide
  RecordHist = FALSE
INVARIANTS
  DoneMeansFilled
CHECK_DEADLOCK FALSE
