------------------------------- MODULE Bitswap -------------------------------
(***************************************************************************)
(* Acceptance of Bitswap blocks in celestia-node (share/shwap/p2p/bitswap).*)
(*                                                                         *)
(* Property C10: a block received over Bitswap fills a pending request     *)
(* only if it carries exactly the requested identifier and its container   *)
(* verifies against the requester's header; any other bytes are rejected   *)
(* and leave the request unfulfilled; identifier <-> CID is a bijection;   *)
(* the block a serving node produces always passes.                        *)
(*                                                                         *)
(* The model is shaped like the code:                                      *)
(*   block_fetch.go  fetch():  per block  LoadOrStore(cid, entry)  (dupli- *)
(*                   cates marked), GetBlocks, loop over the channel       *)
(*                   (duplicate => unmarshal again, panic on error; else   *)
(*                   store), deferred Delete by the original requester     *)
(*   block_fetch.go  hasher.write(): decode envelope -> cast + validate    *)
(*                   inner CID -> look the entry up -> lock the entry ->   *)
(*                   UnmarshalFn -> unlock -> digest = id                  *)
(*   *_block.go      UnmarshalFn: decode id ; id = requested ; decode      *)
(*                   container ; Verify(roots) ; (re)assign -- also for an *)
(*                   already populated Block (since repo commit 64c8839;   *)
(*                   before it: ALREADY POPULATED => nil, no check)        *)
(*   boxo message.go the receiving side computes  prefix.Sum(data)  with   *)
(*                   the SENDER's prefix; the block is published to every  *)
(*                   session that wants the resulting CID                  *)
(*   block_store.go  Blockstore.Get: EmptyBlock(cid), Populate, marshal    *)
(*                                                                         *)
(* Cryptography is ideal: a container verifies for identifier i under the  *)
(* requester's roots iff it is the honest container of i from the          *)
(* requester's square S.                                                   *)
(***************************************************************************)
EXTENDS Integers, Sequences, FiniteSets, TLC, Json

CONSTANTS
    IDs,          \* identifiers valid for the requester's square, e.g. {"a", "b"}
    WideIDs,      \* identifiers whose legacy 16-bit encoding collides with a member of IDs
                  \* (range ids above 65535); WideBase maps each to the id it wraps onto
    WideBase,
    RefuseWide,   \* TRUE: the constructor refuses WideIDs (tree with the fix); FALSE: pre-fix behaviour
    Fetchers,     \* concurrent Fetch calls
    Wants,        \* Wants[f] : sequence of identifiers f asks for, in order
    Threads,      \* concurrent hasher invocations (Bitswap decodes messages concurrently)
    MaxMsgs,      \* bound on messages received
    Bodies,       \* container classes an adversary may send (subset of AllBodies)
    RecordHist,   \* TRUE: keep the action history (counterexample replay / simulation)
    PopulatedShortcut, \* TRUE: UnmarshalFn returns nil without looking at the bytes once its Block is populated
                  \* (the code BEFORE repo commit 64c8839; kept for the sensitivity configurations
                  \* MCBitswap_strict*.cfg, where it makes HasherAcceptsOnlyVerified / NoPanic /
                  \* StoredOnlyVerified fail).  FALSE: the code as it is -- every block is decoded and
                  \* verified, the verified container is (re)assigned.
    KeyAlias      \* registry-key aliasing: a function from some CIDs to the CID whose registry key they
                  \* share.  EMPTY for the code as it is (the key is the CID itself); non-empty only in
                  \* MCBitswap_keyalias.cfg, which shows what RegistryKeyInjective forbids: keying the
                  \* registry by the identifier BYTES makes sample (h,r,c) and legacy range (h,from=r,to=c)
                  \* -- both 12 bytes, different CIDs -- share one entry

Squares == {"S", "T"}           \* S = the requester's square, T = any other square
Empty   == [kind |-> "empty", of |-> "-", sq |-> "-"]

(* ---- identifier <-> CID ------------------------------------------------------ *)
AllIDs  == IDs \cup WideIDs
CidOf(i) == IF i \in WideIDs THEN WideBase[i] ELSE i     \* CIDs are named by the id they decode to
IdOf(c)  == c
ValidIDs == IF RefuseWide THEN IDs ELSE AllIDs           \* what New<T>Block accepts

\* The key under which a request is registered for the hasher (block_fetch.go: unmarshalFns.LoadOrStore(cid, ..)
\* and unmarshalFns.Load(cid)): the CID.  Two different CIDs never share an entry.
KeyOf(c) == IF c \in DOMAIN KeyAlias THEN KeyAlias[c] ELSE c

(* ---- what can arrive ----------------------------------------------------------- *)
\* container bytes
AllBodies ==
    {[kind |-> "honest", of |-> i, sq |-> s] : i \in IDs, s \in Squares}
    \cup {[kind |-> k, of |-> "-", sq |-> "-"] : k \in {"truncated", "garbled"}}
Verifies(body, i) == body.kind = "honest" /\ body.of = i /\ body.sq = "S"
Decodes(body)     == body.kind = "honest"

\* a Bitswap block = sender's prefix + protobuf envelope {inner cid, container}
Msgs ==
    {[env |-> "bad", wf |-> "-", cid |-> "-", prefixOK |-> TRUE, body |-> Empty]}
    \cup {[env |-> "ok", wf |-> w, cid |-> "-", prefixOK |-> TRUE, body |-> Empty] : w \in {"nocast", "badframe"}}
    \cup {[env |-> "ok", wf |-> "ok", cid |-> c, prefixOK |-> p, body |-> b] : c \in IDs, p \in BOOLEAN, b \in Bodies}

\* Blockstore.Get(CidOf(i)) on a node that stores square s
Served(i, s) == [env |-> "ok", wf |-> "ok", cid |-> CidOf(i), prefixOK |-> TRUE,
                 body |-> [kind |-> "honest", of |-> IdOf(CidOf(i)), sq |-> s]]

-----------------------------------------------------------------------------
VARIABLES
    reg,      \* registry: cid -> "none" | owner (the fetcher whose entry is stored)
    lock,     \* lock[f][c]: the mutex of the entry f stored for c is held
    fs,       \* fs[f] = [pc, next, orig, dup, got]  state of a Fetch call
    cont,     \* cont[f][i]: container held by f's Block for identifier i
    hs,       \* hs[t] = state of a hasher invocation
    chan,     \* chan[f]: blocks Bitswap handed to f's channel, in order
    stored,   \* blocks f put into the blockstore (WithStore)
    nmsg,     \* messages received so far
    hist      \* action history (only when RecordHist)
vars == <<reg, lock, fs, cont, hs, chan, stored, nmsg, hist>>

Idle == [pc |-> "idle", m |-> "-", owner |-> "-", acc |-> FALSE, popBefore |-> FALSE, pending |-> FALSE]
\* history: the action with its arguments and the observable post-state (containers, Fetch states);
\* always the LAST conjunct of an action so that the primed variables are already determined
Log(rec) == hist' = IF RecordHist
                    THEN Append(hist, rec @@ [cont |-> cont', pc |-> [f \in Fetchers |-> fs'[f].pc],
                                              hpc |-> [t \in Threads |-> hs'[t].pc],
                                              own |-> [t \in Threads |-> hs'[t].owner]])
                    ELSE hist

WantSet(f) == {Wants[f][k] : k \in 1..Len(Wants[f])}

Init ==
    /\ reg = [c \in IDs |-> "none"]
    /\ lock = [f \in Fetchers |-> [c \in IDs |-> FALSE]]
    /\ fs = [f \in Fetchers |-> [pc |-> "idle", next |-> 1, orig |-> {}, dup |-> {}, got |-> {}]]
    /\ cont = [f \in Fetchers |-> [i \in AllIDs |-> Empty]]
    /\ hs = [t \in Threads |-> Idle]
    /\ chan = [f \in Fetchers |-> << >>]
    /\ stored = {}
    /\ nmsg = 0
    /\ hist = << >>

(* ---- Fetch ----------------------------------------------------------------------- *)
\* New<T>Block: the constructor refuses identifiers it cannot name
FetchStart(f) ==
    /\ fs[f].pc = "idle"
    /\ \A k \in 1..Len(Wants[f]) : Wants[f][k] \in ValidIDs
    /\ fs' = [fs EXCEPT ![f].pc = "registering"]
    /\ UNCHANGED <<reg, lock, cont, hs, chan, stored, nmsg>>
    /\ Log([a |-> "FetchStart", f |-> f])

\* one iteration of the registration loop: unmarshalFns.LoadOrStore(blk.CID(), entry)
FetchRegister(f) ==
    /\ fs[f].pc = "registering" /\ fs[f].next <= Len(Wants[f])
    /\ LET i == Wants[f][fs[f].next]
           c == CidOf(i)
       IN /\ IF reg[KeyOf(c)] = "none"
             THEN /\ reg' = [reg EXCEPT ![KeyOf(c)] = f]
                  /\ fs' = [fs EXCEPT ![f].next = @ + 1, ![f].orig = @ \cup {c}]
             ELSE /\ reg' = reg
                  /\ fs' = [fs EXCEPT ![f].next = @ + 1, ![f].dup = @ \cup {c}]
    /\ UNCHANGED <<lock, cont, hs, chan, stored, nmsg>>
    /\ Log([a |-> "FetchRegister", f |-> f, id |-> Wants[f][fs[f].next]])

\* fetcher.GetBlocks(ctx, cids)
FetchGetBlocks(f) ==
    /\ fs[f].pc = "registering" /\ fs[f].next > Len(Wants[f])
    /\ fs' = [fs EXCEPT ![f].pc = "waiting"]
    /\ UNCHANGED <<reg, lock, cont, hs, chan, stored, nmsg>>
    /\ Log([a |-> "FetchGetBlocks", f |-> f])

\* the requester's own identifier for a CID (what its Block object holds)
OwnID(f, c) == CHOOSE i \in WantSet(f) : CidOf(i) = c

\* UnmarshalFn of f's Block for CID c, applied to message m: <<error?, new container>>
Unmarshal(f, c, m) ==
    LET i == OwnID(f, c)
    IN IF PopulatedShortcut /\ cont[f][i] # Empty THEN <<FALSE, cont[f][i]>>   \* (old code) populated: nil, NOTHING checked
       ELSE IF IdOf(c) # i THEN <<TRUE, Empty>>                       \* "requested doesn't match given"
       ELSE IF ~Decodes(m.body) THEN <<TRUE, Empty>>                  \* container does not decode
       ELSE IF ~Verifies(m.body, i) THEN <<TRUE, Empty>>              \* Verify(roots) fails
       ELSE <<FALSE, m.body>>                                         \* populate

\* one block taken from the channel
FetchRecv(f) ==
    /\ fs[f].pc = "waiting" /\ chan[f] # << >>
    /\ LET m == Head(chan[f])
           c == m.cid
       IN /\ chan' = [chan EXCEPT ![f] = Tail(@)]
          /\ IF c \in fs[f].dup
             THEN \* duplicate: the hasher filled somebody else's Block; unmarshal ourselves, panic on error
                  LET u == Unmarshal(f, c, m)
                  IN IF u[1]
                     THEN /\ fs' = [fs EXCEPT ![f].pc = "panicked"]
                          /\ UNCHANGED <<cont, stored>>
                     ELSE /\ cont' = [cont EXCEPT ![f][OwnID(f, c)] = u[2]]
                          /\ fs' = [fs EXCEPT ![f].got = @ \cup {c}]
                          /\ UNCHANGED stored
             ELSE /\ stored' = stored \cup {[f |-> f, m |-> m]}
                  /\ fs' = [fs EXCEPT ![f].got = @ \cup {c}]
                  /\ UNCHANGED cont
    /\ UNCHANGED <<reg, lock, hs, nmsg>>
    /\ Log([a |-> "FetchRecv", f |-> f, cid |-> Head(chan[f]).cid])

\* the channel is closed (everything delivered, or the context ended): deferred Deletes run
FetchReturn(f, cancelled) ==
    /\ fs[f].pc = "waiting" /\ chan[f] = << >>
    /\ cancelled \/ fs[f].got = {CidOf(i) : i \in WantSet(f)}
    /\ reg' = [k \in IDs |-> IF k \in {KeyOf(c) : c \in fs[f].orig} THEN "none" ELSE reg[k]]
    /\ fs' = [fs EXCEPT ![f].pc = IF cancelled THEN "cancelled" ELSE "done"]
    /\ UNCHANGED <<lock, cont, hs, chan, stored, nmsg>>
    /\ Log([a |-> "FetchReturn", f |-> f, cancelled |-> cancelled])

(* ---- the hasher, step by step ---------------------------------------------------- *)
\* a message arrives and Bitswap calls prefix.Sum(data) -> hasher.Write(data)
HasherWrite(t, m) ==
    /\ hs[t].pc = "idle" /\ nmsg < MaxMsgs
    /\ hs' = [hs EXCEPT ![t] = [Idle EXCEPT !.pc = "envelope", !.m = m]]
    /\ nmsg' = nmsg + 1
    /\ UNCHANGED <<reg, lock, fs, cont, chan, stored>>
    /\ Log([a |-> "HasherWrite", t |-> t, m |-> m])

Fail(t) == [hs EXCEPT ![t].pc = "rejected"]

\* unmarshalProto: protobuf envelope, cid.Cast
HEnvelope(t) ==
    /\ hs[t].pc = "envelope"
    /\ hs' = IF hs[t].m.env # "ok" \/ hs[t].m.wf = "nocast" THEN Fail(t) ELSE [hs EXCEPT ![t].pc = "validatecid"]
    /\ UNCHANGED <<reg, lock, fs, cont, chan, stored, nmsg>>
    /\ Log([a |-> "HEnvelope", t |-> t])

\* extractFromCID / validateCID: registered codec, version 1, multihash code and length of the spec
HValidateCid(t) ==
    /\ hs[t].pc = "validatecid"
    /\ hs' = IF hs[t].m.wf # "ok" THEN Fail(t) ELSE [hs EXCEPT ![t].pc = "lookup"]
    /\ UNCHANGED <<reg, lock, fs, cont, chan, stored, nmsg>>
    /\ Log([a |-> "HValidateCid", t |-> t])

\* unmarshalFns.Load(cid): the entry (and so the requester's Block) is fixed from here on
HLookup(t) ==
    /\ hs[t].pc = "lookup"
    /\ hs' = IF reg[KeyOf(hs[t].m.cid)] = "none" THEN Fail(t)
             ELSE [hs EXCEPT ![t].pc = "lock", ![t].owner = reg[KeyOf(hs[t].m.cid)], ![t].pending = TRUE]
    /\ UNCHANGED <<reg, lock, fs, cont, chan, stored, nmsg>>
    /\ Log([a |-> "HLookup", t |-> t])

\* entry.Lock()
HLock(t) ==
    /\ hs[t].pc = "lock"
    /\ ~lock[hs[t].owner][hs[t].m.cid]
    /\ lock' = [lock EXCEPT ![hs[t].owner][hs[t].m.cid] = TRUE]
    /\ hs' = [hs EXCEPT ![t].pc = "unmarshal"]
    /\ UNCHANGED <<reg, fs, cont, chan, stored, nmsg>>
    /\ Log([a |-> "HLock", t |-> t])

\* entry.UnmarshalFn(container, id) ; defer entry.Unlock()
HUnmarshal(t) ==
    /\ hs[t].pc = "unmarshal"
    /\ LET f == hs[t].owner
           c == hs[t].m.cid
           u == Unmarshal(f, c, hs[t].m)
       IN /\ lock' = [lock EXCEPT ![f][c] = FALSE]
          /\ IF u[1]
             THEN /\ hs' = [hs EXCEPT ![t].pc = "rejected", ![t].popBefore = cont[f][OwnID(f, c)] # Empty]
                  /\ cont' = cont
             ELSE /\ hs' = [hs EXCEPT ![t].pc = "accepted", ![t].acc = TRUE,
                                      ![t].popBefore = cont[f][OwnID(f, c)] # Empty]
                  /\ cont' = [cont EXCEPT ![f][OwnID(f, c)] = u[2]]
    /\ UNCHANGED <<reg, fs, chan, stored, nmsg>>
    /\ Log([a |-> "HUnmarshal", t |-> t])

\* Sum = the id; Bitswap builds the block's CID from the SENDER's prefix and this digest and publishes
\* it to every session that wants that CID and has not been served it yet.  A rejected block is dropped.
Takers(t) ==
    LET m == hs[t].m
    IN IF hs[t].pc = "accepted" /\ m.prefixOK
       THEN {f \in Fetchers : fs[f].pc = "waiting"
                              /\ m.cid \in {CidOf(i) : i \in WantSet(f)}
                              /\ m.cid \notin fs[f].got
                              /\ \A k \in 1..Len(chan[f]) : chan[f][k].cid # m.cid}
       ELSE {}
BitswapPublish(t) ==
    /\ hs[t].pc \in {"accepted", "rejected"}
    /\ chan' = [f \in Fetchers |-> IF f \in Takers(t) THEN Append(chan[f], hs[t].m) ELSE chan[f]]
    /\ hs' = [hs EXCEPT ![t] = Idle]
    /\ UNCHANGED <<reg, lock, fs, cont, stored, nmsg>>
    /\ Log([a |-> "BitswapPublish", t |-> t, takers |-> Takers(t), acc |-> hs[t].acc, m |-> hs[t].m])

Next ==
    \/ \E f \in Fetchers : FetchStart(f) \/ FetchRegister(f) \/ FetchGetBlocks(f) \/ FetchRecv(f)
                           \/ FetchReturn(f, FALSE) \/ FetchReturn(f, TRUE)
    \/ \E t \in Threads : \/ \E m \in Msgs : HasherWrite(t, m)
                          \/ HEnvelope(t) \/ HValidateCid(t) \/ HLookup(t) \/ HLock(t) \/ HUnmarshal(t)
                          \/ BitswapPublish(t)

Spec == Init /\ [][Next]_vars

-----------------------------------------------------------------------------
(* ---- invariants that hold ---------------------------------------------------------- *)
TypeOK ==
    /\ \A c \in IDs : reg[c] \in Fetchers \cup {"none"}
    /\ \A f \in Fetchers : fs[f].pc \in {"idle", "registering", "waiting", "done", "cancelled", "panicked"}
    /\ \A t \in Threads : hs[t].pc \in {"idle", "envelope", "validatecid", "lookup", "lock", "unmarshal", "accepted", "rejected"}

\* C10: a request is filled only with the honest container of exactly the requested identifier
FilledOnlyIfVerified ==
    \A f \in Fetchers : \A i \in AllIDs : cont[f][i] # Empty => Verifies(cont[f][i], i)

\* C10: a rejected block changes nobody's container; containers change only empty -> verified
RejectedLeavesUnfulfilled ==
    [][ /\ \A f \in Fetchers : \A i \in AllIDs :
             cont'[f][i] # cont[f][i] => cont[f][i] = Empty /\ Verifies(cont'[f][i], i)
        /\ \A t \in Threads : (hs[t].pc # "rejected" /\ hs'[t].pc = "rejected") => cont' = cont
      ]_vars

\* C10: identifier <-> CID is a bijection on the identifiers the constructor accepts
IdCidBijective ==   \* (nmsg >= 0 only makes the formula state-level for TLC)
    nmsg >= 0 => \A x, y \in ValidIDs : (CidOf(x) = CidOf(y) => x = y) /\ IdOf(CidOf(x)) = x

\* C10 ("every identifier maps to exactly one content identifier and back", seen from the registry): the
\* requests of two different CIDs never share a registry entry, so a pending request is found by exactly
\* the blocks that carry its CID and a Fetch of another identifier is never mistaken for its duplicate
RegistryKeyInjective ==
    /\ nmsg >= 0 => \A c1, c2 \in IDs : KeyOf(c1) = KeyOf(c2) => c1 = c2
    /\ \A f \in Fetchers : fs[f].pc \in {"registering", "waiting"} =>
           \A c \in fs[f].orig : reg[KeyOf(c)] = f                           \* an original's entry is its own
    /\ \A f \in Fetchers : \A c \in fs[f].dup :                            \* a duplicate really is one:
           \E g \in Fetchers \ {f} : c \in {CidOf(i) : i \in WantSet(g)}     \* somebody else asked for the same CID

\* C10: the block a serving node produces for a requested identifier passes the check and yields the
\* requested data -- whenever the entry is pending (already-filled entries accept anything, below)
ServedBlockAccepted ==
    \A t \in Threads :
        (hs[t].pc \in {"accepted", "rejected"} /\ hs[t].pending
         /\ \E i \in ValidIDs : hs[t].m = Served(i, "S") /\ i \in WantSet(hs[t].owner))
        => /\ hs[t].pc = "accepted"
           /\ cont[hs[t].owner][OwnID(hs[t].owner, hs[t].m.cid)] = hs[t].m.body

\* the per-entry mutex is released on every path
LockReleased == \A f \in Fetchers : \A c \in IDs :
                   lock[f][c] => \E t \in Threads : hs[t].pc = "unmarshal" /\ hs[t].owner = f /\ hs[t].m.cid = c

\* every Fetch that returned normally has all its Blocks filled (with verified data), and once every
\* Fetch has returned the registry is empty
DoneMeansFilled == \A f \in Fetchers : fs[f].pc = "done" => \A i \in WantSet(f) : Verifies(cont[f][i], i)
RegistryEmptyAtEnd ==
    (\A f \in Fetchers : fs[f].pc \in {"done", "cancelled", "panicked", "idle"}) =>
        \A c \in IDs : reg[c] \in {"none"} \cup {f \in Fetchers : fs[f].pc = "panicked"}

(* ---- the strict reading --------------------------------------------------------------- *)
\* "any other bytes are rejected": the hasher accepts a block only if its container verifies.
\* Holds for the code as it is; violated under PopulatedShortcut (the code before 64c8839), where
\* UnmarshalFn returned nil without looking at the bytes once the Block was populated.
HasherAcceptsOnlyVerified ==
    \A t \in Threads : hs[t].pc = "accepted" => Verifies(hs[t].m.body, IdOf(hs[t].m.cid))

\* (under PopulatedShortcut) consequence 1: a duplicate Fetch is handed such a block and panics
NoPanic == \A f \in Fetchers : fs[f].pc # "panicked"

\* (under PopulatedShortcut) consequence 2: an unverified block is written to the requester's blockstore
StoredOnlyVerified == \A s \in stored : Verifies(s.m.body, IdOf(s.m.cid))

(* ---- emission ---------------------------------------------------------------------------- *)
\* one CASE per finished hasher invocation: the message, what the requester's state was, the verdict
EmitCase ==
    \A t \in Threads : hs[t].pc \in {"accepted", "rejected"} =>
        PrintT(<<"CASE", ToJson([m |-> hs[t].m, pending |-> hs[t].pending, popBefore |-> hs[t].popBefore,
                                 accepted |-> hs[t].acc])>>)

AllReturned == \A f \in Fetchers : fs[f].pc \in {"done", "cancelled", "panicked"}
EmitBehaviour == (RecordHist /\ AllReturned /\ \A t \in Threads : hs[t].pc = "idle") =>
                    PrintT(<<"BEHAVIOUR", ToJson(hist)>>)
EmitPanic == (RecordHist /\ \E f \in Fetchers : fs[f].pc = "panicked") => PrintT(<<"PANICTRACE", ToJson(hist)>>)
=============================================================================
