\* C10 quick: two concurrent Fetch calls (shared identifier a), two concurrent hasher invocations,
\* every interleaving of the step-by-step pipeline with up to 2 messages
SPECIFICATION Spec
CONSTANTS
  IDs = {"a", "b"}
  WideIDs = {}
  WideBase <- NoWide
  RefuseWide = TRUE
  Fetchers = {"f1", "f2"}
  Wants <- Wants2
  Threads = {"t1", "t2"}
  MaxMsgs = 2
  Bodies <- BodiesQuick
  PopulatedShortcut = FALSE
  KeyAlias <- NoWide
  RecordHist = FALSE
INVARIANTS
  HasherAcceptsOnlyVerified
  NoPanic
  StoredOnlyVerified
  RegistryKeyInjective
  TypeOK
  FilledOnlyIfVerified
  IdCidBijective
  ServedBlockAccepted
  LockReleased
  RegistryEmptyAtEnd
PROPERTIES
  RejectedLeavesUnfulfilled
CHECK_DEADLOCK FALSE
