\* Sensitivity of IdCidBijective: with the pre-fix constructor (wide range ids accepted) the legacy
\* 16-bit CID of w collides with a's.  Expected to be VIOLATED; not a verdict on the code.
SPECIFICATION Spec
CONSTANTS
  IDs = {"a"}
  WideIDs = {"w"}
  WideBase <- WideOnA
  RefuseWide = FALSE
  Fetchers = {"f1", "f2"}
  Wants <- WantsWide
  Threads = {"t1"}
  MaxMsgs = 1
  Bodies <- BodiesTiny
  PopulatedShortcut = FALSE
  KeyAlias <- NoWide
  RecordHist = FALSE
INVARIANTS
  IdCidBijective
CHECK_DEADLOCK FALSE
