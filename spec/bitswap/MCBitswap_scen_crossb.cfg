\* Witness history: two overlapping Fetch calls of DIFFERENT identifiers (replayed with a sample and a legacy
\* range identifier whose identifier bytes coincide); the block of "b" arrives first.  Both must be served.
SPECIFICATION Spec
CONSTANTS
  IDs = {"a", "b"}
  WideIDs = {}
  WideBase <- NoWide
  RefuseWide = TRUE
  Fetchers = {"f1", "f2"}
  Wants <- WantsCross
  Threads = {"t1"}
  MaxMsgs = 2
  Bodies <- BodiesAB
  PopulatedShortcut = FALSE
  KeyAlias <- NoWide
  RecordHist = FALSE
CONSTRAINT
  ScenCrossBFirst
INVARIANTS
  RegistryKeyInjective
  FilledOnlyIfVerified
  DoneMeansFilled
  GoalCross
CHECK_DEADLOCK FALSE
