\* Witness history "the duplicate Fetch leaves first, the block arrives later" (reported by TLC as the
\* violation of GoalDupLeavesFirst = the negated goal); replayed on the real code.
SPECIFICATION Spec
CONSTANTS
  IDs = {"a"}
  WideIDs = {}
  WideBase <- NoWide
  RefuseWide = TRUE
  Fetchers = {"f1", "f2"}
  Wants <- WantsSame
  Threads = {"t1"}
  MaxMsgs = 1
  Bodies <- BodiesTiny
  PopulatedShortcut = FALSE
  KeyAlias <- NoWide
  RecordHist = FALSE
CONSTRAINT
  ScenDupLeavesFirst
INVARIANTS
  RegistryKeyInjective
  FilledOnlyIfVerified
  DoneMeansFilled
  GoalDupLeavesFirst
CHECK_DEADLOCK FALSE
