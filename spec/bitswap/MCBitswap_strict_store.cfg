\* Sensitivity: with the code BEFORE repo commit 64c8839 (PopulatedShortcut = TRUE: UnmarshalFn returns nil
\* without checking once the Block is populated) this invariant must be VIOLATED.  Not a verdict on the code.
SPECIFICATION Spec
CONSTANTS
  IDs = {"a"}
  WideIDs = {}
  WideBase <- NoWide
  RefuseWide = TRUE
  Fetchers = {"f1", "f2"}
  Wants <- WantsSame
  Threads = {"t1", "t2"}
  MaxMsgs = 2
  Bodies <- BodiesTiny
  PopulatedShortcut = TRUE
  KeyAlias <- NoWide
  RecordHist = FALSE
INVARIANTS
  StoredOnlyVerified
CHECK_DEADLOCK FALSE
