\* C10 case enumeration (B3): one Fetch of one identifier, every message class, before and after
\* the request was filled; each finished hasher invocation is printed as a CASE
SPECIFICATION Spec
CONSTANTS
  IDs = {"a", "b"}
  WideIDs = {}
  WideBase <- NoWide
  RefuseWide = TRUE
  Fetchers = {"f1"}
  Wants <- Wants1
  Threads = {"t1"}
  MaxMsgs = 2
  Bodies <- BodiesAll
  PopulatedShortcut = FALSE
  KeyAlias <- NoWide
  RecordHist = FALSE
INVARIANTS
  HasherAcceptsOnlyVerified
  NoPanic
  StoredOnlyVerified
  RegistryKeyInjective
  TypeOK
  FilledOnlyIfVerified
  IdCidBijective
  ServedBlockAccepted
  LockReleased
  RegistryEmptyAtEnd
  EmitCase
PROPERTIES
  RejectedLeavesUnfulfilled
CHECK_DEADLOCK FALSE
