\* (quick tier: one hasher thread is enough for these counterexamples)
\* The strict reading of "any other bytes are rejected": expected to be VIOLATED by the model of the
\* current code (UnmarshalFn returns nil without checking once the Block is populated).  The check
\* replays the counterexample on the real code; only a reproduced behaviour counts.
SPECIFICATION Spec
CONSTANTS
  IDs = {"a"}
  WideIDs = {}
  WideBase <- NoWide
  RefuseWide = TRUE
  Fetchers = {"f1", "f2"}
  Wants <- WantsSame
  Threads = {"t1"}
  MaxMsgs = 2
  Bodies <- BodiesTiny
  RecordHist = FALSE
INVARIANTS
  NoPanic
CHECK_DEADLOCK FALSE
