\* Witness history "a third Fetch of the same identifier enters after the duplicate left and before the
\* block arrives" (violation of GoalThirdInGap = the negated goal); replayed on the real code.
SPECIFICATION Spec
CONSTANTS
  IDs = {"a"}
  WideIDs = {}
  WideBase <- NoWide
  RefuseWide = TRUE
  Fetchers = {"f1", "f2", "f3"}
  Wants <- Wants3
  Threads = {"t1"}
  MaxMsgs = 1
  Bodies <- BodiesTiny
  PopulatedShortcut = FALSE
  KeyAlias <- NoWide
  RecordHist = FALSE
CONSTRAINT
  ScenThirdInGap
INVARIANTS
  RegistryKeyInjective
  FilledOnlyIfVerified
  DoneMeansFilled
  GoalThirdInGap
CHECK_DEADLOCK FALSE
