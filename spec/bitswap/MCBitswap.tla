----------------------------- MODULE MCBitswap -----------------------------
(* Model-checking instances of Bitswap.tla (constants that a .cfg cannot express). *)
EXTENDS Bitswap

\* two concurrent Fetch calls sharing identifier a; f1 also asks for b
Wants2 == [f \in {"f1", "f2"} |-> IF f = "f1" THEN <<"a", "b">> ELSE <<"a">>]
\* two concurrent Fetch calls of the same single identifier
WantsSame == [f \in {"f1", "f2"} |-> <<"a">>]
\* one Fetch of one identifier (case enumeration)
Wants1 == [f \in {"f1"} |-> <<"a">>]
\* a requester asking for a range above 65535 whose legacy CID collides with a's
WantsWide == [f \in {"f1", "f2"} |-> IF f = "f1" THEN <<"w">> ELSE <<"a">>]

NoWide == [i \in {} |-> "a"]
WideOnA == [i \in {"w"} |-> "a"]

BodiesAll  == AllBodies
BodiesCore == {[kind |-> "honest", of |-> "a", sq |-> "S"], [kind |-> "honest", of |-> "b", sq |-> "S"],
               [kind |-> "honest", of |-> "a", sq |-> "T"], [kind |-> "garbled", of |-> "-", sq |-> "-"]}
BodiesQuick == {[kind |-> "honest", of |-> "a", sq |-> "S"], [kind |-> "honest", of |-> "b", sq |-> "S"],
                [kind |-> "garbled", of |-> "-", sq |-> "-"]}
\* simulation only: do not spend the message budget before anybody has registered, nor on pure junk
SimFocus == /\ (nmsg > 0 => \E f \in Fetchers : fs[f].next > 1)
            /\ \A t \in Threads : hs[t].pc = "envelope" => (hs[t].m.env = "ok" /\ hs[t].m.wf = "ok") \/ nmsg = MaxMsgs
            /\ \A f \in Fetchers : fs[f].pc = "cancelled" => (f = "f1" /\ nmsg >= 2)
BodiesTiny == {[kind |-> "honest", of |-> "a", sq |-> "S"], [kind |-> "garbled", of |-> "-", sq |-> "-"]}
=============================================================================
