----------------------------- MODULE MCBitswap -----------------------------
(* Model-checking instances of Bitswap.tla (constants that a .cfg cannot express). *)
EXTENDS Bitswap

\* two concurrent Fetch calls sharing identifier a; f1 also asks for b
Wants2 == [f \in {"f1", "f2"} |-> IF f = "f1" THEN <<"a", "b">> ELSE <<"a">>]
\* two concurrent Fetch calls of the same single identifier
WantsSame == [f \in {"f1", "f2"} |-> <<"a">>]
\* one Fetch of one identifier (case enumeration)
Wants1 == [f \in {"f1"} |-> <<"a">>]
\* a requester asking for a range above 65535 whose legacy CID collides with a's
WantsWide == [f \in {"f1", "f2"} |-> IF f = "f1" THEN <<"w">> ELSE <<"a">>]

\* three Fetch calls of one identifier (the third one enters while the first still waits)
Wants3 == [f \in {"f1", "f2", "f3"} |-> <<"a">>]

(* ---- scenario witnesses: histories the replay must contain (found as "counterexamples" of ~goal) ---- *)
\* "the duplicate leaves first, the block arrives later": f1 is the original requester of a, f2 a
\* duplicate that is cancelled before any block has arrived; f1 must still be served.
ScenDupLeavesFirst ==
    /\ fs["f2"].orig = {} /\ fs["f1"].pc # "cancelled"
    /\ (nmsg > 0 => fs["f2"].pc = "cancelled" /\ fs["f1"].pc \in {"waiting", "done"})
GoalDupLeavesFirst == ~(fs["f1"].pc = "done")

\* "a third Fetch in the gap": as above, and f3 asks for a after f2 has left and before the block
\* arrives; both f1 and f3 must end filled.
ScenThirdInGap ==
    /\ fs["f2"].orig = {} /\ fs["f1"].pc # "cancelled" /\ fs["f3"].pc # "cancelled"
    /\ (fs["f3"].pc # "idle" => fs["f2"].pc = "cancelled" /\ fs["f1"].pc \in {"waiting", "done"})
    /\ (nmsg > 0 => fs["f3"].pc \in {"waiting", "done"})
GoalThirdInGap == ~(fs["f1"].pc = "done" /\ fs["f3"].pc = "done")

\* two Fetch calls of DIFFERENT identifiers (in the replay: a sample and a legacy range id whose
\* identifier bytes coincide)
WantsCross == [f \in {"f1", "f2"} |-> IF f = "f1" THEN <<"a">> ELSE <<"b">>]
\* both requests are registered and waiting before the first block arrives; both must be served
ScenCross == nmsg > 0 => \A f \in Fetchers : fs[f].pc \in {"waiting", "done"}
ScenCrossAFirst == ScenCross /\ (("b" \in fs["f2"].got \/ chan["f2"] # << >>) => "a" \in fs["f1"].got)
ScenCrossBFirst == ScenCross /\ (("a" \in fs["f1"].got \/ chan["f1"] # << >>) => "b" \in fs["f2"].got)
GoalCross == ~(fs["f1"].pc = "done" /\ fs["f2"].pc = "done")
BodiesAB == {[kind |-> "honest", of |-> "a", sq |-> "S"], [kind |-> "honest", of |-> "b", sq |-> "S"]}
AliasBA == [c \in {"b"} |-> "a"]

NoWide == [i \in {} |-> "a"]
WideOnA == [i \in {"w"} |-> "a"]

BodiesAll  == AllBodies
BodiesCore == {[kind |-> "honest", of |-> "a", sq |-> "S"], [kind |-> "honest", of |-> "b", sq |-> "S"],
               [kind |-> "honest", of |-> "a", sq |-> "T"], [kind |-> "garbled", of |-> "-", sq |-> "-"]}
BodiesQuick == {[kind |-> "honest", of |-> "a", sq |-> "S"], [kind |-> "honest", of |-> "b", sq |-> "S"],
                [kind |-> "garbled", of |-> "-", sq |-> "-"]}
\* simulation only: do not spend the message budget before anybody has registered, nor on pure junk
SimFocus == /\ (nmsg > 0 => \E f \in Fetchers : fs[f].next > 1)
            /\ \A t \in Threads : hs[t].pc = "envelope" => (hs[t].m.env = "ok" /\ hs[t].m.wf = "ok") \/ nmsg = MaxMsgs
            /\ \A f \in Fetchers : fs[f].pc = "cancelled" => (f = "f1" /\ nmsg >= 2)
BodiesTiny == {[kind |-> "honest", of |-> "a", sq |-> "S"], [kind |-> "garbled", of |-> "-", sq |-> "-"]}
=============================================================================
