-------------------------------- MODULE Square --------------------------------
(***************************************************************************)
(* Small celestia data squares, abstractly.                                *)
(*                                                                         *)
(* A LAYOUT is an original data square (ODS): [w |-> width, c |-> cells],  *)
(* cells a sequence of w*w pairs <<ns, pid>> in row-major order.           *)
(*   ns   abstract namespace, ordered like the real ones:                  *)
(*          1 tx (primary reserved)     2 primary-reserved padding         *)
(*          3..7 user (blob) namespaces 8 tail padding   9 parity          *)
(*   pid  payload identity: 0 = THE padding share of that namespace (all   *)
(*        padding shares of one namespace are byte-identical in a real     *)
(*        square), > 0 = a data share; equal (ns,pid) = equal bytes.       *)
(* Namespaces are non-decreasing in row-major order; tail padding is a     *)
(* suffix; namespace padding follows data of the same namespace.           *)
(* The Go package harness/square maps a layout to a real rsmt2d square     *)
(* with exactly these namespaces / padding shares / payload identities.    *)
(*                                                                         *)
(* The EXTENDED square (EDS, 2w x 2w) is determined by the ODS.  Ideal     *)
(* Reed-Solomon: the parity of a sequence of shares is a term over that    *)
(* sequence, except that a CONSTANT sequence has itself as parity (the     *)
(* code is linear and systematic: measured on the real codec, see          *)
(* harness/drivers/shwapverify).  Q3 is defined row-wise (parity of the    *)
(* Q2 row) -- no verifier ever extends a column.                           *)
(* Cell terms: <<"d", ns, pid>> data/padding share, <<"p", seq, j>> j-th   *)
(* parity share of seq, <<"x", seq, j>> junk decoded from a non-codeword.  *)
(***************************************************************************)
EXTENDS IdealCrypto

NsTx      == 1
NsPrimPad == 2
NsUser    == 3..7
NsTail    == 8
NsParity  == MaxNs
NsJunk    == 0          \* "namespace" read from the first bytes of a parity / junk share

(* ------------------------------ layouts -------------------------------- *)
IsPadOnlyNs(ns) == ns \in {NsPrimPad, NsTail}

(* All cell sequences for positions pos..n.  prevNs / prevPad describe the   *)
(* previous cell.  Data after padding inside one namespace run is not       *)
(* generated (bound: namespace padding is a suffix of its run).             *)
RECURSIVE GenCells(_, _, _, _, _, _)
GenCells(n, pos, prevNs, prevPad, nsSet, nsPad) ==
  IF pos > n THEN {<<>>}
  ELSE UNION {
         (IF ~IsPadOnlyNs(v) /\ ~(v = prevNs /\ prevPad)
            THEN { <<<<v, pos>>>> \o t : t \in GenCells(n, pos + 1, v, FALSE, nsSet, nsPad) }
            ELSE {})
         \cup
         (IF IsPadOnlyNs(v) \/ (nsPad /\ v \in NsUser /\ v = prevNs)
            THEN { <<<<v, 0>>>> \o t : t \in GenCells(n, pos + 1, v, TRUE, nsSet, nsPad) }
            ELSE {})
       : v \in {x \in nsSet : x >= prevNs} }

(* every layout of width w over the namespaces nsSet (nsPad: allow namespace padding) *)
GenLayouts(w, nsSet, nsPad) ==
  { [w |-> w, c |-> cs] : cs \in GenCells(w * w, 1, 0, FALSE, nsSet, nsPad) }

(* a layout given by its namespace sequence and padding flags (1 = data, 0 = padding) *)
LayoutOf(w, nss, flags) ==
  [w |-> w, c |-> Strict([i \in 1..(w * w) |-> <<nss[i], IF flags[i] = 1 THEN i ELSE 0>>])]

ValidLayout(l) ==
  /\ Len(l.c) = l.w * l.w
  /\ \A i \in 1..Len(l.c) :
       /\ l.c[i][1] \in 1..NsTail
       /\ i > 1 => l.c[i - 1][1] <= l.c[i][1]
       /\ IsPadOnlyNs(l.c[i][1]) => l.c[i][2] = 0
       /\ l.c[i][1] = NsTx => l.c[i][2] # 0

(* A second square over the same namespaces: row 0 is shared with l (same   *)
(* bytes, hence the same row root), every other data share is fresh.       *)
SecondSquare(l) ==
  [w |-> l.w,
   c |-> Strict([i \in 1..Len(l.c) |->
            IF i <= l.w \/ l.c[i][2] = 0 THEN l.c[i] ELSE <<l.c[i][1], l.c[i][2] + 100>>])]

(* ------------------------------ cell terms ------------------------------ *)
CellNs(t) == IF t[1] = "d" THEN t[2] ELSE NsJunk

IsConst(seq) == \A i \in 1..Len(seq) : seq[i] = seq[1]
Par(seq, j)  == IF IsConst(seq) THEN seq[1] ELSE <<"p", seq, j>>
ParityOf(seq) == Strict([j \in 1..Len(seq) |-> Par(seq, j)])

(* the data half whose parity is par (Reed-Solomon decoding from the parity half) *)
Decode(par) ==
  IF IsConst(par) THEN par
  ELSE IF par[1][1] = "p" /\ Len(par[1][2]) = Len(par) /\ ParityOf(par[1][2]) = par
         THEN par[1][2]
  ELSE Strict([j \in 1..Len(par) |-> <<"x", par, j>>])

(* ------------------------------ the EDS --------------------------------- *)
Ods(l, r, c)  == LET x == l.c[r * l.w + c + 1] IN <<"d", x[1], x[2]>>      \* 0 <= r,c < w
OdsRow(l, r)  == Strict([c \in 1..l.w |-> Ods(l, r, c - 1)])
OdsCol(l, c)  == Strict([r \in 1..l.w |-> Ods(l, r - 1, c)])
Q2Row(l, r)   == Strict([c \in 1..l.w |-> Par(OdsCol(l, c - 1), r - l.w + 1)])      \* w <= r < 2w

(* Known incompleteness of the term model: when the ODS equals its transpose, the real bytes *)
(* of Q3 are symmetric too (E[r][c] = E[c][r]) while the terms Par(Q2Row(r), ..) are not.     *)
(* The driver recognises the resulting cases (a "forged" response that is byte-identical to  *)
(* an honest one) and does not count them as verdict drift.                                  *)
Eds(l, r, c) ==                                                            \* 0 <= r,c < 2w
  IF r < l.w /\ c < l.w THEN Ods(l, r, c)
  ELSE IF r < l.w THEN Par(OdsRow(l, r), c - l.w + 1)
  ELSE IF c < l.w THEN Par(OdsCol(l, c), r - l.w + 1)
  ELSE Par(Q2Row(l, r), c - l.w + 1)

EdsRow(l, r) == Strict([c \in 1..(2 * l.w) |-> Eds(l, r, c - 1)])
EdsCol(l, c) == Strict([r \in 1..(2 * l.w) |-> Eds(l, r - 1, c)])

(* leaf hashes of the NMT over a row (ax = 0) or column (ax = 1), as built by *)
(* celestia-app's ErasuredNamespacedMerkleTree: own namespace in Q0, parity  *)
(* namespace everywhere else                                                *)
AxisLeaves(l, ax, i) ==
  LET cells == IF ax = 0 THEN EdsRow(l, i) ELSE EdsCol(l, i)
  IN Strict([p \in 1..(2 * l.w) |->
        LeafHash(IF i < l.w /\ p <= l.w THEN CellNs(cells[p]) ELSE NsParity, cells[p])])

AxisRoot(l, ax, i) == TreeRoot(AxisLeaves(l, ax, i), TRUE)

(* ------------------------- derived, specification side ------------------ *)
(* (what the header commits to; used by the properties, not by the verifiers) *)
FlatOds(l)            == Strict([i \in 1..Len(l.c) |-> <<"d", l.c[i][1], l.c[i][2]>>])
RangeCells(l, from, to) == SubSeq(FlatOds(l), from + 1, to)                 \* ODS indices [from,to)
RowNsMin(l, r)        == l.c[r * l.w + 1][1]
RowNsMax(l, r)        == l.c[r * l.w + l.w][1]
RowCovers(l, r, ns)   == RowNsMin(l, r) <= ns /\ ns <= RowNsMax(l, r)
NsCells(l, ns)        == LET T(x) == x[2] = ns IN SelectSeq(FlatOds(l), T)
RowNsCells(l, r, ns)  == LET T(x) == x[2] = ns IN SelectSeq(OdsRow(l, r), T)
=============================================================================
