------------------------------ MODULE IdealCrypto ------------------------------
(***************************************************************************)
(* Ideal cryptography for the namespaced Merkle trees (NMT) of celestia.   *)
(*                                                                         *)
(* ASSUMPTION (recorded in every evidence file that uses this module):     *)
(* hashing is INJECTIVE and domain separated.  A hash is therefore         *)
(* represented by the TERM that was hashed: a leaf hash is the pair        *)
(* (namespace prefix, leaf data), an inner hash is the pair of its         *)
(* children.  Two hashes are equal iff the terms are equal.  Everything    *)
(* else is NOT idealised: the operators below are transcriptions of the    *)
(* real algorithms of github.com/celestiaorg/nmt v0.24 (hasher.go,         *)
(* nmt.go, proof.go): how the prover collects proof nodes, how the         *)
(* verifier recomputes a root from (start, end, nodes, leaves), which      *)
(* structural checks it performs, the namespace range carried by every     *)
(* node and the "ignore max namespace" rule.  So a proof that is re-used   *)
(* for another position, truncated, widened, given another start/end, or   *)
(* given a flipped flag is decided by the same computation the code runs,  *)
(* only on terms instead of on SHA-256 digests.                            *)
(*                                                                         *)
(* A namespaced hash is a record [mn, mx, h]: minimum / maximum namespace  *)
(* of the subtree (they are part of the node's bytes in the real code,     *)
(* 29+29 bytes in front of the digest) and the hashed term h.              *)
(* Two distinguished values model Go's nil and "an error was returned".    *)
(***************************************************************************)
EXTENDS Naturals, Sequences, FiniteSets

MaxNs == 9      \* the largest namespace (ParitySharesNamespace): the one "ignore max" ignores

NilH == [mn |-> 0, mx |-> 0, h |-> <<"NIL">>]
BadH == [mn |-> 0, mx |-> 0, h |-> <<"BAD">>]
IsNil(x)  == x.h[1] = "NIL"
IsBad(x)  == x.h[1] = "BAD"
IsHash(x) == x.h[1] \notin {"NIL", "BAD"}

Max2(a, b) == IF a >= b THEN a ELSE b

(* TLC represents [i \in 1..n |-> e] lazily and re-evaluates e at every application;   *)
(* concatenation with the empty sequence forces it into an evaluated tuple once.        *)
Strict(seq) == seq \o <<>>

(* NmtHasher.HashLeaf: ns || ns || H(0x00 || ns || data) *)
LeafHash(ns, data) == [mn |-> ns, mx |-> ns, h |-> <<"L", ns, data>>]

(* NmtHasher.HashNode: fails on a nil/ill-formed child and on unordered      *)
(* siblings (right.min < left.max); namespace range per computeNsRange.     *)
HashNode(l, r, im) ==
  IF ~IsHash(l) \/ ~IsHash(r) THEN BadH
  ELSE IF r.mn < l.mx THEN BadH
  ELSE [mn |-> l.mn,
        mx |-> IF im /\ r.mn = MaxNs THEN l.mx ELSE r.mx,
        h  |-> <<"N", l, r>>]

(* nmt.getSplitPoint: the largest power of two strictly below n (0 for n<2) *)
Pow2 == {1, 2, 4, 8, 16, 32, 64}
SplitPoint(n) == IF n < 2 THEN 0 ELSE CHOOSE k \in Pow2 : k < n /\ 2 * k >= n

(* ---------------------------------------------------------------------- *)
(* Tree side (honest producer): root and range-proof nodes.                *)
(* lh is the 1-based sequence of leaf hashes, positions are 0-based.       *)
(* ---------------------------------------------------------------------- *)
RECURSIVE SubRoot(_, _, _, _)
SubRoot(lh, s, e, im) ==                      \* NamespacedMerkleTree.computeRoot
  IF e - s = 1 THEN lh[s + 1]
  ELSE LET k == SplitPoint(e - s)
       IN HashNode(SubRoot(lh, s, s + k, im), SubRoot(lh, s + k, e, im), im)

EmptyRoot == [mn |-> 0, mx |-> 0, h |-> <<"E">>]
TreeRoot(lh, im) == IF Len(lh) = 0 THEN EmptyRoot ELSE SubRoot(lh, 0, Len(lh), im)

(* NamespacedMerkleTree.buildRangeProof: returns <<hash of [s,e), nodes>>   *)
RECURSIVE BRP(_, _, _, _, _, _, _)
BRP(lh, s, e, ps, pe, inc, im) ==
  IF s >= Len(lh) THEN <<NilH, <<>>>>
  ELSE IF e - s = 1 THEN
    <<lh[s + 1], IF (s < ps \/ s >= pe) /\ inc THEN <<lh[s + 1]>> ELSE <<>> >>
  ELSE LET ninc == inc /\ ~(e <= ps \/ s >= pe)
           k    == SplitPoint(e - s)
           L    == BRP(lh, s, s + k, ps, pe, ninc, im)
           R    == BRP(lh, s + k, e, ps, pe, ninc, im)
           hh   == IF IsNil(R[1]) THEN L[1] ELSE HashNode(L[1], R[1], im)
       IN <<hh, IF inc /\ ~ninc THEN <<hh>> ELSE L[2] \o R[2]>>

FullSize(n) == Max2(SplitPoint(n) * 2, 1)

(* nodes of tree.ProveRange(ps, pe) *)
ProveRangeNodes(lh, ps, pe, im) == BRP(lh, 0, FullSize(Len(lh)), ps, pe, TRUE, im)[2]

(* ---------------------------------------------------------------------- *)
(* A proof as the verifier sees it: nmt.Proof{start,end,nodes,leafHash,    *)
(* isMaxNamespaceIDIgnored}.  lh = NilH when there is no leaf hash.        *)
(* ---------------------------------------------------------------------- *)
MkProof(s, e, nodes, lh, im) == [s |-> s, e |-> e, nodes |-> nodes, lh |-> lh, im |-> im]
IsEmptyProof(p) == p.s = p.e /\ Len(p.nodes) = 0 /\ IsNil(p.lh)
IsOfAbsence(p)  == ~IsNil(p.lh)

HeadOrNil(q)   == IF Len(q) = 0 THEN NilH ELSE Head(q)      \* popIfNonEmpty
TailOrEmpty(q) == IF Len(q) = 0 THEN <<>> ELSE Tail(q)

(* Proof.computeRoot, inner recursion: <<hash, leaf hashes left, nodes left>> *)
RECURSIVE CR(_, _, _, _, _, _, _)
CR(s, e, ps, pe, lv, nd, im) ==
  IF e - s = 1 THEN
    IF s >= ps /\ s < pe THEN <<HeadOrNil(lv), TailOrEmpty(lv), nd>>
    ELSE <<HeadOrNil(nd), lv, TailOrEmpty(nd)>>
  ELSE IF e <= ps \/ s >= pe THEN <<HeadOrNil(nd), lv, TailOrEmpty(nd)>>
  ELSE LET k == SplitPoint(e - s)
           L == CR(s, s + k, ps, pe, lv, nd, im)
           R == CR(s + k, e, ps, pe, L[2], L[3], im)
       IN <<IF IsNil(R[1]) THEN L[1] ELSE HashNode(L[1], R[1], im), R[2], R[3]>>

RECURSIVE FoldNodes(_, _, _)
FoldNodes(hh, nodes, im) ==          \* "for _, node := range proof.nodes { root = HashNode(root, node) }"
  IF Len(nodes) = 0 THEN hh ELSE FoldNodes(HashNode(hh, Head(nodes), im), Tail(nodes), im)

(* Proof.computeRoot (requires p.e >= 1, guaranteed by validateProofStructure) *)
ComputeRoot(p, lhs, im) ==
  LET est == Max2(SplitPoint(p.e) * 2, 1)
      t   == CR(0, est, p.s, p.e, lhs, p.nodes, im)
  IN FoldNodes(t[1], t[3], im)

(* Proof.validateProofStructure (the node-format checks always hold for terms) *)
ValidateProofStructure(p, nid, lhs) ==
  /\ p.s < p.e
  /\ Len(lhs) = p.e - p.s
  /\ IsOfAbsence(p) => nid < p.lh.mn

(* Proof.validateNamespace *)
ValidateNamespace(nid, lhs) == \A i \in 1..Len(lhs) : lhs[i].mn = nid /\ lhs[i].mx = nid

(* nextSubtreeSize: the largest power of two that divides idx and fits before start *)
NextSub(idx, start) ==
  CHOOSE p \in Pow2 : /\ p <= start - idx /\ idx % p = 0
                      /\ \A q \in Pow2 : (q <= start - idx /\ idx % q = 0) => q <= p

(* Proof.validateCompleteness: how many nodes lie left of the range *)
RECURSIVE LeftWalk(_, _, _, _)
LeftWalk(idx, start, n, avail) ==
  IF idx # start /\ n < avail THEN LeftWalk(idx + NextSub(idx, start), start, n + 1, avail)
  ELSE <<idx, n>>

ValidateCompleteness(p, nid) ==
  LET lw == LeftWalk(0, p.s, 0, Len(p.nodes))
  IN /\ lw[1] = p.s
     /\ \A i \in 1..lw[2] : p.nodes[i].mx < nid                  \* ~(nid <= leftMax)
     /\ \A i \in (lw[2] + 1)..Len(p.nodes) : p.nodes[i].mn > nid   \* ~(rightMin <= nid)

(* Proof.VerifyLeafHashes *)
VerifyLeafHashes(p, im, complete, nid, lhs, root) ==
  /\ ValidateProofStructure(p, nid, lhs)
  /\ ~IsOfAbsence(p) => ValidateNamespace(nid, lhs)
  /\ complete => ValidateCompleteness(p, nid)
  /\ LET r == ComputeRoot(p, lhs, im) IN IsHash(r) /\ r = root

(* Proof.isValidEmptyRangeProof *)
ValidEmptyRangeProof(p, nid, root, nleaves, checkNs) ==
  /\ IsEmptyProof(p) /\ nleaves = 0
  /\ checkNs => (nid < root.mn \/ root.mx < nid \/ root = EmptyRoot)

(* Proof.VerifyInclusion(h, nid, leavesWithoutNamespace, root); hasher flag from the proof *)
VerifyInclusion(p, nid, datas, root) ==
  IF p.s = p.e THEN ValidEmptyRangeProof(p, nid, root, Len(datas), FALSE)
  ELSE VerifyLeafHashes(p, p.im, FALSE, nid,
                        Strict([i \in 1..Len(datas) |-> LeafHash(nid, datas[i])]), root)

(* Proof.VerifyNamespace(h, nid, leaves, root); a leaf is <<namespace prefix, data>> *)
VerifyNamespace(p, nid, leaves, root) ==
  IF p.s = p.e THEN ValidEmptyRangeProof(p, nid, root, Len(leaves), TRUE)
  ELSE IF IsOfAbsence(p) THEN VerifyLeafHashes(p, p.im, TRUE, nid, <<p.lh>>, root)
  ELSE /\ \A i \in 1..Len(leaves) : leaves[i][1] = nid        \* ComputeAndValidateLeafHashes
       /\ VerifyLeafHashes(p, p.im, TRUE, nid,
                           Strict([i \in 1..Len(leaves) |-> LeafHash(leaves[i][1], leaves[i][2])]), root)

(* Proof.ComputeRootWithBasicValidation: the root, or BadH for "error" *)
ComputeRootWithBasicValidation(p, im, nid, lhs, isNamespace) ==
  IF ~ValidateProofStructure(p, nid, lhs) THEN BadH
  ELSE IF isNamespace /\ ~(ValidateNamespace(nid, lhs) /\ ValidateCompleteness(p, nid)) THEN BadH
  ELSE ComputeRoot(p, lhs, im)

(* NamespacedMerkleTree.calculateAbsenceIndex over the leaf prefixes: the first *)
(* leaf whose namespace is larger than nid (the caller checked min <= nid <= max) *)
AbsenceIndex(lh, nid) ==
  CHOOSE i \in 1..(Len(lh) - 1) : lh[i].mn < nid /\ nid < lh[i + 1].mn   \* 0-based index of leaf i+1
=============================================================================
