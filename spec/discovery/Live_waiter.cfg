\* liveness witness: a blocked Peers(ctx) caller is not served although the set has members (lost wake-up)
SPECIFICATION LiveSpec
CONSTANTS
  Peers = {"p1", "p2"}
  Self = "self"
  Limit = 1
  Workers = {"w1"}
  Callers = {"c1"}
  Delay = 1
  MaxRounds = 0
  MaxDrops = 0
  MaxInbound = 0
  MaxFail = 0
  MaxCalls = 1
  MaxApi = 0
  WithGC = FALSE
  AtomicPeers = FALSE
  SignedWant = TRUE
  Serialized = FALSE
  DirectAPI = FALSE
CHECK_DEADLOCK FALSE
PROPERTIES WaiterServed
