\* liveness as is (weak fairness of the package's goroutines; rounds end, dials return)
SPECIFICATION LiveSpec
CONSTANTS
  Peers = {"p1", "p2"}
  Self = "self"
  Limit = 1
  Workers = {"w1"}
  Callers = {"c1"}
  Delay = 1
  MaxRounds = 0
  MaxDrops = 1
  MaxInbound = 0
  MaxFail = 1
  MaxCalls = 1
  MaxApi = 0
  WithGC = TRUE
  AtomicPeers = FALSE
  SignedWant = TRUE
  Serialized = FALSE
  DirectAPI = FALSE
CHECK_DEADLOCK FALSE
PROPERTIES ReTrigger WorkersEnd DropHandled
