\* as is: back-off of two ticks, a failing dial, an inbound connection, three rounds, GC
SPECIFICATION Spec
CONSTANTS
  Peers = {"p1", "p2"}
  Self = "self"
  Limit = 1
  Workers = {"w1"}
  Callers = {}
  Delay = 2
  MaxRounds = 3
  MaxDrops = 1
  MaxInbound = 1
  MaxFail = 1
  MaxCalls = 0
  MaxApi = 0
  WithGC = TRUE
  AtomicPeers = FALSE
  SignedWant = TRUE
  Serialized = FALSE
  DirectAPI = FALSE
CHECK_DEADLOCK FALSE
VIEW state
INVARIANTS TypeOK SizeBound ReportedExactlyOnce ViewBookkeeping PeersResult
PROPERTIES ContactLeavesBackoff GCInvisible
