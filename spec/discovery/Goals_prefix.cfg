\* the tree BEFORE /repo f5c221a (unsigned want): behaviours that reach rarely taken decision branches (GoalCover in MCDiscovery.tla)
SPECIFICATION SpecB
CONSTANTS
  Peers = {"p1", "p2", "p3"}
  Self = "self"
  Limit = 2
  Workers = {"w1", "w2"}
  Callers = {}
  Delay = 1
  MaxRounds = 2
  MaxDrops = 0
  MaxInbound = 0
  MaxFail = 0
  MaxCalls = 0
  MaxApi = 0
  WithGC = FALSE
  AtomicPeers = FALSE
  SignedWant = FALSE
  Serialized = FALSE
  DirectAPI = FALSE
  MaxLen = 200
  Wanted = {"x_roundBelow"}
CHECK_DEADLOCK FALSE
VIEW state
ACTION_CONSTRAINT CoarseSchedule
INVARIANTS GoalCover
