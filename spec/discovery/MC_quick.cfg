\* the code as it is; every interleaving; the invariants that hold
SPECIFICATION Spec
CONSTANTS
  Peers = {"p1", "p2"}
  Self = "self"
  Limit = 2
  Workers = {"w1", "w2"}
  Callers = {"c1"}
  Delay = 1
  MaxRounds = 2
  MaxDrops = 1
  MaxInbound = 1
  MaxFail = 1
  MaxCalls = 1
  MaxApi = 0
  AtomicPeers = FALSE
  SignedWant = FALSE
  Serialized = FALSE
  DirectAPI = FALSE
VIEW state
CHECK_DEADLOCK FALSE
INVARIANTS TypeOK SizeBound ReportedExactlyOnce ViewBookkeeping PeersResult
PROPERTIES ContactLeavesBackoff GCInvisible
