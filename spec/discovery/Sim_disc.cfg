\* random behaviours (coarse schedules, no GC) replayed on the real Discovery
SPECIFICATION SpecB
CONSTANTS
  Peers = {"p1", "p2", "p3"}
  Self = "self"
  Limit = 2
  Workers = {"w1", "w2"}
  Callers = {"c1", "c2"}
  Delay = 2
  MaxRounds = 6
  MaxDrops = 4
  MaxInbound = 2
  MaxFail = 2
  MaxCalls = 4
  MaxApi = 0
  WithGC = FALSE
  AtomicPeers = FALSE
  SignedWant = TRUE
  Serialized = FALSE
  DirectAPI = FALSE
  MaxLen = 70
  Wanted = {}
CHECK_DEADLOCK FALSE
ACTION_CONSTRAINT CoarseSchedule
INVARIANTS TypeOK SizeBound ReportedExactlyOnce ViewBookkeeping PeersResult
