\* variant: Peers() checks and parks atomically: nobody is stranded
SPECIFICATION Spec
CONSTANTS
  Peers = {"p1", "p2"}
  Self = "self"
  Limit = 1
  Workers = {"w1"}
  Callers = {"c1", "c2"}
  Delay = 1
  MaxRounds = 2
  MaxDrops = 1
  MaxInbound = 0
  MaxFail = 0
  MaxCalls = 2
  MaxApi = 0
  WithGC = TRUE
  AtomicPeers = TRUE
  SignedWant = TRUE
  Serialized = FALSE
  DirectAPI = FALSE
CHECK_DEADLOCK FALSE
VIEW state
INVARIANTS TypeOK NoStrandedWaiter PeersResult
