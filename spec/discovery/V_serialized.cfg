\* variant: a worker's [re-check, Add, callback, Protect] and Discard exclude each other
SPECIFICATION Spec
CONSTANTS
  Peers = {"p1", "p2"}
  Self = "self"
  Limit = 1
  Workers = {"w1"}
  Callers = {}
  Delay = 1
  MaxRounds = 3
  MaxDrops = 2
  MaxInbound = 1
  MaxFail = 0
  MaxCalls = 0
  MaxApi = 0
  WithGC = TRUE
  AtomicPeers = FALSE
  SignedWant = TRUE
  Serialized = TRUE
  DirectAPI = FALSE
CHECK_DEADLOCK FALSE
VIEW state
INVARIANTS TypeOK SizeBound ReportedExactlyOnce ReportedInOrder ViewConsistent InSetConnected ProtectedInSetOrPending
