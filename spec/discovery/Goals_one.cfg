\* behaviours that reach rarely taken decision branches (GoalCover in MCDiscovery.tla)
SPECIFICATION SpecB
CONSTANTS
  Peers = {"p1", "p2"}
  Self = "self"
  Limit = 1
  Workers = {"w1"}
  Callers = {}
  Delay = 1
  MaxRounds = 3
  MaxDrops = 1
  MaxInbound = 1
  MaxFail = 1
  MaxCalls = 0
  MaxApi = 0
  WithGC = FALSE
  AtomicPeers = FALSE
  SignedWant = TRUE
  Serialized = FALSE
  DirectAPI = FALSE
  MaxLen = 200
  Wanted = {"refused", "redial", "self", "dialfail", "noop", "absent", "refill", "connected", "x_inSetConnected", "x_inOrder", "x_view", "x_prot"}
CHECK_DEADLOCK FALSE
VIEW state
ACTION_CONSTRAINT CoarseSchedule
INVARIANTS GoalCover
