\* witness wanted (coarse schedule, replayable): NoStrandedWaiter fails for the code as it is
SPECIFICATION SpecB
CONSTANTS
  Peers = {"p1", "p2"}
  Self = "self"
  Limit = 1
  Workers = {"w1"}
  Callers = {"c1"}
  Delay = 1
  MaxRounds = 1
  MaxDrops = 0
  MaxInbound = 0
  MaxFail = 0
  MaxCalls = 1
  MaxApi = 0
  WithGC = FALSE
  AtomicPeers = FALSE
  SignedWant = TRUE
  Serialized = FALSE
  DirectAPI = FALSE
  MaxLen = 200
  Wanted = {}
CHECK_DEADLOCK FALSE
VIEW state
ACTION_CONSTRAINT CoarseSchedule
INVARIANTS NoStrandedWaiter
