---------------------------- MODULE MCDiscovery ----------------------------
(* Discovery with a history variable: the behaviours TLC generates here are replayed, step by step, on the  *)
(* real Discovery / limitedSet / backoffConnector by harness/drivers/discovery.                             *)
EXTENDS Discovery, Json

CONSTANTS MaxLen,    \* length of a behaviour (run TLC with -simulate file=...: the last state of each trace file holds the behaviour)
          Wanted     \* the coverage goals of this configuration (see GoalCover)

VARIABLE hist        \* sequence of [a: action record, o: observable state after it, stable: BOOLEAN]

\* What the harness can observe of the real objects (wk: the goroutines that exist, by peer and position),
\* and the verdict of the model on the properties that do NOT hold for the code as it is: the harness
\* evaluates the same predicates on the real state -- a failure the model does not share is a violation,
\* a failure the model shares is the modelled (known) defect.
Obs == [set   |-> set,
        view  |-> view,
        net   |-> net,
        prot  |-> prot,
        hb    |-> {p \in Peers : rem[p] > 0},
        rec   |-> {p \in Peers : rem[p] # NoRec},
        conn  |-> {p \in Peers : conn[p]},
        evq   |-> evq,
        wk    |-> {<<wk[w].p, wk[w].pc>> : w \in {x \in Workers : wk[x].pc # "free"}},
        dl    |-> dl,
        cl    |-> cl,
        busy  |-> loop # "idle",
        quiet |-> Quiescent,
        ok    |-> [hardLimit |-> HardLimit, inSetConnected |-> InSetConnected, inOrder |-> ReportedInOrder,
                   view |-> ViewConsistent, stranded |-> NoStrandedWaiter, prot |-> ProtectedInSetOrPending,
                   dial |-> \A w \in Workers : wk[w].pc = "gDial" => ~HasBackoff(wk[w].p)]]

InitB == Init /\ hist = <<>>
NextB == /\ Next
         /\ Len(hist) < MaxLen
         /\ hist' = Append(hist, [a |-> act', o |-> Obs', stable |-> Stable'])
SpecB == InitB /\ [][NextB]_<<vars, hist>>

-----------------------------------------------------------------------------
(* Coverage goals: decision branches that random behaviours reach rarely. Goals_*.cfg list GoalCover as an      *)
(* invariant (one worker, breadth first): the first behaviour that reaches a goal is printed, and TLC stops once  *)
(* every goal has been reached (GoalCover is "violated"). The printed behaviours are replayed like the others.   *)
(* The x_ goals are the witnesses of the properties that do not hold (TLC stops with the state in hand: the      *)
(* standalone counterexamples are X_*.cfg).                                                                        *)
GoalNames == <<"full", "refused", "redial", "inset", "self", "dialfail", "noop", "absent", "wake2", "cancelpark",
               "cancel", "refill", "connected", "overshootround",
               \* witnesses: states in which a property that the code as it is does NOT keep is false
               "x_hardLimit", "x_roundBelow", "x_inSetConnected", "x_inOrder", "x_view", "x_prot", "x_stranded", "x_dial">>
Goal(g) ==
  CASE g = "full"       -> act.a = "WSize" /\ act.full                    \* a worker finds the set at its limit
    [] g = "refused"    -> act.a = "WHasBackoff" /\ act.refused           \* Connect refuses a peer in back-off
    [] g = "redial"     -> act.a = "WHasBackoff" /\ ~act.refused /\ act.rec \* ... and dials it once the back-off has elapsed
    [] g = "inset"      -> act.a = "WAdd" /\ ~act.added                   \* Add of a member
    [] g = "self"       -> act.a = "WStart" /\ act.p = Self               \* the backend returns the node itself
    [] g = "dialfail"   -> act.a = "WBackoffDial" /\ ~act.ok              \* a failed dial is backed off, the peer not added
    [] g = "noop"       -> act.a = "LoopDiscover" /\ ~act.open            \* a tick with a full set
    [] g = "absent"     -> act.a = "DContains" /\ ~act.found              \* a disconnect of a non-member
    [] g = "wake2"      -> act.a = "WWake" /\ Cardinality({c \in Callers : cl[c].pc = "ret" /\ cl[c].res = {act.p}}) >= 2
    [] g = "cancelpark" -> act.a = "CPark" /\ cl[act.c].pc = "ret"        \* cancelled before the select
    [] g = "cancel"     -> act.a = "CCancel" /\ cl[act.c].pc = "ret"      \* cancelled while blocked
    [] g = "refill"     -> act.a = "WFin" /\ bud.drops >= 1 /\ bud.rounds >= 2 /\ Size = Limit /\ Quiescent
                                                                          \* the set is full again after a removal
    [] g = "connected"  -> act.a = "WProtect" /\ bud.inbound >= 1 /\ bud.fails = 0 /\ ~(\E w \in Workers : wk[w].ok)
                                                                          \* a peer found connected is added without a dial
    [] g = "overshootround" -> act.a = "WSize" /\ act.full /\ Size > Limit \* a worker of a round started above the limit (SignedWant = FALSE only)
    [] g = "x_hardLimit"      -> ~HardLimit
    [] g = "x_roundBelow"     -> act.a = "LoopDiscover" /\ act.open /\ Size >= Limit   \* = RoundOnlyBelowLimit is violated by this step
    [] g = "x_inSetConnected" -> ~InSetConnected
    [] g = "x_inOrder"        -> ~ReportedInOrder
    [] g = "x_view"           -> ~ViewConsistent
    [] g = "x_prot"           -> ~ProtectedInSetOrPending
    [] g = "x_stranded"       -> ~NoStrandedWaiter
    [] g = "x_dial"           -> act.a = "WDial" /\ HasBackoff(act.p)                  \* = DialRespectsBackoff is violated by this step
NGoals == Len(GoalNames)
ASSUME \A i \in 1..NGoals : TLCSet(i, FALSE)
GoalCover ==
  /\ \A i \in 1..NGoals :
       (GoalNames[i] \in Wanted /\ ~TLCGet(i) /\ Goal(GoalNames[i])) =>
           /\ TLCSet(i, TRUE)
           /\ PrintT(<<"GOAL", ToJson([g |-> GoalNames[i], hist |-> hist])>>)
  /\ \E i \in 1..NGoals : GoalNames[i] \in Wanted /\ ~TLCGet(i)
=============================================================================
