---------------------------- MODULE MCDiscovery ----------------------------
(* Discovery with a history variable: the behaviours TLC generates here are replayed, step by step, on the  *)
(* real Discovery / limitedSet / backoffConnector by harness/drivers/discovery.                             *)
EXTENDS Discovery, Json

CONSTANT MaxLen      \* length of a behaviour (run TLC with -simulate file=...: the last state of each trace file holds the behaviour)

VARIABLE hist        \* sequence of [a: action record, o: observable state after it, stable: BOOLEAN]

\* What the harness can observe of the real objects (wk: the goroutines that exist, by peer and position),
\* and the verdict of the model on the properties that do NOT hold for the code as it is: the harness
\* evaluates the same predicates on the real state -- a failure the model does not share is a violation,
\* a failure the model shares is the modelled (known) defect.
Obs == [set   |-> set,
        view  |-> view,
        net   |-> net,
        prot  |-> prot,
        hb    |-> {p \in Peers : rem[p] > 0},
        rec   |-> {p \in Peers : rem[p] # NoRec},
        conn  |-> {p \in Peers : conn[p]},
        evq   |-> evq,
        wk    |-> {<<wk[w].p, wk[w].pc>> : w \in {x \in Workers : wk[x].pc # "free"}},
        dl    |-> dl,
        cl    |-> cl,
        busy  |-> loop # "idle",
        quiet |-> Quiescent,
        ok    |-> [hardLimit |-> HardLimit, inSetConnected |-> InSetConnected, inOrder |-> ReportedInOrder,
                   view |-> ViewConsistent, stranded |-> NoStrandedWaiter, prot |-> ProtectedInSetOrPending,
                   dial |-> \A w \in Workers : wk[w].pc = "gDial" => ~HasBackoff(wk[w].p)]]

InitB == Init /\ hist = <<>>
NextB == /\ Next
         /\ Len(hist) < MaxLen
         /\ hist' = Append(hist, [a |-> act', o |-> Obs', stable |-> Stable'])
SpecB == InitB /\ [][NextB]_<<vars, hist>>

=============================================================================
