---------------------------- MODULE MCDiscovery ----------------------------
(* Model-checking instance of Discovery: behaviours with a history for the replay harness. *)
EXTENDS Discovery, Json

CONSTANT MaxLen      \* length of a printed behaviour

VARIABLE hist        \* sequence of [a: action record, o: observable state after it, stable: BOOLEAN]

\* what the harness can observe of the real objects
Obs == [set   |-> set,
        view  |-> view,
        prot  |-> prot,
        hb    |-> {p \in Peers : rem[p] > 0},
        rec   |-> {p \in Peers : rem[p] # NoRec},
        wk    |-> {<<wk[w].p, wk[w].pc>> : w \in {x \in Workers : wk[x].pc # "free"}},
        dl    |-> dl,
        cl    |-> cl,
        loop  |-> loop,
        size  |-> Cardinality(set)]

InitB == Init /\ hist = <<>>
NextB == /\ Next
         /\ Len(hist) < MaxLen
         /\ hist' = Append(hist, [a |-> act', o |-> Obs', stable |-> Stable'])
SpecB == InitB /\ [][NextB]_<<vars, hist>>

\* printed once per behaviour: at the length bound or where nothing more can happen
EmitBeh == (Len(hist) = MaxLen \/ ~ENABLED Next) => PrintT(<<"BEH", ToJson(hist)>>)
=============================================================================
