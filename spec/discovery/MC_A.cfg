\* as is: two workers race for two peers, one lost connection
SPECIFICATION Spec
CONSTANTS
  Peers = {"p1", "p2"}
  Self = "self"
  Limit = 2
  Workers = {"w1", "w2"}
  Callers = {}
  Delay = 1
  MaxRounds = 2
  MaxDrops = 1
  MaxInbound = 0
  MaxFail = 0
  MaxCalls = 0
  MaxApi = 0
  WithGC = TRUE
  AtomicPeers = FALSE
  SignedWant = TRUE
  Serialized = FALSE
  DirectAPI = FALSE
CHECK_DEADLOCK FALSE
VIEW state
INVARIANTS TypeOK SizeBound ReportedExactlyOnce ViewBookkeeping PeersResult
PROPERTIES ContactLeavesBackoff GCInvisible
