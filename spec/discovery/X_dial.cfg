\* witness wanted (coarse schedule, replayable): DialRespectsBackoff fails for the code as it is
SPECIFICATION SpecB
CONSTANTS
  Peers = {"p1", "p2"}
  Self = "self"
  Limit = 2
  Workers = {"w1", "w2"}
  Callers = {}
  Delay = 1
  MaxRounds = 3
  MaxDrops = 1
  MaxInbound = 0
  MaxFail = 0
  MaxCalls = 0
  MaxApi = 0
  WithGC = FALSE
  AtomicPeers = FALSE
  SignedWant = TRUE
  Serialized = FALSE
  DirectAPI = FALSE
  MaxLen = 200
  Wanted = {}
CHECK_DEADLOCK FALSE
VIEW state
ACTION_CONSTRAINT CoarseSchedule
PROPERTIES DialRespectsBackoff
