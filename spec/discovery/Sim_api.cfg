\* random behaviours of a bare limitedSet (Add/Remove/Peers/cancel) replayed on the real limitedSet
SPECIFICATION SpecB
CONSTANTS
  Peers = {"p1", "p2", "p3"}
  Self = "self"
  Limit = 2
  Workers = {"w1"}
  Callers = {"c1", "c2", "c3"}
  Delay = 1
  MaxRounds = 1
  MaxDrops = 0
  MaxInbound = 0
  MaxFail = 0
  MaxCalls = 8
  MaxApi = 12
  WithGC = FALSE
  AtomicPeers = FALSE
  SignedWant = TRUE
  Serialized = FALSE
  DirectAPI = TRUE
  MaxLen = 50
  Wanted = {}
CHECK_DEADLOCK FALSE
ACTION_CONSTRAINT CoarseSchedule
INVARIANTS TypeOK PeersResult
