#!/usr/bin/env python3
"""Writes the TLC configuration files of spec/discovery (run it after changing a scope; the files are committed)."""
import os
HERE = os.path.dirname(os.path.abspath(__file__))
P2, P3 = '{"p1", "p2"}', '{"p1", "p2", "p3"}'
W1, W2 = '{"w1"}', '{"w1", "w2"}'
HOLD = "INVARIANTS TypeOK SizeBound ReportedExactlyOnce ViewBookkeeping PeersResult\nPROPERTIES ContactLeavesBackoff GCInvisible\n"


def gen(name, note, spec, peers, limit, workers, callers, delay, rounds, drops, inbound, fail, calls, api=0, gc=True,
        atomic=False, signed=True, serialized=False, direct=False, maxlen=None, tail="", wanted=()):
    b = lambda x: "TRUE" if x else "FALSE"
    t = "\\* %s\nSPECIFICATION %s\nCONSTANTS\n" % (note, spec)
    for k, v in [("Peers", peers), ("Self", '"self"'), ("Limit", limit), ("Workers", workers), ("Callers", callers),
                 ("Delay", delay), ("MaxRounds", rounds), ("MaxDrops", drops), ("MaxInbound", inbound), ("MaxFail", fail),
                 ("MaxCalls", calls), ("MaxApi", api), ("WithGC", b(gc)), ("AtomicPeers", b(atomic)),
                 ("SignedWant", b(signed)), ("Serialized", b(serialized)), ("DirectAPI", b(direct))]:
        t += "  %s = %s\n" % (k, v)
    if maxlen:
        t += "  MaxLen = %d\n  Wanted = {%s}\n" % (maxlen, ", ".join('"%s"' % g for g in wanted))
    t += "CHECK_DEADLOCK FALSE\n" + tail
    open(os.path.join(HERE, name + ".cfg"), "w").write(t)


# ---- exhaustive, every interleaving, the code as it is (Discovery.tla)
V = "VIEW state\n"
gen("MC_A", "as is: two workers race for two peers, one lost connection", "Spec", P2, 2, W2, "{}", 1, 2, 1, 0, 0, 0, tail=V + HOLD)
gen("MC_B", "as is: two Peers(ctx) callers against one worker and Discard", "Spec", P2, 1, W1, '{"c1", "c2"}', 1, 2, 1, 0, 0, 2, tail=V + HOLD)
gen("MC_C", "as is: back-off of two ticks, a failing dial, an inbound connection, three rounds, GC", "Spec", P2, 1, W1, "{}", 2, 3, 1, 1, 1, 0, tail=V + HOLD)
gen("MC_D", "as is: three peers for a limit of two (the soft limit is overshot)", "Spec", P3, 2, W2, "{}", 1, 2, 0, 0, 0, 0, tail=V + HOLD)
gen("MC_E", "as is, thorough: two workers, a caller, a lost connection", "Spec", P2, 2, W2, '{"c1"}', 1, 2, 1, 0, 0, 1, tail=V + HOLD)
gen("MC_api", "a bare limitedSet: concurrent Add (two threads), Remove, two Peers(ctx) callers, cancellation", "Spec", P2, 1, W2,
    '{"c1", "c2"}', 1, 1, 0, 0, 0, 3, api=4, gc=False, direct=True, tail=V + "INVARIANTS TypeOK PeersResult\n")

# ---- witnesses (MCDiscovery.tla): what does NOT hold as the code is; coarse schedules, so that the
#      counterexample (in hist) can be forced on the real code
def wit(key, kind, prop, *a, **kw):
    gen("X_" + key, "witness wanted (coarse schedule, replayable): %s fails for the code as it is" % prop, "SpecB", *a, gc=False,
        maxlen=200, tail="VIEW state\nACTION_CONSTRAINT CoarseSchedule\n%s %s\n" % ("INVARIANTS" if kind == "inv" else "PROPERTIES", prop), **kw)


wit("hardLimit", "inv", "HardLimit", P3, 2, W2, "{}", 1, 1, 0, 0, 0, 0)
wit("roundBelow", "prop", "RoundOnlyBelowLimit", P3, 2, W2, "{}", 1, 2, 0, 0, 0, 0, signed=False)   # the tree BEFORE /repo f5c221a
wit("inSetConnected", "inv", "InSetConnected", P2, 1, W1, "{}", 1, 1, 1, 0, 0, 0)
wit("inOrder", "inv", "ReportedInOrder", P2, 1, W1, "{}", 1, 1, 1, 0, 0, 0)
wit("view", "inv", "ViewConsistent", P2, 1, W1, "{}", 1, 1, 1, 0, 0, 0)
wit("prot", "inv", "ProtectedInSetOrPending", P2, 1, W1, "{}", 1, 1, 1, 0, 0, 0)
wit("stranded", "inv", "NoStrandedWaiter", P2, 1, W1, '{"c1"}', 1, 1, 0, 0, 0, 1)
wit("dial", "prop", "DialRespectsBackoff", P2, 2, W2, "{}", 1, 3, 1, 0, 0, 0)

# ---- the same properties with the window closed (model variants = candidate repairs), every interleaving
gen("V_atomicPeers", "variant: Peers() checks and parks atomically: nobody is stranded", "Spec", P2, 1, W1, '{"c1", "c2"}', 1, 2, 1, 0, 0, 2,
    atomic=True, tail=V + "INVARIANTS TypeOK NoStrandedWaiter PeersResult\n")
gen("V_signedWant", "as is (since /repo f5c221a discover() compares size >= limit): no round above the limit", "Spec", P3, 2, W2, "{}", 1, 2, 0, 0, 0, 0,
    tail=V + "INVARIANTS TypeOK SizeBound\nPROPERTIES RoundOnlyBelowLimit\n")
SER = "INVARIANTS TypeOK SizeBound ReportedExactlyOnce ReportedInOrder ViewConsistent InSetConnected ProtectedInSetOrPending\n"
gen("V_serialized", "variant: a worker's [re-check, Add, callback, Protect] and Discard exclude each other", "Spec", P2, 1, W1, "{}", 1, 3, 2, 1, 0, 0,
    serialized=True, tail=V + SER)
gen("V_serialized2", "variant Serialized, thorough: two workers", "Spec", P2, 2, W2, "{}", 1, 2, 1, 1, 0, 0, serialized=True, tail=V + SER)

# ---- liveness (no VIEW: act is part of the state)
gen("Live", "liveness as is (weak fairness of the package's goroutines; rounds end, dials return)", "LiveSpec", P2, 1, W1, '{"c1"}', 1, 0, 1, 0, 1, 1,
    tail="PROPERTIES ReTrigger WorkersEnd DropHandled\n")
gen("Live_waiter", "liveness witness: a blocked Peers(ctx) caller is not served although the set has members (lost wake-up)", "LiveSpec",
    P2, 1, W1, '{"c1"}', 1, 0, 0, 0, 0, 1, gc=False, tail="PROPERTIES WaiterServed\n")
gen("Live_waiter_atomic", "liveness, variant AtomicPeers: every blocked caller is served once the set has members", "LiveSpec",
    P2, 1, W1, '{"c1"}', 1, 0, 0, 0, 0, 1, gc=False, atomic=True, tail="PROPERTIES WaiterServed\n")

# ---- coverage goals (MCDiscovery.tla, one worker): GoalCover "fails" when every goal has been reached
GT = "VIEW state\nACTION_CONSTRAINT CoarseSchedule\nINVARIANTS GoalCover\n"
GN = "behaviours that reach rarely taken decision branches (GoalCover in MCDiscovery.tla)"
gen("Goals_limit", GN, "SpecB", P3, 2, W2, "{}", 1, 2, 0, 0, 0, 0, gc=False, maxlen=200, tail=GT,
    wanted=("full", "inset", "x_hardLimit"))
gen("Goals_prefix", "the tree BEFORE /repo f5c221a (unsigned want): " + GN, "SpecB", P3, 2, W2, "{}", 1, 2, 0, 0, 0, 0, gc=False, maxlen=200, tail=GT,
    signed=False, wanted=("x_roundBelow",))
gen("Goals_two", GN, "SpecB", P2, 2, W2, "{}", 1, 3, 1, 0, 0, 0, gc=False, maxlen=200, tail=GT, wanted=("x_dial",))
gen("Goals_one", GN, "SpecB", P2, 1, W1, "{}", 1, 3, 1, 1, 1, 0, gc=False, maxlen=200, tail=GT,
    wanted=("refused", "redial", "self", "dialfail", "noop", "absent", "refill", "connected",
            "x_inSetConnected", "x_inOrder", "x_view", "x_prot"))
gen("Goals_callers", GN, "SpecB", P2, 1, W1, '{"c1", "c2"}', 1, 1, 0, 0, 0, 3, gc=False, maxlen=200, tail=GT,
    wanted=("wake2", "cancelpark", "cancel", "x_stranded"))

# ---- simulation for the replay (MCDiscovery.tla, -simulate file=...)
SIMINV = "ACTION_CONSTRAINT CoarseSchedule\nINVARIANTS TypeOK SizeBound ReportedExactlyOnce ViewBookkeeping PeersResult\n"
gen("Sim_disc", "random behaviours (coarse schedules, no GC) replayed on the real Discovery", "SpecB", P3, 2, W2, '{"c1", "c2"}', 2, 6, 4, 2, 2, 4,
    gc=False, maxlen=70, tail=SIMINV)
gen("Sim_disc1", "random behaviours, limit 1 (more rounds, removals and re-discovery), replayed on the real Discovery", "SpecB", P2, 1, W1,
    '{"c1"}', 1, 8, 4, 2, 2, 3, gc=False, maxlen=70, tail=SIMINV)
gen("Sim_api", "random behaviours of a bare limitedSet (Add/Remove/Peers/cancel) replayed on the real limitedSet", "SpecB", P3, 2, W1,
    '{"c1", "c2", "c3"}', 1, 1, 0, 0, 0, 8, api=12, gc=False, direct=True, maxlen=50,
    tail="ACTION_CONSTRAINT CoarseSchedule\nINVARIANTS TypeOK PeersResult\n")
