\* a bare limitedSet: concurrent Add (two threads), Remove, two Peers(ctx) callers, cancellation
SPECIFICATION Spec
CONSTANTS
  Peers = {"p1", "p2"}
  Self = "self"
  Limit = 1
  Workers = {"w1", "w2"}
  Callers = {"c1", "c2"}
  Delay = 1
  MaxRounds = 1
  MaxDrops = 0
  MaxInbound = 0
  MaxFail = 0
  MaxCalls = 3
  MaxApi = 4
  WithGC = FALSE
  AtomicPeers = FALSE
  SignedWant = TRUE
  Serialized = FALSE
  DirectAPI = TRUE
CHECK_DEADLOCK FALSE
VIEW state
INVARIANTS TypeOK PeersResult
