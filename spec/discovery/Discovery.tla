------------------------------ MODULE Discovery ------------------------------
(***************************************************************************)
(* Peer discovery: /repo/share/shwap/p2p/discovery                         *)
(*   set.go        limitedSet     (Add / Remove / Contains / Size / Peers) *)
(*   backoff.go    backoffConnector (Connect / Backoff / HasBackoff / GC)  *)
(*   discovery.go  Discovery: discoveryLoop -> discover -> one worker per  *)
(*                 discovered peer (handleDiscoveredPeer); disconnectsLoop *)
(*                 -> Discard; the OnUpdatedPeers callbacks that feed the  *)
(*                 shrex peer manager (Manager.UpdateNodePool)             *)
(*                                                                         *)
(* The module is a transcription of the code AS IT IS, oddities included.  *)
(* One action per critical section / per call into an injected interface.  *)
(*                                                                         *)
(* State of the code                                                       *)
(*   set        limitedSet.ps                                              *)
(*   cl         the goroutines inside limitedSet.Peers(ctx): "gEmpty" =    *)
(*              saw the set empty and released the read lock, not yet in   *)
(*              the select; "parked" = blocked in the select (a receiver   *)
(*              of waitPeer); Add hands the new peer to the parked ones    *)
(*              only (non-blocking send in a loop)                         *)
(*   rem        backoffConnector.cacheData: NoRec = no record, n > 0 = a   *)
(*              record whose nexttry lies n ticks ahead (HasBackoff), 0 =  *)
(*              a record that has elapsed and waits for the GC. Tick ages  *)
(*              all records (the code reads the wall clock; real time is   *)
(*              never exactly on a deadline, so Before/After at equality   *)
(*              is not modelled). The back-off is the fixed one.           *)
(*   loop       discoveryLoop/discover: "idle" between two ticks, "open" a *)
(*              FindPeers round is running, "draining" the round's channel *)
(*              was closed or its context cancelled and discover() waits   *)
(*              for the workers (wg.Wait)                                  *)
(*   cancelled  findCtx of the round is cancelled (a worker saw the set    *)
(*              full and called findCancel)                                *)
(*   wk         the errgroup's goroutines (limit = PeersLimit), one per    *)
(*              discovered peer, program counter pc:                       *)
(*                spawned   wg.Go started it; findCtx.Err(),           *)
(*                          host.ID() == p                   -> WStart     *)
(*                chkSize   reads set.Size()                 -> WSize      *)
(*                gConn     calls Network().Connectedness    -> WConnectedness *)
(*                boConn    connected: connector.Backoff     -> WBackoffConnected *)
(*                chkBo     Connect: HasBackoff              -> WHasBackoff *)
(*                gDial     Connect: host.Connect is called  -> WDial      *)
(*                gDialRet  Connect: host.Connect returns    -> WDialReturn *)
(*                boDial    Connect: Backoff after the dial  -> WBackoffDial *)
(*                add       set.Add, critical section        -> WAdd       *)
(*                wake      set.Add, hand-off loop           -> WWake      *)
(*                gCb       onUpdatedPeers(p, true)          -> WCallback  *)
(*                gProt     ConnManager().Protect            -> WProtect   *)
(*                fin       size check, findCancel           -> WFin       *)
(*   dl         disconnectsLoop / Discard:                                 *)
(*                recv      waits for an event               -> DRecv      *)
(*                contains  set.Contains                     -> DContains  *)
(*                gUnprot   ConnManager().Unprotect          -> DUnprotect *)
(*                bo        connector.Backoff                -> DBackoff   *)
(*                rm        set.Remove                       -> DRemove    *)
(*                gCb       onUpdatedPeers(p, false)         -> DCallback  *)
(*              (the send on triggerDisc that follows has no receiver      *)
(*              anywhere in the package: it is a no-op; re-discovery       *)
(*              happens at the next tick of the loop)                      *)
(* Environment                                                             *)
(*   conn       Network().Connectedness(p) = Connected                     *)
(*   evq        NotConnected events queued in the event subscription       *)
(*   view, net  what the callbacks have told the peer manager: view = the  *)
(*              node pool it would hold (add on true, remove on false),    *)
(*              net[p] = #true - #false                                    *)
(*   prot       peers protected in the connection manager under the topic  *)
(*                                                                         *)
(* pcs beginning with "g" are calls into an interface the harness injects  *)
(* (or a hook): the replay gates the real goroutines there. The others are *)
(* internal; CoarseSchedule restricts behaviours to those in which an      *)
(* internal step is taken at once -- the behaviours the harness can force. *)
(* TLC checks the invariants on ALL interleavings (no constraint).         *)
(*                                                                         *)
(* Switches (SignedWant = TRUE, the others FALSE = the code as it is)      *)
(*   AtomicPeers   Peers() checks and parks in one step (no window for a   *)
(*                 lost wake-up)                                           *)
(*   SignedWant    discover() compares size >= limit (the code since       *)
(*                 /repo f5c221a); FALSE = the tree before: `limit - size  *)
(*                 == 0` on unsigned integers, a round above the limit     *)
(*   Serialized    [re-check connectedness, Add, callback, Protect] of a   *)
(*                 worker and the whole of Discard exclude each other      *)
(*                 (variable mu)                                           *)
(*   DirectAPI     the harness calls Add/Remove of a bare limitedSet       *)
(*                 (unit-level replay); the loops are off                  *)
(***************************************************************************)
EXTENDS Naturals, Integers, Sequences, FiniteSets, TLC

CONSTANTS
  Peers,        \* remote peer ids the backend may return (strings)
  Self,         \* the node's own id (the backend may return it too)
  Limit,        \* Parameters.PeersLimit
  Workers,      \* errgroup slots; the code sets the group's limit to PeersLimit
  Callers,      \* goroutines calling Peers(ctx)
  Delay,        \* the fixed back-off in ticks (>= 1)
  MaxRounds,    \* bound on discover() calls (0 = unbounded, for liveness)
  MaxDrops,     \* bound on lost connections
  MaxInbound,   \* bound on connections that appear without our dial
  MaxFail,      \* bound on failing dials
  MaxCalls,     \* bound on Peers(ctx) calls
  MaxApi,       \* bound on direct Add/Remove calls (DirectAPI)
  WithGC,       \* BOOLEAN: the connector's GC loop runs (its period is a minute: the replay cannot trigger it)
  AtomicPeers, SignedWant, Serialized, DirectAPI

None  == "-"
NoRec == -1
Ids   == Peers \cup {Self}

VARIABLES set, cl, rem, loop, cancelled, seen, wk, dl, conn, evq, view, net, prot, mu, bud, act

vars == <<set, cl, rem, loop, cancelled, seen, wk, dl, conn, evq, view, net, prot, mu, bud, act>>
\* everything but the label of the last action (VIEW of the safety configurations)
state == <<set, cl, rem, loop, cancelled, seen, wk, dl, conn, evq, view, net, prot, mu, bud>>

Free == [pc |-> "free", p |-> None, ok |-> FALSE, api |-> FALSE]
At(pc, p, ok, api) == [pc |-> pc, p |-> p, ok |-> ok, api |-> api]

WorkerPcs == {"free", "spawned", "chkSize", "gConn", "boConn", "chkBo", "gDial", "gDialRet", "boDial",
              "gLock", "add", "wake", "gCb", "gProt", "fin"}
InternalW == {"spawned", "chkSize", "boConn", "chkBo", "boDial", "add", "wake", "fin"}
DlPcs     == {"recv", "contains", "gUnprot", "bo", "rm", "gCb"}
InternalD == {"contains", "bo", "rm"}
CallerPcs == {"idle", "gEmpty", "parked", "ret"}

TypeOK ==
  /\ set \subseteq Peers
  /\ cl \in [Callers -> [pc : CallerPcs, res : SUBSET Peers, err : BOOLEAN, can : BOOLEAN]]
  /\ rem \in [Peers -> {NoRec} \cup (0..Delay)]
  /\ loop \in {"idle", "open", "draining"}
  /\ cancelled \in BOOLEAN
  /\ seen \subseteq Ids
  /\ wk \in [Workers -> [pc : WorkerPcs, p : Ids \cup {None}, ok : BOOLEAN, api : BOOLEAN]]
  /\ dl \in [pc : DlPcs, p : Peers \cup {None}]
  /\ conn \in [Peers -> BOOLEAN]
  /\ evq \in Seq(Peers)
  /\ view \subseteq Peers
  /\ net \in [Peers -> -3..3]
  /\ prot \subseteq Peers
  /\ mu \in Workers \cup {"dl", None}

Init ==
  /\ set = {}
  /\ cl = [c \in Callers |-> [pc |-> "idle", res |-> {}, err |-> FALSE, can |-> FALSE]]
  /\ rem = [p \in Peers |-> NoRec]
  /\ loop = "idle" /\ cancelled = FALSE /\ seen = {}
  /\ wk = [w \in Workers |-> Free]
  /\ dl = [pc |-> "recv", p |-> None]
  /\ conn = [p \in Peers |-> FALSE]
  /\ evq = <<>>
  /\ view = {} /\ net = [p \in Peers |-> 0] /\ prot = {}
  /\ mu = None
  /\ bud = [rounds |-> 0, drops |-> 0, inbound |-> 0, fails |-> 0, calls |-> 0, api |-> 0]
  /\ act = [a |-> "Init"]

Size == Cardinality(set)
HasBackoff(p) == rem[p] > 0
SetBackoff(p) == rem' = [rem EXCEPT ![p] = Delay]       \* Backoff(): new or extended record, nexttry = now + Delay
Parked == {c \in Callers : cl[c].pc = "parked"}
FreeWorkers == {w \in Workers : wk[w].pc = "free"}
Spend(k) == bud' = [bud EXCEPT ![k] = @ + 1]

-----------------------------------------------------------------------------
(* limitedSet.Peers(ctx) *)

\* first critical section: a non-empty set is copied and returned; otherwise the caller leaves the lock
CCall(c) ==
  /\ cl[c].pc = "idle" /\ bud.calls < MaxCalls
  /\ cl' = [cl EXCEPT ![c] = IF set # {} THEN [pc |-> "ret", res |-> set, err |-> FALSE, can |-> FALSE]
                             ELSE [pc |-> IF AtomicPeers THEN "parked" ELSE "gEmpty", res |-> {}, err |-> FALSE, can |-> FALSE]]
  /\ Spend("calls")
  /\ act' = [a |-> "CCall", c |-> c]
  /\ UNCHANGED <<set, rem, loop, cancelled, seen, wk, dl, conn, evq, view, net, prot, mu>>

\* the caller reaches the select: with a cancelled context it returns the context's error
CPark(c) ==
  /\ cl[c].pc = "gEmpty"
  /\ cl' = [cl EXCEPT ![c] = IF @.can THEN [pc |-> "ret", res |-> {}, err |-> TRUE, can |-> TRUE]
                             ELSE [@ EXCEPT !.pc = "parked"]]
  /\ act' = [a |-> "CPark", c |-> c]
  /\ UNCHANGED <<set, rem, loop, cancelled, seen, wk, dl, conn, evq, view, net, prot, mu, bud>>

\* the caller's context is cancelled; a parked caller is committed to the Done case at once
CCancel(c) ==
  /\ cl[c].pc \in {"gEmpty", "parked"} /\ ~cl[c].can
  /\ cl' = [cl EXCEPT ![c] = IF @.pc = "parked" THEN [pc |-> "ret", res |-> {}, err |-> TRUE, can |-> TRUE]
                             ELSE [@ EXCEPT !.can = TRUE]]
  /\ act' = [a |-> "CCancel", c |-> c]
  /\ UNCHANGED <<set, rem, loop, cancelled, seen, wk, dl, conn, evq, view, net, prot, mu, bud>>

\* the result has been consumed; the goroutine may call again
CReset(c) ==
  /\ cl[c].pc = "ret" /\ bud.calls < MaxCalls
  /\ cl' = [cl EXCEPT ![c] = [pc |-> "idle", res |-> {}, err |-> FALSE, can |-> FALSE]]
  /\ act' = [a |-> "CReset", c |-> c]
  /\ UNCHANGED <<set, rem, loop, cancelled, seen, wk, dl, conn, evq, view, net, prot, mu, bud>>

-----------------------------------------------------------------------------
(* discoveryLoop / discover *)

\* a tick: discover(). Before /repo f5c221a (SignedWant = FALSE) `want := limit - size` was computed on unsigned
\* integers and compared with 0, so a set ABOVE its limit started a round as well
LoopDiscover ==
  /\ ~DirectAPI /\ loop = "idle" /\ (MaxRounds = 0 \/ bud.rounds < MaxRounds)
  /\ IF (IF SignedWant THEN Size >= Limit ELSE Size = Limit)
       THEN loop' = loop /\ act' = [a |-> "LoopDiscover", open |-> FALSE]
       ELSE loop' = "open" /\ act' = [a |-> "LoopDiscover", open |-> TRUE]
  /\ seen' = {} /\ cancelled' = FALSE
  /\ IF MaxRounds = 0 THEN bud' = bud ELSE Spend("rounds")
  /\ UNCHANGED <<set, cl, rem, wk, dl, conn, evq, view, net, prot, mu>>

\* the backend returns a peer; wg.Go starts a worker (it blocks while all slots are busy: the environment
\* delivers only when a slot is free, and each id at most once per round)
Deliver(p) ==
  /\ loop = "open" /\ ~cancelled /\ p \in Ids \ seen /\ FreeWorkers # {}
  /\ LET w == CHOOSE x \in FreeWorkers : TRUE IN
       /\ wk' = [wk EXCEPT ![w] = At("spawned", p, FALSE, FALSE)]
       /\ act' = [a |-> "Deliver", p |-> p, w |-> w]
  /\ seen' = seen \cup {p}
  /\ UNCHANGED <<set, cl, rem, loop, cancelled, dl, conn, evq, view, net, prot, mu, bud>>

\* the backend closes the channel (or findPeersTimeout fires): the round ends
CloseFind ==
  /\ loop = "open"
  /\ loop' = "draining"
  /\ act' = [a |-> "CloseFind"]
  /\ UNCHANGED <<set, cl, rem, cancelled, seen, wk, dl, conn, evq, view, net, prot, mu, bud>>

\* the loop notices that a worker cancelled findCtx
LoopSeesCancel ==
  /\ loop = "open" /\ cancelled
  /\ loop' = "draining"
  /\ act' = [a |-> "LoopSeesCancel"]
  /\ UNCHANGED <<set, cl, rem, cancelled, seen, wk, dl, conn, evq, view, net, prot, mu, bud>>

\* wg.Wait() returns, discover() returns
RoundEnd ==
  /\ loop = "draining" /\ \A w \in Workers : wk[w].pc = "free"
  /\ loop' = "idle" /\ cancelled' = FALSE
  /\ act' = [a |-> "RoundEnd"]
  /\ UNCHANGED <<set, cl, rem, seen, wk, dl, conn, evq, view, net, prot, mu, bud>>

-----------------------------------------------------------------------------
(* the worker of one discovered peer: the errgroup closure + handleDiscoveredPeer *)

Step(w, pc) == wk' = [wk EXCEPT ![w] = [@ EXCEPT !.pc = pc]]
Exit(w)     == wk' = [wk EXCEPT ![w] = Free]
WAct(n, w)  == act' = [a |-> n, w |-> w, p |-> wk[w].p]
\* where a worker continues once it may add the peer
AddPc == IF Serialized THEN "gLock" ELSE "add"

\* the closure looks at findCtx, handleDiscoveredPeer at host.ID() (a local comparison)
WStart(w) ==
  /\ wk[w].pc = "spawned"
  /\ IF cancelled \/ wk[w].p = Self THEN Exit(w) ELSE Step(w, "chkSize")
  /\ act' = [a |-> "WStart", w |-> w, p |-> wk[w].p, skipped |-> cancelled]
  /\ UNCHANGED <<set, cl, rem, loop, cancelled, seen, dl, conn, evq, view, net, prot, mu, bud>>

WSize(w) ==
  /\ wk[w].pc = "chkSize"
  /\ IF Size >= Limit THEN Exit(w) ELSE Step(w, "gConn")
  /\ act' = [a |-> "WSize", w |-> w, p |-> wk[w].p, full |-> Size >= Limit]
  /\ UNCHANGED <<set, cl, rem, loop, cancelled, seen, dl, conn, evq, view, net, prot, mu, bud>>

WConnectedness(w) ==
  /\ wk[w].pc = "gConn"
  /\ IF conn[wk[w].p] THEN Step(w, "boConn") ELSE Step(w, "chkBo")
  /\ act' = [a |-> "WConnectedness", w |-> w, p |-> wk[w].p, connected |-> conn[wk[w].p]]
  /\ UNCHANGED <<set, cl, rem, loop, cancelled, seen, dl, conn, evq, view, net, prot, mu, bud>>

\* "we still have to backoff the connected peer"
WBackoffConnected(w) ==
  /\ wk[w].pc = "boConn"
  /\ SetBackoff(wk[w].p)
  /\ Step(w, AddPc)
  /\ WAct("WBackoffConnected", w)
  /\ UNCHANGED <<set, cl, loop, cancelled, seen, dl, conn, evq, view, net, prot, mu, bud>>

\* Connect refuses a peer in back-off
WHasBackoff(w) ==
  /\ wk[w].pc = "chkBo"
  /\ IF HasBackoff(wk[w].p) THEN Exit(w) ELSE Step(w, "gDial")
  /\ act' = [a |-> "WHasBackoff", w |-> w, p |-> wk[w].p, refused |-> HasBackoff(wk[w].p), rec |-> rem[wk[w].p] # NoRec]
  /\ UNCHANGED <<set, cl, rem, loop, cancelled, seen, dl, conn, evq, view, net, prot, mu, bud>>

\* host.Connect is called: the environment decides the outcome; a successful dial connects the peer
WDial(w, ok) ==
  /\ wk[w].pc = "gDial"
  /\ ok \/ bud.fails < MaxFail
  /\ conn' = IF ok THEN [conn EXCEPT ![wk[w].p] = TRUE] ELSE conn
  /\ wk' = [wk EXCEPT ![w] = [@ EXCEPT !.pc = "gDialRet", !.ok = ok]]
  /\ IF ok THEN bud' = bud ELSE Spend("fails")
  /\ act' = [a |-> "WDial", w |-> w, p |-> wk[w].p, ok |-> ok]
  /\ UNCHANGED <<set, cl, rem, loop, cancelled, seen, dl, evq, view, net, prot, mu>>

\* host.Connect returns (the connection may already be gone again: EnvDrop in between)
WDialReturn(w) ==
  /\ wk[w].pc = "gDialRet"
  /\ Step(w, "boDial")
  /\ WAct("WDialReturn", w)
  /\ UNCHANGED <<set, cl, rem, loop, cancelled, seen, dl, conn, evq, view, net, prot, mu, bud>>

\* Connect records the attempt whatever its outcome (the context is never cancelled here: Stop is not modelled)
WBackoffDial(w) ==
  /\ wk[w].pc = "boDial"
  /\ SetBackoff(wk[w].p)
  /\ IF wk[w].ok THEN Step(w, AddPc) ELSE Exit(w)
  /\ act' = [a |-> "WBackoffDial", w |-> w, p |-> wk[w].p, ok |-> wk[w].ok]
  /\ UNCHANGED <<set, cl, loop, cancelled, seen, dl, conn, evq, view, net, prot, mu, bud>>

\* Serialized only: take the lock and look at the connection again
WLock(w) ==
  /\ wk[w].pc = "gLock" /\ mu = None
  /\ IF conn[wk[w].p] THEN Step(w, "add") /\ mu' = w ELSE Exit(w) /\ mu' = mu
  /\ WAct("WLock", w)
  /\ UNCHANGED <<set, cl, rem, loop, cancelled, seen, dl, conn, evq, view, net, prot, bud>>

Unlock(w) == IF mu = w THEN mu' = None ELSE mu' = mu

\* set.Add, critical section. The set does not look at its limit.
WAdd(w) ==
  /\ wk[w].pc = "add"
  /\ IF wk[w].p \in set
       THEN Exit(w) /\ set' = set /\ Unlock(w)
       ELSE Step(w, "wake") /\ set' = set \cup {wk[w].p} /\ mu' = mu
  /\ act' = [a |-> "WAdd", w |-> w, p |-> wk[w].p, added |-> wk[w].p \notin set]
  /\ UNCHANGED <<cl, rem, loop, cancelled, seen, dl, conn, evq, view, net, prot, bud>>

\* set.Add, hand-off loop: one iteration. A parked caller receives the peer; nobody parked: Add returns.
WWake(w) ==
  /\ wk[w].pc = "wake"
  /\ IF Parked # {}
       THEN \E c \in Parked :
              /\ cl' = [cl EXCEPT ![c] = [pc |-> "ret", res |-> {wk[w].p}, err |-> FALSE, can |-> @.can]]
              /\ wk' = wk
              /\ act' = [a |-> "WWake", w |-> w, p |-> wk[w].p, c |-> c]
       ELSE /\ cl' = cl
            /\ IF wk[w].api THEN Exit(w) ELSE Step(w, "gCb")
            /\ act' = [a |-> "WWake", w |-> w, p |-> wk[w].p, c |-> None]
  /\ UNCHANGED <<set, rem, loop, cancelled, seen, dl, conn, evq, view, net, prot, mu, bud>>

\* onUpdatedPeers(p, true) takes effect in the peer manager
WCallback(w) ==
  /\ wk[w].pc = "gCb"
  /\ view' = view \cup {wk[w].p}
  /\ net' = [net EXCEPT ![wk[w].p] = @ + 1]
  /\ Step(w, "gProt")
  /\ WAct("WCallback", w)
  /\ UNCHANGED <<set, cl, rem, loop, cancelled, seen, dl, conn, evq, prot, mu, bud>>

WProtect(w) ==
  /\ wk[w].pc = "gProt"
  /\ prot' = prot \cup {wk[w].p}
  /\ Step(w, "fin")
  /\ Unlock(w)
  /\ WAct("WProtect", w)
  /\ UNCHANGED <<set, cl, rem, loop, cancelled, seen, dl, conn, evq, view, net, bud>>

\* back in the closure: the round is cancelled once the set is full
WFin(w) ==
  /\ wk[w].pc = "fin"
  /\ cancelled' = (cancelled \/ Size >= Limit)
  /\ Exit(w)
  /\ WAct("WFin", w)
  /\ UNCHANGED <<set, cl, rem, loop, seen, dl, conn, evq, view, net, prot, mu, bud>>

-----------------------------------------------------------------------------
(* disconnectsLoop / Discard *)

DAct(n) == act' = [a |-> n, p |-> dl.p]

DRecv ==
  /\ dl.pc = "recv" /\ evq # <<>>
  /\ dl' = [pc |-> "contains", p |-> Head(evq)]
  /\ evq' = Tail(evq)
  /\ act' = [a |-> "DRecv", p |-> Head(evq)]
  /\ UNCHANGED <<set, cl, rem, loop, cancelled, seen, wk, conn, view, net, prot, mu, bud>>

DContains ==
  /\ dl.pc = "contains"
  /\ IF Serialized THEN mu = None ELSE TRUE
  /\ IF dl.p \in set
       THEN dl' = [dl EXCEPT !.pc = "gUnprot"] /\ mu' = IF Serialized THEN "dl" ELSE mu
       ELSE dl' = [pc |-> "recv", p |-> None] /\ mu' = mu
  /\ act' = [a |-> "DContains", p |-> dl.p, found |-> dl.p \in set]
  /\ UNCHANGED <<set, cl, rem, loop, cancelled, seen, wk, conn, evq, view, net, prot, bud>>

DUnprotect ==
  /\ dl.pc = "gUnprot"
  /\ prot' = prot \ {dl.p}
  /\ dl' = [dl EXCEPT !.pc = "bo"]
  /\ DAct("DUnprotect")
  /\ UNCHANGED <<set, cl, rem, loop, cancelled, seen, wk, conn, evq, view, net, mu, bud>>

DBackoff ==
  /\ dl.pc = "bo"
  /\ SetBackoff(dl.p)
  /\ dl' = [dl EXCEPT !.pc = "rm"]
  /\ DAct("DBackoff")
  /\ UNCHANGED <<set, cl, loop, cancelled, seen, wk, conn, evq, view, net, prot, mu, bud>>

DRemove ==
  /\ dl.pc = "rm"
  /\ set' = set \ {dl.p}
  /\ dl' = [dl EXCEPT !.pc = "gCb"]
  /\ DAct("DRemove")
  /\ UNCHANGED <<cl, rem, loop, cancelled, seen, wk, conn, evq, view, net, prot, mu, bud>>

\* onUpdatedPeers(p, false) takes effect; the trigger that follows is a no-op
DCallback ==
  /\ dl.pc = "gCb"
  /\ view' = view \ {dl.p}
  /\ net' = [net EXCEPT ![dl.p] = @ - 1]
  /\ dl' = [pc |-> "recv", p |-> None]
  /\ mu' = IF mu = "dl" THEN None ELSE mu
  /\ DAct("DCallback")
  /\ UNCHANGED <<set, cl, rem, loop, cancelled, seen, wk, conn, evq, prot, bud>>

-----------------------------------------------------------------------------
(* environment: the network, time *)

EnvDrop(p) ==
  /\ ~DirectAPI /\ conn[p] /\ bud.drops < MaxDrops
  /\ conn' = [conn EXCEPT ![p] = FALSE]
  /\ evq' = Append(evq, p)
  /\ Spend("drops")
  /\ act' = [a |-> "EnvDrop", p |-> p]
  /\ UNCHANGED <<set, cl, rem, loop, cancelled, seen, wk, dl, view, net, prot, mu>>

EnvInbound(p) ==
  /\ ~DirectAPI /\ ~conn[p] /\ bud.inbound < MaxInbound
  /\ conn' = [conn EXCEPT ![p] = TRUE]
  /\ Spend("inbound")
  /\ act' = [a |-> "EnvInbound", p |-> p]
  /\ UNCHANGED <<set, cl, rem, loop, cancelled, seen, wk, dl, evq, view, net, prot, mu>>

Tick ==
  /\ \E p \in Peers : rem[p] > 0
  /\ rem' = [p \in Peers |-> IF rem[p] > 0 THEN rem[p] - 1 ELSE rem[p]]
  /\ act' = [a |-> "Tick"]
  /\ UNCHANGED <<set, cl, loop, cancelled, seen, wk, dl, conn, evq, view, net, prot, mu, bud>>

\* one iteration of backoffConnector.GC: elapsed records are deleted
GC ==
  /\ WithGC /\ \E p \in Peers : rem[p] = 0
  /\ rem' = [p \in Peers |-> IF rem[p] = 0 THEN NoRec ELSE rem[p]]
  /\ act' = [a |-> "GC"]
  /\ UNCHANGED <<set, cl, loop, cancelled, seen, wk, dl, conn, evq, view, net, prot, mu, bud>>

-----------------------------------------------------------------------------
(* DirectAPI: the harness drives a bare limitedSet *)

ApiAdd(p) ==
  /\ DirectAPI /\ bud.api < MaxApi /\ FreeWorkers # {}
  /\ LET w == CHOOSE x \in FreeWorkers : TRUE IN
       /\ wk' = [wk EXCEPT ![w] = At("add", p, FALSE, TRUE)]
       /\ act' = [a |-> "ApiAdd", p |-> p, w |-> w]
  /\ Spend("api")
  /\ UNCHANGED <<set, cl, rem, loop, cancelled, seen, dl, conn, evq, view, net, prot, mu>>

ApiRemove(p) ==
  /\ DirectAPI /\ bud.api < MaxApi
  /\ set' = set \ {p}
  /\ Spend("api")
  /\ act' = [a |-> "ApiRemove", p |-> p]
  /\ UNCHANGED <<cl, rem, loop, cancelled, seen, wk, dl, conn, evq, view, net, prot, mu>>

-----------------------------------------------------------------------------
WorkerNext(w) ==
  \/ WStart(w) \/ WSize(w) \/ WConnectedness(w) \/ WBackoffConnected(w) \/ WHasBackoff(w)
  \/ \E ok \in BOOLEAN : WDial(w, ok)
  \/ WDialReturn(w)
  \/ WBackoffDial(w) \/ WLock(w) \/ WAdd(w) \/ WWake(w) \/ WCallback(w) \/ WProtect(w) \/ WFin(w)

DlNext == DRecv \/ DContains \/ DUnprotect \/ DBackoff \/ DRemove \/ DCallback

LoopNext == LoopDiscover \/ CloseFind \/ LoopSeesCancel \/ RoundEnd \/ \E p \in Ids : Deliver(p)

CallerNext(c) == CCall(c) \/ CPark(c) \/ CCancel(c) \/ CReset(c)

EnvNext == Tick \/ GC \/ \E p \in Peers : EnvDrop(p) \/ EnvInbound(p) \/ ApiAdd(p) \/ ApiRemove(p)

Next == LoopNext \/ DlNext \/ EnvNext \/ (\E w \in Workers : WorkerNext(w)) \/ (\E c \in Callers : CallerNext(c))

Spec == Init /\ [][Next]_vars

\* Fairness: the goroutines of the package run, dials return, rounds end, the ticker ticks.
\* No fairness for what the outside world may or may not do (Deliver, EnvDrop, EnvInbound, Peers callers).
Fair ==
  /\ \A w \in Workers : WF_vars(WorkerNext(w))
  /\ WF_vars(DlNext)
  /\ WF_vars(LoopDiscover) /\ WF_vars(CloseFind) /\ WF_vars(LoopSeesCancel) /\ WF_vars(RoundEnd)

LiveSpec == Spec /\ Fair

-----------------------------------------------------------------------------
(* The schedules the replay harness can force: an internal step is taken at once. *)
BusyW == {w \in Workers : wk[w].pc \in InternalW}
WorkerActs == {"WStart", "WSize", "WConnectedness", "WBackoffConnected", "WHasBackoff", "WDial", "WDialReturn",
               "WBackoffDial", "WLock", "WAdd", "WWake", "WCallback", "WProtect", "WFin"}
DlActs == {"DRecv", "DContains", "DUnprotect", "DBackoff", "DRemove", "DCallback"}
CoarseSchedule ==
  /\ BusyW # {} => act'.a \in WorkerActs /\ act'.w \in BusyW
  /\ dl.pc \in InternalD => act'.a \in DlActs

\* all goroutines are at a gate or idle (the replay compares the real state here)
Stable == BusyW = {} /\ dl.pc \notin InternalD

-----------------------------------------------------------------------------
(* Properties *)

Range(s) == {s[i] : i \in DOMAIN s}

\* The limit is soft: workers pass the size check concurrently. What the code does guarantee:
SizeBound == Size <= Limit - 1 + Cardinality(Workers)
\* ... and what it does not (a witness is wanted, not an alarm)
HardLimit == Size <= Limit

\* A round is started only below the limit. Failed before /repo f5c221a (unsigned `want`) once the set was above it.
RoundOnlyBelowLimit == [][(loop = "idle" /\ loop' = "open") => Size < Limit]_vars

\* A member of the set is connected, unless its disconnect event is still on its way through disconnectsLoop.
InFlight(p) == p \in Range(evq) \/ (dl.p = p /\ dl.pc \in {"contains", "gUnprot", "bo", "rm"})
InSetConnected == \A p \in set : conn[p] \/ InFlight(p)

\* Every change of the set is reported exactly once: what the callbacks delivered so far, plus the reports
\* that goroutines between the change and their callback still owe, is the set.
OwedAdd(p) == Cardinality({w \in Workers : wk[w].p = p /\ ~wk[w].api /\ wk[w].pc \in {"wake", "gCb"}})
OwedRem(p) == IF dl.p = p /\ dl.pc = "gCb" THEN 1 ELSE 0
ReportedExactlyOnce ==
  DirectAPI \/ \A p \in Peers : net[p] + OwedAdd(p) - OwedRem(p) = (IF p \in set THEN 1 ELSE 0)

\* ... and in order: "added" before "removed", alternating.
ReportedInOrder == \A p \in Peers : net[p] \in {0, 1}

\* Once everything is at rest the peer manager's pool and the protected peers are the set.
Quiescent == /\ \A w \in Workers : wk[w].pc = "free"
             /\ dl.pc = "recv" /\ evq = <<>>
ViewConsistent == Quiescent /\ ~DirectAPI => view = set /\ prot = set
\* weaker, holds as the code is: nothing is reported that never was in the set, nothing protected ... (bookkeeping)
ViewBookkeeping == Quiescent /\ ~DirectAPI => \A p \in Peers : net[p] = (IF p \in set THEN 1 ELSE 0)

\* A dial is started only for a peer that is not in back-off.
DialRespectsBackoff ==
  [][\A w \in Workers : (wk[w].pc = "gDial" /\ wk'[w].pc = "gDialRet") => ~HasBackoff(wk[w].p)]_vars
\* what the connector guarantees by itself: the decision to dial was taken while no back-off was active,
\* and every contact leaves an active back-off behind
ContactLeavesBackoff ==
  [][\A w \in Workers : (wk[w].pc \in {"boDial", "boConn"} /\ wk'[w].pc # wk[w].pc) => rem'[wk[w].p] = Delay]_vars

\* GC is invisible to HasBackoff
GCInvisible == [][act'.a = "GC" => \A p \in Peers : (rem'[p] > 0) = (rem[p] > 0)]_vars

\* Peers(ctx): a non-empty slice, or the context's error after a cancellation
PeersResult == \A c \in Callers : cl[c].pc = "ret" =>
                 IF cl[c].err THEN cl[c].can /\ cl[c].res = {} ELSE cl[c].res # {}
\* nobody stays blocked in Peers while the set has members and no Add is handing its peer over.
\* FAILS as the code is: a caller between its emptiness check and its select misses the hand-off.
Waking == \E w \in Workers : wk[w].pc \in {"wake"}
NoStrandedWaiter == \A c \in Callers : cl[c].pc = "parked" => set = {} \/ Waking

\* protection follows membership (modulo goroutines in between)
ProtectedInSetOrPending ==
  \A p \in prot : p \in set \/ (dl.p = p /\ dl.pc \in {"gUnprot"})
  \* FAILS as the code is (Protect after a concurrent Discard); kept for the Serialized variant

\* Liveness (LiveSpec)
\* discovery starts again whenever the set is below its limit
ReTrigger == [](Size < Limit ~> (loop = "open" \/ Size >= Limit))
\* every worker ends (dials return)
WorkersEnd == \A w \in Workers : [](wk[w].pc # "free" ~> wk[w].pc = "free")
\* a disconnect event of a member is eventually acted upon
DropHandled == \A p \in Peers : []((p \in Range(evq)) ~> (p \notin Range(evq)))
\* a blocked caller is served once the set has members. FAILS as the code is (lost wake-up).
WaiterServed == \A c \in Callers : []((cl[c].pc = "parked" /\ set # {}) ~> (cl[c].pc # "parked" \/ set = {}))
=============================================================================
