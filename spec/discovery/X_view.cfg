\* witness wanted (coarse schedule, replayable): ViewConsistent fails for the code as it is
SPECIFICATION SpecB
CONSTANTS
  Peers = {"p1", "p2"}
  Self = "self"
  Limit = 1
  Workers = {"w1"}
  Callers = {}
  Delay = 1
  MaxRounds = 1
  MaxDrops = 1
  MaxInbound = 0
  MaxFail = 0
  MaxCalls = 0
  MaxApi = 0
  WithGC = FALSE
  AtomicPeers = FALSE
  SignedWant = TRUE
  Serialized = FALSE
  DirectAPI = FALSE
  MaxLen = 200
  Wanted = {}
CHECK_DEADLOCK FALSE
VIEW state
ACTION_CONSTRAINT CoarseSchedule
INVARIANTS ViewConsistent
