\* witness wanted (coarse schedule, replayable): HardLimit fails for the code as it is
SPECIFICATION SpecB
CONSTANTS
  Peers = {"p1", "p2", "p3"}
  Self = "self"
  Limit = 2
  Workers = {"w1", "w2"}
  Callers = {}
  Delay = 1
  MaxRounds = 1
  MaxDrops = 0
  MaxInbound = 0
  MaxFail = 0
  MaxCalls = 0
  MaxApi = 0
  WithGC = FALSE
  AtomicPeers = FALSE
  SignedWant = FALSE
  Serialized = FALSE
  DirectAPI = FALSE
  MaxLen = 200
  Wanted = {}
CHECK_DEADLOCK FALSE
VIEW state
ACTION_CONSTRAINT CoarseSchedule
INVARIANTS HardLimit
