\* random behaviours, limit 1 (more rounds, removals and re-discovery), replayed on the real Discovery
SPECIFICATION SpecB
CONSTANTS
  Peers = {"p1", "p2"}
  Self = "self"
  Limit = 1
  Workers = {"w1"}
  Callers = {"c1"}
  Delay = 1
  MaxRounds = 8
  MaxDrops = 4
  MaxInbound = 2
  MaxFail = 2
  MaxCalls = 3
  MaxApi = 0
  WithGC = FALSE
  AtomicPeers = FALSE
  SignedWant = TRUE
  Serialized = FALSE
  DirectAPI = FALSE
  MaxLen = 70
  Wanted = {}
CHECK_DEADLOCK FALSE
ACTION_CONSTRAINT CoarseSchedule
INVARIANTS TypeOK SizeBound ReportedExactlyOnce ViewBookkeeping PeersResult
