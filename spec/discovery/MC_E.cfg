\* as is, thorough: two workers, a caller, a lost connection
SPECIFICATION Spec
CONSTANTS
  Peers = {"p1", "p2"}
  Self = "self"
  Limit = 2
  Workers = {"w1", "w2"}
  Callers = {"c1"}
  Delay = 1
  MaxRounds = 2
  MaxDrops = 1
  MaxInbound = 0
  MaxFail = 0
  MaxCalls = 1
  MaxApi = 0
  WithGC = TRUE
  AtomicPeers = FALSE
  SignedWant = TRUE
  Serialized = FALSE
  DirectAPI = FALSE
CHECK_DEADLOCK FALSE
VIEW state
INVARIANTS TypeOK SizeBound ReportedExactlyOnce ViewBookkeeping PeersResult
PROPERTIES ContactLeavesBackoff GCInvisible
