\* variant Serialized, thorough: two workers
SPECIFICATION Spec
CONSTANTS
  Peers = {"p1", "p2"}
  Self = "self"
  Limit = 2
  Workers = {"w1", "w2"}
  Callers = {}
  Delay = 1
  MaxRounds = 2
  MaxDrops = 1
  MaxInbound = 1
  MaxFail = 0
  MaxCalls = 0
  MaxApi = 0
  WithGC = TRUE
  AtomicPeers = FALSE
  SignedWant = TRUE
  Serialized = TRUE
  DirectAPI = FALSE
CHECK_DEADLOCK FALSE
VIEW state
INVARIANTS TypeOK SizeBound ReportedExactlyOnce ReportedInOrder ViewConsistent InSetConnected ProtectedInSetOrPending
