\* as is (since /repo f5c221a discover() compares size >= limit): no round above the limit
SPECIFICATION Spec
CONSTANTS
  Peers = {"p1", "p2", "p3"}
  Self = "self"
  Limit = 2
  Workers = {"w1", "w2"}
  Callers = {}
  Delay = 1
  MaxRounds = 2
  MaxDrops = 0
  MaxInbound = 0
  MaxFail = 0
  MaxCalls = 0
  MaxApi = 0
  WithGC = TRUE
  AtomicPeers = FALSE
  SignedWant = TRUE
  Serialized = FALSE
  DirectAPI = FALSE
CHECK_DEADLOCK FALSE
VIEW state
INVARIANTS TypeOK SizeBound
PROPERTIES RoundOnlyBelowLimit
