\* liveness while EVERY retrieval fails for ever (repaired code): cancel and stop still end the stream
SPECIFICATION LiveSpec
CONSTANTS
  N = 3
  Cap = 2
  CountFails = FALSE
  MaxFail = 0
  AllowOk = FALSE
  StopInRetry = TRUE
  Relay = FALSE
  RecordHist = FALSE
PROPERTIES CancelEnds StopEnds
