----------------------------- MODULE MCBlobSub -----------------------------
(* Model-checking wrapper of BlobSub: behaviour printing for the replay driver. *)
EXTENDS BlobSub, Json

\* INVARIANT of the simulation configuration: prints the stimuli of finished behaviours
PrintBehaviour == (Terminal /\ sawClose) => PrintT(<<"BEH", ToJson(hist)>>)
=============================================================================
