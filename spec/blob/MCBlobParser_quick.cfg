\* quick exhaustive configuration, scaled-down threshold (alignment effects inside squares of width <= 8)
SPECIFICATION Spec
CONSTANTS
  T = 2
  MaxBlobs = 3
  NSS = {2, 4}
  LENS = {1, 2, 3, 5}
  VERS = {0, 1}
  COMPACTS = {0, 1, 2, 3}
  QUERYNS = {2, 3, 4, 5}
  VerTied = TRUE
  EmitCases = FALSE
INVARIANTS
  TypeOK ParserShape GetAllExact GetExact ProofRowsExact IncludedConsistent NoInternalError AbsentNs EmitCase
CHECK_DEADLOCK FALSE
