\* thorough exhaustive safety: 6 headers, capacity 3
SPECIFICATION Spec
CONSTANTS
  N = 6
  Cap = 3
  CountFails = TRUE
  MaxFail = 2
  AllowOk = TRUE
  StopInRetry = TRUE
  Relay = FALSE
  RecordHist = FALSE
INVARIANTS TypeOK InOrderNoGapNoDup OnePerHeader ClosesOnlyWhen
PROPERTIES RetryNotSkip NoSendAfterClose
