\* liveness through the relay: cancel, stop and a permanent failure of the gossip subscription end the stream
SPECIFICATION LiveSpec
CONSTANTS
  N = 3
  Cap = 2
  CountFails = TRUE
  MaxFail = 2
  AllowOk = TRUE
  StopInRetry = TRUE
  Relay = TRUE
  RecordHist = FALSE
PROPERTIES CancelEnds StopEnds FeedCloseEnds FeedErrorEnds
