\* the node wiring: the feed is the relay of nodebuilder/header Service.Subscribe (safety)
SPECIFICATION Spec
CONSTANTS
  N = 4
  Cap = 2
  CountFails = TRUE
  MaxFail = 2
  AllowOk = TRUE
  StopInRetry = TRUE
  Relay = TRUE
  RecordHist = FALSE
INVARIANTS TypeOK InOrderNoGapNoDup OnePerHeader ClosesOnlyWhen
PROPERTIES RetryNotSkip NoSendAfterClose
