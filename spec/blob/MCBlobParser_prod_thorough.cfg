\* production threshold, thorough: share versions free, three namespaces
SPECIFICATION Spec
CONSTANTS
  T = 64
  MaxBlobs = 3
  NSS = {2, 4, 6}
  LENS = {1, 65, 129}
  VERS = {0, 1}
  COMPACTS = {0, 1, 2, 3, 4}
  QUERYNS = {2, 3, 4, 6, 7}
  VerTied = FALSE
  EmitCases = TRUE
INVARIANTS
  TypeOK ParserShape GetAllExact GetExact ProofRowsExact IncludedConsistent NoInternalError AbsentNs EmitCase
CHECK_DEADLOCK FALSE
