\* production threshold, thorough: share versions free (not tied to the position), compact 0..4
SPECIFICATION Spec
CONSTANTS
  T = 64
  MaxBlobs = 3
  NSS = {2, 4}
  LENS = {1, 65, 129}
  VERS = {0, 1}
  COMPACTS = {0, 1, 2, 3, 4}
  QUERYNS = {2, 3, 4, 5}
  VerTied = FALSE
  EmitCases = TRUE
INVARIANTS
  TypeOK ParserShape GetAllExact GetExact ProofRowsExact IncludedConsistent NoInternalError AbsentNs EmitCase
CHECK_DEADLOCK FALSE
