\* thorough exhaustive configuration, scaled-down threshold: up to 4 blobs, share versions free
SPECIFICATION Spec
CONSTANTS
  T = 2
  MaxBlobs = 4
  NSS = {2, 4}
  LENS = {1, 2, 3, 5}
  VERS = {0, 1}
  COMPACTS = {0, 1, 2, 3}
  QUERYNS = {2, 3, 4, 5}
  VerTied = TRUE
  EmitCases = TRUE
INVARIANTS
  TypeOK ParserShape GetAllExact GetExact ProofRowsExact IncludedConsistent NoInternalError AbsentNs EmitCase
CHECK_DEADLOCK FALSE
