SPECIFICATION Spec
CONSTANTS
  T = 64
  FILL = {4100, 4220}
  ALENS = {1, 2, 3}
  BLENS = {65, 66, 100}
  CLENS = {1, 3, 17}
  COMPACTS = {1, 2}
INVARIANTS WideOK EmitCase
CHECK_DEADLOCK FALSE
