---------------------------- MODULE BlobLayout ----------------------------
(***************************************************************************)
(* The square-layout rules the blob parser of celestia-node depends on.    *)
(*                                                                         *)
(* Source of the rules (transcribed, not idealised):                       *)
(*   go-square/v4  builder.go   Builder.AppendBlobTx / Export              *)
(*   go-square/v4  square.go    WriteSquare                                *)
(*   go-square/v4  inclusion/blob_share_commitment_rules.go                *)
(*                 SubTreeWidth, NextShareIndex, BlobMinSquareSize         *)
(*   go-square/v4  share/split_sparse_shares.go WriteNamespacePaddingShares*)
(*                                                                         *)
(* A block is described by                                                 *)
(*   blobs   : the blobs in transaction-priority order, each a record      *)
(*             [ns, len, ver, c]  (namespace, length IN SHARES, share      *)
(*             version 0/1, content tag: two blobs with equal              *)
(*             <<ns,len,ver,c>> are byte-identical, hence have the same    *)
(*             commitment);                                                *)
(*   compact : the number of compact shares the builder RESERVES for       *)
(*             ordinary transactions and PFB transactions (TxCounter.Size  *)
(*             + PfbCounter.Size).  Only their count matters to the parser.*)
(*                                                                         *)
(* The layout (all indices are 0-based ODS share indices, row-major):      *)
(*   1. compact shares first (namespace below every user namespace);       *)
(*   2. blobs STABLY sorted by namespace;                                  *)
(*   3. blob k starts at NextShareIndex(cursor, len_k) =                   *)
(*      RoundUp(cursor, SubTreeWidth(len_k)), cursor = end of blob k-1     *)
(*      (for k = 1: the reserved compact count);                           *)
(*   4. the gap before the first blob is PRIMARY-RESERVED padding, the gap *)
(*      before blob k > 1 is NAMESPACE padding carrying the namespace of   *)
(*      blob k-1;                                                          *)
(*   5. everything after the last blob is tail padding;                    *)
(*   6. the width w is the least power of two with w*w >= the builder's    *)
(*      WORST-CASE size  compact + SUM (len_k + SubTreeWidth(len_k) - 1)   *)
(*      (the builder never recomputes it from the padding actually used).  *)
(*                                                                         *)
(* Bound to the code by harness/drivers/blob: every layout TLC enumerates  *)
(* from this module is rebuilt with the real builder from real blob        *)
(* transactions and compared share by share (kind, namespace, sequence     *)
(* start, width, start indices).                                           *)
(***************************************************************************)
EXTENDS Naturals, Sequences, FiniteSets

CONSTANT T            \* SubtreeRootThreshold (64 in production: appconsts.SubtreeRootThreshold)

(* Namespaces are naturals; only their order matters.                      *)
NsCompact == 0        \* TxNamespace / PayForBlobNamespace (both below all user namespaces)
NsResPad  == 1        \* PrimaryReservedPaddingNamespace
UserNs    == 2..8     \* namespaces a blob may use / a client may ask for
NsTail    == 9        \* TailPaddingNamespace (secondary reserved)
NsParity  == 10       \* ParitySharesNamespace (ignored as a row maximum: IgnoreMaxNamespace)

Pow2 == {1, 2, 4, 8, 16, 32, 64, 128, 256, 512}

Min2(a, b) == IF a < b THEN a ELSE b
CeilDiv(a, b) == (a + b - 1) \div b

\* inclusion.RoundUpPowerOfTwo (input <= 1 gives 1)
Pow2Ceil(n) == CHOOSE p \in Pow2 : p >= n /\ \A q \in Pow2 : q >= n => p <= q

\* inclusion.BlobMinSquareSize(n) = RoundUpPowerOfTwo(ceil(sqrt(n))): the least power of two p with p*p >= n
MinSquareSize(n) == CHOOSE p \in Pow2 : p * p >= n /\ \A q \in Pow2 : q * q >= n => p <= q

\* inclusion.SubTreeWidth(shareCount, T)
SubTreeWidth(len) == Min2(Pow2Ceil(CeilDiv(len, T)), MinSquareSize(len))

\* inclusion.RoundUpByMultipleOf
RoundUp(cursor, v) == IF cursor % v = 0 THEN cursor ELSE ((cursor \div v) + 1) * v

\* inclusion.NextShareIndex
NextShareIndex(cursor, len) == RoundUp(cursor, SubTreeWidth(len))

(* sort.SliceStable by namespace: position of blob i = number of blobs     *)
(* with a smaller namespace, or the same namespace and a smaller index.    *)
SortByNs(bs) ==
  LET n == Len(bs)
      Rank(i) == Cardinality({j \in 1..n : bs[j].ns < bs[i].ns \/ (bs[j].ns = bs[i].ns /\ j < i)}) + 1
  IN [k \in 1..n |-> bs[CHOOSE i \in 1..n : Rank(i) = k]]

IsSortedByNs(bs) == \A i \in 1..Len(bs) - 1 : bs[i].ns <= bs[i + 1].ns

(* Start index of every blob of the SORTED sequence sb (Builder.Export).   *)
Starts(sb, compact) ==
  LET st[k \in 1..Len(sb)] ==
        NextShareIndex(IF k = 1 THEN compact ELSE st[k - 1] + sb[k - 1].len, sb[k].len)
  IN SubSeq(st, 1, Len(sb))      \* (SubSeq makes TLC materialise the function once)

(* Builder.currentSize: compact shares + for every blob its length plus    *)
(* the worst-case padding SubTreeWidth-1 (Element.maxShareOffset).         *)
WorstCaseSize(sb, compact) ==
  LET acc[k \in 0..Len(sb)] ==
        IF k = 0 THEN compact ELSE acc[k - 1] + sb[k].len + SubTreeWidth(sb[k].len) - 1
  IN acc[Len(sb)]

Width(sb, compact) == MinSquareSize(WorstCaseSize(sb, compact))

(***************************************************************************)
(* A share (cell) of the original data square.                              *)
(*   k = "compact" | "rpad" | "start" | "cont" | "nspad" | "tail"          *)
(*   "start" carries what the first share of a sequence carries in the     *)
(*   real encoding: sequence length (here: in shares), share version; and  *)
(*   the content identity id = <<ns,len,ver,c>>; "cont" carries the        *)
(*   identity and its offset inside the blob.                              *)
(***************************************************************************)
Id(b) == <<b.ns, b.len, b.ver, b.c>>

Rep(n, x) == [i \in 1..n |-> x]

CompactCell == [k |-> "compact", ns |-> NsCompact]
ResPadCell  == [k |-> "rpad", ns |-> NsResPad]
TailCell    == [k |-> "tail", ns |-> NsTail]
NsPadCell(b) == [k |-> "nspad", ns |-> b.ns]      \* padding carries the namespace of the PRECEDING blob
StartCell(b) == [k |-> "start", ns |-> b.ns, len |-> b.len, ver |-> b.ver, id |-> Id(b)]
ContCell(b, off) == [k |-> "cont", ns |-> b.ns, id |-> Id(b), off |-> off]

\* sparse shares of one blob (share.SparseShareSplitter.Write)
BlobCells(b) == <<StartCell(b)>> \o [i \in 1..b.len - 1 |-> ContCell(b, i)]

(* Everything from the end of the compact shares to the end of the last   *)
(* blob: reserved padding, then for every blob the padding needed to reach *)
(* its start (written "to the previous blob", Builder.Export) and the blob.*)
Body(sb, st, compact) ==
  LET f[k \in 0..Len(sb)] ==
        IF k = 0 THEN <<>>
        ELSE IF k = 1 THEN Rep(st[1] - compact, ResPadCell) \o BlobCells(sb[1])
        ELSE f[k - 1] \o Rep(st[k] - (st[k - 1] + sb[k - 1].len), NsPadCell(sb[k - 1])) \o BlobCells(sb[k])
  IN f[Len(sb)]

(* The whole layout of a block.  cells is 1-based: cells[i+1] is share i.  *)
Layout(blobs, compact) ==
  LET sb == SortByNs(blobs)
      st == Starts(sb, compact)
      w  == Width(sb, compact)
      used == Rep(compact, CompactCell) \o Body(sb, st, compact)
  IN [blobs |-> sb, compact |-> compact, w |-> w, starts |-> st,
      cells |-> used \o Rep(w * w - Len(used), TailCell)]          \* share.TailPaddingShares

IsPadding(c) == c.k \in {"rpad", "nspad", "tail"}

(* Index of an ODS share in the EXTENDED square (what Blob.Index() reports *)
(* and what the parser computes as rowIndex*len(RowRoots)+col).            *)
EdsIndex(w, i) == (i \div w) * (2 * w) + (i % w)

(***************************************************************************)
(* Well-formedness of a layout: what the NMT row trees and the parser rely *)
(* on.  Checked by TLC for every enumerated input (MCBlobLayout).          *)
(***************************************************************************)
LayoutOK(L) ==
  LET n == Len(L.blobs)  w == L.w  st == L.starts IN
  /\ w \in Pow2
  \* everything fits
  /\ n > 0 => st[n] + L.blobs[n].len <= w * w
  /\ L.compact <= w * w
  \* namespaces are non-decreasing in row-major order (required by the NMT)
  /\ \A i \in 1..w * w - 1 : L.cells[i].ns <= L.cells[i + 1].ns
  \* blobs are in order, do not overlap, are aligned, and gaps are shorter than the alignment
  /\ \A b \in 1..n :
       /\ st[b] % SubTreeWidth(L.blobs[b].len) = 0
       /\ st[b] >= (IF b = 1 THEN L.compact ELSE st[b - 1] + L.blobs[b - 1].len)
       /\ st[b] - (IF b = 1 THEN L.compact ELSE st[b - 1] + L.blobs[b - 1].len) < SubTreeWidth(L.blobs[b].len)
  \* the alignment never exceeds the row width: a gap never runs past the start of the next row
  /\ \A b \in 1..n : SubTreeWidth(L.blobs[b].len) <= w
  \* w is minimal for the builder's worst-case estimate
  /\ w > 1 => (w \div 2) * (w \div 2) < WorstCaseSize(L.blobs, L.compact)

(***************************************************************************)
(* Where padding appears INSIDE a row of namespace data, in terms of the   *)
(* start indices alone (no cells needed, so it is cheap for wide squares): *)
(* blob b (b >= 2) is preceded by namespace padding, the blob before it is *)
(* of the same namespace and has a share in the row where b starts (so the *)
(* parser has already consumed shares of that row when it skips the        *)
(* padding), b ends in that row and the next blob of the namespace starts  *)
(* in the same row:  [..earlier blob(s)..][padding][b][b+1 ...             *)
(* With the production threshold this needs len_b >= 65, i.e. a square of  *)
(* width >= 128.  MCBlobLayoutWide enumerates such blocks for the driver.  *)
(***************************************************************************)
InRowPaddingThenTwoStarts(sb, st, w) ==
  \E b \in 2..Len(sb) - 1 :
    LET prevEnd == st[b - 1] + sb[b - 1].len          \* exclusive
        endB    == st[b] + sb[b].len
    IN /\ st[b] > prevEnd                                         \* padding in front of b
       /\ sb[b - 1].ns = sb[b].ns /\ sb[b].ns = sb[b + 1].ns
       /\ (prevEnd - 1) \div w = st[b] \div w                    \* earlier shares of the namespace in b's row
       /\ (endB - 1) \div w = st[b] \div w                       \* b completes in that row
       /\ st[b + 1] \div w = st[b] \div w                        \* and another blob starts there

(***************************************************************************)
(* What a node serves for a namespace q (share/eds/nd.go NamespaceData,    *)
(* share.RowsWithNamespace, RowNamespaceData): one entry for every ODS row *)
(* whose namespace range [min,max] contains q, in row order, with the      *)
(* shares of q in that row (possibly none: an ABSENCE proof) and the       *)
(* column of the first one (nmt Proof.Start()).  Parity rows (the lower    *)
(* half of the EDS) have min = max = NsParity and never qualify.           *)
(***************************************************************************)
RowCells(L, r) == SubSeq(L.cells, r * L.w + 1, r * L.w + L.w)          \* r is 0-based
RowMin(L, r) == L.cells[r * L.w + 1].ns
RowMax(L, r) == L.cells[r * L.w + L.w].ns
RowHasNsInRange(L, r, q) == RowMin(L, r) <= q /\ q <= RowMax(L, r)

RowNsShares(L, r, q) == LET row == RowCells(L, r) InNs(c) == c.ns = q IN SelectSeq(row, InNs)

RowNsStart(L, r, q) ==
  LET row == RowCells(L, r) IN
  IF \E c \in 1..L.w : row[c].ns = q
  THEN (CHOOSE c \in 1..L.w : row[c].ns = q /\ \A d \in 1..c - 1 : row[d].ns # q) - 1
  ELSE 0

RowsWithNs(L, q) == {r \in 0..L.w - 1 : RowHasNsInRange(L, r, q)}

\* the sequence of served rows (ascending row index)
NamespaceData(L, q) ==
  LET rs == RowsWithNs(L, q)
      nth[k \in 1..Cardinality(rs)] ==
        CHOOSE r \in rs : Cardinality({x \in rs : x < r}) = k - 1
  IN [k \in 1..Cardinality(rs) |->
        [row |-> nth[k], start |-> RowNsStart(L, nth[k], q), shares |-> RowNsShares(L, nth[k], q)]]

\* Service.retrieve: the first EDS row whose root range contains q, else -1
FirstRowInRange(L, q) ==
  IF RowsWithNs(L, q) = {} THEN 0 - 1
  ELSE CHOOSE r \in RowsWithNs(L, q) : \A x \in RowsWithNs(L, q) : r <= x

(* Run-length form of the cells, printed for the Go driver: one segment   *)
(* per maximal run of equal <<kind, namespace>>, a new one at every        *)
(* sequence start.  at = 0-based index of the first share, n = length.     *)
Segs(L) ==
  LET N == L.w * L.w
      Key(c) == <<c.k, c.ns>>
      IsHead(i) == IF i = 1 THEN TRUE
                   ELSE Key(L.cells[i]) # Key(L.cells[i - 1]) \/ L.cells[i].k = "start"
      heads == {i \in 1..N : IsHead(i)}
      H == Cardinality(heads)
      \* the heads in ascending order: next[i] = least head above i
      sorted[k \in 1..H] == IF k = 1 THEN 1
                            ELSE LET prev == sorted[k - 1]      \* (LET: evaluated once)
                                 IN CHOOSE i \in heads : i > prev /\ \A j \in heads : j > prev => i <= j
      srt == SubSeq(sorted, 1, H)
  IN [k \in 1..H |->
        [k |-> L.cells[srt[k]].k, ns |-> L.cells[srt[k]].ns, at |-> srt[k] - 1,
         n |-> (IF k = H THEN N + 1 ELSE srt[k + 1]) - srt[k]]]
=============================================================================
