\* behaviour generation (-simulate): prints the stimuli of finished behaviours
SPECIFICATION Spec
CONSTANTS
  N = 5
  Cap = 2
  CountFails = TRUE
  MaxFail = 2
  AllowOk = TRUE
  StopInRetry = TRUE
  Relay = FALSE
  RecordHist = TRUE
INVARIANTS PrintBehaviour TypeOK InOrderNoGapNoDup OnePerHeader ClosesOnlyWhen
