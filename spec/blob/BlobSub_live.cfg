\* liveness, retrievals fail at most twice per height: cancel / stop / feed close lead to the end of the stream
SPECIFICATION LiveSpec
CONSTANTS
  N = 3
  Cap = 2
  CountFails = TRUE
  MaxFail = 2
  AllowOk = TRUE
  StopInRetry = TRUE
  Relay = FALSE
  RecordHist = FALSE
PROPERTIES CancelEnds StopEnds FeedCloseEnds
