\* quick exhaustive safety: 4 headers, channel capacity 2, <=2 failures per height, any consumer pace, cancel/stop/feed-close anywhere
SPECIFICATION Spec
CONSTANTS
  N = 4
  Cap = 2
  CountFails = TRUE
  MaxFail = 2
  AllowOk = TRUE
  StopInRetry = TRUE
  RecordHist = FALSE
INVARIANTS TypeOK InOrderNoGapNoDup OnePerHeader ClosesOnlyWhen
PROPERTIES RetryNotSkip NoSendAfterClose
