---------------------------- MODULE BlobParser ----------------------------
(***************************************************************************)
(* blob.Service.retrieve + blob.parser of celestia-node, transcribed as a  *)
(* state machine over the rows of namespace data a node serves.            *)
(*                                                                         *)
(*   /repo/blob/service.go  Service.retrieve (l.416-545), Get, GetAll/     *)
(*                          getBlobs, GetProof, Included                   *)
(*   /repo/blob/parser.go   parser.set / skipPadding / addShares / parse / *)
(*                          verify / isEmpty / reset                       *)
(*                                                                         *)
(* Phase 1 ("build") constructs EVERY block of the bounded universe: any   *)
(* sequence of at most MaxBlobs blobs [ns,len,ver,c] (namespaces NSS,      *)
(* lengths LENS in shares, share versions VERS, byte-identical duplicates  *)
(* and same-shape-different-content blobs through the content tag c) with  *)
(* any reserved compact share count in COMPACTS.  The square is laid out   *)
(* by BlobLayout (the real rules, bound to the real builder by the driver).*)
(* Phase 2 picks a request -- GetAll(q) or Get/GetProof/Included(q,target) *)
(* for every namespace q in QUERYNS (present or absent, inside or outside  *)
(* a row's namespace range) and every target commitment (a blob of the     *)
(* block, under its own or another namespace, or a blob that is not in the *)
(* block) -- and runs the transcribed machine, one action per step of the  *)
(* code, until it returns.                                                 *)
(*                                                                         *)
(* Invariants (evaluated by TLC in every reachable state; they constrain   *)
(* the state in which the machine has returned):                           *)
(*   GetAllExact      GetAll(q) = the blobs of q in block order, each with *)
(*                    exact (id = <<ns,len,ver,c>>, len, ver, EDS start    *)
(*                    index), nothing else; empty for an absent namespace  *)
(*   GetExact         Get(q,t) returns t with the start index of its FIRST *)
(*                    occurrence under q iff the block has t under q,      *)
(*                    else "not found"                                     *)
(*   ProofRowsExact   the row proofs returned with a found blob are those  *)
(*                    of exactly the rows the blob spans                   *)
(*   IncludedConsistent  Included's found-flag agrees with Get             *)
(*   NoInternalError  the machine never reaches the parse error / the      *)
(*                    "incomplete blob" outcome on a real layout           *)
(*   TypeOK, ParserShape                                                   *)
(***************************************************************************)
EXTENDS BlobLayout, TLC, Json

CONSTANTS MaxBlobs,   \* blobs per block
          NSS,        \* namespaces blobs may use (subset of UserNs)
          LENS,       \* blob lengths in shares
          VERS,       \* share versions (subset of {0,1})
          COMPACTS,   \* reserved compact share counts
          QUERYNS,    \* namespaces asked for (subset of UserNs)
          VerTied,    \* TRUE: the share version is tied to the position (even position = version 1);
                      \*   share versions are passive data for the parser, quick configurations tie them
          EmitCases   \* TRUE: print every block as a CASE line for the Go driver

VARIABLES
  pc,        \* control point of the machine
  blobs,     \* phase 1: the blobs of the block, in block order (namespace-sorted, see Canon)
  compact,   \* the reserved compact share count once the block is complete (-1 before)
  w,         \* the ODS width of the complete block (0 before)
  req,       \* the request: [op |-> "all"|"get", q |-> namespace, t |-> target id (get only)]
  nd,        \* namespacedShares: rows served for req.q
  ri,        \* position in nd of the row being processed (the `for _, row := range` cursor)
  rowIndex,  \* retrieve: rowIndex
  appShares, \* retrieve: appShares
  proofs,    \* retrieve: proofs  (a sequence of row numbers: the proof of row r is identified by r)
  index,     \* retrieve: index
  wasEmpty,  \* retrieve: wasEmpty of the current inner iteration
  rest,      \* retrieve: shrs returned by addShares (remaining shares of the row)
  p,         \* the parser: [index, length, shares]
  got,       \* blobs collected by the GetAll verify function
  out        \* result once returned: [k |-> "found", blob, proofs] | [k |-> "notfound"] |
             \*   [k |-> "incomplete"] | [k |-> "error"] ; [k |-> "none"] while running

vars == <<pc, blobs, compact, w, req, nd, ri, rowIndex, appShares, proofs, index, wasEmpty, rest, p, got, out>>

Nil == [k |-> "none"]

\* The layout of the sealed block.  It is a function of <<blobs, compact>> and deliberately NOT a
\* state variable (a 64..1024-cell value in every state makes fingerprinting dominate the run).
L == Layout(blobs, compact)
\* the part of it the reference semantics needs (blobs are kept namespace-sorted by Canon)
Lite == [blobs |-> blobs, w |-> w, starts |-> Starts(blobs, compact)]
EmptyParser == [index |-> 0, length |-> 0, shares |-> <<>>]

BlobU == [ns : NSS, len : LENS, ver : VERS, c : {1, 2}]

(* Symmetry reduction by hand.  Blocks are enumerated in namespace order   *)
(* (the builder sorts stably, so only the relative order inside a          *)
(* namespace matters -- SortByNs itself is exercised on unsorted input by  *)
(* MCBlobLayout and by the driver, which shuffles across namespaces).      *)
(* Content tag 2 is only used when a blob of the same shape with tag 1     *)
(* precedes it ("same shape, different bytes"); tag 1 again = duplicate.   *)
Canon(bs, b) ==
  /\ IF bs = <<>> THEN TRUE ELSE bs[Len(bs)].ns <= b.ns
  /\ VerTied => b.ver = (Len(bs) + 1 + 1) % 2
  /\ b.c = 2 => \E i \in 1..Len(bs) : bs[i].ns = b.ns /\ bs[i].len = b.len /\ bs[i].ver = b.ver /\ bs[i].c = 1

(***************************************************************************)
(* Reference semantics (the oracle): computed from the block description,  *)
(* not from the share sequence.                                            *)
(***************************************************************************)
BlobRec(LL, b) == [id |-> Id(LL.blobs[b]), len |-> LL.blobs[b].len, ver |-> LL.blobs[b].ver,
                   index |-> EdsIndex(LL.w, LL.starts[b])]

IdxOfNs(LL, q) == {b \in 1..Len(LL.blobs) : LL.blobs[b].ns = q}

ExpectedAll(LL, q) ==
  LET S == IdxOfNs(LL, q)
      nth[k \in 1..Cardinality(S)] == CHOOSE b \in S : Cardinality({x \in S : x < b}) = k - 1
  IN [k \in 1..Cardinality(S) |-> BlobRec(LL, nth[k])]

Matches(LL, q, t) == {b \in IdxOfNs(LL, q) : Id(LL.blobs[b]) = t}

FirstMatch(LL, q, t) == CHOOSE b \in Matches(LL, q, t) : \A x \in Matches(LL, q, t) : b <= x

RowsOfBlob(LL, b) ==
  LET r0 == LL.starts[b] \div LL.w
      r1 == (LL.starts[b] + LL.blobs[b].len - 1) \div LL.w
  IN [k \in 1..(r1 - r0 + 1) |-> r0 + k - 1]

(***************************************************************************)
(* parser methods                                                          *)
(***************************************************************************)
\* parser.isEmpty
IsEmpty(pp) == pp.index = 0 /\ pp.length = 0 /\ pp.shares = <<>>

\* parser.skipPadding: number of leading padding shares
PadPrefix(s) ==
  IF \E i \in 1..Len(s) : ~IsPadding(s[i])
  THEN (CHOOSE i \in 1..Len(s) : ~IsPadding(s[i]) /\ \A j \in 1..i - 1 : IsPadding(s[j])) - 1
  ELSE Len(s)

Drop(s, n) == SubSeq(s, n + 1, Len(s))

(* libshare.ParseBlobs on the collected shares + the "exactly one blob"    *)
(* check: succeeds iff the shares are one sequence start followed by       *)
(* exactly its continuation shares, in order.                              *)
ParsesToOne(s) ==
  /\ Len(s) >= 1
  /\ s[1].k = "start"
  /\ s[1].len = Len(s)
  /\ \A i \in 2..Len(s) : s[i].k = "cont" /\ s[i].id = s[1].id /\ s[i].off = i - 1

(***************************************************************************)
(* Phase 1: build the block                                                *)
(***************************************************************************)
Init ==
  /\ pc = "build" /\ blobs = <<>> /\ compact = 0 - 1 /\ w = 0 /\ req = Nil /\ nd = <<>> /\ ri = 0 /\ rowIndex = 0
  /\ appShares = <<>> /\ proofs = <<>> /\ index = 0 /\ wasEmpty = FALSE /\ rest = <<>>
  /\ p = EmptyParser /\ got = <<>> /\ out = Nil

AddBlob ==
  /\ pc = "build" /\ Len(blobs) < MaxBlobs
  /\ \E b \in BlobU : Canon(blobs, b) /\ blobs' = Append(blobs, b)
  /\ UNCHANGED <<pc, compact, w, req, nd, ri, rowIndex, appShares, proofs, index, wasEmpty, rest, p, got, out>>

\* a block without blob transactions has no PFB either: compact = 0 is allowed only then,
\* and a block with blobs reserves at least one compact share (its PFBs)
Seal ==
  /\ pc = "build"
  /\ \E c \in COMPACTS : (blobs # <<>> => c >= 1) /\ compact' = c /\ w' = Width(blobs, c)
  /\ pc' = "sealed"
  /\ UNCHANGED <<blobs, req, nd, ri, rowIndex, appShares, proofs, index, wasEmpty, rest, p, got, out>>

Targets(q) ==
  \* commitments worth asking for: every blob content of the block (under q or elsewhere),
  \* and a content that is nowhere in the block but has q's namespace and an existing shape
  {Id(blobs[b]) : b \in 1..Len(blobs)} \cup {<<q, 1, 0, 3>>}

(***************************************************************************)
(* Phase 2: Service.retrieve(height, namespace, sharesParser)              *)
(*   rowIndex := first row of the DAH whose range contains the namespace   *)
(*   namespacedShares := shareGetter.GetNamespaceData(...)                 *)
(***************************************************************************)
PickNs ==
  /\ pc = "sealed"
  /\ LET LL == L IN      \* evaluated once per sealed block
     \E q \in QUERYNS :
       /\ req' = [op |-> "pending", q |-> q]
       /\ nd' = NamespaceData(LL, q)
       /\ rowIndex' = FirstRowInRange(LL, q)
  /\ pc' = "ns"
  /\ UNCHANGED <<blobs, compact, w, ri, appShares, proofs, index, wasEmpty, rest, p, got, out>>

Request ==
  /\ pc = "ns"
  /\ \/ req' = [op |-> "all", q |-> req.q]
     \/ \E t \in Targets(req.q) : req' = [op |-> "get", q |-> req.q, t |-> t]
  /\ ri' = 1
  /\ pc' = "RowStart"
  /\ UNCHANGED <<blobs, compact, w, nd, rowIndex, appShares, proofs, index, wasEmpty, rest, p, got, out>>

(* for _, row := range namespacedShares {                                  *)
(*   if len(row.Shares) == 0 { return ErrBlobNotFound }     (absence proof)*)
(*   appShares = row.Shares; proofs = append(proofs, row.Proof)            *)
(*   index := row.Proof.Start()                                            *)
RowStart ==
  /\ pc = "RowStart"
  /\ IF ri > Len(nd)
     THEN /\ pc' = "End"
          /\ UNCHANGED <<appShares, proofs, index, out>>
     ELSE IF nd[ri].shares = <<>>
     THEN /\ out' = [k |-> "notfound"]
          /\ pc' = "Done"
          /\ UNCHANGED <<appShares, proofs, index>>
     ELSE /\ appShares' = nd[ri].shares
          /\ proofs' = Append(proofs, nd[ri].row)
          /\ index' = nd[ri].start
          /\ pc' = "Inner"
          /\ out' = out
  /\ UNCHANGED <<blobs, compact, w, req, nd, ri, rowIndex, wasEmpty, rest, p, got>>

(*   for {  wasEmpty = sharesParser.isEmpty()                              *)
(*     if wasEmpty {                                                       *)
(*       shrs, err = sharesParser.set(rowIndex*len(RowRoots)+index, appShares)*)
(*       errEmptyShares => reset; appShares = nil; break                   *)
(*       if len(appShares) != len(shrs) { index += diff; appShares = shrs }*)
(*     }                                                                   *)
(* parser.set: empty input => errEmptyShares; skipPadding sets p.index =   *)
(* offset; nothing left => errEmptyShares; p.index += index; p.length from *)
(* the first share's sequence length and version.                          *)
Inner ==
  /\ pc = "Inner"
  /\ wasEmpty' = IsEmpty(p)
  /\ IF IsEmpty(p)
     THEN LET off  == PadPrefix(appShares)
              shrs == Drop(appShares, off)
          IN IF appShares = <<>> \/ shrs = <<>>
             THEN \* errEmptyShares: sharesParser.reset(); appShares = nil; break
                  /\ p' = EmptyParser
                  /\ appShares' = <<>>
                  /\ pc' = "RowEnd"
                  /\ UNCHANGED <<index, out>>
             ELSE IF shrs[1].k # "start"
             THEN \* SequenceLen() of a share that does not start a sequence: garbage length; the
                  \* real parser then fails in parse or mis-assembles.  Unreachable on real layouts
                  \* (NoInternalError); modelled as an error outcome.
                  /\ out' = [k |-> "error"] /\ pc' = "Done"
                  /\ UNCHANGED <<p, appShares, index>>
             ELSE /\ p' = [index |-> off + (rowIndex * (2 * w) + index),
                           length |-> shrs[1].len, shares |-> <<>>]
                  /\ index' = index + (Len(appShares) - Len(shrs))
                  /\ appShares' = shrs
                  /\ pc' = "Add"
                  /\ out' = out
     ELSE /\ pc' = "Add"
          /\ UNCHANGED <<p, appShares, index, out>>
  /\ UNCHANGED <<blobs, compact, w, req, nd, ri, rowIndex, proofs, rest, got>>

(*     shrs, isComplete = sharesParser.addShares(appShares)                *)
(*     if !isComplete { appShares = nil; break }                           *)
(* addShares appends shares one by one until len(p.shares) == p.length.    *)
Add ==
  /\ pc = "Add"
  /\ LET need == p.length - Len(p.shares)
     IN IF Len(appShares) >= need /\ need >= 1
        THEN /\ p' = [p EXCEPT !.shares = p.shares \o SubSeq(appShares, 1, need)]
             /\ rest' = Drop(appShares, need)
             /\ pc' = "Parse"
             /\ UNCHANGED appShares
        ELSE \* incomplete (need = 0 cannot complete either: the equality test is made after an append)
             /\ p' = [p EXCEPT !.shares = p.shares \o appShares]
             /\ appShares' = <<>>
             /\ rest' = <<>>
             /\ pc' = "RowEnd"
  /\ UNCHANGED <<blobs, compact, w, req, nd, ri, rowIndex, proofs, index, wasEmpty, got, out>>

(*     blob, err := sharesParser.parse()       (error => return)           *)
(*     if sharesParser.verify(blob) { return blob, &proofs, nil }          *)
(*     index += len(appShares) - len(shrs); appShares = shrs               *)
(*     sharesParser.reset()                                                *)
(*     if !wasEmpty { proofs = proofs[len(proofs)-1:] }                    *)
(*   }                                                                     *)
Parse ==
  /\ pc = "Parse"
  /\ IF ~ParsesToOne(p.shares)
     THEN /\ out' = [k |-> "error"] /\ pc' = "Done"
          /\ UNCHANGED <<p, appShares, index, proofs, got>>
     ELSE LET blob == [id |-> p.shares[1].id, len |-> Len(p.shares), ver |-> p.shares[1].ver, index |-> p.index]
          IN IF req.op = "get" /\ blob.id = req.t
             THEN \* verifyFn: commitments equal (ideal hash: equal iff the contents are equal)
                  /\ out' = [k |-> "found", blob |-> blob, proofs |-> proofs]
                  /\ pc' = "Done"
                  /\ UNCHANGED <<p, appShares, index, proofs, got>>
             ELSE /\ got' = IF req.op = "all" THEN Append(got, blob) ELSE got
                  /\ index' = index + (Len(appShares) - Len(rest))
                  /\ appShares' = rest
                  /\ p' = EmptyParser
                  /\ proofs' = IF ~wasEmpty THEN <<proofs[Len(proofs)]>> ELSE proofs
                  /\ pc' = "Inner"
                  /\ out' = out
  /\ UNCHANGED <<blobs, compact, w, req, nd, ri, rowIndex, wasEmpty, rest>>

(*   rowIndex++ ; if sharesParser.isEmpty() { proofs = nil }  }            *)
RowEnd ==
  /\ pc = "RowEnd"
  /\ rowIndex' = rowIndex + 1
  /\ proofs' = IF IsEmpty(p) THEN <<>> ELSE proofs
  /\ ri' = ri + 1
  /\ pc' = "RowStart"
  /\ UNCHANGED <<blobs, compact, w, req, nd, appShares, index, wasEmpty, rest, p, got, out>>

(* err = ErrBlobNotFound; a non-padding share left in appShares turns it   *)
(* into "incomplete blob ..." (still wrapping ErrBlobNotFound).            *)
End ==
  /\ pc = "End"
  /\ out' = IF \E i \in 1..Len(appShares) : ~IsPadding(appShares[i])
            THEN [k |-> "incomplete"] ELSE [k |-> "notfound"]
  /\ pc' = "Done"
  /\ UNCHANGED <<blobs, compact, w, req, nd, ri, rowIndex, appShares, proofs, index, wasEmpty, rest, p, got>>

Done == pc = "Done" /\ UNCHANGED vars

Next == AddBlob \/ Seal \/ PickNs \/ Request \/ RowStart \/ Inner \/ Add \/ Parse \/ RowEnd \/ End \/ Done

Spec == Init /\ [][Next]_vars

(***************************************************************************)
(* Properties                                                              *)
(***************************************************************************)
TypeOK ==
  /\ pc \in {"build", "sealed", "ns", "RowStart", "Inner", "Add", "Parse", "RowEnd", "End", "Done"}
  /\ Len(blobs) <= MaxBlobs
  /\ pc = "sealed" => LayoutOK(L)

\* the parser never holds more shares than the blob it assembles needs; a blob in assembly
\* across rows (non-empty parser at a row boundary) has a positive length
ParserShape ==
  /\ Len(p.shares) <= p.length \/ pc = "Done"
  /\ pc = "RowStart" /\ ~IsEmpty(p) => p.length > Len(p.shares)

\* GetAll (getBlobs): every blob of the namespace, in block order, exact; "not found" => empty list
GetAllExact ==
  (pc = "Done" /\ req.op = "all") =>
     /\ out.k = "notfound"
     /\ got = ExpectedAll(Lite, req.q)

\* Get / GetProof / Included's retrieval
GetExact ==
  (pc = "Done" /\ req.op = "get") =>
     IF Matches(Lite, req.q, req.t) # {}
     THEN /\ out.k = "found"
          /\ out.blob = BlobRec(Lite, FirstMatch(Lite, req.q, req.t))
     ELSE out.k = "notfound"

ProofRowsExact ==
  (pc = "Done" /\ req.op = "get" /\ out.k = "found") =>
     out.proofs = RowsOfBlob(Lite, FirstMatch(Lite, req.q, req.t))

\* Included(h, ns, proof, c) = (false, nil) iff retrieval says "not found"; otherwise it goes on to
\* compare the proof (spec/proofs/Proofs.tla: ProofEqual / IncludedExact)
IncludedFound == out.k = "found"
IncludedConsistent ==
  (pc = "Done" /\ req.op = "get") => (IncludedFound <=> Matches(Lite, req.q, req.t) # {})

NoInternalError == out.k \notin {"error", "incomplete"}

\* absent namespaces: inside a row's range (absence proof) or outside every range
AbsentNs ==
  (pc = "Done" /\ IdxOfNs(Lite, req.q) = {}) => (out.k = "notfound" /\ got = <<>>)

(* CASE lines for the Go driver: one per sealed block (only real layouts   *)
(* are fed to the real parser: the driver first checks that the real       *)
(* builder produces exactly this layout).                                  *)
EmitCase ==
  (EmitCases /\ pc = "sealed") =>
     PrintT(<<"CASE", ToJson([blobs |-> L.blobs, compact |-> L.compact, T |-> T, w |-> L.w,
                              starts |-> L.starts, segs |-> Segs(L)])>>)

\* state-space bound for the build phase only (the machine itself always terminates)
=============================================================================
