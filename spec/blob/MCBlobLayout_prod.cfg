SPECIFICATION Spec
CONSTANTS
  T = 64
  MaxBlobs = 3
  NSS = {2, 4}
  LENS = {1, 64, 65, 128, 129, 257}
  COMPACTS = {0, 1, 2, 3, 4}
INVARIANTS SortIsStable LayoutsOK
CHECK_DEADLOCK FALSE
