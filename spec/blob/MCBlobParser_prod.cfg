\* production threshold (T = 64): real layouts as celestia-app builds them; lengths around the
\* SubTreeWidth steps 64|65 and 128|129, so that namespace padding really occurs (w = 16, 32).
\* The blocks enumerated here are the CASEs replayed on the real builder and the real blob.Service.
SPECIFICATION Spec
CONSTANTS
  T = 64
  MaxBlobs = 3
  NSS = {2, 4}
  LENS = {1, 65, 129}
  VERS = {0, 1}
  COMPACTS = {0, 1, 2, 4}
  QUERYNS = {2, 3, 4, 5}
  VerTied = TRUE
  EmitCases = TRUE
INVARIANTS
  TypeOK ParserShape GetAllExact GetExact ProofRowsExact IncludedConsistent NoInternalError AbsentNs EmitCase
CHECK_DEADLOCK FALSE
