---------------------------- MODULE MCBlobLayout ----------------------------
(***************************************************************************)
(* Model-checking harness for BlobLayout alone: every sequence of at most  *)
(* MaxBlobs blobs IN ANY SUBMISSION ORDER (not namespace-sorted) and every *)
(* reserved compact count; checks the stable sort and the well-formedness  *)
(* of the resulting layout (LayoutOK: sorted namespaces, alignment, gaps   *)
(* shorter than the alignment, everything fits, minimal width).            *)
(***************************************************************************)
EXTENDS BlobLayout, TLC

CONSTANTS MaxBlobs, NSS, LENS, COMPACTS

VARIABLES blobs, sealed

BlobU == [ns : NSS, len : LENS, ver : {0}, c : {1, 2}]

Init == blobs = <<>> /\ sealed = FALSE

Add == /\ ~sealed /\ Len(blobs) < MaxBlobs
       /\ \E b \in BlobU : blobs' = Append(blobs, b)
       /\ UNCHANGED sealed

Seal == ~sealed /\ sealed' = TRUE /\ UNCHANGED blobs

Next == Add \/ Seal \/ (sealed /\ UNCHANGED <<blobs, sealed>>)

Spec == Init /\ [][Next]_<<blobs, sealed>>

\* sort.SliceStable: a permutation, sorted, and equal-namespace blobs keep their relative order
SortIsStable ==
  LET sb == SortByNs(blobs) n == Len(blobs) IN
  /\ Len(sb) = n
  /\ IsSortedByNs(sb)
  /\ \A q \in NSS :
       LET InQ(b) == b.ns = q IN SelectSeq(sb, InQ) = SelectSeq(blobs, InQ)

LayoutsOK ==
  sealed => \A c \in COMPACTS : (blobs # <<>> => c >= 1) => LayoutOK(Layout(blobs, c))
=============================================================================
