-------------------------- MODULE MCBlobLayoutWide --------------------------
(***************************************************************************)
(* A DIRECTED family of production-threshold blocks for the C11 driver:    *)
(* blocks in which a row of one namespace looks like                       *)
(*      [shares of earlier blob(s)][namespace padding][B][C ...            *)
(* i.e. the parser skips padding in the MIDDLE of a row, after it has      *)
(* already consumed shares of that row, and a further blob starts in the   *)
(* same row behind the blob that follows the padding                       *)
(* (BlobLayout!InRowPaddingThenTwoStarts).  Under the production threshold *)
(* padding only precedes blobs of >= 65 shares, so the square must be 128  *)
(* wide: a filler blob F of FILL shares forces that width.  The enumerated  *)
(* 4..5-blob blocks are far outside what MCBlobParser_prod can enumerate   *)
(* with explicit cells (16384 cells each); here only the arithmetic part   *)
(* of the layout (width, start indices) is computed and printed, and the   *)
(* driver compares it with the real builder before serving the block.      *)
(* The same shape at small scale (T = 2, width 8) is inside the exhaustive *)
(* MCBlobParser_quick / _thorough runs of the parser machine.              *)
(***************************************************************************)
EXTENDS BlobLayout, TLC, Json

CONSTANTS FILL,      \* lengths of the filler blob
          ALENS,     \* lengths of the blob(s) before the padding
          BLENS,     \* lengths of the blob behind the padding (>= 65 for T = 64)
          CLENS,     \* lengths of the blob that starts in the same row
          COMPACTS

VARIABLES blobs, compact, pc

Blob(ns, len, ver, c) == [ns |-> ns, len |-> len, ver |-> ver, c |-> c]

\* the filler either in the same namespace (its tail is in the row too) or in a lower one
Family ==
  { <<Blob(fns, f, 0, 1), Blob(4, a, 1, 1), Blob(4, b, 0, 1), Blob(4, c, 1, 2)>> :
      fns \in {2, 4}, f \in FILL, a \in ALENS, b \in BLENS, c \in CLENS }
  \cup
  { <<Blob(fns, f, 0, 1), Blob(4, a, 0, 1), Blob(4, 2, 0, 1), Blob(4, b, 1, 1), Blob(4, c, 0, 2)>> :
      fns \in {2, 4}, f \in FILL, a \in ALENS, b \in BLENS, c \in CLENS }

Init == blobs = <<>> /\ compact = 0 /\ pc = "pick"

Pick == /\ pc = "pick"
        /\ \E bs \in Family, k \in COMPACTS :
             /\ InRowPaddingThenTwoStarts(bs, Starts(bs, k), Width(bs, k))
             /\ blobs' = bs /\ compact' = k
        /\ pc' = "done"

Next == Pick \/ (pc = "done" /\ UNCHANGED <<blobs, compact, pc>>)
Spec == Init /\ [][Next]_<<blobs, compact, pc>>

\* arithmetic well-formedness (the part of LayoutOK that does not need the cells)
WideOK ==
  pc = "done" =>
    LET st == Starts(blobs, compact) w == Width(blobs, compact) n == Len(blobs) IN
    /\ IsSortedByNs(blobs)
    /\ st[n] + blobs[n].len <= w * w
    /\ \A b \in 1..n : st[b] % SubTreeWidth(blobs[b].len) = 0 /\ SubTreeWidth(blobs[b].len) <= w

EmitCase ==
  pc = "done" =>
    PrintT(<<"WIDE", ToJson([blobs |-> blobs, compact |-> compact, T |-> T, w |-> Width(blobs, compact),
                             starts |-> Starts(blobs, compact), segs |-> <<>>])>>)
=============================================================================
