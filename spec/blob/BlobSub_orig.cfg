\* the code as found (candidate defect #17): the retry loop ignores the service stop. EXPECTED: StopEnds is violated; the counterexample is replayed on the real code.
SPECIFICATION LiveSpec
CONSTANTS
  N = 3
  Cap = 2
  CountFails = FALSE
  MaxFail = 0
  AllowOk = FALSE
  StopInRetry = FALSE
  Relay = FALSE
  RecordHist = FALSE
PROPERTIES StopEnds
