------------------------------ MODULE BlobSub ------------------------------
(***************************************************************************)
(* Blob subscription (property C20): blob/service.go  Service.Subscribe.    *)
(*                                                                         *)
(* The goroutine started by Subscribe, state by state (loop):               *)
(*                                                                         *)
(*   for {                                                                  *)
(*     select {                                   "waitHeader"              *)
(*     case header, ok := <-headerCh:                RecvHeader / RecvClosed *)
(*         if ctx.Err() != nil { return }         "checkCtx"   CheckCtx      *)
(*         if !ok { return }                      "checkOk"    CheckOk       *)
(*         if len(blobCh) == cap(blobCh) {return} "checkOverflow" CheckOverflow *)
(*         for {                                  "retrieving"              *)
(*             blobs, err = s.getAll(ctx, header, ns)          Attempt(o)   *)
(*             if ctx.Err() != nil { return }                               *)
(*             if err == nil { break }                                      *)
(*             [repaired code: if s.ctx.Err() != nil { return }]            *)
(*         }                                                                *)
(*         select {                               "sending"                 *)
(*         case <-ctx.Done(): return                           SendUserDone *)
(*         case blobCh <- response:                            Send         *)
(*         }                                                                *)
(*     case <-ctx.Done(): return                               SelUserDone  *)
(*     case <-s.ctx.Done(): return                             SelSvcDone   *)
(*     }                                                                    *)
(*   }                                                                      *)
(*   (deferred) close(blobCh)                     "closed"                  *)
(*                                                                         *)
(* Environment: the header feed (an unbuffered channel: a send is a rendezvous with the *)
(* loop's select) delivering heights 1..N in order and possibly closing; the consumer *)
(* reading blobCh at any pace (or never); CancelUser; StopService; a retrieval (getAll) *)
(* succeeding or failing on every attempt.                                  *)
(*                                                                         *)
(* A response is [h, b]: the header's height and the content of the variable `blobs` *)
(* when it is sent; a successful getAll for height h yields the blobs of h (written h), *)
(* a failed one yields garbage (written 0).                                 *)
(***************************************************************************)
EXTENDS Naturals, Sequences, TLC

CONSTANTS
    N,            \* heights the feed can deliver: 1..N
    Cap,          \* capacity of blobCh (16 in the code; small in the model)
    CountFails,   \* TRUE = at most MaxFail failed attempts per height (then the retrieval succeeds);
    MaxFail,      \*        FALSE = a retrieval may fail for ever
    AllowOk,      \* FALSE = every retrieval fails ("even while a retrieval keeps failing")
    StopInRetry,  \* TRUE = repaired code (service stop ends the retry loop), FALSE = code as found
    Relay,        \* FALSE = the header feed is a channel the environment writes and closes itself;
                  \* TRUE  = the node's wiring: the feed is nodebuilder/header Service.Subscribe, a relay
                  \*         goroutine between the gossip header subscription and the channel
    RecordHist    \* TRUE = keep the sequence of stimuli (behaviour generation)

VARIABLES
    next,        \* next height the feed will deliver
    feedClosed,  \* the header channel is closed
    loop,        \* control state of the subscription goroutine
    cur,         \* height of the header being processed
    okRecv,      \* the `ok` of the channel receive
    blobs,       \* the variable `blobs` (h = blobs of height h, 0 = garbage / nil)
    fails,       \* failed attempts for cur so far
    buf,         \* blobCh: sequence of responses
    delivered,   \* responses the consumer has read
    sawClose,    \* the consumer has observed the closed channel
    user, svc,   \* subscriber's context cancelled / service stopped
    cause,       \* ghost: which return statement ended the stream
    fullAtClose, \* ghost: the buffer was full when the overflow check ended the stream
    relay,       \* the relay goroutine: "reading" (in subscription.NextHeader), "forward" (holds a
                 \* header, in select {ctx.Done / headerCh <- h}), "ended" (returned: headerCh closed,
                 \* subscription cancelled)
    held,        \* the header the relay holds (0 = none)
    subFailed,   \* the gossip subscription has failed for good (cancelled, topic closed)
    hist

vars == <<next, feedClosed, loop, cur, okRecv, blobs, fails, buf, delivered, sawClose,
          user, svc, cause, fullAtClose, relay, held, subFailed, hist>>

Log(e) == hist' = IF RecordHist THEN Append(hist, e) ELSE hist
Closed == loop = "closed"
Emitted == delivered \o buf          \* everything put on the channel so far, in order

Init ==
    /\ next = 1 /\ feedClosed = FALSE
    /\ loop = "waitHeader" /\ cur = 0 /\ okRecv = TRUE /\ blobs = 0 /\ fails = 0
    /\ buf = <<>> /\ delivered = <<>> /\ sawClose = FALSE
    /\ user = FALSE /\ svc = FALSE /\ cause = "-" /\ fullAtClose = FALSE
    /\ relay = "reading" /\ held = 0 /\ subFailed = FALSE
    /\ hist = <<>>

Close(why) == loop' = "closed" /\ cause' = why

-----------------------------------------------------------------------------
(* the subscription goroutine *)

\* outer select, case header := <-headerCh with a header (rendezvous with the feed)
RecvHeader ==
    /\ ~Relay
    /\ loop = "waitHeader" /\ ~feedClosed /\ next <= N
    /\ cur' = next /\ next' = next + 1 /\ okRecv' = TRUE /\ fails' = 0
    /\ loop' = "checkCtx"
    /\ Log([a |-> "hdr", h |-> next])
    /\ UNCHANGED <<feedClosed, blobs, buf, delivered, sawClose, user, svc, cause, fullAtClose, relay, held, subFailed>>

\* outer select, case header, ok := <-headerCh on the closed channel
RecvClosed ==
    /\ loop = "waitHeader" /\ feedClosed
    /\ okRecv' = FALSE /\ loop' = "checkCtx"
    /\ UNCHANGED <<next, feedClosed, cur, blobs, fails, buf, delivered, sawClose, user, svc,
                   cause, fullAtClose, hist, relay, held, subFailed>>

SelUserDone ==
    /\ loop = "waitHeader" /\ user /\ Close("user")
    /\ UNCHANGED <<next, feedClosed, cur, okRecv, blobs, fails, buf, delivered, sawClose, user, svc,
                   fullAtClose, hist, relay, held, subFailed>>

SelSvcDone ==
    /\ loop = "waitHeader" /\ svc /\ Close("svc")
    /\ UNCHANGED <<next, feedClosed, cur, okRecv, blobs, fails, buf, delivered, sawClose, user, svc,
                   fullAtClose, hist, relay, held, subFailed>>

CheckCtx ==
    /\ loop = "checkCtx"
    /\ IF user THEN Close("user") ELSE loop' = "checkOk" /\ UNCHANGED cause
    /\ UNCHANGED <<next, feedClosed, cur, okRecv, blobs, fails, buf, delivered, sawClose, user, svc,
                   fullAtClose, hist, relay, held, subFailed>>

CheckOk ==
    /\ loop = "checkOk"
    /\ IF ~okRecv THEN Close("feed") ELSE loop' = "checkOverflow" /\ UNCHANGED cause
    /\ UNCHANGED <<next, feedClosed, cur, okRecv, blobs, fails, buf, delivered, sawClose, user, svc,
                   fullAtClose, hist, relay, held, subFailed>>

CheckOverflow ==
    /\ loop = "checkOverflow"
    /\ IF Len(buf) = Cap
       THEN Close("overflow") /\ fullAtClose' = TRUE
       ELSE loop' = "retrieving" /\ UNCHANGED <<cause, fullAtClose, relay, held, subFailed>>
    /\ UNCHANGED <<next, feedClosed, cur, okRecv, blobs, fails, buf, delivered, sawClose, user, svc, hist, relay, held, subFailed>>

\* one pass of the retry loop: getAll returns (ok: the blobs of cur, fail: garbage + error)
Attempt(ok) ==
    /\ loop = "retrieving"
    /\ ok \/ ~CountFails \/ fails < MaxFail
    /\ blobs' = IF ok THEN cur ELSE 0
    /\ IF user THEN Close("user") /\ UNCHANGED fails
       ELSE IF ok THEN loop' = "sending" /\ UNCHANGED <<cause, fails, relay, held, subFailed>>
       ELSE IF StopInRetry /\ svc THEN Close("svc") /\ UNCHANGED fails
       ELSE /\ loop' = "retrieving" /\ UNCHANGED cause
            /\ fails' = IF CountFails THEN fails + 1 ELSE fails
    /\ Log([a |-> "att", h |-> cur, ok |-> ok])
    /\ UNCHANGED <<next, feedClosed, cur, okRecv, buf, delivered, sawClose, user, svc, fullAtClose, relay, held, subFailed>>

\* inner select: the send (there is room: only this goroutine sends and the overflow check passed)
Send ==
    /\ loop = "sending" /\ Len(buf) < Cap
    /\ buf' = Append(buf, [h |-> cur, b |-> blobs])
    /\ loop' = "waitHeader"
    /\ UNCHANGED <<next, feedClosed, cur, okRecv, blobs, fails, delivered, sawClose, user, svc,
                   cause, fullAtClose, hist, relay, held, subFailed>>

SendUserDone ==
    /\ loop = "sending" /\ user /\ Close("user")
    /\ UNCHANGED <<next, feedClosed, cur, okRecv, blobs, fails, buf, delivered, sawClose, user, svc,
                   fullAtClose, hist, relay, held, subFailed>>

-----------------------------------------------------------------------------
(* the relay: nodebuilder/header/service.go  Service.Subscribe                              *)
(*   for { h, err := subscription.NextHeader(ctx); if err != nil { return }                 *)
(*         select { case <-ctx.Done(): return; case headerCh <- h: } }                      *)
(*   deferred: subscription.Cancel(); close(headerCh)                                       *)

\* NextHeader returns the next header of the gossip subscription
GossipHeader ==
    /\ Relay /\ relay = "reading" /\ ~subFailed /\ next <= N
    /\ held' = next /\ next' = next + 1 /\ relay' = "forward"
    /\ Log([a |-> "hdr", h |-> next])
    /\ UNCHANGED <<feedClosed, loop, cur, okRecv, blobs, fails, buf, delivered, sawClose, user, svc,
                   cause, fullAtClose, subFailed>>

\* headerCh <- h meets the subscription loop's outer select
RelayForward ==
    /\ Relay /\ relay = "forward" /\ loop = "waitHeader"
    /\ cur' = held /\ okRecv' = TRUE /\ fails' = 0 /\ loop' = "checkCtx"
    /\ relay' = "reading" /\ held' = 0
    /\ UNCHANGED <<next, feedClosed, blobs, buf, delivered, sawClose, user, svc, cause, fullAtClose,
                   subFailed, hist>>

\* the subscriber's context is done: NextHeader(ctx) fails / the select takes ctx.Done
RelayCtxDone ==
    /\ Relay /\ relay \in {"reading", "forward"} /\ user
    /\ relay' = "ended" /\ feedClosed' = TRUE        \* a header it holds is never forwarded
    /\ UNCHANGED <<next, loop, cur, okRecv, blobs, fails, buf, delivered, sawClose, user, svc, cause,
                   fullAtClose, held, subFailed, hist>>

\* NextHeader returns the permanent error: the relay gives up, which closes the feed
RelayFail ==
    /\ Relay /\ relay = "reading" /\ subFailed
    /\ relay' = "ended" /\ feedClosed' = TRUE
    /\ UNCHANGED <<next, loop, cur, okRecv, blobs, fails, buf, delivered, sawClose, user, svc, cause,
                   fullAtClose, held, subFailed, hist>>

RelayStep == RelayForward \/ RelayCtxDone \/ RelayFail

\* environment: the gossip subscription dies (it was cancelled, the topic was closed)
FeedError ==
    /\ Relay /\ ~subFailed /\ subFailed' = TRUE
    /\ Log([a |-> "feederr"])
    /\ UNCHANGED <<next, feedClosed, loop, cur, okRecv, blobs, fails, buf, delivered, sawClose, user, svc,
                   cause, fullAtClose, relay, held>>

LoopStep == \/ RecvHeader \/ RecvClosed \/ SelUserDone \/ SelSvcDone \/ CheckCtx \/ CheckOk
            \/ CheckOverflow \/ Send \/ SendUserDone

-----------------------------------------------------------------------------
(* environment *)

Consume ==
    /\ buf # <<>>
    /\ delivered' = Append(delivered, Head(buf)) /\ buf' = Tail(buf)
    /\ Log([a |-> "consume"])
    /\ UNCHANGED <<next, feedClosed, loop, cur, okRecv, blobs, fails, sawClose, user, svc, cause, fullAtClose, relay, held, subFailed>>

\* a receive on the closed, drained channel
ConsumerSeesClose ==
    /\ Closed /\ buf = <<>> /\ ~sawClose
    /\ sawClose' = TRUE
    /\ UNCHANGED <<next, feedClosed, loop, cur, okRecv, blobs, fails, buf, delivered, user, svc,
                   cause, fullAtClose, hist, relay, held, subFailed>>

CancelUser ==
    /\ ~user /\ user' = TRUE
    /\ Log([a |-> "cancel"])
    /\ UNCHANGED <<next, feedClosed, loop, cur, okRecv, blobs, fails, buf, delivered, sawClose, svc,
                   cause, fullAtClose, relay, held, subFailed>>

StopService ==
    /\ ~svc /\ svc' = TRUE
    /\ Log([a |-> "stop"])
    /\ UNCHANGED <<next, feedClosed, loop, cur, okRecv, blobs, fails, buf, delivered, sawClose, user,
                   cause, fullAtClose, relay, held, subFailed>>

CloseFeed ==
    /\ ~Relay
    /\ ~feedClosed /\ feedClosed' = TRUE
    /\ Log([a |-> "feedclose"])
    /\ UNCHANGED <<next, loop, cur, okRecv, blobs, fails, buf, delivered, sawClose, user, svc,
                   cause, fullAtClose, relay, held, subFailed>>

OkChoices == IF AllowOk THEN BOOLEAN ELSE {FALSE}
AttemptAny == \E ok \in OkChoices : Attempt(ok)

Next ==
    \/ LoopStep \/ AttemptAny
    \/ Consume \/ ConsumerSeesClose \/ CancelUser \/ StopService \/ CloseFeed
    \/ GossipHeader \/ RelayStep \/ FeedError

Spec == Init /\ [][Next]_vars

-----------------------------------------------------------------------------
(* Properties of C20 *)

TypeOK ==
    /\ next \in 1..(N + 1) /\ cur \in 0..N /\ blobs \in 0..N /\ Len(buf) <= Cap
    /\ loop \in {"waitHeader", "checkCtx", "checkOk", "checkOverflow", "retrieving", "sending", "closed"}

\* The responses put on the channel are the headers 1, 2, 3, ... in order, without gap or
\* duplicate, each carrying the blobs of its own height.
InOrderNoGapNoDup ==
    \A k \in 1..Len(Emitted) : Emitted[k].h = k /\ Emitted[k].b = k

\* Every header taken from the feed has been answered before the next one is awaited
\* (exactly one response per header).
OnePerHeader ==
    (loop = "waitHeader") => Len(Emitted) = next - 1 - (IF held # 0 THEN 1 ELSE 0)

\* A failing retrieval is retried for the same height: the retry loop is left only towards
\* the send of that height (with its blobs) or towards the end of the stream.
RetryNotSkip ==
    [][loop = "retrieving" =>
          /\ loop' \in {"retrieving", "sending", "closed"}
          /\ loop' # "closed" => cur' = cur
          /\ loop' = "sending" => blobs' = cur]_vars

\* The stream ends only for one of the four stated causes.
ClosesOnlyWhen ==
    Closed => \/ cause = "user" /\ user
              \/ cause = "svc" /\ svc
              \/ cause = "feed" /\ feedClosed
              \/ cause = "overflow" /\ fullAtClose

\* Nothing is put on the channel after it was closed.
NoSendAfterClose == [][Closed => Emitted' = Emitted]_vars

\* Liveness.  Fairness: the goroutine keeps taking steps and getAll keeps returning (with
\* whatever result); the consumer and the environment are not forced to do anything.
\* With AllowOk = FALSE and CountFails = FALSE every retrieval fails for ever -- "promptly,
\* even while a retrieval keeps failing".
LiveSpec == Spec /\ WF_vars(LoopStep) /\ WF_vars(AttemptAny) /\ WF_vars(RelayStep)

CancelEnds == user ~> Closed
StopEnds   == svc ~> Closed
\* the closed feed is noticed when the loop is back at its select: demanded under the
\* assumption that retrievals do not fail for ever (bounded MaxFail), see C20.py level_note
FeedCloseEnds == feedClosed ~> Closed
\* the node's wiring: when the gossip subscription ends for good, the relay ends, the feed closes and
\* the blob stream ends (same assumption on retrievals)
FeedErrorEnds == subFailed ~> Closed

Terminal == Closed /\ buf = <<>>
=============================================================================
