SPECIFICATION Spec
CONSTANTS
  T = 2
  MaxBlobs = 3
  NSS = {2, 4, 6}
  LENS = {1, 2, 3, 5, 9}
  COMPACTS = {0, 1, 2, 3}
INVARIANTS SortIsStable LayoutsOK
CHECK_DEADLOCK FALSE
