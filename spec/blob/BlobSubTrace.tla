---------------------------- MODULE BlobSubTrace ----------------------------
(***************************************************************************)
(* Trace validation (binding B1) of the real blob.Service.Subscribe against *)
(* BlobSub.  The driver harness/drivers/blobsub records, per subscription,   *)
(* one NDJSON line per observation:                                         *)
(*   reset                 a new subscription (fresh channel, fresh feed)    *)
(*   hdr h                 the scripted header channel handed header h to the loop *)
(*                         (the unbuffered send returned)                    *)
(*   att h ok              the stub getter was asked for height h and the harness let it *)
(*                         answer ok (real namespace data) / fail (an error) *)
(*   recv h good           the consumer read a response for height h; good = its blobs are *)
(*                         exactly the blobs of the namespace at h           *)
(*   closed                the consumer saw the channel closed               *)
(*   cancel | stop | feedclose   the subscriber's context was cancelled / Service.Stop / *)
(*                         the header channel was closed                     *)
(* Everything else the goroutine does (the checks after a receive, the send, *)
(* the select branches that end the stream) is silent.  The trace is accepted iff some *)
(* interleaving of silent steps consumes every line; all BlobSub invariants are checked *)
(* on the way.                                                               *)
(***************************************************************************)
EXTENDS BlobSub, Json

CONSTANT TracePath

Trace == ndJsonDeserialize(TracePath)
NT == Len(Trace)

VARIABLE i
tvars == <<vars, i>>

Ev == Trace[i]
Advance == i' = i + 1 /\ TLCSet(1, IF TLCGet(1) > i + 1 THEN TLCGet(1) ELSE i + 1)

TraceInit == Init /\ i = 1 /\ TLCSet(1, 1)

TReset ==
    /\ Ev.ev = "reset"
    /\ next' = 1 /\ feedClosed' = FALSE
    /\ loop' = "waitHeader" /\ cur' = 0 /\ okRecv' = TRUE /\ blobs' = 0 /\ fails' = 0
    /\ buf' = <<>> /\ delivered' = <<>> /\ sawClose' = FALSE
    /\ user' = FALSE /\ svc' = FALSE /\ cause' = "-" /\ fullAtClose' = FALSE
    /\ hist' = <<>>
    /\ Advance

THdr    == Ev.ev = "hdr" /\ next = Ev.h /\ RecvHeader /\ Advance
TAtt    == Ev.ev = "att" /\ cur = Ev.h /\ Attempt(Ev.ok) /\ Advance
TRecv   == /\ Ev.ev = "recv" /\ buf # <<>>
           /\ Head(buf).h = Ev.h /\ (Head(buf).b = Ev.h) = Ev.good
           /\ Consume /\ Advance
TClosed == Ev.ev = "closed" /\ ConsumerSeesClose /\ Advance
TCancel == Ev.ev = "cancel" /\ CancelUser /\ Advance
TStop   == Ev.ev = "stop" /\ StopService /\ Advance
TFeed   == Ev.ev = "feedclose" /\ CloseFeed /\ Advance

Silent ==
    /\ UNCHANGED i
    /\ \/ RecvClosed \/ SelUserDone \/ SelSvcDone \/ CheckCtx \/ CheckOk \/ CheckOverflow
       \/ Send \/ SendUserDone

TraceNext ==
    /\ i <= NT
    /\ \/ TReset \/ THdr \/ TAtt \/ TRecv \/ TClosed \/ TCancel \/ TStop \/ TFeed \/ Silent

TraceSpec == TraceInit /\ [][TraceNext]_tvars

Accepted ==
    IF TLCGet(1) = NT + 1 THEN TRUE
    ELSE Print(<<"STUCK", TLCGet(1), Trace[TLCGet(1)]>>, FALSE)
=============================================================================
