---------------------------- MODULE BlobSubTrace ----------------------------
(***************************************************************************)
(* Trace validation (binding B1) of the real blob.Service.Subscribe against *)
(* BlobSub.  The driver harness/drivers/blobsub records, per subscription,   *)
(* one NDJSON line per observation:                                         *)
(*   reset                 a new subscription (fresh channel, fresh feed)    *)
(*   hdr h                 the scripted header channel handed header h to the loop *)
(*                         (the unbuffered send returned)                    *)
(*   att h ok              the stub getter was asked for height h and the harness let it *)
(*                         answer ok (real namespace data) / fail (an error) *)
(*   attnw h               the harness let the stub fail and did not wait for the loop: the return of *)
(*                         getAll (the model's Attempt step) may happen any time later        *)
(*   recv h good           the consumer read a response for height h; good = its blobs are *)
(*                         exactly the blobs of the namespace at h           *)
(*   closed                the consumer saw the channel closed               *)
(*   cancel | stop | feedclose   the subscriber's context was cancelled / Service.Stop / *)
(*                         the header channel was closed                     *)
(* Everything else the goroutine does (the checks after a receive, the send, *)
(* the select branches that end the stream) is silent.  The trace is accepted iff some *)
(* interleaving of silent steps consumes every line; all BlobSub invariants are checked *)
(* on the way.                                                               *)
(***************************************************************************)
EXTENDS BlobSub, Json

CONSTANT TracePath

Trace == ndJsonDeserialize(TracePath)
NT == Len(Trace)

VARIABLES
    i,      \* next line to consume
    owedA   \* "fail": the harness let a retrieval fail (line "attnw") without waiting for the loop to
            \* come back, so getAll's return -- the Attempt step -- may happen any time later
tvars == <<vars, i, owedA>>

Ev == Trace[i]
Advance == i' = i + 1 /\ TLCSet(1, IF TLCGet(1) > i + 1 THEN TLCGet(1) ELSE i + 1)

TraceInit == Init /\ i = 1 /\ owedA = "none" /\ TLCSet(1, 1)

TReset ==
    /\ Ev.ev = "reset"
    /\ next' = 1 /\ feedClosed' = FALSE
    /\ loop' = "waitHeader" /\ cur' = 0 /\ okRecv' = TRUE /\ blobs' = 0 /\ fails' = 0
    /\ buf' = <<>> /\ delivered' = <<>> /\ sawClose' = FALSE
    /\ user' = FALSE /\ svc' = FALSE /\ cause' = "-" /\ fullAtClose' = FALSE
    /\ relay' = "reading" /\ held' = 0 /\ subFailed' = FALSE
    /\ hist' = <<>>
    /\ owedA' = "none"
    /\ Advance

\* "hdr": the harness handed header h to the feed -- to the loop itself (Relay = FALSE) or to the
\* relay's NextHeader (Relay = TRUE)
THdr    == Ev.ev = "hdr" /\ next = Ev.h /\ (RecvHeader \/ GossipHeader) /\ UNCHANGED owedA /\ Advance
TFeedErr == Ev.ev = "feederr" /\ FeedError /\ UNCHANGED owedA /\ Advance
TAtt    == Ev.ev = "att" /\ owedA = "none" /\ cur = Ev.h /\ Attempt(Ev.ok) /\ UNCHANGED owedA /\ Advance
\* the answer was handed to the stub; when getAll returns to the loop is not observed
TAttNW  == /\ Ev.ev = "attnw" /\ owedA = "none" /\ loop = "retrieving" /\ cur = Ev.h
           /\ owedA' = "fail" /\ UNCHANGED vars /\ Advance
TRecv   == /\ Ev.ev = "recv" /\ buf # <<>>
           /\ Head(buf).h = Ev.h /\ (Head(buf).b = Ev.h) = Ev.good
           /\ Consume /\ UNCHANGED owedA /\ Advance
TClosed == Ev.ev = "closed" /\ ConsumerSeesClose /\ UNCHANGED owedA /\ Advance
TCancel == Ev.ev = "cancel" /\ CancelUser /\ UNCHANGED owedA /\ Advance
TStop   == Ev.ev = "stop" /\ StopService /\ UNCHANGED owedA /\ Advance
TFeed   == Ev.ev = "feedclose" /\ CloseFeed /\ UNCHANGED owedA /\ Advance

Silent ==
    /\ UNCHANGED i
    /\ \/ /\ \/ RecvClosed \/ SelUserDone \/ SelSvcDone \/ CheckCtx \/ CheckOk \/ CheckOverflow
             \/ Send \/ SendUserDone \/ RelayStep
          /\ UNCHANGED owedA
       \/ owedA = "fail" /\ Attempt(FALSE) /\ owedA' = "none"

TraceNext ==
    /\ i <= NT
    /\ \/ TReset \/ THdr \/ TAtt \/ TAttNW \/ TFeedErr \/ TRecv \/ TClosed \/ TCancel \/ TStop \/ TFeed \/ Silent

TraceSpec == TraceInit /\ [][TraceNext]_tvars

Accepted ==
    IF TLCGet(1) = NT + 1 THEN TRUE
    ELSE Print(<<"STUCK", TLCGet(1), Trace[TLCGet(1)]>>, FALSE)
=============================================================================
