\* Sensitivity of the model: with the pre-fix encoder (legacy 16-bit range id wraps instead of
\* refusing) TLC must report a violation (EncNeverTruncates / RoundTrip).  Not a verdict on the code.
SPECIFICATION Spec
CONSTANTS
  Tier = "quick"
  LegacyTruncates = TRUE
INVARIANTS
  TypeOK
  EncNeverTruncates
  RoundTrip
CHECK_DEADLOCK FALSE
