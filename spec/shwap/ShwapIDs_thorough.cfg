\* C18 / C10 thorough: dense boundary lattice, every case printed for the Go driver
SPECIFICATION Spec
CONSTANTS
  Tier = "thorough"
  LegacyTruncates = FALSE
INVARIANTS
  TypeOK
  Static
  RoundTrip
  EncNeverTruncates
  AcceptedIsInside
  DecRejects
  EncInjective
  IdCidBijective
  Emit
CHECK_DEADLOCK FALSE
