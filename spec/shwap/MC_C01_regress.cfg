\* C01_regress: see MCShwap.tla for the plan
CONSTANTS
 Plan <- PlanRangeRegress
 ReqNs = {1, 3, 4, 5, 7}
 FixRangeLen = FALSE
INIT Init
NEXT Next
VIEW View
INVARIANTS TypeOK Cases Sound SoundNd Complete
CHECK_DEADLOCK FALSE
