\* C18 / C10 quick: sparse boundary lattice, every case printed for the Go driver
SPECIFICATION Spec
CONSTANTS
  Tier = "quick"
  LegacyTruncates = FALSE
INVARIANTS
  TypeOK
  Static
  RoundTrip
  EncNeverTruncates
  AcceptedIsInside
  DecRejects
  EncInjective
  IdCidBijective
  Emit
CHECK_DEADLOCK FALSE
