------------------------------- MODULE MCShwap -------------------------------
(***************************************************************************)
(* Model-checking plans for ShwapVerify.tla: which layouts, how many       *)
(* forgery steps, per request kind and per tier.  The configurations       *)
(* (MC_*.cfg) only select a plan:  Plan <- PlanC01Quick  etc.              *)
(***************************************************************************)
EXTENDS ShwapVerify

Lay(x) == LayoutOf(x[1], x[2], x[3])

(* width 1 *)
L1data   == Lay(<<1, <<3>>, <<1>> >>)
L1empty  == Lay(<<1, <<8>>, <<0>> >>)              \* the empty block: one tail-padding share
(* width 2, hand-picked *)
L2mixed  == Lay(<<2, <<3,3, 5,8>>, <<1,1, 1,0>> >>)   \* two namespaces + tail padding
L2one    == Lay(<<2, <<3,3, 3,3>>, <<1,1, 1,1>> >>)   \* one namespace everywhere: every range is a request
L2sym    == Lay(<<2, <<3,8, 8,8>>, <<1,0, 0,0>> >>)   \* ODS equal to its transpose, constant rows
L2gap    == Lay(<<2, <<3,5, 5,5>>, <<1,1, 1,0>> >>)   \* namespace 4 absent inside row 0, namespace padding
L2tx     == Lay(<<2, <<1,2, 5,5>>, <<1,0, 1,1>> >>)   \* tx + primary reserved padding + a blob
(* width 4 *)
(* tx + reserved padding + three blobs (one with namespace padding) + tail padding; namespaces  *)
(* continue across row boundaries; rows with one and with several namespaces                   *)
L4mixed  == Lay(<<4, <<1,2,3,3, 3,3,3,5, 5,5,7,7, 7,8,8,8>>, <<1,0,1,1, 1,1,0,1, 1,1,1,1, 0,0,0,0>> >>)
(* a single namespace filling the whole square (every range is a valid request) *)
L4one    == Lay(<<4, <<3,3,3,3, 3,3,3,3, 3,3,3,3, 3,3,3,3>>, <<1,1,1,1, 1,1,1,1, 1,1,1,1, 1,1,1,1>> >>)
(* one blob spanning three rows, then padding of both kinds *)
L4span   == Lay(<<4, <<3,3,5,5, 5,5,5,5, 5,5,5,5, 5,5,8,8>>, <<1,1,1,1, 1,1,1,1, 1,1,1,1, 0,0,0,0>> >>)
(* absent namespaces inside a row's range (3..7 in one row; 4, 5, 6 missing) *)
L4gaps   == Lay(<<4, <<3,3,3,7, 7,7,7,7, 7,7,7,7, 7,7,7,8>>, <<1,1,1,1, 1,1,1,1, 1,1,1,1, 1,0,0,0>> >>)

All1 == GenLayouts(1, {3, 8}, TRUE)
All2 == GenLayouts(2, {1, 2, 3, 5, 8}, TRUE)          \* every width-2 layout over 5 namespaces (113)
All2s == GenLayouts(2, {3, 5, 8}, TRUE)               \* every width-2 layout over 3 namespaces

RangeT == {"slice", "slice0", "fp", "lp", "reclaimf", "reclaiml", "swappf"}

E(kind, layouts, f, t, wide) == [k |-> kind, L |-> layouts, F |-> f, T |-> t, wide |-> wide]

(* ------------------------------- C01 ----------------------------------- *)
PlanC01Quick ==
  [sample |-> E("sample", {L1data, L2mixed, L2sym, L4mixed},                  1, {}, FALSE),
   row    |-> E("row",    {L1empty, L2gap, L4mixed},                          1, {}, FALSE),
   row2   |-> E("row",    {L1data, L2mixed, L2sym},                           2, {}, FALSE),
   rnd    |-> E("rnd",    {L2mixed, L2gap, L4mixed},                          1, {}, FALSE),
   range2 |-> E("range",  {L2one, L2mixed},                                   2, RangeT, FALSE),
   range1 |-> E("range",  {L2gap, L1data},                                    1, {}, FALSE),
   range4 |-> E("range",  {L4one},                                            1, {}, FALSE)]

Hand2 == {L2mixed, L2one, L2sym, L2gap, L2tx}
PlanC01Thorough ==
  [sample2 |-> E("sample", All1 \cup All2s \cup Hand2,                        1, {}, TRUE),
   sample4 |-> E("sample", {L4mixed, L4span},                                 1, {}, TRUE),
   row2    |-> E("row",    All1 \cup All2s,                                   2, {}, TRUE),
   row4    |-> E("row",    {L4mixed, L4span},                                 2, {"side", "swap", "cell2", "cellT"}, TRUE),
   rnd2    |-> E("rnd",    All2s \cup {L2tx},                                 1, {}, TRUE),
   rnd4    |-> E("rnd",    {L4mixed, L4span},                                 1, {}, TRUE),
   rnd5    |-> E("rnd",    {L4gaps},                                          1, {}, FALSE),
   range2  |-> E("range",  Hand2 \cup All1,                                   2, RangeT, TRUE),
   range3  |-> E("range",  All2s \ Hand2,                                     1, {}, TRUE),
   range4  |-> E("range",  {L4one},                                           2, {"slice", "slice0"}, FALSE),
   range5  |-> E("range",  {L4span, L4mixed},                                 1, {}, FALSE)]

(* the verifier as it was before "fix: range verification must check per-row share counts" *)
PlanRangeRegress ==
  [range2 |-> E("range",  {L2one},                                            1, {}, FALSE)]

(* ------------------------------- C02 ----------------------------------- *)
NdT == {"rm", "move", "entry", "add"}
PlanC02Quick ==
  [nd     |-> E("nd",     {L1data, L2one, L2tx, L4mixed, L4gaps},             1, {}, FALSE),
   nd2    |-> E("nd",     {L2mixed, L2gap},                                   2, NdT, FALSE),
   rnd    |-> E("rnd",    {L2mixed, L2gap, L4gaps, L4mixed},                  1, {}, FALSE)]

PlanC02Thorough ==
  [nd2    |-> E("nd",     All1 \cup All2,                                     1, {}, TRUE),
   nd2b   |-> E("nd",     Hand2 \cup {Lay(<<2, <<3,3, 3,5>>, <<1,1, 0,1>> >>), Lay(<<2, <<1,3, 3,8>>, <<1,1, 1,0>> >>),
                           Lay(<<2, <<3,5, 7,7>>, <<1,1, 1,1>> >>)},          2, NdT, TRUE),
   nd4    |-> E("nd",     {L4mixed, L4span, L4gaps, L4one},                   2, {"rm", "move"}, TRUE),
   rnd2   |-> E("rnd",    All2s \cup {L2tx},                                  1, {}, TRUE),
   rnd4   |-> E("rnd",    {L4gaps, L4mixed},                                  1, {}, TRUE),
   rnd5   |-> E("rnd",    {L4span},                                           1, {}, FALSE)]
=============================================================================
