------------------------------ MODULE ShwapIDs ------------------------------
(***************************************************************************)
(* Wire formats of the shwap identifiers of celestia-node, specified as    *)
(* TLA+ functions over sequences of bytes, together with the field domains *)
(* (Validate = sanity of one identifier, Verify(size) = bounds for a       *)
(* square of a given size) and the CID framing used by Bitswap.            *)
(*                                                                         *)
(* Property C18: every identifier the node can construct encodes to bytes  *)
(* that decode back to an equal value; an identifier accepted for a square *)
(* of a given size addresses a position inside that square; decoders       *)
(* reject wrong lengths / out-of-range fields; no encoder truncates.       *)
(* Property C10 (second sentence): every identifier maps to exactly one    *)
(* CID and back.                                                           *)
(*                                                                         *)
(* Code transcribed (share/shwap):                                         *)
(*   eds_id.go  row_id.go  sample_id.go  namespace_data_id.go              *)
(*   row_namespace_data_id.go  range_namespace_data_id.go                  *)
(*   range_namesapce_data_id_v0.go  p2p/bitswap/cid.go  *_block.go         *)
(*                                                                         *)
(* The module is a little state machine -- one behaviour per CASE of the   *)
(* boundary lattice, shaped like the code path an identifier takes:        *)
(*                                                                         *)
(*   new --Construct--> accepted --Marshal--> encoded --Unmarshal-->       *)
(*        \-> refused            \-> encrefused        decoded --ToCid-->  *)
(*   cid --FromCid--> cidback                                              *)
(*                                                                         *)
(* and for the decoding side  new --DecodeRaw--> rawdecoded  (structured   *)
(* malformations), new --CastCid--> cidcast (malformed CID framings).      *)
(* Every terminal state is printed as a CASE record; harness/drivers/ids   *)
(* materialises each on the real code and compares bytes and verdicts.     *)
(*                                                                         *)
(* NUMBERS.  TLC integers are 32-bit, the fields are up to 64 bits wide,   *)
(* so a natural number is a canonical sequence of base-65536 limbs, most   *)
(* significant first, zero = <<>>; the single negative lattice point -1    *)
(* is <<-1>>.  Bytes are computed from limbs by real arithmetic (\div 256, *)
(* % 256), so big-endianness and field widths are stated, not assumed.     *)
(***************************************************************************)
EXTENDS Integers, Sequences, FiniteSets, TLC, Json

CONSTANTS
    Tier,             \* "quick" | "thorough" : density of the boundary lattice
    LegacyTruncates   \* TRUE = behaviour of the tree before the fix (the legacy
                      \* 16-bit range id wraps instead of refusing); used only by
                      \* ShwapIDs_legacy.cfg to show that RoundTrip/EncNeverTruncates
                      \* can fail (sensitivity of the model), never by the check proper

ASSUME Tier \in {"quick", "thorough"} /\ LegacyTruncates \in BOOLEAN

-----------------------------------------------------------------------------
(* ---- numbers as limb sequences ---------------------------------------- *)
Limb == 65536
Z    == << >>
N(n) == IF n = 0 THEN << >> ELSE IF n < Limb THEN <<n>> ELSE <<n \div Limb, n % Limb>>  \* 0 <= n < 2^31
MinusOne == <<-1>>
IsNeg(x) == Len(x) = 1 /\ x[1] < 0

P32   == <<1, 0, 0>>                        \* 2^32
P32p5 == <<1, 0, 5>>                        \* 2^32 + 5
M32   == <<65535, 65535>>                   \* 2^32 - 1
P63   == <<32768, 0, 0, 0>>                 \* 2^63
M64   == <<65535, 65535, 65535, 65535>>     \* 2^64 - 1

NumLt(a, b) ==
    IF IsNeg(a) THEN ~IsNeg(b)
    ELSE IF IsNeg(b) THEN FALSE
    ELSE \/ Len(a) < Len(b)
         \/ /\ Len(a) = Len(b)
            /\ \E i \in 1..Len(a) : a[i] < b[i] /\ \A j \in 1..(i-1) : a[j] = b[j]
NumLe(a, b) == a = b \/ NumLt(a, b)

Canon(l) == LET nz == {i \in 1..Len(l) : l[i] # 0}
            IN IF nz = {} THEN << >>
               ELSE SubSeq(l, CHOOSE i \in nz : \A j \in nz : i <= j, Len(l))

(* ---- bytes ------------------------------------------------------------ *)
Byte == 0..255
Rep(b, n) == [i \in 1..n |-> b]

\* x fits an unsigned big-endian field of w bytes (w even)
Fits(x, w) == ~IsNeg(x) /\ 2 * Len(x) <= w

\* big-endian, w bytes, only meaningful when Fits(x, w)
BE(x, w) ==
    LET k == w \div 2
        p == [i \in 1..k |-> IF i <= k - Len(x) THEN 0 ELSE x[i - (k - Len(x))]]
    IN [i \in 1..w |-> IF i % 2 = 1 THEN p[(i + 1) \div 2] \div 256 ELSE p[i \div 2] % 256]

\* what Go's uintN(x) conversion does to a value that does not fit: keep the low limbs
\* (two's complement for -1).  Used only under LegacyTruncates.
Trunc(x, w) ==
    LET k == w \div 2
    IN IF IsNeg(x) THEN Rep(255, w)
       ELSE BE(Canon(SubSeq(x, Len(x) - k + 1, Len(x))), w)

UnBE(b) == Canon([i \in 1..(Len(b) \div 2) |-> b[2 * i - 1] * 256 + b[2 * i]])

RECURSIVE Varint(_)
Varint(n) == IF n < 128 THEN <<n>> ELSE <<(n % 128) + 128>> \o Varint(n \div 128)

-----------------------------------------------------------------------------
(* ---- namespaces (29 bytes: version, 28 id bytes) ----------------------- *)
NsSize == 29
NsUser       == <<0>> \o Rep(0, 18) \o <<1, 2, 3, 4, 5, 6, 7, 8, 9, 10>>
NsMinUser    == <<0>> \o Rep(0, 26) \o <<1, 0>>            \* first namespace after the primary reserved range
NsTx         == <<0>> \o Rep(0, 27) \o <<1>>               \* reserved, but legal for data
NsPrimaryPad == <<0>> \o Rep(0, 27) \o <<255>>
NsMaxUserV0  == <<0>> \o Rep(0, 18) \o Rep(255, 10)
NsSecondary0 == <<255>> \o Rep(255, 27) \o <<0>>
NsV255Other  == <<255>> \o Rep(7, 28)                      \* version 255 has no prefix rule
NsTailPad    == <<255>> \o Rep(255, 27) \o <<254>>
NsParity     == Rep(255, 29)
NsBadVersion == <<1>> \o Rep(0, 28)
NsBadPrefix  == <<0, 1>> \o Rep(0, 27)

\* libshare.NewNamespaceFromBytes: length, supported version, version-0 prefix of 18 zero bytes
NsWellFormed(ns) == /\ Len(ns) = NsSize
                    /\ ns[1] \in {0, 255}
                    /\ (ns[1] = 0 => \A i \in 2..19 : ns[i] = 0)
\* Namespace.ValidateForData: additionally neither parity nor tail padding
NsForData(ns) == NsWellFormed(ns) /\ ns # NsParity /\ ns # NsTailPad

\* namespaces a caller can hold (libshare refuses to build ill-formed ones)
HoldableNs == IF Tier = "quick"
              THEN {NsUser, NsTx, NsMaxUserV0, NsV255Other, NsTailPad, NsParity}
              ELSE {NsUser, NsMinUser, NsTx, NsPrimaryPad, NsMaxUserV0, NsSecondary0, NsV255Other,
                    NsTailPad, NsParity}

-----------------------------------------------------------------------------
(* ---- identifiers ------------------------------------------------------- *)
\* [t |-> "eds", h] [t |-> "row", h, r] [t |-> "sample", h, r, c] [t |-> "nd", h, ns]
\* [t |-> "rnd", h, r, ns] [t |-> "range", h, from, to] [t |-> "rangev0", h, from, to]
Types == {"eds", "row", "sample", "nd", "rnd", "range", "rangev0"}
Sized == {"row", "sample", "rnd", "range", "rangev0"}       \* constructor takes a square size
OdsSized == {"range", "rangev0"}                            \* ... the ODS size (share count = size^2)

EdsIDSize     == 8
RowIDSize     == EdsIDSize + 2
SampleIDSize  == RowIDSize + 2
NdIDSize      == EdsIDSize + NsSize
RndIDSize     == RowIDSize + NsSize
RangeIDSize   == EdsIDSize + 8
RangeV0IDSize == EdsIDSize + 4
IDSize(t) == CASE t = "eds" -> EdsIDSize [] t = "row" -> RowIDSize [] t = "sample" -> SampleIDSize
               [] t = "nd" -> NdIDSize [] t = "rnd" -> RndIDSize [] t = "range" -> RangeIDSize
               [] t = "rangev0" -> RangeV0IDSize

(* Validate / Verify, transcribed check by check IN THE CODE'S ORDER; the result is "ok" or the  *)
(* name of the first failing check, which the driver compares with the real verdict (ok / error). *)
ValidateEds(id) == IF id.h = Z THEN "height0" ELSE "ok"

ValidateRow(id) == IF IsNeg(id.r) THEN "row<0" ELSE ValidateEds(id)
VerifyRow(id, size) ==
    IF size = 0 THEN "size0"
    ELSE IF ~NumLt(id.r, N(size)) THEN "row>=size"
    ELSE ValidateRow(id)

ValidateSample(id) == IF IsNeg(id.c) THEN "col<0" ELSE ValidateRow(id)
VerifySample(id, size) ==
    IF VerifyRow(id, size) # "ok" THEN VerifyRow(id, size)
    ELSE IF ~NumLt(id.c, N(size)) THEN "col>=size"
    ELSE ValidateSample(id)

ValidateNd(id) == IF ValidateEds(id) # "ok" THEN ValidateEds(id)
                  ELSE IF ~NsForData(id.ns) THEN "ns" ELSE "ok"

ValidateRnd(id) == IF ValidateRow(id) # "ok" THEN ValidateRow(id)
                   ELSE IF ~NsForData(id.ns) THEN "ns" ELSE "ok"
VerifyRnd(id, size) == IF VerifyRow(id, size) # "ok" THEN VerifyRow(id, size) ELSE ValidateRnd(id)

ValidateRange(id) ==
    IF ValidateEds(id) # "ok" THEN ValidateEds(id)
    ELSE IF IsNeg(id.from) THEN "from<0"
    ELSE IF NumLe(id.to, Z) THEN "to<=0"
    ELSE IF ~NumLt(id.from, id.to) THEN "from>=to"
    ELSE "ok"
VerifyRange(id, ods) ==
    IF ValidateRange(id) # "ok" THEN ValidateRange(id)
    ELSE IF ~NumLt(id.from, N(ods * ods)) THEN "from>=shares"
    ELSE IF NumLt(N(ods * ods), id.to) THEN "to>shares"
    ELSE "ok"

\* The legacy identifier (Bitswap CIDs) has 16-bit from/to.  The protocol maximum ODS (512) has
\* 262 144 shares, so the identifier must REFUSE what it cannot carry (candidate defect #16: the
\* unfixed code wrapped silently).  to = 65535 is the largest exclusive end it can carry.
Wide16(id) == ~Fits(id.from, 2) \/ ~Fits(id.to, 2)
ValidateRangeV0(id) ==
    IF ValidateRange(id) # "ok" THEN ValidateRange(id)
    ELSE IF ~LegacyTruncates /\ Wide16(id) THEN "wide16" ELSE "ok"
VerifyRangeV0(id, ods) ==
    IF VerifyRange(id, ods) # "ok" THEN VerifyRange(id, ods)
    ELSE IF ~LegacyTruncates /\ Wide16(id) THEN "wide16" ELSE "ok"

Validate(id) == CASE id.t = "eds" -> ValidateEds(id) [] id.t = "row" -> ValidateRow(id)
                  [] id.t = "sample" -> ValidateSample(id) [] id.t = "nd" -> ValidateNd(id)
                  [] id.t = "rnd" -> ValidateRnd(id) [] id.t = "range" -> ValidateRange(id)
                  [] id.t = "rangev0" -> ValidateRangeV0(id)

\* what the constructor New<T>ID(..., size) answers
Construct(id, size) ==
    CASE id.t = "eds" -> ValidateEds(id) [] id.t = "nd" -> ValidateNd(id)
      [] id.t = "row" -> VerifyRow(id, size) [] id.t = "sample" -> VerifySample(id, size)
      [] id.t = "rnd" -> VerifyRnd(id, size) [] id.t = "range" -> VerifyRange(id, size)
      [] id.t = "rangev0" -> VerifyRangeV0(id, size)

(* The property's own notion of "inside the square" -- stated independently of the checks above. *)
Between(lo, x, hiExcl) == NumLe(lo, x) /\ NumLt(x, hiExcl)
Inside(id, size) ==
    CASE id.t = "row"    -> Between(Z, id.r, N(size))
      [] id.t = "sample" -> Between(Z, id.r, N(size)) /\ Between(Z, id.c, N(size))
      [] id.t = "rnd"    -> Between(Z, id.r, N(size))
      [] id.t \in OdsSized -> /\ Between(Z, id.from, N(size * size))
                              /\ NumLt(id.from, id.to) /\ NumLe(id.to, N(size * size))
      [] OTHER -> TRUE

(* ---- encoders ---------------------------------------------------------- *)
\* A field encoder is a partial function: it is DEFINED only when the value fits its width.
FieldOK(x, w) == Fits(x, w)
Field(x, w)   == IF Fits(x, w) THEN BE(x, w) ELSE Trunc(x, w)   \* second branch reachable only under LegacyTruncates

EncDefined(id) ==
    /\ Fits(id.h, 8)
    /\ CASE id.t = "eds" -> TRUE
         [] id.t = "row" -> FieldOK(id.r, 2)
         [] id.t = "sample" -> FieldOK(id.r, 2) /\ FieldOK(id.c, 2)
         [] id.t = "nd" -> Len(id.ns) = NsSize
         [] id.t = "rnd" -> FieldOK(id.r, 2) /\ Len(id.ns) = NsSize
         [] id.t = "range" -> FieldOK(id.from, 4) /\ FieldOK(id.to, 4)
         [] id.t = "rangev0" -> FieldOK(id.from, 2) /\ FieldOK(id.to, 2)

Enc(id) ==
    BE(id.h, 8) \o
    CASE id.t = "eds" -> << >>
      [] id.t = "row" -> Field(id.r, 2)
      [] id.t = "sample" -> Field(id.r, 2) \o Field(id.c, 2)
      [] id.t = "nd" -> id.ns
      [] id.t = "rnd" -> Field(id.r, 2) \o id.ns
      [] id.t = "range" -> Field(id.from, 4) \o Field(id.to, 4)
      [] id.t = "rangev0" -> Field(id.from, 2) \o Field(id.to, 2)

\* MarshalBinary answers bytes or refuses
MarshalRefuses(id) == ~EncDefined(id) /\ ~LegacyTruncates

(* ---- decoders ---------------------------------------------------------- *)
Reject == [t |-> "REJECT"]

DecFields(t, b) ==   \* b has the right length
    LET h == UnBE(SubSeq(b, 1, 8))
    IN CASE t = "eds" -> [t |-> t, h |-> h]
         [] t = "row" -> [t |-> t, h |-> h, r |-> UnBE(SubSeq(b, 9, 10))]
         [] t = "sample" -> [t |-> t, h |-> h, r |-> UnBE(SubSeq(b, 9, 10)), c |-> UnBE(SubSeq(b, 11, 12))]
         [] t = "nd" -> [t |-> t, h |-> h, ns |-> SubSeq(b, 9, 37)]
         [] t = "rnd" -> [t |-> t, h |-> h, r |-> UnBE(SubSeq(b, 9, 10)), ns |-> SubSeq(b, 11, 39)]
         [] t = "range" -> [t |-> t, h |-> h, from |-> UnBE(SubSeq(b, 9, 12)), to |-> UnBE(SubSeq(b, 13, 16))]
         [] t = "rangev0" -> [t |-> t, h |-> h, from |-> UnBE(SubSeq(b, 9, 10)), to |-> UnBE(SubSeq(b, 11, 12))]

\* <T>IDFromBinary: exact length, then every field validated -- never a guess
Dec(t, b) ==
    IF Len(b) # IDSize(t) THEN Reject
    ELSE LET id == DecFields(t, b)
         IN IF Validate(id) = "ok" THEN id ELSE Reject

(* ---- CID framing (p2p/bitswap/cid.go, *_block.go) ---------------------- *)
BitswapTypes == {"sample", "row", "rnd", "rangev0"}
Codec(t)  == CASE t = "row" -> 30720 [] t = "sample" -> 30736 [] t = "rnd" -> 30752 [] t = "rangev0" -> 30768
                                                        \* 0x7800 0x7810 0x7820 0x7830
MhCode(t) == Codec(t) + 1                               \* 0x7801 0x7811 0x7821 0x7831
TypeOfCodec(c) == IF \E t \in BitswapTypes : Codec(t) = c
                  THEN CHOOSE t \in BitswapTypes : Codec(t) = c ELSE "none"

\* CIDv1 = varint(version) varint(codec) multihash,  multihash = varint(code) varint(len) digest
CidBytes(ver, codec, mh, len, digest) == Varint(ver) \o Varint(codec) \o Varint(mh) \o Varint(len) \o digest
CidOf(id) == CidBytes(1, Codec(id.t), MhCode(id.t), IDSize(id.t), Enc(id))

\* extractFromCID cuts a constant 4-byte multihash prefix: true for the registered codes/sizes
MhPrefixIs4 == \A t \in BitswapTypes : Len(Varint(MhCode(t))) + Len(Varint(IDSize(t))) = 4

\* cid.Cast + validateCID + <T>IDFromBinary on a framing given by its fields
CidDec(ver, codec, mh, len, digest, trailing) ==
    LET t == TypeOfCodec(codec)
    IN IF ver # 1 \/ t = "none" \/ trailing # << >> THEN Reject
       ELSE IF mh # MhCode(t) \/ len # IDSize(t) \/ Len(digest) # len THEN Reject
       ELSE Dec(t, digest)

-----------------------------------------------------------------------------
(* ---- the boundary lattice ---------------------------------------------- *)
Heights == IF Tier = "quick" THEN {Z, N(1), M64}
           ELSE {Z, N(1), N(65536), P32, P63, M64}

EdsSizes == IF Tier = "quick" THEN {0, 2, 4, 8, 512, 1024}
            ELSE {0, 1, 2, 4, 8, 16, 32, 64, 128, 256, 512, 1024}      \* protocol maximum EDS = 1024
OdsSizes == IF Tier = "quick" THEN {0, 1, 2, 4, 256, 512}
            ELSE {0, 1, 2, 4, 8, 16, 32, 64, 128, 256, 512}            \* protocol maximum ODS = 512
ProtocolMaxFits16 == \A s \in EdsSizes : s < Limb      \* why 16-bit row/col fields are enough

\* boundary values of an index field whose upper bound is `bound`
Idx(bound) ==
    LET ints == IF Tier = "quick"
                THEN {0, 1, bound \div 2, bound - 1, bound, 65535, 65536, 65541, 262144}
                ELSE {0, 1, 2, bound \div 2, bound - 2, bound - 1, bound, bound + 1, 255, 256, 1023, 1024, 65534, 65535, 65536,
                      65541, 131077, 262143, 262144, 262145}
    IN {MinusOne, M32} \cup {N(k) : k \in {i \in ints : i >= 0}}
       \cup (IF Tier = "quick" THEN {} ELSE {P32, P32p5})

IdCases ==
    [kind : {"id"}, id : [t : {"eds"}, h : Heights], size : {0}]
    \cup [kind : {"id"}, id : [t : {"nd"}, h : Heights, ns : HoldableNs], size : {0}]
    \cup UNION {[kind : {"id"}, id : [t : {"row"}, h : Heights, r : Idx(s)], size : {s}] : s \in EdsSizes}
    \cup UNION {[kind : {"id"}, id : [t : {"sample"}, h : Heights, r : Idx(s), c : Idx(s)], size : {s}] : s \in EdsSizes}
    \cup UNION {[kind : {"id"}, id : [t : {"rnd"}, h : Heights, r : Idx(s), ns : HoldableNs], size : {s}] : s \in EdsSizes}
    \cup UNION {[kind : {"id"}, id : [t : {"range", "rangev0"}, h : Heights, from : Idx(s * s), to : Idx(s * s)], size : {s}]
                : s \in OdsSizes}

(* Structured malformations for the decoders: start from a good encoding, damage one thing. *)
GoodID(t) == CASE t = "eds" -> [t |-> t, h |-> N(7)]
               [] t = "row" -> [t |-> t, h |-> N(7), r |-> N(3)]
               [] t = "sample" -> [t |-> t, h |-> N(7), r |-> N(3), c |-> N(258)]
               [] t = "nd" -> [t |-> t, h |-> N(7), ns |-> NsUser]
               [] t = "rnd" -> [t |-> t, h |-> N(7), r |-> N(3), ns |-> NsUser]
               [] t = "range" -> [t |-> t, h |-> N(7), from |-> N(65541), to |-> N(262144)]
               [] t = "rangev0" -> [t |-> t, h |-> N(7), from |-> N(5), to |-> N(65535)]

WithNs(t, ns) == IF t = "nd" THEN BE(N(7), 8) \o ns ELSE BE(N(7), 8) \o BE(N(3), 2) \o ns
WithRange(t, f, to) == IF t = "range" THEN BE(N(7), 8) \o BE(f, 4) \o BE(to, 4) ELSE BE(N(7), 8) \o BE(f, 2) \o BE(to, 2)

RawCases ==
    UNION {
      {[kind |-> "raw", t |-> t, why |-> "valid",   bytes |-> Enc(GoodID(t))],
       [kind |-> "raw", t |-> t, why |-> "short",   bytes |-> SubSeq(Enc(GoodID(t)), 1, IDSize(t) - 1)],
       [kind |-> "raw", t |-> t, why |-> "long",    bytes |-> Enc(GoodID(t)) \o <<0>>],
       [kind |-> "raw", t |-> t, why |-> "empty",   bytes |-> << >>],
       [kind |-> "raw", t |-> t, why |-> "height0", bytes |-> Rep(0, 8) \o SubSeq(Enc(GoodID(t)), 9, IDSize(t))]}
      : t \in Types}
    \cup {[kind |-> "raw", t |-> t, why |-> w[1], bytes |-> WithNs(t, w[2])]
          : t \in {"nd", "rnd"},
            w \in {<<"ns-parity", NsParity>>, <<"ns-tailpad", NsTailPad>>,
                   <<"ns-badversion", NsBadVersion>>, <<"ns-badprefix", NsBadPrefix>>}}
    \cup {[kind |-> "raw", t |-> t, why |-> "valid", bytes |-> WithNs(t, ns)]
          : t \in {"nd", "rnd"}, ns \in {NsTx, NsV255Other, NsMaxUserV0}}
    \cup {[kind |-> "raw", t |-> t, why |-> w[1], bytes |-> WithRange(t, w[2], w[3])]
          : t \in {"range", "rangev0"},
            w \in {<<"from=to", N(9), N(9)>>, <<"from>to", N(9), N(8)>>, <<"to=0", Z, Z>>,
                   <<"to=0,from>0", N(1), Z>>}}
    \cup {[kind |-> "raw", t |-> t, why |-> "valid", bytes |-> WithRange(t, Z, N(1))] : t \in {"range", "rangev0"}}

\* malformed CID framings around a good identifier of each Bitswap type
CidCases ==
    UNION {
      LET g == Enc(GoodID(t)) IN
      {[kind |-> "cid", t |-> t, why |-> "valid",       ver |-> 1, codec |-> Codec(t), mh |-> MhCode(t), len |-> IDSize(t), digest |-> g, trailing |-> << >>],
       [kind |-> "cid", t |-> t, why |-> "version",     ver |-> 2, codec |-> Codec(t), mh |-> MhCode(t), len |-> IDSize(t), digest |-> g, trailing |-> << >>],
       [kind |-> "cid", t |-> t, why |-> "codec",       ver |-> 1, codec |-> Codec(t) + 2, mh |-> MhCode(t), len |-> IDSize(t), digest |-> g, trailing |-> << >>],
       [kind |-> "cid", t |-> t, why |-> "codec-raw",   ver |-> 1, codec |-> 85, mh |-> MhCode(t), len |-> IDSize(t), digest |-> g, trailing |-> << >>],
       [kind |-> "cid", t |-> t, why |-> "mhcode-sha256", ver |-> 1, codec |-> Codec(t), mh |-> 18, len |-> IDSize(t), digest |-> g, trailing |-> << >>],
       [kind |-> "cid", t |-> t, why |-> "len-1",       ver |-> 1, codec |-> Codec(t), mh |-> MhCode(t), len |-> IDSize(t) - 1, digest |-> SubSeq(g, 1, IDSize(t) - 1), trailing |-> << >>],
       [kind |-> "cid", t |-> t, why |-> "len+1",       ver |-> 1, codec |-> Codec(t), mh |-> MhCode(t), len |-> IDSize(t) + 1, digest |-> g \o <<0>>, trailing |-> << >>],
       [kind |-> "cid", t |-> t, why |-> "digest-short", ver |-> 1, codec |-> Codec(t), mh |-> MhCode(t), len |-> IDSize(t), digest |-> SubSeq(g, 1, IDSize(t) - 1), trailing |-> << >>],
       [kind |-> "cid", t |-> t, why |-> "trailing",    ver |-> 1, codec |-> Codec(t), mh |-> MhCode(t), len |-> IDSize(t), digest |-> g, trailing |-> <<0>>],
       [kind |-> "cid", t |-> t, why |-> "height0",     ver |-> 1, codec |-> Codec(t), mh |-> MhCode(t), len |-> IDSize(t), digest |-> Rep(0, 8) \o SubSeq(g, 9, IDSize(t)), trailing |-> << >>]}
      : t \in BitswapTypes}
    \* the multihash code of ANOTHER registered type: same hasher implementation, other id size
    \cup {[kind |-> "cid", t |-> p[1], why |-> "mhcode-other", ver |-> 1, codec |-> Codec(p[1]), mh |-> MhCode(p[2]),
           len |-> IDSize(p[1]), digest |-> Enc(GoodID(p[1])), trailing |-> << >>]
          : p \in {q \in BitswapTypes \X BitswapTypes : q[1] # q[2]}}
    \* another type's identifier of the same length under this codec: sample (12) <-> legacy range (12)
    \cup {[kind |-> "cid", t |-> "rangev0", why |-> "valid", ver |-> 1, codec |-> Codec("rangev0"), mh |-> MhCode("rangev0"),
           len |-> 12, digest |-> Enc(GoodID("sample")), trailing |-> << >>]}

Cases == IdCases \cup RawCases \cup CidCases

-----------------------------------------------------------------------------
(* ---- the state machine -------------------------------------------------- *)
VARIABLES case,    \* the case of this behaviour
          stage,   \* where the value is on its way
          verdict, \* answer of the last fallible step ("ok" or the failing check)
          wire,    \* bytes produced by the identifier encoder (or << >>)
          cidw,    \* bytes of the CID (or << >>)
          back     \* value produced by the last decoder (or Reject)
vars == <<case, stage, verdict, wire, cidw, back>>

None == [t |-> "NONE"]

Init == /\ case \in Cases
        /\ stage = "new" /\ verdict = "" /\ wire = << >> /\ cidw = << >> /\ back = None

\* New<T>ID(fields, size)
DoConstruct ==
    /\ stage = "new" /\ case.kind = "id"
    /\ verdict' = Construct(case.id, case.size)
    /\ stage' = IF verdict' = "ok" THEN "accepted" ELSE "refused"
    /\ UNCHANGED <<case, wire, cidw, back>>

\* id.MarshalBinary()
DoMarshal ==
    /\ stage = "accepted"
    /\ IF MarshalRefuses(case.id)
       THEN stage' = "encrefused" /\ wire' = << >>
       ELSE stage' = "encoded" /\ wire' = Enc(case.id)
    /\ UNCHANGED <<case, verdict, cidw, back>>

\* <T>IDFromBinary(bytes) / ReadFrom
DoUnmarshal ==
    /\ stage = "encoded"
    /\ back' = Dec(case.id.t, wire)
    /\ stage' = "decoded"
    /\ UNCHANGED <<case, verdict, wire, cidw>>

\* Block.CID()
DoToCid ==
    /\ stage = "decoded" /\ case.id.t \in BitswapTypes
    /\ cidw' = CidOf(case.id)
    /\ stage' = "cid" /\ back' = None
    /\ UNCHANGED <<case, verdict, wire>>

\* EmptyBlock(cid).ID
DoFromCid ==
    /\ stage = "cid"
    /\ back' = CidDec(1, Codec(case.id.t), MhCode(case.id.t), IDSize(case.id.t),
                      SubSeq(cidw, Len(cidw) - IDSize(case.id.t) + 1, Len(cidw)), << >>)
    /\ stage' = "cidback"
    /\ UNCHANGED <<case, verdict, wire, cidw>>

\* decoder on a structured malformation
DoDecodeRaw ==
    /\ stage = "new" /\ case.kind = "raw"
    /\ back' = Dec(case.t, case.bytes)
    /\ stage' = "rawdecoded"
    /\ UNCHANGED <<case, verdict, wire, cidw>>

\* cid.Cast + EmptyBlock on a malformed framing
DoCastCid ==
    /\ stage = "new" /\ case.kind = "cid"
    /\ cidw' = CidBytes(case.ver, case.codec, case.mh, case.len, case.digest) \o case.trailing
    /\ back' = CidDec(case.ver, case.codec, case.mh, case.len, case.digest, case.trailing)
    /\ stage' = "cidcast"
    /\ UNCHANGED <<case, verdict, wire>>

Next == DoConstruct \/ DoMarshal \/ DoUnmarshal \/ DoToCid \/ DoFromCid \/ DoDecodeRaw \/ DoCastCid
Spec == Init /\ [][Next]_vars

Terminal == \/ stage \in {"refused", "encrefused", "cidback", "rawdecoded", "cidcast"}
            \/ stage = "decoded" /\ case.id.t \notin BitswapTypes

-----------------------------------------------------------------------------
(* ---- invariants --------------------------------------------------------- *)
TypeOK == /\ stage \in {"new", "accepted", "refused", "encoded", "encrefused", "decoded", "cid", "cidback",
                        "rawdecoded", "cidcast"}
          /\ \A i \in 1..Len(wire) : wire[i] \in Byte
          /\ \A i \in 1..Len(cidw) : cidw[i] \in Byte

\* C18: decode(encode(x)) = x for everything the constructor lets through -- also through the CID
RoundTrip == /\ stage = "decoded" => back = case.id
             /\ stage = "cidback" => back = case.id

\* C18: an encoder never alters a field: bytes exist only if every field fits its width
EncNeverTruncates == stage = "encoded" => EncDefined(case.id) /\ Len(wire) = IDSize(case.id.t)

\* C18: accepted for a square of that size => inside that square
AcceptedIsInside == stage = "accepted" => Inside(case.id, case.size) /\ case.id.h # Z

\* C18: each structured malformation is refused, each control input is accepted
DecRejects == /\ stage = "rawdecoded" => ((case.why # "valid") <=> (back = Reject))
              /\ stage = "cidcast"    => ((case.why # "valid") <=> (back = Reject))

\* C18 / C10: encodings (and CIDs) of different constructible identifiers differ.  Checked against
\* every other constructible identifier of the lattice that shares type and square size.
SibIds(id, size) ==
    CASE id.t = "eds" -> {[t |-> "eds", h |-> h] : h \in Heights}
      [] id.t = "nd" -> [t : {"nd"}, h : Heights, ns : HoldableNs]
      [] id.t = "row" -> [t : {"row"}, h : Heights, r : Idx(size)]
      [] id.t = "sample" -> [t : {"sample"}, h : {id.h}, r : Idx(size), c : Idx(size)]
      [] id.t = "rnd" -> [t : {"rnd"}, h : {id.h}, r : Idx(size), ns : HoldableNs]
      [] id.t \in OdsSized -> [t : {id.t}, h : {id.h}, from : Idx(size * size), to : Idx(size * size)]
Siblings(c) == {d \in SibIds(c.id, c.size) : Construct(d, c.size) = "ok" /\ ~MarshalRefuses(d)}
EncInjective == stage = "encoded" => \A d \in Siblings(case) : Enc(d) = wire => d = case.id

\* C10: id -> CID -> id is the identity and CIDs are as injective as the encodings
IdCidBijective == /\ MhPrefixIs4
                  /\ stage = "cidback" => /\ back = case.id
                                          /\ cidw = CidOf(back)

\* The identifier BYTES alone do not name a request: a sample (h, r, c) and a legacy range identifier
\* (h, from = r, to = c) have the same 12 bytes.  The CID framing (codec, multihash code) tells them apart,
\* so anything keyed per request (the Bitswap hasher registry) must be keyed by the CID.
SameBytesDifferentCid ==
    LET sm == [t |-> "sample", h |-> N(7), r |-> N(1), c |-> N(3)]
        rg == [t |-> "rangev0", h |-> N(7), from |-> N(1), to |-> N(3)]
    IN Enc(sm) = Enc(rg) /\ CidOf(sm) # CidOf(rg)

\* static facts the formats rely on
Static == MhPrefixIs4 /\ ProtocolMaxFits16 /\ SameBytesDifferentCid

(* ---- case emission (returns TRUE; listed as an invariant) ---------------- *)
Emit == Terminal =>
          PrintT(<<"CASE", ToJson([c |-> case, stage |-> stage, verdict |-> verdict,
                                    wire |-> wire, cidw |-> cidw, back |-> back])>>)
=============================================================================
