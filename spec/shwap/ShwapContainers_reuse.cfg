\* Sensitivity of the model: with the unfixed ReadFrom (old proofs of the receiver survive) TLC must
\* report DecodeIgnoresReceiver violated.  Not a verdict on the code.
SPECIFICATION Spec
CONSTANTS
  ResetsReceiver = FALSE
  Widths = {1, 2}
INVARIANTS
  DecodeIgnoresReceiver
CHECK_DEADLOCK FALSE
