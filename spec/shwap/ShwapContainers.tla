--------------------------- MODULE ShwapContainers ---------------------------
(***************************************************************************)
(* Structure of the shwap containers and of their three codecs (protobuf   *)
(* message, length-delimited stream, JSON), at the level at which the code *)
(* can lose information: WHICH shares and WHICH proofs travel, where a     *)
(* proof is attached, how a side / a proof kind is represented.  Share     *)
(* bytes and proof nodes are opaque (they are compared on the real code by *)
(* harness/drivers/ids).                                                   *)
(*                                                                         *)
(* Property C18 (containers): every container the node can construct       *)
(* encodes to something that decodes back to an equal value.               *)
(*                                                                         *)
(* Code transcribed (share/shwap): sample.go (ToProto / SampleFromProto /  *)
(* JSON), row.go (ToProto sends the left half for a full row; sideFromProto*)
(* maps everything but LEFT to Right; JSON side strings), row_namespace_   *)
(* data.go (nil proof stays nil; LeafHash present <=> absence proof),      *)
(* namespace_data.go (stream of rows until EOF), range_namespace_data.go   *)
(* (RangeNamespaceDataFromShares: which partial-row proofs exist;          *)
(* WriteTo/ReadFrom: proofs ride on the first / last row message).         *)
(*                                                                         *)
(* One behaviour per (container, codec):  new --Encode--> encoded          *)
(* --Decode--> decoded.  Each terminal state is printed as a CASE and      *)
(* materialised from a real square by the driver.                          *)
(***************************************************************************)
EXTENDS Integers, Sequences, FiniteSets, TLC, Json

CONSTANTS Widths,         \* ODS widths explored, e.g. {1, 2, 4}
          ResetsReceiver  \* TRUE: RangeNamespaceData.ReadFrom forgets the receiver's old proofs (tree with
                          \* the fix); FALSE: the unfixed code -- a proof survives from an earlier decode into
                          \* the same value.  FALSE is used only by ShwapContainers_reuse.cfg (sensitivity).

NoProof == [kind |-> "none", s |-> 0, e |-> 0]
Incl(s, e) == [kind |-> "incl", s |-> s, e |-> e]
Abs(s, e)  == [kind |-> "abs", s |-> s, e |-> e]      \* absence proof: carries a leaf hash

(* ---- containers the node can construct ---------------------------------- *)
\* sample at EDS coordinate (r, c) proven against its row or its column
Samples(w) == [k : {"sample"}, w : {w}, r : 0..(2 * w - 1), c : 0..(2 * w - 1), axis : {"row", "col"}]
SampleProof(x) == IF x.axis = "row" THEN Incl(x.c, x.c + 1) ELSE Incl(x.r, x.r + 1)

\* row idx of the EDS, as left half, right half or whole
Rows(w) == [k : {"row"}, w : {w}, idx : 0..(2 * w - 1), side : {"LEFT", "RIGHT", "BOTH"}]
RowLen(x) == IF x.side = "BOTH" THEN 2 * x.w ELSE x.w

\* row namespace data: n shares starting at s with an inclusion proof; none with an absence
\* proof (needs a neighbour on both sides => w >= 2); or the empty value (no proof at all)
Rnds(w) == {x \in [k : {"rnd"}, w : {w}, variant : {"incl"}, s : 0..(w - 1), n : 1..w] : x.s + x.n <= w}
           \cup (IF w >= 2 THEN {[k |-> "rnd", w |-> w, variant |-> "absence", s |-> s, n |-> 0] : s \in 1..(w - 1)} ELSE {})
           \cup {[k |-> "rnd", w |-> w, variant |-> "empty", s |-> 0, n |-> 0]}
RndProof(x) == CASE x.variant = "incl" -> Incl(x.s, x.s + x.n)
                 [] x.variant = "absence" -> Abs(x.s, x.s + 1)
                 [] OTHER -> NoProof

\* namespace data: the rows of a namespace occupying `n` consecutive shares from ODS index `s`
Nds(w) == {x \in [k : {"nd"}, w : {w}, s : 0..(w * w - 1), n : 0..(w * w)] : x.s + x.n <= w * w /\ (x.n = 0 => x.s = 0)}
NdRows(x) ==   \* sequence of <<count, proof>> per row touched
    IF x.n = 0 THEN << >>
    ELSE LET r0 == x.s \div x.w
             r1 == (x.s + x.n - 1) \div x.w
         IN [i \in 1..(r1 - r0 + 1) |->
               LET r  == r0 + i - 1
                   lo == IF r = r0 THEN x.s % x.w ELSE 0
                   hi == IF r = r1 THEN ((x.s + x.n - 1) % x.w) + 1 ELSE x.w
               IN [n |-> hi - lo, proof |-> Incl(lo, hi)]]

\* range data [from, to) in ODS share indexes
Ranges(w) == {x \in [k : {"range"}, w : {w}, from : 0..(w * w - 1), to : 1..(w * w)] : x.from < x.to}

\* RangeNamespaceDataFromShares, transcribed
RangeShape(x) ==
    LET w        == x.w
        fr       == x.from \div w
        fc       == x.from % w
        tr       == (x.to - 1) \div w
        tc       == (x.to - 1) % w
        multi    == tr > fr
        startMid == fc # 0
        endMid   == tc # w - 1
        needFirst == startMid \/ (~multi /\ endMid)
        needLast  == endMid /\ multi
        endCol   == IF multi THEN w ELSE tc + 1
        nrows    == tr - fr + 1
    IN [rows  |-> [i \in 1..nrows |->
                     IF i = 1 /\ needFirst THEN endCol - fc
                     ELSE IF i = nrows /\ i > 1 /\ needLast THEN tc + 1
                     ELSE w],
        first |-> IF needFirst THEN Incl(fc, endCol) ELSE NoProof,
        last  |-> IF needLast THEN Incl(0, tc + 1) ELSE NoProof]

\* total number of shares carried = to - from  (what the requester asked for)
RECURSIVE SumSeq(_)
SumSeq(s) == IF s = << >> THEN 0 ELSE Head(s) + SumSeq(Tail(s))
RangeCarriesExactly(x) == SumSeq(RangeShape(x).rows) = x.to - x.from

Containers == UNION {Samples(w) \cup Rows(w) \cup Rnds(w) \cup Nds(w) \cup Ranges(w) : w \in Widths}

(* ---- abstract value of a container (what must survive) ------------------- *)
Value(x) ==
    CASE x.k = "sample" -> [k |-> "sample", share |-> <<x.r, x.c>>, proof |-> SampleProof(x), axis |-> x.axis]
      [] x.k = "row"    -> [k |-> "row", idx |-> x.idx, side |-> x.side, n |-> RowLen(x)]
      [] x.k = "rnd"    -> [k |-> "rnd", n |-> x.n, proof |-> RndProof(x)]
      [] x.k = "nd"     -> [k |-> "nd", rows |-> NdRows(x)]
      [] x.k = "range"  -> [k |-> "range"] @@ RangeShape(x)

(* ---- codecs --------------------------------------------------------------- *)
Codecs(x) == CASE x.k = "nd" -> {"stream", "json"}       \* no protobuf message for NamespaceData
               [] OTHER -> {"proto", "stream", "json"}

\* pb.Proof as it travels: LeafHash is present exactly for absence proofs
PbProof(p) == IF p.kind = "none" THEN [present |-> FALSE, s |-> 0, e |-> 0, leafHash |-> FALSE]
              ELSE [present |-> TRUE, s |-> p.s, e |-> p.e, leafHash |-> p.kind = "abs"]
\* RowNamespaceDataFromProto / nmt.ProtoToProof
UnPbProof(m) == IF ~m.present THEN NoProof ELSE IF m.leafHash THEN Abs(m.s, m.e) ELSE Incl(m.s, m.e)
\* SampleFromProto always builds an inclusion proof (a sample never carries a leaf hash)
UnPbSampleProof(m) == Incl(m.s, m.e)

RndMsg(n, p) == [n |-> n, proof |-> PbProof(p)]

Encode(codec, v) ==
    CASE v.k = "sample" -> [share |-> v.share, proof |-> PbProof(v.proof), axis |-> v.axis]
      [] v.k = "row" ->
           IF codec = "json" THEN [idx |-> v.idx, n |-> v.n, side |-> v.side]
           \* ToProto: a whole row travels as its left half; anything but Left is sent as RIGHT
           ELSE IF v.side = "BOTH" THEN [idx |-> v.idx, n |-> v.n \div 2, side |-> "LEFT"]
           ELSE [idx |-> v.idx, n |-> v.n, side |-> v.side]
      [] v.k = "rnd" -> RndMsg(v.n, v.proof)
      [] v.k = "nd" -> [i \in 1..Len(v.rows) |-> RndMsg(v.rows[i].n, v.rows[i].proof)]
      [] v.k = "range" ->
           IF codec = "stream"
           \* WriteTo: one RowNamespaceData message per row; the first proof rides on row 1, the last
           \* proof on the last row when there is more than one row
           THEN [i \in 1..Len(v.rows) |->
                   RndMsg(v.rows[i], IF i = 1 THEN v.first
                                     ELSE IF i = Len(v.rows) THEN v.last ELSE NoProof)]
           ELSE [rows |-> v.rows, first |-> PbProof(v.first), last |-> PbProof(v.last)]

Decode(codec, k, m) ==
    CASE k = "sample" -> [k |-> k, share |-> m.share, proof |-> UnPbSampleProof(m.proof), axis |-> m.axis]
      [] k = "row" -> [k |-> k, idx |-> m.idx, side |-> m.side, n |-> m.n]
      [] k = "rnd" -> [k |-> k, n |-> m.n, proof |-> UnPbProof(m.proof)]
      [] k = "nd" -> [k |-> k, rows |-> [i \in 1..Len(m) |-> [n |-> m[i].n, proof |-> UnPbProof(m[i].proof)]]]
      [] k = "range" ->
           IF codec = "stream"
           \* ReadFrom (fresh receiver): row 1's proof is the first proof; every later row overwrites
           \* the last proof, so the proof of the final row wins
           THEN [k |-> k, rows |-> [i \in 1..Len(m) |-> m[i].n],
                 first |-> IF Len(m) >= 1 THEN UnPbProof(m[1].proof) ELSE NoProof,
                 last  |-> IF Len(m) >= 2 THEN UnPbProof(m[Len(m)].proof) ELSE NoProof]
           ELSE [k |-> k, rows |-> m.rows, first |-> UnPbProof(m.first), last |-> UnPbProof(m.last)]

\* RangeNamespaceData.ReadFrom into a value that already holds a container `prev` (the shrex getter
\* reuses one buffer across attempts).  The unfixed code assigned First only for row 1 and Last only
\* for rows > 1, so a one-row answer kept the old last-row proof (and an empty stream kept both).
DecodeRangeStreamInto(prev, m) ==
    IF ResetsReceiver THEN Decode("stream", "range", m)
    ELSE [k |-> "range", rows |-> [i \in 1..Len(m) |-> m[i].n],
          first |-> IF Len(m) >= 1 THEN UnPbProof(m[1].proof) ELSE prev.first,
          last  |-> IF Len(m) >= 2 THEN UnPbProof(m[Len(m)].proof) ELSE prev.last]

\* Equality "as a container": a row is the same row whichever half travelled (Row.Shares() rebuilds
\* the other half by erasure decoding); everything else is plain equality.
SameContainer(a, b) ==
    IF a.k = "row" THEN b.k = "row" /\ a.idx = b.idx /\ a.n \in {b.n, 2 * b.n, b.n \div 2}
                        /\ (a.side = b.side \/ ("BOTH" \in {a.side, b.side} /\ "LEFT" \in {a.side, b.side}))
    ELSE a = b

(* ---- state machine -------------------------------------------------------- *)
VARIABLES x, codec, stage, msg, back
vars == <<x, codec, stage, msg, back>>
Nil == [k |-> "nil"]

Init == /\ x \in Containers
        /\ codec \in Codecs(x)
        /\ stage = "new" /\ msg = Nil /\ back = Nil

DoEncode == /\ stage = "new"
            /\ msg' = Encode(codec, Value(x))
            /\ stage' = "encoded"
            /\ UNCHANGED <<x, codec, back>>

DoDecode == /\ stage = "encoded"
            /\ back' = Decode(codec, x.k, msg)
            /\ stage' = "decoded"
            /\ UNCHANGED <<x, codec, msg>>

Next == DoEncode \/ DoDecode
Spec == Init /\ [][Next]_vars

(* ---- invariants ------------------------------------------------------------ *)
RoundTrip == stage = "decoded" => SameContainer(Value(x), back)

\* a range container carries exactly the requested number of shares, has at most two proofs, and
\* a proof only for a partial row
RangeWellShaped ==
    x.k = "range" =>
        LET sh == RangeShape(x)
        IN /\ RangeCarriesExactly(x)
           /\ \A i \in 1..Len(sh.rows) : sh.rows[i] \in 1..x.w
           /\ (sh.first.kind = "none" => sh.rows[1] = x.w)
           /\ (sh.last.kind = "none" => (sh.rows[Len(sh.rows)] = x.w \/ Len(sh.rows) = 1))
           /\ (Len(sh.rows) = 1 => sh.last.kind = "none")

\* the stream form of a range never attaches a proof to a middle row
StreamProofsOnlyAtEnds ==
    (stage = "encoded" /\ x.k = "range" /\ codec = "stream") =>
        \A i \in 2..(Len(msg) - 1) : ~msg[i].proof.present

\* C18: what a decoder returns depends on the bytes only, not on what the receiver held before
DecodeIgnoresReceiver ==
    (stage = "encoded" /\ x.k = "range" /\ codec = "stream") =>
        \A p \in Ranges(x.w) : DecodeRangeStreamInto(Value(p), msg) = Value(x)

Emit == stage = "decoded" =>
          PrintT(<<"CASE", ToJson([x |-> x, codec |-> codec, value |-> Value(x)])>>)
=============================================================================
