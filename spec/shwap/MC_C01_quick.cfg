\* C01_quick: see MCShwap.tla for the plan
CONSTANTS
 Plan <- PlanC01Quick
 ReqNs = {1, 3, 4, 5, 7}
 FixRangeLen = TRUE
INIT Init
NEXT Next
VIEW View
INVARIANTS TypeOK Cases Sound SoundNd Complete
CHECK_DEADLOCK FALSE
