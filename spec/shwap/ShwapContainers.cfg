\* C18 containers: every structural variant for ODS widths 1, 2, 4 through every codec
SPECIFICATION Spec
CONSTANTS
  ResetsReceiver = TRUE
  Widths = {1, 2, 4}
INVARIANTS
  RoundTrip
  RangeWellShaped
  StreamProofsOnlyAtEnds
  DecodeIgnoresReceiver
  Emit
CHECK_DEADLOCK FALSE
