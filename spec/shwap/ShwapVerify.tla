----------------------------- MODULE ShwapVerify -----------------------------
(***************************************************************************)
(* C01 / C02 -- the shwap response verifiers of celestia-node              *)
(*   Sample.Verify, Row.Verify, RowNamespaceData.Verify,                   *)
(*   NamespaceData.Verify, RangeNamespaceData.VerifyInclusion/Namespace    *)
(* against every small square, every request and every response an         *)
(* adversary can assemble from honest material.                            *)
(*                                                                         *)
(* Shape of the model.  One behaviour = one (square, request, response):   *)
(*   Init   picks a layout (Square.tla), a request, and a SOURCE: the      *)
(*          honest response of that request or of a neighbouring request   *)
(*          (other coordinate / row / namespace / range / second square).  *)
(*   Forge  rewrites one component of the response (an "atom": drop or     *)
(*          borrow a proof, change its claimed start/end, flip axis/side/  *)
(*          flag, re-slice a row, drop / duplicate / reorder / substitute  *)
(*          shares or row entries, ...), at most MaxForge times.           *)
(* A response is a RECIPE over honest material: cells are references       *)
(* <<square, row, col>> into the extended square, proofs are references    *)
(* "the proof the honest prover gives for [s,e) of that row/column tree"   *)
(* plus the fields an adversary can rewrite freely (claimed start/end,     *)
(* the ignore-max flag, an attached leaf hash).  The Go driver             *)
(* (harness/drivers/shwapverify) materialises the SAME recipe with real    *)
(* shares and real NMT proofs, sends it through the real wire codecs and   *)
(* the real verifiers, and compares verdict and content.                   *)
(*                                                                         *)
(* XxxAccept are TRANSCRIPTIONS of the code's check lists, one conjunct    *)
(* per check in code order, over the ideal NMT of IdealCrypto.tla.         *)
(* Invariants:                                                             *)
(*   Sound     accepted => the exposed shares are exactly the committed    *)
(*             shares at the requested position            (C01, C02)      *)
(*   SoundNd   accepted namespace data has one entry per covering row,     *)
(*             each with exactly that row's shares of the namespace (C02)  *)
(*   Complete  the honest response is accepted                             *)
(*   Cases     prints every reached (square, request, response, verdict)   *)
(*             as JSON for the driver (always TRUE)                        *)
(***************************************************************************)
EXTENDS Square, Integers, Json, TLC

CONSTANTS
  Plan,         \* record: entry name |-> [k |-> request kind, L |-> set of layouts,
                \*   F |-> max. number of forgery steps,
                \*   T |-> atom names allowed from the second forgery step on ({} = all),
                \*   wide |-> BOOLEAN: all requests also for width 4 (FALSE: a representative subset)];
                \* kinds: "sample", "row", "rnd", "nd", "range" (see MCShwap.tla for the plans)
  ReqNs,        \* namespaces asked for in rnd / nd requests
  FixRangeLen   \* TRUE: range verifier with the per-row length check (commit "fix: range verification ...")

VARIABLE st     \* [pe, sq, req, resp, hon, n, acc, steps]   (pe: name of the plan entry)

SQ(l, q) == IF q = 1 THEN l ELSE SecondSquare(l)
Cell(l, ref) == Eds(SQ(l, ref[1]), ref[2], ref[3])
Cells(l, refs) == Strict([k \in 1..Len(refs) |-> Cell(l, refs[k])])
Seq0(n) == Strict([k \in 1..n |-> k - 1])                  \* <<0, .., n-1>>

(* ------------------------------ proofs ---------------------------------- *)
(* k: "pf" a proof, "nil" no proof field at all, "empty" a proof message    *)
(* with start = end = 0 and no nodes.  (q,ax,i,s,e): the honest prover's    *)
(* nodes for [s,e) of row (ax=0) / column (ax=1) i of square q.  cs,ce: the *)
(* start/end written into the proof.  im: ignore-max flag.  lh: 0 = no leaf *)
(* hash, p+1 = the hash of leaf p of the same tree is attached.  nm: 0 the  *)
(* prover's nodes, 1 last node dropped, 2 first node appended once more.    *)
NilPf   == [k |-> "nil", q |-> 1, ax |-> 0, i |-> 0, s |-> 0, e |-> 0, cs |-> 0, ce |-> 0,
            im |-> TRUE, lh |-> 0, nm |-> 0]
EmptyPf == [NilPf EXCEPT !.k = "empty"]
RangePf(q, ax, i, s, e) ==
  [k |-> "pf", q |-> q, ax |-> ax, i |-> i, s |-> s, e |-> e, cs |-> s, ce |-> e, im |-> TRUE, lh |-> 0, nm |-> 0]
AbsPf(q, i, p) == [RangePf(q, 0, i, p, p + 1) EXCEPT !.lh = p + 1]

ToProof(l, pr) ==
  IF pr.k # "pf" THEN MkProof(0, 0, <<>>, NilH, pr.im)
  ELSE LET lh == AxisLeaves(SQ(l, pr.q), pr.ax, pr.i)
           nodes == ProveRangeNodes(lh, pr.s, pr.e, TRUE)
       IN MkProof(pr.cs, pr.ce,
                  IF Len(nodes) = 0 \/ pr.nm = 0 THEN nodes
                  ELSE IF pr.nm = 1 THEN SubSeq(nodes, 1, Len(nodes) - 1) ELSE Append(nodes, nodes[1]),
                  IF pr.lh = 0 THEN NilH ELSE lh[pr.lh], pr.im)

(***************************************************************************)
(* The verifiers (transcriptions).  l is the square the trusted header     *)
(* commits to; roots are always taken from l.                              *)
(***************************************************************************)

(* share/shwap/sample.go  Sample.Verify(roots, rowIdx, colIdx), after ReadFrom *)
SampleAccept(l, r, c, resp) ==
  LET p0 == ToProof(l, resp.pf)
      p  == [p0 EXCEPT !.lh = NilH]      \* SampleFromProto: nmt.NewInclusionProof, leaf hash dropped
      sh == Cell(l, resp.sh)
      ns == IF c >= l.w \/ r >= l.w THEN NsParity ELSE CellNs(sh)       \* inclusionNamespace
  IN /\ ~IsEmptyProof(p)                                                \* "nil proof"
     /\ resp.ax \in {0, 1}                                              \* "invalid SampleProofType"
     /\ resp.ax = 0 => (p.s = c /\ p.e = c + 1)                         \* row proof Start/End
     /\ resp.ax = 1 => (p.s = r /\ p.e = r + 1)                         \* col proof Start/End
     /\ VerifyInclusion(p, ns, <<sh>>,                                  \* verifyInclusion
                        IF resp.ax = 0 THEN AxisRoot(l, 0, r) ELSE AxisRoot(l, 1, c))
SampleData(l, resp)     == <<Cell(l, resp.sh)>>
SampleCommitted(l, r, c) == <<Eds(l, r, c)>>

(* share/shwap/row.go  Row.Verify(roots, idx), after ReadFrom (side is Left or Right) *)
RowExt(side, cells) == IF side = 0 THEN cells \o ParityOf(cells) ELSE Decode(cells) \o cells
RowAccept(l, i, resp) ==
  LET cells == Cells(l, resp.cells)
      n     == Len(cells)
  IN /\ n > 0                                                           \* "empt row"
     /\ n = l.w                                                         \* shares size vs root size
     /\ LET ext  == RowExt(resp.side, cells)                            \* Row.Shares()
            lhs  == Strict([p \in 1..(2 * n) |->
                      LeafHash(IF i < n /\ p <= n THEN CellNs(ext[p]) ELSE NsParity, ext[p])])
            root == TreeRoot(lhs, TRUE)
        IN /\ \A p \in 2..(2 * n) : lhs[p - 1].mn <= lhs[p].mn          \* tree.Push order check
           /\ IsHash(root) /\ root = AxisRoot(l, 0, i)                  \* roots.RowRoots[idx]
RowData(l, resp)   == RowExt(resp.side, Cells(l, resp.cells))
RowCommitted(l, i) == EdsRow(l, i)

(* share/shwap/row_namespace_data.go  RowNamespaceData.Verify(roots, ns, rowIdx) *)
RndAccept(l, i, ns, resp) ==
  LET p     == ToProof(l, resp.pf)
      cells == Cells(l, resp.cells)
      root  == AxisRoot(l, 0, i)
  IN /\ resp.pf.k # "nil" /\ ~IsEmptyProof(p)                           \* "nil proof"
     /\ Len(cells) = 0 => IsOfAbsence(p)                                \* empty shares <=> absence
     /\ Len(cells) > 0 => ~IsOfAbsence(p)
     /\ ~(ns < root.mn \/ ns > root.mx)                                 \* IsOutsideRange
     /\ VerifyNamespace(p, ns,                                          \* verifyInclusion
          Strict([k \in 1..Len(cells) |-> <<CellNs(cells[k]), cells[k]>>]), root)
RndData(l, resp)        == Cells(l, resp.cells)
RndCommitted(l, i, ns)  == IF i < l.w THEN RowNsCells(l, i, ns) ELSE <<>>

(* share/root.go RowsWithNamespace + share/shwap/namespace_data.go NamespaceData.Verify *)
RowsWithNs(l, ns) ==
  LET In(i) == LET root == AxisRoot(l, 0, i) IN ~(ns < root.mn \/ ns > root.mx)
  IN SelectSeq(Seq0(2 * l.w), In)
NdAccept(l, ns, resp) ==
  LET rows == RowsWithNs(l, ns)
  IN /\ Len(rows) = Len(resp.rows)                                      \* expected %d rows
     /\ \A k \in 1..Len(rows) : RndAccept(l, rows[k], ns, resp.rows[k])
RECURSIVE FlatCells(_, _)
FlatCells(l, rows) == IF Len(rows) = 0 THEN <<>> ELSE Cells(l, Head(rows).cells) \o FlatCells(l, Tail(rows))
NdData(l, resp)     == FlatCells(l, resp.rows)
NdCommitted(l, ns)  == NsCells(l, ns)

(* share/shwap/range_namespace_data.go  verifyShares; callers: shrex getter, bitswap block: *)
(* from/to-1 -> coordinates, roots = RowRoots[from.Row .. to.Row]                          *)
RangeRowRoot(cells, rowIdx) ==                \* ExtendShares + buildTreeRootFromLeaves
  LET n   == Len(cells)
      ext == cells \o ParityOf(cells)
      lhs == Strict([p \in 1..(2 * n) |->
               LeafHash(IF rowIdx < n /\ p <= n THEN CellNs(ext[p]) ELSE NsParity, ext[p])])
  IN IF rowIdx + 1 > 2 * n THEN BadH                                   \* "pushed past predetermined square size"
     ELSE IF \E p \in 2..(2 * n) : lhs[p - 1].mn > lhs[p].mn THEN BadH
     ELSE TreeRoot(lhs, TRUE)

RangeProofRoot(l, cells, ns, pr, nsc) ==      \* computeRoot(shares, ns, proof, nsCompleteness)
  IF pr.k = "nil" THEN NilH
  ELSE LET p == ToProof(l, pr)
       IN IF IsEmptyProof(p) \/ IsOfAbsence(p) THEN BadH
          ELSE ComputeRootWithBasicValidation(p, TRUE, ns,
                 Strict([k \in 1..Len(cells) |-> LeafHash(ns, cells[k])]), nsc)

RECURSIVE SumLens(_, _)
SumLens(rows, k) == IF k = 0 THEN 0 ELSE Len(rows[k]) + SumLens(rows, k - 1)

RangeAccept(l, from, to, nsc, resp) ==
  LET w    == l.w
      fr   == from \div w       fc == from % w
      tr   == (to - 1) \div w   tc == (to - 1) % w
      n    == Len(resp.rows)
      rows == Strict([k \in 1..n |-> Cells(l, resp.rows[k])])
      fp   == resp.fp
      lp   == resp.lp
  IN /\ tr - fr + 1 = n                                                 \* mismatched number of rows
     /\ \A k \in 1..n : Len(rows[k]) > 0                                \* empty shares at row
     /\ fp.k # "nil" => fp.cs = fc                                      \* first proof Start == from.Col
     /\ lp.k # "nil" => lp.ce - 1 = tc                                  \* last proof End-1 == to.Col
     /\ FixRangeLen =>                                                  \* per-row amount (the fix)
          \A k \in 1..n : Len(rows[k]) = (IF k = n THEN tc + 1 ELSE w) - (IF k = 1 THEN fc ELSE 0)
     /\ LET total == SumLens(rows, n)
            ns    == CellNs(rows[1][1])
        IN /\ to - from = total                                         \* ParseNamespace: amount
           /\ \A k \in 1..n : \A j \in 1..Len(rows[k]) : CellNs(rows[k][j]) = ns   \* one namespace
           /\ LET first == RangeProofRoot(l, rows[1], ns, fp, nsc)
                  last  == RangeProofRoot(l, rows[n], ns, lp, nsc)
                  comp(k) == LET given == IF k = 1 THEN first
                                          ELSE IF k = n THEN last ELSE NilH
                             IN IF IsNil(given) THEN RangeRowRoot(rows[k], fr + k - 1) ELSE given
              IN /\ ~IsBad(first) /\ ~IsBad(last)
                 /\ \A k \in 1..n : LET c == comp(k) IN IsHash(c) /\ c = AxisRoot(l, 0, fr + k - 1)
RECURSIVE FlatRows(_, _)
FlatRows(l, rows) == IF Len(rows) = 0 THEN <<>> ELSE Cells(l, Head(rows)) \o FlatRows(l, Tail(rows))
RangeData(l, resp)          == FlatRows(l, resp.rows)
RangeCommitted(l, from, to) == RangeCells(l, from, to)

(* the stream codec cannot carry a last-row proof of a one-row response; the driver then *)
(* uses the bitswap (protobuf) container, which can.                                     *)

Accept(l, req, resp) ==
  CASE req.k = "sample" -> SampleAccept(l, req.r, req.c, resp)
    [] req.k = "row"    -> RowAccept(l, req.i, resp)
    [] req.k = "rnd"    -> RndAccept(l, req.i, req.ns, resp)
    [] req.k = "nd"     -> NdAccept(l, req.ns, resp)
    [] req.k = "range"  -> RangeAccept(l, req.from, req.to, req.nsc, resp)
DataOf(l, req, resp) ==
  CASE req.k = "sample" -> SampleData(l, resp)
    [] req.k = "row"    -> RowData(l, resp)
    [] req.k = "rnd"    -> RndData(l, resp)
    [] req.k = "nd"     -> NdData(l, resp)
    [] req.k = "range"  -> RangeData(l, resp)
Committed(l, req) ==
  CASE req.k = "sample" -> SampleCommitted(l, req.r, req.c)
    [] req.k = "row"    -> RowCommitted(l, req.i)
    [] req.k = "rnd"    -> RndCommitted(l, req.i, req.ns)
    [] req.k = "nd"     -> NdCommitted(l, req.ns)
    [] req.k = "range"  -> RangeCommitted(l, req.from, req.to)

(***************************************************************************)
(* Honest producers (what eds.Rsmt2D / the ODS file / the proofs cache     *)
(* answer), as recipes.  The driver checks that these recipes are byte-    *)
(* identical to what the real producers return.                            *)
(***************************************************************************)
HonestSample(q, r, c, ax) ==
  [sh |-> <<q, r, c>>, ax |-> ax,
   pf |-> IF ax = 0 THEN RangePf(q, 0, r, c, c + 1) ELSE RangePf(q, 1, c, r, r + 1)]

HonestRow(l, q, i, side) ==
  [side |-> side,
   cells |-> Strict([k \in 1..l.w |-> <<q, i, (IF side = 0 THEN 0 ELSE l.w) + k - 1>>])]

(* cells [a,b) of ODS row i with the range proof for exactly them *)
SubRnd(q, i, a, b) ==
  [cells |-> Strict([k \in 1..(b - a) |-> <<q, i, a + k - 1>>]), pf |-> RangePf(q, 0, i, a, b)]
AbsRnd(q, i, p) == [cells |-> <<>>, pf |-> AbsPf(q, i, p)]

NsFirst(l, i, ns) == CHOOSE a \in 0..(l.w - 1) : l.c[i * l.w + a + 1][1] = ns /\
                       \A b \in 0..(a - 1) : l.c[i * l.w + b + 1][1] # ns
NsCount(l, i, ns) == Cardinality({a \in 0..(l.w - 1) : l.c[i * l.w + a + 1][1] = ns})
HasHonestRnd(l, i, ns) == i < l.w /\ RowCovers(l, i, ns)
HonestRnd(l, q, i, ns) ==           \* RowNamespaceDataFromShares (requires HasHonestRnd)
  IF NsCount(l, i, ns) > 0
    THEN LET a == NsFirst(l, i, ns) IN SubRnd(q, i, a, a + NsCount(l, i, ns))
    ELSE AbsRnd(q, i, AbsenceIndex(AxisLeaves(SQ(l, q), 0, i), ns))

CoverRows(l, ns) == LET In(i) == RowCovers(l, i, ns) IN SelectSeq(Seq0(l.w), In)
HonestNd(l, q, ns) ==
  LET rows == CoverRows(l, ns)
  IN [rows |-> Strict([k \in 1..Len(rows) |-> HonestRnd(l, q, rows[k], ns)])]

(* RangeNamespaceDataFromShares for ODS indices [from,to), structurally (also for ranges *)
(* spanning several namespaces, which the real producer refuses)                        *)
HonestRange(l, q, from, to) ==
  LET w  == l.w
      fr == from \div w       fc == from % w
      tr == (to - 1) \div w   tc == (to - 1) % w
      n  == tr - fr + 1
      multi == n > 1
      needF == fc # 0 \/ (~multi /\ tc # w - 1)
      needL == tc # w - 1 /\ multi
      a(k) == IF k = 1 THEN fc ELSE 0
      b(k) == IF k = n THEN tc + 1 ELSE w
  IN [rows |-> Strict([k \in 1..n |->
                  Strict([j \in 1..(b(k) - a(k)) |-> <<q, fr + k - 1, a(k) + j - 1>>])]),
      fp |-> IF needF THEN RangePf(q, 0, fr, fc, IF multi THEN w ELSE tc + 1) ELSE NilPf,
      lp |-> IF needL THEN RangePf(q, 0, tr, 0, tc + 1) ELSE NilPf]
SingleNs(l, from, to) == \A k \in (from + 1)..to : l.c[k][1] = l.c[from + 1][1]

(***************************************************************************)
(* Requests                                                                *)
(***************************************************************************)
(* sm: the full request set (always for widths 1, 2); otherwise a representative subset *)
PickCoords(l, sm) == IF sm THEN 0..(2 * l.w - 1) ELSE {0, l.w - 1, l.w, 2 * l.w - 1}
Requests(l, kind, sm) ==
  CASE kind = "sample" -> {[k |-> "sample", r |-> r, c |-> c] : r \in PickCoords(l, sm), c \in PickCoords(l, sm)}
    [] kind = "row"    -> {[k |-> "row", i |-> i] : i \in 0..(2 * l.w - 1)}
    [] kind = "rnd"    -> {[k |-> "rnd", i |-> i, ns |-> ns] :
                             i \in IF sm THEN 0..l.w ELSE {1, l.w - 2, l.w}, ns \in ReqNs}
    [] kind = "nd"     -> {[k |-> "nd", ns |-> ns] : ns \in ReqNs}
    [] kind = "range"  ->
         IF sm THEN {[k |-> "range", from |-> f, to |-> t, nsc |-> nsc] :
                        f \in 0..(l.w * l.w - 1), t \in 1..(l.w * l.w), nsc \in BOOLEAN}
         ELSE (* one, two, three and four rows; whole and partial first / last rows *)
              {[k |-> "range", from |-> f, to |-> t, nsc |-> FALSE] :
                        f \in {0, 1, l.w + 1},
                        t \in {2, l.w, 2 * l.w - 1, 2 * l.w, 3 * l.w - 1, 3 * l.w, l.w * l.w}}
RequestOK(l, req) == req.k = "range" => req.from < req.to

(***************************************************************************)
(* Sources: honest responses of the request itself (hon = TRUE) and of     *)
(* neighbouring requests -- "the whole answer belongs to something else".  *)
(***************************************************************************)
Near(l, r, c) ==
  LET m == 2 * l.w
  IN {x \in {<<r, c>>, <<r, c + 1>>, <<r, c - 1>>, <<r + 1, c>>, <<r - 1, c>>, <<c, r>>,
             <<r, (c + l.w) % m>>, <<(r + l.w) % m, c>>} :
        x[1] \in 0..(m - 1) /\ x[2] \in 0..(m - 1)}

SampleSources(l, r, c) ==
  {[hon |-> (x = <<r, c>>), lab |-> <<"src", 1, x[1], x[2], ax>>, resp |-> HonestSample(1, x[1], x[2], ax)] :
      x \in Near(l, r, c), ax \in {0, 1}}
  \cup {[hon |-> FALSE, lab |-> <<"src", 2, r, c, ax>>, resp |-> HonestSample(2, r, c, ax)] : ax \in {0, 1}}

NearRows(l, i) == {j \in {i, i + 1, i - 1, (i + l.w) % (2 * l.w)} : j \in 0..(2 * l.w - 1)}
ColAsRow(l, i, side) ==       \* column i served as if it were row i
  [side |-> side,
   cells |-> Strict([k \in 1..l.w |-> <<1, (IF side = 0 THEN 0 ELSE l.w) + k - 1, i>>])]
RowSources(l, i) ==
  {[hon |-> (j = i), lab |-> <<"src", 1, j, side>>, resp |-> HonestRow(l, 1, j, side)] :
      j \in NearRows(l, i), side \in {0, 1}}
  \cup {[hon |-> FALSE, lab |-> <<"src", 2, i, side>>, resp |-> HonestRow(l, 2, i, side)] : side \in {0, 1}}
  \cup {[hon |-> FALSE, lab |-> <<"col", i, side>>, resp |-> ColAsRow(l, i, side)] : side \in {0, 1}}

(* every way of cutting ODS row i (i < w) into a contiguous piece with its range proof, *)
(* every absence-shaped proof, and the honest answers for any namespace                *)
RndPieces(l, q, i) ==
  {[lab |-> <<"sub", q, i, a, b>>, resp |-> SubRnd(q, i, a, b)] : a \in 0..(l.w - 1), b \in 1..l.w}
  \cup {[lab |-> <<"abs", q, i, p>>, resp |-> AbsRnd(q, i, p)] : p \in 0..(2 * l.w - 1)}
PieceOK(x) == x.lab[1] = "abs" \/ x.lab[4] < x.lab[5]
RndSources(l, i, ns, sm) ==
  LET rows == IF sm THEN {j \in {i, i + 1, i - 1} : j \in 0..(l.w - 1)} ELSE {i} \cap 0..(l.w - 1)
      hon  == IF HasHonestRnd(l, i, ns) THEN {HonestRnd(l, 1, i, ns)} ELSE {}
  IN UNION {{[hon |-> (j = i /\ x.resp \in hon), lab |-> x.lab, resp |-> x.resp] :
                 x \in {y \in RndPieces(l, 1, j) : PieceOK(y)}} : j \in rows}
     \cup (IF i < l.w
             THEN {[hon |-> FALSE, lab |-> x.lab, resp |-> x.resp] :
                     x \in {y \in RndPieces(l, 2, i) : PieceOK(y)}}
             ELSE {})
     \cup {[hon |-> FALSE, lab |-> <<"none">>, resp |-> [cells |-> <<>>, pf |-> NilPf]]}

NdSources(l, ns) ==
  {[hon |-> (ns2 = ns /\ q = 1), lab |-> <<"src", q, ns2>>, resp |-> HonestNd(l, q, ns2)] :
      q \in {1, 2}, ns2 \in ReqNs}

RangeNear(l, from, to) ==
  LET m == l.w * l.w
  IN {x \in {<<from, to>>, <<from + 1, to>>, <<from - 1, to>>, <<from, to + 1>>, <<from, to - 1>>,
             <<from + 1, to + 1>>, <<from - 1, to - 1>>, <<from + l.w, to + l.w>>, <<from - l.w, to - l.w>>} :
        x[1] >= 0 /\ x[1] < x[2] /\ x[2] <= m}
(* honest = what the real producer answers (it refuses ranges over several namespaces);     *)
(* VerifyNamespace (nsc) additionally demands namespace completeness, which an honest answer *)
(* to a sub-range of a namespace cannot have: acceptance is demanded for VerifyInclusion only *)
RangeSources(l, from, to, nsc) ==
  {[hon |-> (x = <<from, to>> /\ SingleNs(l, from, to) /\ ~nsc), lab |-> <<"src", 1, x[1], x[2]>>,
    resp |-> HonestRange(l, 1, x[1], x[2])] : x \in RangeNear(l, from, to)}
  \cup {[hon |-> FALSE, lab |-> <<"src", 2, from, to>>, resp |-> HonestRange(l, 2, from, to)]}

Sources(l, req, sm) ==
  CASE req.k = "sample" -> SampleSources(l, req.r, req.c)
    [] req.k = "row"    -> RowSources(l, req.i)
    [] req.k = "rnd"    -> RndSources(l, req.i, req.ns, sm)
    [] req.k = "nd"     -> NdSources(l, req.ns)
    [] req.k = "range"  -> RangeSources(l, req.from, req.to, req.nsc)

(***************************************************************************)
(* Forgery atoms: set of [lab, resp] obtained from resp by ONE rewrite.    *)
(***************************************************************************)
DropAt(s, k)   == SubSeq(s, 1, k - 1) \o SubSeq(s, k + 1, Len(s))
SwapAt(s, k)   == [s EXCEPT ![k] = s[k + 1], ![k + 1] = s[k]]         \* k < Len(s)
SetAt(s, k, v) == [s EXCEPT ![k] = v]

(* rewrites of one proof reference *)
PfAtoms(pr) ==
  IF pr.k # "pf" THEN {}
  ELSE {[lab |-> <<"im">>,      pf |-> [pr EXCEPT !.im = ~pr.im]],
        [lab |-> <<"lh">>,      pf |-> [pr EXCEPT !.lh = IF pr.lh = 0 THEN pr.s + 1 ELSE 0]],
        [lab |-> <<"shift+">>,  pf |-> [pr EXCEPT !.cs = pr.cs + 1, !.ce = pr.ce + 1]],
        [lab |-> <<"widen">>,   pf |-> [pr EXCEPT !.ce = pr.ce + 1]],
        [lab |-> <<"dropnode">>, pf |-> [pr EXCEPT !.nm = 1]],
        [lab |-> <<"dupnode">>,  pf |-> [pr EXCEPT !.nm = 2]],
        [lab |-> <<"nil">>,     pf |-> NilPf],
        [lab |-> <<"empty">>,   pf |-> EmptyPf]}
       \cup (IF pr.cs > 0 THEN {[lab |-> <<"shift-">>, pf |-> [pr EXCEPT !.cs = pr.cs - 1, !.ce = pr.ce - 1]]}
                          ELSE {})
       \cup (IF pr.ce - pr.cs > 1 THEN {[lab |-> <<"narrow">>, pf |-> [pr EXCEPT !.ce = pr.ce - 1]]}
                                  ELSE {})

SampleAtoms(l, req, resp) ==
  {[lab |-> <<"share", x[1], x[2]>>, resp |-> [resp EXCEPT !.sh = <<1, x[1], x[2]>>]] : x \in Near(l, req.r, req.c)}
  \cup {[lab |-> <<"share2">>, resp |-> [resp EXCEPT !.sh = <<2, req.r, req.c>>]]}
  \cup {[lab |-> <<"proof">> \o y.lab, resp |-> [resp EXCEPT !.pf = y.resp.pf]] : y \in SampleSources(l, req.r, req.c)}
  \cup {[lab |-> <<"pf">> \o y.lab, resp |-> [resp EXCEPT !.pf = y.pf]] : y \in PfAtoms(resp.pf)}
  \cup {[lab |-> <<"ax", a>>, resp |-> [resp EXCEPT !.ax = a]] : a \in {0, 1, 2}}
  \cup (IF resp.pf.k = "pf"      \* rewrite start/end to what the verifier expects for the declared axis
          THEN LET want == IF resp.ax = 1 THEN req.r ELSE req.c
               IN {[lab |-> <<"reclaim">>, resp |-> [resp EXCEPT !.pf.cs = want, !.pf.ce = want + 1]]}
          ELSE {})

RowAtoms(l, req, resp) ==
  LET n == Len(resp.cells)
  IN {[lab |-> <<"side">>, resp |-> [resp EXCEPT !.side = 1 - resp.side]]}
     \cup (IF n > 0 THEN {[lab |-> <<"droplast">>, resp |-> [resp EXCEPT !.cells = SubSeq(resp.cells, 1, n - 1)]],
                          [lab |-> <<"dropfirst">>, resp |-> [resp EXCEPT !.cells = Tail(resp.cells)]],
                          [lab |-> <<"dup">>, resp |-> [resp EXCEPT !.cells = Append(resp.cells, resp.cells[n])]]}
                    ELSE {})
     \cup {[lab |-> <<"swap", k>>, resp |-> [resp EXCEPT !.cells = SwapAt(resp.cells, k)]] : k \in 1..(n - 1)}
     \cup {[lab |-> <<"cell2", k>>, resp |-> [resp EXCEPT !.cells[k] = <<3 - resp.cells[k][1], resp.cells[k][2], resp.cells[k][3]>>]] :
             k \in 1..n}
     \cup {[lab |-> <<"cellT", k>>, resp |-> [resp EXCEPT !.cells[k] = <<resp.cells[k][1], resp.cells[k][3], resp.cells[k][2]>>]] :
             k \in 1..n}
     \cup (IF n = l.w         \* the whole extended row under one side flag
             THEN {[lab |-> <<"full">>, resp |-> [resp EXCEPT !.cells = Strict([k \in 1..(2 * l.w) |-> <<1, req.i, k - 1>>])]]}
             ELSE {})

(* rewrites of one row-namespace-data entry for ODS row i *)
RndAtomsFor(l, i, ns, resp) ==
  LET n == Len(resp.cells)
  IN {[lab |-> <<"pf">> \o y.lab, resp |-> [resp EXCEPT !.pf = y.pf]] : y \in PfAtoms(resp.pf)}
     \cup (IF n > 0 THEN {[lab |-> <<"droplast">>, resp |-> [resp EXCEPT !.cells = SubSeq(resp.cells, 1, n - 1)]],
                          [lab |-> <<"dropfirst">>, resp |-> [resp EXCEPT !.cells = Tail(resp.cells)]],
                          [lab |-> <<"dup">>, resp |-> [resp EXCEPT !.cells = Append(resp.cells, resp.cells[n])]],
                          [lab |-> <<"nocells">>, resp |-> [resp EXCEPT !.cells = <<>>]]}
                    ELSE {})
     \cup (IF n > 2 THEN {[lab |-> <<"dropmid">>, resp |-> [resp EXCEPT !.cells = DropAt(resp.cells, 2)]]} ELSE {})
     \cup {[lab |-> <<"swap", k>>, resp |-> [resp EXCEPT !.cells = SwapAt(resp.cells, k)]] : k \in 1..(n - 1)}
     \cup (IF i < l.w
             THEN {[lab |-> <<"proof">> \o y.lab, resp |-> [resp EXCEPT !.pf = y.resp.pf]] :
                     y \in {z \in RndPieces(l, 1, i) : PieceOK(z)}}
                  \cup {[lab |-> <<"cells">> \o y.lab, resp |-> [resp EXCEPT !.cells = y.resp.cells]] :
                     y \in {z \in RndPieces(l, 1, i) : PieceOK(z)}}
             ELSE {})
RndAtoms(l, req, resp) == RndAtomsFor(l, req.i, req.ns, resp)

NdAtoms(l, req, resp) ==
  LET n    == Len(resp.rows)
      rows == CoverRows(l, req.ns)
      rowOf(k) == IF k <= Len(rows) THEN rows[k] ELSE l.w - 1
      ends == {1, n} \cap 1..n
      addRow == IF n = 0 THEN 0 ELSE rowOf(n) + 1
  IN {[lab |-> <<"rm", k>>, resp |-> [rows |-> DropAt(resp.rows, k)]] : k \in 1..n}
     \cup {[lab |-> <<"dupentry", k>>, resp |-> [rows |-> SubSeq(resp.rows, 1, k) \o SubSeq(resp.rows, k, n)]] : k \in ends}
     \cup {[lab |-> <<"swapentry", k>>, resp |-> [rows |-> SwapAt(resp.rows, k)]] : k \in 1..(n - 1)}
     \cup UNION {{[lab |-> <<"entry", k>> \o y.lab, resp |-> [rows |-> SetAt(resp.rows, k, y.resp)]] :
                    y \in RndAtomsFor(l, rowOf(k), req.ns, resp.rows[k])} : k \in ends}
     \cup UNION {{[lab |-> <<"entry", k>> \o y.lab, resp |-> [rows |-> SetAt(resp.rows, k, y.resp)]] :
                    y \in {z \in RndPieces(l, 1, rowOf(k)) : PieceOK(z)}} : k \in ends}
     \cup UNION {{[lab |-> <<"add">> \o y.lab, resp |-> [rows |-> Append(resp.rows, y.resp)]] :
                    y \in {z \in RndPieces(l, 1, j) : PieceOK(z)}} :
                    j \in {addRow} \cap 0..(l.w - 1)}
     \cup {[lab |-> <<"move", k>>,           \* last share of entry k moved to the front of entry k+1
            resp |-> [rows |-> [resp.rows EXCEPT
                        ![k].cells = SubSeq(@, 1, Len(@) - 1),
                        ![k + 1].cells = <<resp.rows[k].cells[Len(resp.rows[k].cells)]>> \o @]]] :
             k \in {j \in 1..(n - 1) : Len(resp.rows[j].cells) > 0}}

RangeAtoms(l, req, resp) ==
  LET w  == l.w
      n  == Len(resp.rows)
      fr == req.from \div w   fc == req.from % w
      tc == (req.to - 1) % w
      ends == {1, n} \cap 1..n
      rowIdx(k) == IF fr + k - 1 < w THEN fr + k - 1 ELSE w - 1
      cuts == {x \in (0..(w - 1)) \X (1..w) : x[1] < x[2]}
      piece(k, x) == Strict([j \in 1..(x[2] - x[1]) |-> <<1, rowIdx(k), x[1] + j - 1>>])
      withPf(k, r, pf) == IF k = 1 THEN [r EXCEPT !.fp = pf] ELSE [r EXCEPT !.lp = pf]
  IN (* re-slice the first / last row, with the matching range proof or without any *)
     UNION {{[lab |-> <<"slice", k, x[1], x[2]>>,
              resp |-> withPf(k, [resp EXCEPT !.rows[k] = piece(k, x)], RangePf(1, 0, rowIdx(k), x[1], x[2]))] :
                x \in cuts} : k \in ends}
     \cup UNION {{[lab |-> <<"slice0", k, x[1], x[2]>>,
              resp |-> withPf(k, [resp EXCEPT !.rows[k] = piece(k, x)], NilPf)] : x \in cuts} : k \in ends}
     \cup {[lab |-> <<"fp">> \o y.lab, resp |-> [resp EXCEPT !.fp = y.pf]] : y \in PfAtoms(resp.fp)}
     \cup {[lab |-> <<"lp">> \o y.lab, resp |-> [resp EXCEPT !.lp = y.pf]] : y \in PfAtoms(resp.lp)}
     \cup {[lab |-> <<"swappf">>, resp |-> [resp EXCEPT !.fp = resp.lp, !.lp = resp.fp]],
           [lab |-> <<"lp=fp">>,  resp |-> [resp EXCEPT !.lp = resp.fp]],
           [lab |-> <<"fp=lp">>,  resp |-> [resp EXCEPT !.fp = resp.lp]]}
     \cup (IF resp.fp.k = "pf" /\ n > 0
             THEN {[lab |-> <<"reclaimf">>, resp |-> [resp EXCEPT !.fp.cs = fc, !.fp.ce = fc + Len(resp.rows[1])]]}
             ELSE {})
     \cup (IF resp.lp.k = "pf" /\ n > 0 /\ tc + 1 >= Len(resp.rows[n])
             THEN {[lab |-> <<"reclaiml">>, resp |-> [resp EXCEPT !.lp.ce = tc + 1, !.lp.cs = tc + 1 - Len(resp.rows[n])]]}
             ELSE {})
     \cup {[lab |-> <<"rmrow", k>>, resp |-> [resp EXCEPT !.rows = DropAt(resp.rows, k)]] : k \in 1..n}
     \cup {[lab |-> <<"duprow", k>>, resp |-> [resp EXCEPT !.rows = SubSeq(resp.rows, 1, k) \o SubSeq(resp.rows, k, n)]] : k \in ends}
     \cup {[lab |-> <<"swaprow", k>>, resp |-> [resp EXCEPT !.rows = SwapAt(resp.rows, k)]] : k \in 1..(n - 1)}
     \cup {[lab |-> <<"move", k>>,
            resp |-> [resp EXCEPT !.rows[k] = SubSeq(@, 1, Len(@) - 1),
                                  !.rows[k + 1] = <<resp.rows[k][Len(resp.rows[k])]>> \o @]] :
             k \in {j \in 1..(n - 1) : Len(resp.rows[j]) > 1}}
     \cup {[lab |-> <<"moveback", k>>,
            resp |-> [resp EXCEPT !.rows[k] = Append(@, resp.rows[k + 1][1]),
                                  !.rows[k + 1] = Tail(@)]] :
             k \in {j \in 1..(n - 1) : Len(resp.rows[j + 1]) > 1}}
     \cup UNION {{[lab |-> <<"swapcell", k, j>>, resp |-> [resp EXCEPT !.rows[k] = SwapAt(@, j)]] :
                    j \in 1..(Len(resp.rows[k]) - 1)} : k \in ends}
     \cup UNION {{[lab |-> <<"cell2", k, j>>,
                   resp |-> [resp EXCEPT !.rows[k][j] = <<3 - @[1], @[2], @[3]>>]] :
                    j \in {1, Len(resp.rows[k])} \cap 1..Len(resp.rows[k])} : k \in 1..n}
     \cup UNION {{[lab |-> <<"rowup", k>>,      \* same columns taken from the row above / below
                   resp |-> [resp EXCEPT !.rows[k] = Strict([j \in 1..Len(resp.rows[k]) |->
                               <<resp.rows[k][j][1], (resp.rows[k][j][2] + d) % w, resp.rows[k][j][3]>>])]] :
                    d \in {1, w - 1}} : k \in 1..n}

Atoms(l, req, resp) ==
  CASE req.k = "sample" -> SampleAtoms(l, req, resp)
    [] req.k = "row"    -> RowAtoms(l, req, resp)
    [] req.k = "rnd"    -> RndAtoms(l, req, resp)
    [] req.k = "nd"     -> NdAtoms(l, req, resp)
    [] req.k = "range"  -> RangeAtoms(l, req, resp)

(***************************************************************************)
(* Behaviours                                                              *)
(***************************************************************************)
Init ==
  \E pe \in DOMAIN Plan : \E l \in Plan[pe].L :
  LET sm == l.w <= 2 \/ Plan[pe].wide IN
  \E req \in {r \in Requests(l, Plan[pe].k, sm) : RequestOK(l, r)} : \E src \in Sources(l, req, sm) :
    st = [pe |-> pe, sq |-> l, req |-> req, resp |-> src.resp, hon |-> src.hon, n |-> 0,
          acc |-> Accept(l, req, src.resp), steps |-> <<src.lab>>]

Forge ==
  /\ st.n < Plan[st.pe].F
  /\ \E a \in Atoms(st.sq, st.req, st.resp) :
       /\ st.n = 0 \/ Plan[st.pe].T = {} \/ a.lab[1] \in Plan[st.pe].T
       /\ a.resp # st.resp
       /\ st' = [st EXCEPT !.resp = a.resp, !.hon = FALSE, !.n = st.n + 1,
                           !.acc = Accept(st.sq, st.req, a.resp), !.steps = Append(st.steps, a.lab)]

Next == Forge
Spec == Init /\ [][Next]_st

View == [pe |-> st.pe, sq |-> st.sq, req |-> st.req, resp |-> st.resp, hon |-> st.hon, n |-> st.n]

(***************************************************************************)
(* Properties                                                              *)
(***************************************************************************)
(* C01 / C02: whatever is accepted carries exactly the committed shares of the requested position *)
Sound    == st.acc => DataOf(st.sq, st.req, st.resp) = Committed(st.sq, st.req)
(* C02, shape clause: accepted namespace data has exactly one entry per row whose namespace   *)
(* range covers the namespace, entry k carries exactly that row's shares of the namespace,  *)
(* and an entry without shares (proof of absence) only occurs where the row has none        *)
SoundNd  == (st.acc /\ st.req.k = "nd") =>
              LET rows == CoverRows(st.sq, st.req.ns)
              IN /\ Len(st.resp.rows) = Len(rows)
                 /\ \A k \in 1..Len(rows) :
                      Cells(st.sq, st.resp.rows[k].cells) = RowNsCells(st.sq, rows[k], st.req.ns)
(* the honest answer verifies *)
Complete == st.hon => st.acc
(* the state variable acc really is the verdict (guards against a stale EXCEPT) *)
TypeOK   == st.acc \in BOOLEAN /\ st.n \in 0..Plan[st.pe].F /\ ValidLayout(st.sq) /\ st.req.k = Plan[st.pe].k

NsSeq(l)  == Strict([k \in 1..Len(l.c) |-> l.c[k][1]])
PidSeq(l) == Strict([k \in 1..Len(l.c) |-> l.c[k][2]])
Cases ==
  PrintT(<<"CASE", ToJson([w |-> st.sq.w, ns |-> NsSeq(st.sq), pid |-> PidSeq(st.sq), req |-> st.req,
                           resp |-> st.resp, acc |-> st.acc, hon |-> st.hon, n |-> st.n,
                           ok |-> (st.acc => DataOf(st.sq, st.req, st.resp) = Committed(st.sq, st.req)),
                           steps |-> st.steps])>>)
=============================================================================
