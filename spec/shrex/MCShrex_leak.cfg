SPECIFICATION Spec
CONSTANTS
  Types <- TypesAll
  NoRecovery = FALSE
  LeakOnError = TRUE
INVARIANTS
  TypeOK
  AccessorBalanced

CHECK_DEADLOCK FALSE
