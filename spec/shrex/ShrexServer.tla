---------------------------- MODULE ShrexServer ----------------------------
(***************************************************************************)
(* C09 -- the shrex server serves exactly what is asked and survives       *)
(* anything it is sent.                                                    *)
(*                                                                         *)
(* One run of the stream handler, transcribed from                         *)
(*   share/shwap/p2p/shrex/server.go    streamHandler, handleDataRequest,  *)
(*                                      respondStatus                      *)
(*   share/shwap/p2p/shrex/recovery.go  RecoveryMiddleware                 *)
(*   share/shwap/*_id.go                ReadFrom / Validate / ResponseSize /*)
(*                                      ResponseReader                     *)
(*   share/eds/validation.go            bounds checks in the accessor      *)
(*                                      wrapper (not in the server)        *)
(*                                                                         *)
(* The request is abstracted to its CLASS (the lattice of spec/shrex --    *)
(* see Classes below): what matters to the handler is whether the bytes    *)
(* decode, whether the height is stored, whether the fields are inside the *)
(* stored square, how much memory the fields make it reserve, and whether  *)
(* the builder can serve it.  Environment faults (store error, size error, *)
(* builder error or panic, write failure, resource-manager refusal, rate   *)
(* limit) are injected from a second parameter.  Given (class, fault) the  *)
(* handler is deterministic, which is what makes every real run checkable  *)
(* against this module event by event (ShrexTrace.tla).                    *)
(*                                                                         *)
(* Deferred calls are modelled as a stack that is unwound on return AND on *)
(* panic, exactly as Go does; the recovery middleware turns a panic into a *)
(* stream reset.  NoRecovery = TRUE removes the middleware (the handler    *)
(* then crashes the process): used to show the invariant notices.          *)
(***************************************************************************)
EXTENDS Naturals, Sequences, FiniteSets, TLC, Json

CONSTANTS
    Types,        \* subset of {"eds","row","sample","nd","range"}
    NoRecovery,   \* TRUE: RecoveryMiddleware missing
    LeakOnError   \* TRUE: the accessor is closed / memory released by explicit calls on the success path only
                  \* (instead of defers): used to show that the balance invariants notice

(***************************************************************************)
(* Request classes.                                                        *)
(*   bytes:  ok      exactly the ID length (or longer: the surplus is never *)
(*                   read), fields pass the ID's own Validate              *)
(*           short   fewer bytes than the ID length (includes 0)           *)
(*           invalid right length, rejected by ReadFrom's validation:      *)
(*                   height 0, namespace with unsupported version / parity  *)
(*                   / tail padding, from >= to, to = 0                     *)
(*   height: stored | unknown                                              *)
(*   bounds: in | oob   (row / column >= square size, from or to beyond the *)
(*                   ODS) -- only the accessor wrapper knows               *)
(*   mem:    fits | huge  (ResponseSize from the request fields, e.g.      *)
(*                   (to-from)*512 with to = 2^32-1)                        *)
(*   serve:  yes | no   (in bounds but the builder refuses: a range over    *)
(*                   several namespaces)                                   *)
(***************************************************************************)
Classes ==
    {c \in [type : Types, bytes : {"ok", "short", "invalid"}, height : {"stored", "unknown"},
            bounds : {"in", "oob"}, mem : {"fits", "huge"}, serve : {"yes", "no"}] :
        /\ (c.bytes # "ok" => c.height = "stored" /\ c.bounds = "in" /\ c.mem = "fits" /\ c.serve = "yes")
        /\ (c.bounds = "oob" => c.type \in {"row", "sample", "range"})
        /\ (c.mem = "huge" => c.type = "range" /\ c.bounds = "oob")
        /\ (c.serve = "no" => c.type = "range" /\ c.bounds = "in")
        /\ (c.height = "unknown" => c.serve = "yes")}

Faults == {"none", "setservice", "ratelimit", "openerr", "openpanic", "sizeerr", "reserve", "builderr",
           "buildpanic", "statuswrite", "copyerr"}

VARIABLES
    cls, fault,   \* parameters of the run (constant during it)
    pc,           \* "idle","svc","rate","read","validate","open","size","reserve","build","respond","copy",
                  \* "limit","unwind","finish","recover","done"
    pending,      \* status respondStatus is about to write ("none" when no write is pending)
    after,        \* where the handler goes once the stream has been reset with the limit code
    hstatus,      \* the handler's internal status (server.go `status`)
    defers,       \* stack of deferred calls of handleDataRequest: "close" (accessor), "release" (memory)
    opened, closed,       \* accessor opens / closes
    reserved, released,   \* memory reservations / releases
    wire,         \* status written to the stream: "none" | "OK" | "NOT_FOUND" | "INTERNAL"
    payload,      \* "none" | "full" | "partial"
    stream,       \* "open" | "closed" | "reset" | "reset-limit"
    panicking, recovered, crashed

vars == <<cls, fault, pc, pending, after, hstatus, defers, opened, closed, reserved, released, wire, payload, stream,
          panicking, recovered, crashed>>

Init ==
    /\ cls \in Classes /\ fault \in Faults
    /\ pc = "idle" /\ pending = "none" /\ after = "none" /\ hstatus = "none" /\ defers = <<>>
    /\ opened = 0 /\ closed = 0 /\ reserved = 0 /\ released = 0
    /\ wire = "none" /\ payload = "none" /\ stream = "open"
    /\ panicking = FALSE /\ recovered = FALSE /\ crashed = FALSE

Goto(p) == pc' = p
Same(v) == UNCHANGED v

Start ==
    /\ pc = "idle" /\ Goto("svc")
    /\ UNCHANGED <<cls, fault, pending, after, hstatus, defers, opened, closed, reserved, released, wire, payload, stream,
                   panicking, recovered, crashed>>

(* s.Scope().SetService(serviceName): failure resets with StreamResourceLimitExceeded *)
SetService ==
    /\ pc = "svc"
    /\ IF fault = "setservice"
       THEN hstatus' = "resourceExhausted" /\ Goto("limit") /\ after' = "done"
       ELSE Goto("rate") /\ UNCHANGED <<hstatus, after>>
    /\ UNCHANGED <<cls, fault, pending, defers, opened, closed, reserved, released, wire, payload, stream, panicking,
                   recovered, crashed>>

(* srv.rateLimiter.Allow(remoteIP(s)) *)
RateLimit ==
    /\ pc = "rate"
    /\ IF fault = "ratelimit"
       THEN hstatus' = "rateLimited" /\ Goto("limit") /\ after' = "done"
       ELSE Goto("read") /\ UNCHANGED <<hstatus, after>>
    /\ UNCHANGED <<cls, fault, pending, defers, opened, closed, reserved, released, wire, payload, stream, panicking,
                   recovered, crashed>>

(* s.ResetWithError(StreamResourceLimitExceeded | StreamRateLimited) *)
ResetLimit ==
    /\ pc = "limit"
    /\ stream' = "reset-limit" /\ Goto(after) /\ after' = "none"
    /\ UNCHANGED <<cls, fault, pending, hstatus, defers, opened, closed, reserved, released, wire, payload, panicking,
                   recovered, crashed>>

(* requestID.ReadFrom(stream): io.ReadFull of the fixed length, then <Type>IDFromBinary incl. Validate;
   on success stream.CloseRead() *)
ReadRequest ==
    /\ pc = "read"
    /\ IF cls.bytes = "ok"
       THEN Goto("validate") /\ UNCHANGED hstatus
       ELSE hstatus' = "readReqErr" /\ Goto("finish")
    /\ UNCHANGED <<cls, fault, pending, after, defers, opened, closed, reserved, released, wire, payload, stream, panicking,
                   recovered, crashed>>

(* requestID.Validate(): the same checks ReadFrom already made -- cannot fail for bytes that decoded *)
Validate ==
    /\ pc = "validate" /\ Goto("open")
    /\ UNCHANGED <<cls, fault, pending, after, hstatus, defers, opened, closed, reserved, released, wire, payload, stream,
                   panicking, recovered, crashed>>

(* a panic anywhere below is caught by the middleware after the deferred calls ran *)
Panic == panicking' = TRUE /\ Goto("unwind")

RespondWith(code) == pending' = code /\ Goto("respond")

(* srv.store.GetByHeight *)
OpenAccessor ==
    /\ pc = "open"
    /\ CASE fault = "openpanic"    -> Panic /\ UNCHANGED <<opened, defers, pending>>
         [] fault = "openerr"      -> RespondWith("INTERNAL") /\ UNCHANGED <<opened, defers, panicking>>
         [] cls.height = "unknown" -> RespondWith("NOT_FOUND") /\ UNCHANGED <<opened, defers, panicking>>
         [] OTHER -> /\ opened' = opened + 1
                     /\ defers' = IF LeakOnError THEN defers ELSE <<"close">> \o defers
                     /\ Goto("size") /\ UNCHANGED <<pending, panicking>>
    /\ UNCHANGED <<cls, fault, after, hstatus, closed, reserved, released, wire, payload, stream, recovered, crashed>>

(* file.Size(ctx) *)
Size ==
    /\ pc = "size"
    /\ IF fault = "sizeerr" THEN RespondWith("INTERNAL") ELSE Goto("reserve") /\ UNCHANGED pending
    /\ UNCHANGED <<cls, fault, after, hstatus, defers, opened, closed, reserved, released, wire, payload, stream, panicking,
                   recovered, crashed>>

(* stream.Scope().ReserveMemory(requestID.ResponseSize(edsSize)): the amount comes from the request's
   own fields; a refusal resets the stream with StreamResourceLimitExceeded, nothing to release *)
ReserveMemory ==
    /\ pc = "reserve"
    /\ IF fault = "reserve" \/ cls.mem = "huge"
       THEN /\ hstatus' = "resourceExhausted" /\ Goto("limit") /\ after' = "unwind"
            /\ UNCHANGED <<reserved, defers>>
       ELSE /\ reserved' = reserved + 1
            /\ defers' = IF LeakOnError THEN defers ELSE <<"release">> \o defers
            /\ Goto("build") /\ UNCHANGED <<hstatus, after>>
    /\ UNCHANGED <<cls, fault, pending, opened, closed, released, wire, payload, stream, panicking, recovered, crashed>>

(* requestID.ResponseReader(ctx, file): the accessor's validating wrapper refuses out-of-bounds
   coordinates; the range builder refuses a range over several namespaces *)
BuildResponse ==
    /\ pc = "build"
    /\ CASE fault = "buildpanic" -> Panic /\ UNCHANGED pending
         [] fault = "builderr" \/ cls.bounds = "oob" \/ cls.serve = "no"
                                -> RespondWith("INTERNAL") /\ UNCHANGED panicking
         [] OTHER               -> RespondWith("OK") /\ UNCHANGED panicking
    /\ UNCHANGED <<cls, fault, after, hstatus, defers, opened, closed, reserved, released, wire, payload, stream,
                   recovered, crashed>>

(* respondStatus(code): one length-delimited message; a failed write leaves no status on the wire *)
Respond ==
    /\ pc = "respond"
    /\ IF fault = "statuswrite"
       THEN hstatus' = "sendStatusErr" /\ Goto("unwind") /\ UNCHANGED wire
       ELSE /\ wire' = pending
            /\ IF pending = "OK" THEN Goto("copy") /\ UNCHANGED hstatus
               ELSE Goto("unwind") /\ hstatus' = (IF pending = "NOT_FOUND" THEN "notFound" ELSE "internalErr")
    /\ pending' = "none"
    /\ UNCHANGED <<cls, fault, after, defers, opened, closed, reserved, released, payload, stream, panicking, recovered,
                   crashed>>

(* io.Copy(stream, r) *)
CopyPayload ==
    /\ pc = "copy"
    /\ IF fault = "copyerr"
       THEN payload' = "partial" /\ hstatus' = "sendRespErr"
       ELSE payload' = "full" /\ hstatus' = "success"
    /\ Goto("unwind")
    /\ IF LeakOnError /\ fault # "copyerr"
       THEN closed' = opened /\ released' = reserved     \* explicit calls on the success path only
       ELSE UNCHANGED <<closed, released>>
    /\ UNCHANGED <<cls, fault, pending, after, defers, opened, reserved, wire, stream, panicking, recovered, crashed>>

(* return / panic unwinding: the deferred calls run, newest first *)
Unwind ==
    /\ pc = "unwind"
    /\ IF defers # <<>>
       THEN /\ defers' = Tail(defers)
            /\ IF Head(defers) = "release"
               THEN released' = released + 1 /\ UNCHANGED closed
               ELSE closed' = closed + 1 /\ UNCHANGED released
            /\ UNCHANGED pc
       ELSE /\ Goto(IF panicking THEN "recover" ELSE "finish")
            /\ UNCHANGED <<defers, closed, released>>
    /\ UNCHANGED <<cls, fault, pending, after, hstatus, opened, reserved, wire, payload, stream, panicking, recovered,
                   crashed>>

(* streamHandler after handleDataRequest: reset when nothing will be sent, leave the stream alone when
   it was already reset for resource exhaustion, close otherwise *)
Finish ==
    /\ pc = "finish"
    /\ stream' = IF hstatus \in {"badRequest", "readReqErr"} THEN "reset"
                 ELSE IF hstatus = "resourceExhausted" THEN stream
                 ELSE "closed"
    /\ Goto("done")
    /\ UNCHANGED <<cls, fault, pending, after, hstatus, defers, opened, closed, reserved, released, wire, payload, panicking,
                   recovered, crashed>>

(* RecoveryMiddleware *)
Recover ==
    /\ pc = "recover"
    /\ IF NoRecovery
       THEN crashed' = TRUE /\ UNCHANGED <<recovered, stream>>
       ELSE recovered' = TRUE /\ stream' = "reset" /\ UNCHANGED crashed
    /\ Goto("done")
    /\ UNCHANGED <<cls, fault, pending, after, hstatus, defers, opened, closed, reserved, released, wire, payload, panicking>>

Next ==
    \/ Start \/ SetService \/ RateLimit \/ ResetLimit \/ ReadRequest \/ Validate \/ OpenAccessor \/ Size
    \/ ReserveMemory \/ BuildResponse \/ Respond \/ CopyPayload \/ Unwind \/ Finish \/ Recover

Done == pc = "done"
Spec == Init /\ [][Next]_vars
FairSpec == Spec /\ WF_vars(Next)

-----------------------------------------------------------------------------
TypeOK ==
    /\ pc \in {"idle", "svc", "rate", "limit", "read", "validate", "open", "size", "reserve", "build", "respond", "copy",
               "unwind", "finish", "recover", "done"}
    /\ wire \in {"none", "OK", "NOT_FOUND", "INTERNAL"} /\ payload \in {"none", "full", "partial"}
    /\ stream \in {"open", "closed", "reset", "reset-limit"}

(* What the requester sees, by class (no injected fault): *)
StatusMapping ==
    Done /\ fault = "none" =>
        CASE cls.bytes # "ok"        -> wire = "none" /\ payload = "none" /\ stream = "reset"
          [] cls.height = "unknown"  -> wire = "NOT_FOUND" /\ payload = "none" /\ stream = "closed"
          [] cls.mem = "huge"        -> wire = "none" /\ payload = "none" /\ stream = "reset-limit"
          [] cls.bounds = "oob" \/ cls.serve = "no"
                                     -> wire = "INTERNAL" /\ payload = "none" /\ stream = "closed"
          [] OTHER                   -> wire = "OK" /\ payload = "full" /\ stream = "closed"

(* Whatever happens: data follows only an OK status, an OK status is sent only for a request that
   is in bounds of a stored block, and the stream never stays open. *)
NeverWrongData ==
    /\ payload # "none" => wire = "OK"
    /\ wire = "OK" => cls.bytes = "ok" /\ cls.height = "stored" /\ cls.bounds = "in" /\ cls.serve = "yes"
    /\ Done => stream # "open"

AccessorBalanced == Done => opened = closed /\ opened <= 1
MemoryBalanced   == Done => reserved = released /\ reserved <= 1
NoCrash          == ~crashed
(* a panic never escapes: it is recovered, the stream is reset *)
PanicsRecovered  == (Done /\ panicking) => recovered /\ stream = "reset"
(* nothing is reserved before the accessor is open, nothing built before memory is reserved *)
Ordering == /\ reserved > 0 => opened > 0
            /\ wire = "OK" => reserved > 0

HandlerTerminates == <>Done

-----------------------------------------------------------------------------
(* One record per (class, fault): the expected observable outcome, for the driver's lattice. *)
CaseRecord == [cls |-> cls, fault |-> fault, wire |-> wire, payload |-> payload, stream |-> stream,
               opened |-> opened, reserved |-> reserved, recovered |-> recovered]
PrintCases == Done => PrintT(<<"CASE", ToJson(CaseRecord)>>)
=============================================================================
