SPECIFICATION TraceSpec
CONSTANTS
  Types <- TypesAll
  NoRecovery = FALSE
  LeakOnError = FALSE
INVARIANTS
  Accept
  NeverWrongData
  AccessorBalanced
  MemoryBalanced
  NoCrash
  PanicsRecovered
  Ordering
POSTCONDITION Report
CHECK_DEADLOCK FALSE
