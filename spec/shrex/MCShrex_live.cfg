SPECIFICATION FairSpec
CONSTANTS
  Types <- TypesAll
  NoRecovery = FALSE
  LeakOnError = FALSE
INVARIANTS
  TypeOK
  StatusMapping
  NeverWrongData
  AccessorBalanced
  MemoryBalanced
  NoCrash
  PanicsRecovered
  Ordering
PROPERTIES
  HandlerTerminates
CHECK_DEADLOCK FALSE
