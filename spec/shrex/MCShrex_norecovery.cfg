SPECIFICATION Spec
CONSTANTS
  Types <- TypesAll
  NoRecovery = TRUE
  LeakOnError = FALSE
INVARIANTS
  TypeOK
  NoCrash

CHECK_DEADLOCK FALSE
