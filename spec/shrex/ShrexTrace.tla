----------------------------- MODULE ShrexTrace -----------------------------
(***************************************************************************)
(* Trace validation of the real shrex server against ShrexServer.tla (B1). *)
(*                                                                         *)
(* harness/drivers/shrexserver runs the real shrex.Server over a mock      *)
(* network.  The host, the stream (with its resource scope and connection) *)
(* and the store handed to the server are monitoring wrappers written      *)
(* against the public interfaces; they record, per handler run, the calls  *)
(* the handler makes in the order it makes them:                           *)
(*   start, setservice{ok}, resetlimit, closeread, open{res}, size{ok},    *)
(*   reserve{ok}, build{res}, status{code,ok}, payload{res}, release,      *)
(*   closeacc, close, reset, end{recovered}                                *)
(* One NDJSON line per run: the request class and injected fault the       *)
(* driver used, and the event list.  Every line is an initial state here;  *)
(* each event must be produced by the one action of ShrexServer.tla that   *)
(* makes that call, in a state where the action is enabled and with the    *)
(* same outcome; actions that make no observable call are taken silently.  *)
(* A run is accepted when all its events are consumed and the handler is   *)
(* done.  All invariants of ShrexServer.tla are evaluated along the way.   *)
(***************************************************************************)
EXTENDS ShrexServer, IOUtils

VARIABLES run, j

Log == ndJsonDeserialize(IOEnv.VERIF_TRACE)
E   == Log[run].events

ASSUME TLCSet(1, {})

TraceInit ==
    /\ run \in 1..Len(Log) /\ j = 1
    /\ cls = Log[run].cls /\ fault = Log[run].fault
    /\ pc = "idle" /\ pending = "none" /\ after = "none" /\ hstatus = "none" /\ defers = <<>>
    /\ opened = 0 /\ closed = 0 /\ reserved = 0 /\ released = 0
    /\ wire = "none" /\ payload = "none" /\ stream = "open"
    /\ panicking = FALSE /\ recovered = FALSE /\ crashed = FALSE

(* actions that make no call the wrappers can see *)
Silent ==
    \/ RateLimit
    \/ Validate
    \/ (ReadRequest /\ pc' = "finish")
    \/ (Unwind /\ defers = <<>>)
    \/ (Finish /\ stream' = stream)

Match(e) ==
    CASE e.ev = "start"      -> Start
      [] e.ev = "setservice" -> SetService /\ (e.ok <=> pc' = "rate")
      [] e.ev = "resetlimit" -> ResetLimit
      [] e.ev = "closeread"  -> ReadRequest /\ pc' = "validate"
      [] e.ev = "open"       -> /\ OpenAccessor
                                /\ CASE e.res = "found"    -> opened' = opened + 1
                                     [] e.res = "notfound" -> pending' = "NOT_FOUND"
                                     [] e.res = "error"    -> pending' = "INTERNAL"
                                     [] OTHER              -> panicking'
      [] e.ev = "size"       -> Size /\ (e.ok <=> pc' = "reserve")
      [] e.ev = "reserve"    -> ReserveMemory /\ (e.ok <=> reserved' = reserved + 1)
      [] e.ev = "build"      -> /\ BuildResponse
                                /\ CASE e.res = "ok"  -> pending' = "OK"
                                     [] e.res = "err" -> pending' = "INTERNAL"
                                     [] OTHER         -> panicking'
      [] e.ev = "status"     -> Respond /\ pending = e.code /\ (e.ok <=> wire' = e.code)
      [] e.ev = "payload"    -> CopyPayload /\ payload' = e.res
      [] e.ev = "release"    -> Unwind /\ released' = released + 1
      [] e.ev = "closeacc"   -> Unwind /\ closed' = closed + 1
      [] e.ev = "close"      -> Finish /\ stream' = "closed"
      [] e.ev = "reset"      -> (Finish /\ stream' = "reset") \/ Recover
      [] e.ev = "end"        -> pc = "done" /\ (e.recovered <=> recovered) /\ UNCHANGED vars
      [] OTHER               -> FALSE

TraceNext ==
    /\ UNCHANGED run
    /\ \/ Silent /\ UNCHANGED j
       \/ j <= Len(E) /\ Match(E[j]) /\ j' = j + 1

TraceSpec == TraceInit /\ [][TraceNext]_<<vars, run, j>>

Accept == (pc = "done" /\ j = Len(E) + 1) => TLCSet(1, TLCGet(1) \cup {run})

Report ==
    /\ PrintT(<<"TRACES", ToJson([runs |-> Len(Log), accepted |-> Cardinality(TLCGet(1))])>>)
    /\ PrintT(<<"REJECTED", ToJson((1..Len(Log)) \ TLCGet(1))>>)
=============================================================================
