SPECIFICATION Spec
CONSTANTS
  Types <- TypesAll
  NoRecovery = FALSE
  LeakOnError = FALSE
INVARIANTS
  TypeOK
  StatusMapping
  NeverWrongData
  AccessorBalanced
  MemoryBalanced
  NoCrash
  PanicsRecovered
  Ordering
  PrintCases

CHECK_DEADLOCK FALSE
