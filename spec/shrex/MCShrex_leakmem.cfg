SPECIFICATION Spec
CONSTANTS
  Types <- TypesAll
  NoRecovery = FALSE
  LeakOnError = TRUE
INVARIANTS
  TypeOK
  MemoryBalanced

CHECK_DEADLOCK FALSE
