\* the tree BEFORE the cool-down counter: any expiring queue entry re-activates a peer that is on
\* cool-down. TLC must report NoEarlyReturn (cool-down -> remove -> add -> cool-down -> first entry expires);
\* checks/C17.py replays that behaviour on the real pool.
SPECIFICATION Spec
CONSTANTS
  Peers = {"p1"}
  Callers = {"c1"}
  TimerSlots <- TwoSlots
  TTL = 2
  MaxTime = 3
  MaxOps = 6
  OpNames <- OpsCore
  CleanupThreshold = 2
  Atomic = TRUE
  CallbacksUnderQueueLock = FALSE
  CountCooldowns = FALSE
  FreshChannelOnWake = FALSE
VIEW view
INVARIANTS NoEarlyReturn
