\* the tree BEFORE the black-list fix: TLC must report BlacklistedNeverOffered
SPECIFICATION Spec
CONSTANTS
  Peers = {"p1"}
  Chain <- Chain2
  FakeHashes = {}
  FirstHeight = 11
  MsgHeights = {0, 12}
  StoredPools = 10
  MaxReqs = 1
  MaxWaiters = 0
  Expiry = TRUE
  EnableBlackListing = TRUE
  FilterOnPromote = FALSE
  CheckOnHandout = FALSE
  CheckOnWake = TRUE
VIEW view

INVARIANTS TypeOK NotPromotedBeforeConfirmed BlacklistedNeverOffered

