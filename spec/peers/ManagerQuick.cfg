\* the manager as it is (black-listed peers filtered on promotion and on hand-out), black-listing enabled; one peer (quick)
SPECIFICATION Spec
CONSTANTS
  Peers = {"p1"}
  Chain <- Chain2
  FakeHashes = {}
  FirstHeight = 11
  MsgHeights = {0, 12}
  StoredPools = 10
  MaxReqs = 1
  EnableBlackListing = TRUE
  FilterOnPromote = TRUE
  CheckOnHandout = TRUE
VIEW view

INVARIANTS TypeOK NotPromotedBeforeConfirmed BlacklistedNeverOffered BlockedNotInNodes
PROPERTIES GcRules
