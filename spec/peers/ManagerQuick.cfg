\* the manager as it is (black-listed peers filtered on promotion and on hand-out), black-listing enabled; one peer (quick)
SPECIFICATION Spec
CONSTANTS
  Peers = {"p1"}
  Chain <- Chain2
  FakeHashes = {}
  FirstHeight = 11
  MsgHeights = {0, 12}
  StoredPools = 10
  MaxReqs = 2
  MaxWaiters = 1
  Expiry = TRUE
  EnableBlackListing = TRUE
  FilterOnPromote = TRUE
  CheckOnHandout = TRUE
  CheckOnWake = TRUE
VIEW view

INVARIANTS TypeOK NotPromotedBeforeConfirmed BlacklistedNeverOffered BlockedNotInNodes
PROPERTIES GcRules
