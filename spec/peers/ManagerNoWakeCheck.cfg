\* HYPOTHETICAL variant: a peer delivered to a blocked Peer() by the hash pool is not re-checked. TLC must report
\* BlacklistedNeverOffered (waiter woken by a cool-down expiry of a peer black-listed meanwhile); checks/C17.py
\* replays that behaviour on the real Manager (directed witness).
SPECIFICATION Spec
CONSTANTS
  Peers = {"p1"}
  Chain <- Chain2
  FakeHashes = {}
  FirstHeight = 11
  MsgHeights = {0, 12}
  StoredPools = 10
  MaxReqs = 2
  MaxWaiters = 1
  Expiry = TRUE
  EnableBlackListing = TRUE
  FilterOnPromote = TRUE
  CheckOnHandout = TRUE
  CheckOnWake = FALSE
VIEW view

INVARIANTS TypeOK NotPromotedBeforeConfirmed BlacklistedNeverOffered

