\* atomic-method configuration with TWO callers and one peer: a caller blocked in next() is woken by the
\* other caller (add, re-add after remove) or by a cool-down expiry, or cancelled (replayed like PoolAtomic).
SPECIFICATION Spec
CONSTANTS
  Peers = {"p1"}
  Callers = {"c1", "c2"}
  TimerSlots <- TwoSlots
  TTL = 2
  MaxTime = 2
  MaxOps = 2
  OpNames <- OpsWait
  CleanupThreshold = 2
  Atomic = TRUE
  CallbacksUnderQueueLock = FALSE
  CountCooldowns = TRUE
  FreshChannelOnWake = FALSE
VIEW view
ACTION_CONSTRAINT EdgeOut
INVARIANTS TypeOK CountExact ListStatusConsistent HasPeerExact NoSleepingWaiter OnlyActiveOffered NoEarlyReturn
  CooldownNotLost QueueTimerLive CooldownsExact SlotsSuffice SingleTimer
