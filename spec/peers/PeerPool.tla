------------------------------ MODULE PeerPool ------------------------------
(***************************************************************************)
(* The shrex peer pool and its cool-down queue, as implemented in          *)
(*   /repo/share/shwap/p2p/shrex/peers/pool.go       (type pool)           *)
(*   /repo/share/shwap/p2p/shrex/peers/timedqueue.go (type timedQueue)     *)
(*                                                                         *)
(* The specification is written to be BOUND to that code (C17, DESIGN §5): *)
(*  - `pool` has exactly the fields of the Go struct (peersList, statuses, *)
(*    activeCount, nextIdx, hasPeer, the generation of hasPeerCh, the      *)
(*    per-peer counter of pending cool-down entries);                      *)
(*  - `queue` has the timed queue's items (peer, createdAt) and its timer; *)
(*  - `mu` has BOTH mutexes as explicit state: the pool's RWMutex (writer, *)
(*    set of readers) and the queue's Mutex (holder);                      *)
(*  - every method is a sequence of atomic steps delimited by the lock     *)
(*    operations of the code: one step to acquire a mutex (blocking: the   *)
(*    step is enabled only while the mutex is free), one step for the      *)
(*    critical section up to and including the release.                    *)
(*                                                                         *)
(* Threads: `Callers` issue add/remove/tryGet/next/putOnCooldown/has/len/  *)
(* peers; the goroutines started by the queue's timer (`TimerSlots`) run   *)
(* releaseExpired; `Tick` advances the clock and starts a timer goroutine  *)
(* for every timer that became due (semantics of benbjohnson/clock.Mock,   *)
(* which is also what the Go runtime does: the function runs in its own    *)
(* goroutine some time after the deadline).                                *)
(*                                                                         *)
(* Three switches select the code variant that is modelled:                *)
(*  CallbacksUnderQueueLock  TRUE  = releaseExpired calls onPop (->        *)
(*        pool.afterCooldown -> pool mutex) while holding the queue mutex  *)
(*        (the tree before `fix: ... deadlock`); together with             *)
(*        putOnCooldown = pool mutex -> queue mutex this is an ABBA cycle  *)
(*        which TLC reports as a deadlock.                                 *)
(*        FALSE = callbacks run after the queue mutex is released.         *)
(*  CountCooldowns           TRUE  = the pool counts pending queue entries *)
(*        per peer and only the expiry of the LAST one re-activates the    *)
(*        peer; FALSE = any expiry re-activates a peer whose status is     *)
(*        cooldown (the tree before the fix): after cool-down -> remove -> *)
(*        add -> cool-down the first entry ends the second cool-down       *)
(*        early (NoEarlyReturn fails).                                     *)
(*  FreshChannelOnWake       TRUE  = hypothetical checkHasPeers that, when  *)
(*        the pool becomes non-empty, closes hasPeerCh AND installs a      *)
(*        fresh open channel at once (and does not replace it when the     *)
(*        pool runs empty).  Sequentially indistinguishable; but a waiter  *)
(*        in next() whose tryGet just failed and which reads the channel   *)
(*        only AFTER a peer became active captures the fresh open channel  *)
(*        and sleeps with an active peer in the pool: NoSleepingWaiter     *)
(*        fails.  TLC's schedule is forced on the real code with the gate  *)
(*        between the failed tryGet and the channel read (hook next.loop). *)
(*  Atomic                   TRUE  = every method is ONE step (the         *)
(*        sequential semantics; used for behaviour replay B2 on the real   *)
(*        pool); FALSE = the fine-grained steps (deadlocks, B1 traces).    *)
(***************************************************************************)
EXTENDS Naturals, Sequences, FiniteSets, TLC, Json

CONSTANTS
  Peers,            \* set of peer ids (strings)
  Callers,          \* set of caller threads (strings)
  TimerSlots,       \* SEQUENCE of names for timer goroutines that can be alive at once
  TTL,              \* cool-down time in ticks (> 0)
  MaxTime,          \* the clock stops here (bound)
  MaxOps,           \* operations per caller (bound)
  OpNames,          \* subset of AllOps the callers may issue
  CleanupThreshold, \* pool.cleanupThreshold (code: 2)
  Atomic, CallbacksUnderQueueLock, CountCooldowns,
  FreshChannelOnWake  \* FALSE = the code; TRUE = HYPOTHETICAL variant of checkHasPeers (directed witness, see below)

AllOps == {"add", "remove", "tryGet", "next", "putOnCooldown", "has", "len", "peers"}
PeerOps == {"add", "remove", "putOnCooldown", "has"}     \* operations that take a peer argument

None   == "-"                                             \* no peer / no holder
Timers == {TimerSlots[i] : i \in DOMAIN TimerSlots}
Threads == Callers \cup Timers

ASSUME /\ OpNames \subseteq AllOps /\ TTL > 0 /\ None \notin Peers \cup Threads
       /\ Callers \cap Timers = {}

VARIABLES
  pool,      \* [list, st, ac, idx, hp, gen, cds]  = peersList, statuses, activeCount, nextIdx,
             \*  hasPeer, generation of hasPeerCh, cooldowns (pending queue entries per peer)
  queue,     \* [items: Seq([peer, at]), armed: Seq(fire time), afterLive: BOOLEAN]
  mu,        \* [poolW: thread|None, poolR: SUBSET Threads, qu: thread|None]  (qu = the queue mutex)
  now,       \* the clock
  pc,        \* program counter per thread
  op,        \* current operation per caller: [name, peer]
  opsLeft,   \* remaining operation budget per caller
  waitGen,   \* next(): generation of the channel the waiter captured, and whether it was open
  ctxDone,   \* next(): the caller's context has been cancelled
  exp,       \* timer goroutine: peers whose callback is still to be run (fixed variant)
  k,         \* timer goroutine: number of items handled so far (variant with callbacks under the lock)
  last,      \* the last step, as a record (binding: replay and trace validation read it)
  coolUntil, \* GHOST: time before which the peer must not be offered
  viol       \* GHOST: monitors that fired ("early", "inactive")

vars == <<pool, queue, mu, now, pc, op, opsLeft, waitGen, ctxDone, exp, k, last, coolUntil, viol>>
\* everything except `last` (VIEW of the exhaustive configurations: `last` is an output, not state)
view == <<pool, queue, mu, now, pc, op, opsLeft, waitGen, ctxDone, exp, k, coolUntil, viol>>

-----------------------------------------------------------------------------
(* Sequential semantics of the methods: functions on the pool / queue records *)

\* statuses[p] read WITHOUT the `ok` check: a missing map entry reads as the zero value, which is
\* `active` (status(0)).  ListStatusConsistent shows that this never matters.
StRead(P, p) == IF P.st[p] = "none" THEN "active" ELSE P.st[p]

\* pool.checkHasPeers
CHP(P) == IF FreshChannelOnWake
            THEN IF P.ac > 0 /\ ~P.hp THEN [P EXCEPT !.hp = TRUE, !.gen = @ + 1]    \* close + fresh open channel
                 ELSE IF P.ac = 0 /\ P.hp THEN [P EXCEPT !.hp = FALSE] ELSE P
          ELSE IF P.ac > 0 /\ ~P.hp THEN [P EXCEPT !.hp = TRUE]                     \* close(hasPeerCh)
          ELSE IF P.ac = 0 /\ P.hp THEN [P EXCEPT !.hp = FALSE, !.gen = @ + 1]      \* fresh channel
          ELSE P

\* pool.add(p)
AddF(P, p) ==
  LET s == P.st[p] IN
  IF s \in {"active", "cooldown"} THEN CHP(P)
  ELSE CHP([P EXCEPT !.list = IF s = "none" THEN Append(@, p) ELSE @,
                     !.st[p] = "active", !.ac = @ + 1])

\* pool.cleanup
CleanupF(P) ==
  LET inList(q) == \E i \in 1..Len(P.list) : P.list[i] = q IN
  [P EXCEPT !.list = SelectSeq(@, LAMBDA q : StRead(P, q) \in {"active", "cooldown"}),
            !.st = [q \in Peers |-> IF P.st[q] = "removed" /\ inList(q) THEN "none" ELSE P.st[q]]]

\* pool.remove(p)
RemoveF(P, p) ==
  LET s  == P.st[p]
      P1 == IF s \in {"active", "cooldown"}
              THEN [P EXCEPT !.st[p] = "removed", !.ac = IF s = "active" THEN @ - 1 ELSE @]
              ELSE P
      P2 == IF Len(P1.list) >= P1.ac + CleanupThreshold THEN CleanupF(P1) ELSE P1
  IN CHP(P2)

\* pool.tryGet: <<returned peer or None, new pool>>.  "PANIC" = index out of range in the code.
TryGetF(P) ==
  IF P.ac = 0 THEN <<None, P>>
  ELSE LET n == Len(P.list) IN
       IF n = 0 THEN <<"PANIC", P>>
       ELSE LET start == IF P.idx > n - 1 THEN 0 ELSE P.idx          \* 0-based
                at(j) == ((start + j) % n) + 1                        \* j-th visited, 1-based index
                hits == {j \in 0..(n - 1) : StRead(P, P.list[at(j)]) = "active"}
            IN IF hits = {} THEN <<None, [P EXCEPT !.idx = start]>>   \* full circle
               ELSE LET j0 == CHOOSE j \in hits : \A j2 \in hits : j <= j2
                    IN <<P.list[at(j0)], [P EXCEPT !.idx = at(j0) % n]>>

\* the part of pool.putOnCooldown after the push
CooldownF(P, p) ==
  CHP([P EXCEPT !.st[p] = "cooldown", !.ac = @ - 1,
                !.cds[p] = IF CountCooldowns THEN @ + 1 ELSE @])

\* pool.afterCooldown(p) (the queue's onPop callback)
AfterCooldownF(P, p) ==
  IF CountCooldowns /\ P.cds[p] > 1 THEN [P EXCEPT !.cds[p] = @ - 1]   \* a younger entry is still pending
  ELSE LET P1 == IF CountCooldowns THEN [P EXCEPT !.cds[p] = 0] ELSE P IN
       IF P1.st[p] # "cooldown" THEN P1
       ELSE CHP([P1 EXCEPT !.st[p] = "active", !.ac = @ + 1])

RECURSIVE AfterAllF(_, _)
AfterAllF(P, s) == IF s = <<>> THEN P ELSE AfterAllF(AfterCooldownF(P, Head(s)), Tail(s))

Live(P) == {p \in Peers : P.st[p] \in {"active", "cooldown"}}        \* pool.peers()

\* timedQueue.push(p) at the current time
PushF(Q, p) ==
  LET items == Append(Q.items, [peer |-> p, at |-> now]) IN
  IF Len(items) = 1
    THEN [Q EXCEPT !.items = items, !.armed = Append(@, now + TTL), !.afterLive = TRUE]
    ELSE [Q EXCEPT !.items = items]

Expired(it) == now - it.at >= TTL

\* q.after.Stop() followed by q.after = AfterFunc(d): the timer q.after points to is the youngest
\* one; if it is still armed it is removed, then a new one is armed for time t.
RearmF(Q, t) ==
  LET a == IF Q.afterLive THEN SubSeq(Q.armed, 1, Len(Q.armed) - 1) ELSE Q.armed
  IN [Q EXCEPT !.armed = Append(a, t), !.afterLive = TRUE]

\* number of expired items at the head of the queue
ExpiredPrefix(Q) ==
  CHOOSE n \in 0..Len(Q.items) :
    /\ \A i \in 1..n : Expired(Q.items[i])
    /\ n = Len(Q.items) \/ ~Expired(Q.items[n + 1])

\* end of timedQueue.releaseUnsafe after n items were released: re-arm for the first remaining
\* item, drop the released ones
FinishReleaseF(Q, n) ==
  LET Q1 == IF n < Len(Q.items) /\ ~Expired(Q.items[n + 1])
              THEN RearmF(Q, Q.items[n + 1].at + TTL) ELSE Q
  IN [Q1 EXCEPT !.items = SubSeq(@, n + 1, Len(@))]

PeersOf(items) == [i \in 1..Len(items) |-> items[i].peer]

-----------------------------------------------------------------------------
(* Ghosts / monitors *)

Monitor(r) ==   \* r = peer handed out by tryGet / next
  viol' = viol \cup (IF r \in Peers /\ now < coolUntil[r] THEN {"early"} ELSE {})
               \cup (IF r \in Peers /\ pool.st[r] # "active" THEN {"inactive"} ELSE {})
               \cup (IF r = "PANIC" THEN {"panic"} ELSE {})

-----------------------------------------------------------------------------
Init ==
  /\ pool = [list |-> <<>>, st |-> [p \in Peers |-> "none"], ac |-> 0, idx |-> 0,
             hp |-> FALSE, gen |-> 0, cds |-> [p \in Peers |-> 0]]
  /\ queue = [items |-> <<>>, armed |-> <<>>, afterLive |-> FALSE]
  /\ mu = [poolW |-> None, poolR |-> {}, qu |-> None]
  /\ now = 0
  /\ pc = [t \in Threads |-> "idle"]
  /\ op = [c \in Callers |-> [name |-> None, peer |-> None]]
  /\ opsLeft = [c \in Callers |-> MaxOps]
  /\ waitGen = [c \in Callers |-> [gen |-> 0, open |-> FALSE]]
  /\ ctxDone = [c \in Callers |-> FALSE]
  /\ exp = [t \in Timers |-> <<>>]
  /\ k = [t \in Timers |-> 0]
  /\ last = [th |-> None, act |-> "init", arg |-> None, ret |-> None]
  /\ coolUntil = [p \in Peers |-> 0]
  /\ viol = {}

Step(th, act, arg, ret) == last' = [th |-> th, act |-> act, arg |-> arg, ret |-> ret]
Goto(th, l) == pc' = [pc EXCEPT ![th] = l]

\* ---- mutexes -------------------------------------------------------------
PoolFreeW == mu.poolW = None /\ mu.poolR = {}      \* Lock() possible
PoolFreeR == mu.poolW = None                       \* RLock() possible
QueueFree == mu.qu = None

\* ---- the clock ------------------------------------------------------------
\* Tick advances the clock by one and starts a goroutine for every timer that is due (Mock.Add)
DueIdx(t)  == {i \in 1..Len(queue.armed) : queue.armed[i] <= t}
IdleSlots  == {i \in DOMAIN TimerSlots : pc[TimerSlots[i]] = "idle"}
RECURSIVE FirstN(_, _)
FirstN(S, n) == IF n = 0 \/ S = {} THEN {} ELSE
                LET m == CHOOSE x \in S : \A y \in S : x <= y IN {m} \cup FirstN(S \ {m}, n - 1)

Tick ==
  /\ now < MaxTime
  /\ LET due   == DueIdx(now + 1)
         slots == FirstN(IdleSlots, Cardinality(due))
     IN /\ Cardinality(slots) = Cardinality(due)             \* see invariant SlotsSuffice
        /\ now' = now + 1
        /\ queue' = [queue EXCEPT
                       !.armed = SelectSeq(@, LAMBDA t : t > now + 1),
                       !.afterLive = @ /\ Len(queue.armed) > 0 /\ queue.armed[Len(queue.armed)] > now + 1]
        /\ pc' = [t \in Threads |-> IF \E i \in slots : TimerSlots[i] = t THEN "re_lock" ELSE pc[t]]
        /\ Step(None, "tick", None, Cardinality(due))
  /\ UNCHANGED <<pool, mu, op, opsLeft, waitGen, ctxDone, exp, k, coolUntil, viol>>

-----------------------------------------------------------------------------
(* FINE-GRAINED steps *)

FirstPc(name) == CASE name = "add" -> "add_lock" [] name = "remove" -> "rm_lock"
                   [] name = "tryGet" -> "tg_lock" [] name = "next" -> "tg_lock"
                   [] name = "putOnCooldown" -> "cd_lock" [] name = "has" -> "has_rlock"
                   [] name = "len" -> "len_rlock" [] name = "peers" -> "peers_rlock"

\* a caller enters a method (the event before the first lock operation)
Start(c, name, p) ==
  /\ pc[c] = "idle" /\ opsLeft[c] > 0
  /\ op' = [op EXCEPT ![c] = [name |-> name, peer |-> p]]
  /\ opsLeft' = [opsLeft EXCEPT ![c] = @ - 1]
  /\ ctxDone' = [ctxDone EXCEPT ![c] = FALSE]
  /\ Goto(c, FirstPc(name))
  /\ Step(c, "enter", [op |-> name, peer |-> p], None)
  /\ UNCHANGED <<pool, queue, mu, now, waitGen, exp, k, coolUntil, viol>>

\* p.m.Lock()
LockPool(th, from, to) ==
  /\ pc[th] = from /\ PoolFreeW
  /\ mu' = [mu EXCEPT !.poolW = th]
  /\ Goto(th, to) /\ Step(th, "lock_pool", from, None)
  /\ UNCHANGED <<pool, queue, now, op, opsLeft, waitGen, ctxDone, exp, k, coolUntil, viol>>

\* p.m.RLock()
RLockPool(th, from, to) ==
  /\ pc[th] = from /\ PoolFreeR
  /\ mu' = [mu EXCEPT !.poolR = @ \cup {th}]
  /\ Goto(th, to) /\ Step(th, "rlock_pool", from, None)
  /\ UNCHANGED <<pool, queue, now, op, opsLeft, waitGen, ctxDone, exp, k, coolUntil, viol>>

\* q.Lock()
LockQueue(th, from, to) ==
  /\ pc[th] = from /\ QueueFree
  /\ mu' = [mu EXCEPT !.qu = th]
  /\ Goto(th, to) /\ Step(th, "lock_queue", from, None)
  /\ UNCHANGED <<pool, queue, now, op, opsLeft, waitGen, ctxDone, exp, k, coolUntil, viol>>

UnlockPool  == mu' = [mu EXCEPT !.poolW = None]
RUnlockPool(th) == mu' = [mu EXCEPT !.poolR = @ \ {th}]
UnlockQueue == mu' = [mu EXCEPT !.qu = None]

AddBody(c) ==
  /\ pc[c] = "add_body"
  /\ pool' = AddF(pool, op[c].peer) /\ UnlockPool
  /\ Goto(c, "idle") /\ Step(c, "add", op[c].peer, None)
  /\ UNCHANGED <<queue, now, op, opsLeft, waitGen, ctxDone, exp, k, coolUntil, viol>>

RemoveBody(c) ==
  /\ pc[c] = "rm_body"
  /\ pool' = RemoveF(pool, op[c].peer) /\ UnlockPool
  /\ coolUntil' = [coolUntil EXCEPT ![op[c].peer] = 0]   \* leaving the pool ends the obligation (DESIGN §11 / META)
  /\ Goto(c, "idle") /\ Step(c, "remove", op[c].peer, None)
  /\ UNCHANGED <<queue, now, op, opsLeft, waitGen, ctxDone, exp, k, viol>>

\* critical section of tryGet, also the first half of each iteration of next()
TryGetBody(c) ==
  /\ pc[c] = "tg_body"
  /\ LET r == TryGetF(pool) IN
     /\ pool' = r[2] /\ UnlockPool /\ Monitor(r[1])
     /\ Step(c, "tryGet", op[c].name, r[1])
     /\ IF op[c].name = "next" /\ r[1] = None THEN Goto(c, "nx_rlock") ELSE Goto(c, "idle")
  /\ UNCHANGED <<queue, now, op, opsLeft, waitGen, ctxDone, exp, k, coolUntil>>

\* next(): hasPeerCh := p.hasPeerCh under the read lock
NextRead(c) ==
  /\ pc[c] = "nx_read"
  /\ waitGen' = [waitGen EXCEPT ![c] = [gen |-> pool.gen, open |-> ~pool.hp]]
  /\ RUnlockPool(c) /\ Goto(c, "nx_wait") /\ Step(c, "next_read", None, pool.gen)
  /\ UNCHANGED <<pool, queue, now, op, opsLeft, ctxDone, exp, k, coolUntil, viol>>

\* the captured channel is closed iff it is not the current one or hasPeer is set
ChanClosed(c) == IF FreshChannelOnWake THEN waitGen[c].gen # pool.gen     \* (the current channel is always open)
                 ELSE ~waitGen[c].open \/ waitGen[c].gen # pool.gen \/ pool.hp

\* next(): select { case <-hasPeerCh: (loop) ; case <-ctx.Done(): return }
NextWake(c) ==
  /\ pc[c] = "nx_wait" /\ ChanClosed(c)
  /\ Goto(c, "tg_lock") /\ Step(c, "next_wake", None, None)
  /\ UNCHANGED <<pool, queue, mu, now, op, opsLeft, waitGen, ctxDone, exp, k, coolUntil, viol>>

NextCancelled(c) ==
  /\ pc[c] = "nx_wait" /\ ctxDone[c]
  /\ Goto(c, "idle") /\ Step(c, "next_cancelled", None, None)
  /\ UNCHANGED <<pool, queue, mu, now, op, opsLeft, waitGen, ctxDone, exp, k, coolUntil, viol>>

InNext(c) == op[c].name = "next" /\ pc[c] # "idle"

\* environment: the caller of next() cancels its context
Cancel(c) ==
  /\ InNext(c) /\ ~ctxDone[c]
  /\ ctxDone' = [ctxDone EXCEPT ![c] = TRUE] /\ Step(c, "cancel", None, None)
  /\ UNCHANGED <<pool, queue, mu, now, pc, op, opsLeft, waitGen, exp, k, coolUntil, viol>>

ReadBody(c, at, what, val) ==
  /\ pc[c] = at
  /\ RUnlockPool(c) /\ Goto(c, "idle") /\ Step(c, what, op[c].peer, val)
  /\ UNCHANGED <<pool, queue, now, op, opsLeft, waitGen, ctxDone, exp, k, coolUntil, viol>>

\* putOnCooldown: under the pool mutex, `if status == active { p.cooldown.push(...) ...`
CooldownCheck(c) ==      \* not active: unlock and return
  /\ pc[c] = "cd_check" /\ pool.st[op[c].peer] # "active"
  /\ UnlockPool /\ Goto(c, "idle") /\ Step(c, "putOnCooldown", op[c].peer, FALSE)
  /\ UNCHANGED <<pool, queue, now, op, opsLeft, waitGen, ctxDone, exp, k, coolUntil, viol>>

CooldownLockQueue(c) ==  \* active: q.Lock() WHILE HOLDING the pool mutex
  /\ pc[c] = "cd_check" /\ pool.st[op[c].peer] = "active"
  /\ LockQueue(c, "cd_check", "cd_push")

CooldownPush(c) ==       \* push body, q.Unlock()
  /\ pc[c] = "cd_push"
  /\ queue' = PushF(queue, op[c].peer) /\ UnlockQueue
  /\ coolUntil' = [coolUntil EXCEPT ![op[c].peer] = now + TTL]
  /\ Goto(c, "cd_body") /\ Step(c, "push", op[c].peer, None)
  /\ UNCHANGED <<pool, now, op, opsLeft, waitGen, ctxDone, exp, k, viol>>

CooldownBody(c) ==       \* status, count, checkHasPeers, p.m.Unlock()
  /\ pc[c] = "cd_body"
  /\ pool' = CooldownF(pool, op[c].peer) /\ UnlockPool
  /\ Goto(c, "idle") /\ Step(c, "putOnCooldown", op[c].peer, TRUE)
  /\ UNCHANGED <<queue, now, op, opsLeft, waitGen, ctxDone, exp, k, coolUntil, viol>>

CallerStep(c) ==
  \/ LockPool(c, "add_lock", "add_body") \/ AddBody(c)
  \/ LockPool(c, "rm_lock", "rm_body")   \/ RemoveBody(c)
  \/ LockPool(c, "tg_lock", "tg_body")   \/ TryGetBody(c)
  \/ RLockPool(c, "nx_rlock", "nx_read") \/ NextRead(c) \/ NextWake(c) \/ NextCancelled(c)
  \/ RLockPool(c, "has_rlock", "has_body")
  \/ ReadBody(c, "has_body", "has", pool.st[op[c].peer] \in {"active", "cooldown"})
  \/ RLockPool(c, "len_rlock", "len_body")     \/ ReadBody(c, "len_body", "len", pool.ac)
  \/ RLockPool(c, "peers_rlock", "peers_body") \/ ReadBody(c, "peers_body", "peers", Live(pool))
  \/ LockPool(c, "cd_lock", "cd_check") \/ CooldownCheck(c) \/ CooldownLockQueue(c)
  \/ CooldownPush(c) \/ CooldownBody(c)

\* ---- the timer goroutine: timedQueue.releaseExpired ----------------------
\* fixed variant: under the queue mutex collect the expired prefix, re-arm, drop; unlock; then
\* run the callbacks, each under the pool mutex
ReleaseScan(t) ==
  /\ ~CallbacksUnderQueueLock /\ pc[t] = "re_scan"
  /\ LET n == ExpiredPrefix(queue) IN
     /\ queue' = FinishReleaseF(queue, n) /\ UnlockQueue
     /\ exp' = [exp EXCEPT ![t] = PeersOf(SubSeq(queue.items, 1, n))]
     /\ Goto(t, IF n = 0 THEN "idle" ELSE "cb_lock")
     /\ Step(t, "release", None, PeersOf(SubSeq(queue.items, 1, n)))
  /\ UNCHANGED <<pool, now, op, opsLeft, waitGen, ctxDone, k, coolUntil, viol>>

CallbackBody(t) ==
  /\ pc[t] = "cb_body"
  /\ pool' = AfterCooldownF(pool, Head(exp[t])) /\ UnlockPool
  /\ exp' = [exp EXCEPT ![t] = Tail(@)]
  /\ Goto(t, IF Len(exp[t]) = 1 THEN "idle" ELSE "cb_lock")
  /\ Step(t, "afterCooldown", Head(exp[t]), None)
  /\ UNCHANGED <<queue, now, op, opsLeft, waitGen, ctxDone, k, coolUntil, viol>>

\* variant with the callbacks under the queue mutex (the loop of releaseUnsafe, item by item; the
\* clock is read again for every item)
ReleaseNextLockPool(t) ==     \* next item expired: onPop -> afterCooldown -> p.m.Lock() HOLDING the queue mutex
  /\ CallbacksUnderQueueLock /\ pc[t] = "re_scan"
  /\ k[t] < Len(queue.items) /\ Expired(queue.items[k[t] + 1])
  /\ LockPool(t, "re_scan", "re_cb")

ReleaseCallback(t) ==
  /\ pc[t] = "re_cb"
  /\ pool' = AfterCooldownF(pool, queue.items[k[t] + 1].peer) /\ UnlockPool
  /\ k' = [k EXCEPT ![t] = @ + 1]
  /\ Goto(t, "re_scan") /\ Step(t, "afterCooldown", queue.items[k[t] + 1].peer, None)
  /\ UNCHANGED <<queue, now, op, opsLeft, waitGen, ctxDone, exp, coolUntil, viol>>

ReleaseFinish(t) ==           \* loop ends: re-arm, drop the released items, q.Unlock()
  /\ CallbacksUnderQueueLock /\ pc[t] = "re_scan"
  /\ ~(k[t] < Len(queue.items) /\ Expired(queue.items[k[t] + 1]))
  /\ queue' = FinishReleaseF(queue, k[t]) /\ UnlockQueue
  /\ k' = [k EXCEPT ![t] = 0]
  /\ Goto(t, "idle") /\ Step(t, "release", None, PeersOf(SubSeq(queue.items, 1, k[t])))
  /\ UNCHANGED <<pool, now, op, opsLeft, waitGen, ctxDone, exp, coolUntil, viol>>

TimerStep(t) ==
  \/ LockQueue(t, "re_lock", "re_scan")
  \/ ReleaseScan(t) \/ LockPool(t, "cb_lock", "cb_body") \/ CallbackBody(t)
  \/ ReleaseNextLockPool(t) \/ ReleaseCallback(t) \/ ReleaseFinish(t)

-----------------------------------------------------------------------------
(* ATOMIC steps: one step per method, for behaviour replay on the real pool *)

AtomicCall(c, name, p) ==
  /\ pc[c] = "idle" /\ opsLeft[c] > 0
  /\ opsLeft' = [opsLeft EXCEPT ![c] = @ - 1]
  /\ op' = [op EXCEPT ![c] = [name |-> name, peer |-> p]]
  /\ ctxDone' = [ctxDone EXCEPT ![c] = FALSE]
  /\ CASE name = "add" ->
            /\ pool' = AddF(pool, p) /\ Step(c, "add", p, None)
            /\ UNCHANGED <<queue, pc, waitGen, coolUntil, viol>>
       [] name = "remove" ->
            /\ pool' = RemoveF(pool, p) /\ Step(c, "remove", p, None)
            /\ coolUntil' = [coolUntil EXCEPT ![p] = 0]
            /\ UNCHANGED <<queue, pc, waitGen, viol>>
       [] name = "tryGet" ->
            LET r == TryGetF(pool) IN
            /\ pool' = r[2] /\ Monitor(r[1]) /\ Step(c, "tryGet", None, r[1])
            /\ UNCHANGED <<queue, pc, waitGen, coolUntil>>
       [] name = "next" ->      \* first iteration: a peer, or start waiting on the current channel
            LET r == TryGetF(pool) IN
            /\ pool' = r[2] /\ Monitor(r[1]) /\ Step(c, "next", None, r[1])
            /\ IF r[1] = None
                 THEN /\ Goto(c, "nx_wait")
                      /\ waitGen' = [waitGen EXCEPT ![c] = [gen |-> r[2].gen, open |-> ~r[2].hp]]
                 ELSE UNCHANGED <<pc, waitGen>>
            /\ UNCHANGED <<queue, coolUntil>>
       [] name = "putOnCooldown" ->
            IF pool.st[p] = "active"
              THEN /\ queue' = PushF(queue, p) /\ pool' = CooldownF(pool, p)
                   /\ coolUntil' = [coolUntil EXCEPT ![p] = now + TTL]
                   /\ Step(c, "putOnCooldown", p, TRUE) /\ UNCHANGED <<pc, waitGen, viol>>
              ELSE /\ Step(c, "putOnCooldown", p, FALSE)
                   /\ UNCHANGED <<pool, queue, pc, waitGen, coolUntil, viol>>
       [] name = "has" ->
            /\ Step(c, "has", p, pool.st[p] \in {"active", "cooldown"})
            /\ UNCHANGED <<pool, queue, pc, waitGen, coolUntil, viol>>
       [] name = "len" ->
            /\ Step(c, "len", None, pool.ac) /\ UNCHANGED <<pool, queue, pc, waitGen, coolUntil, viol>>
       [] name = "peers" ->
            /\ Step(c, "peers", None, Live(pool)) /\ UNCHANGED <<pool, queue, pc, waitGen, coolUntil, viol>>
  /\ UNCHANGED <<mu, now, exp, k>>

\* the goroutine inside next() is woken by the closed channel and runs one more iteration
AtomicNextWake(c) ==
  /\ pc[c] = "nx_wait" /\ ChanClosed(c)
  /\ LET r == TryGetF(pool) IN
     /\ pool' = r[2] /\ Monitor(r[1]) /\ Step(c, "next_wake", None, r[1])
     /\ IF r[1] = None
          THEN /\ waitGen' = [waitGen EXCEPT ![c] = [gen |-> r[2].gen, open |-> ~r[2].hp]]
               /\ UNCHANGED pc
          ELSE Goto(c, "idle") /\ UNCHANGED waitGen
  /\ UNCHANGED <<queue, mu, now, op, opsLeft, ctxDone, exp, k, coolUntil>>

\* cancellation of a waiting next(): the goroutine returns without a peer
AtomicNextCancel(c) ==
  /\ pc[c] = "nx_wait" /\ ~ChanClosed(c)   \* (with the channel closed the select may take either branch)
  /\ Goto(c, "idle") /\ Step(c, "next_cancel", None, None)
  /\ UNCHANGED <<pool, queue, mu, now, op, opsLeft, waitGen, ctxDone, exp, k, coolUntil, viol>>

\* a timer goroutine runs releaseExpired to completion
AtomicRelease(t) ==
  /\ pc[t] = "re_lock"
  /\ LET n == ExpiredPrefix(queue)
         ps == PeersOf(SubSeq(queue.items, 1, n)) IN
     /\ queue' = FinishReleaseF(queue, n)
     /\ pool' = AfterAllF(pool, ps)
     /\ Step(t, "releaseExpired", None, ps)
  /\ Goto(t, "idle")
  /\ UNCHANGED <<mu, now, op, opsLeft, waitGen, ctxDone, exp, k, coolUntil, viol>>

-----------------------------------------------------------------------------
OpArgs == {<<n, p>> \in OpNames \X (Peers \cup {None}) : (n \in PeerOps) <=> (p \in Peers)}

Terminated == (\A t \in Threads : pc[t] = "idle") /\ (\A c \in Callers : opsLeft[c] = 0)

\* stuttering at the end, so that TLC's deadlock check reports only threads stuck INSIDE a method
Finished == Terminated /\ UNCHANGED vars

NextFine ==
  \/ \E c \in Callers : \/ \E a \in OpArgs : Start(c, a[1], a[2])
                        \/ CallerStep(c) \/ Cancel(c)
  \/ \E t \in Timers : TimerStep(t)
  \/ Tick \/ Finished

NextAtomic ==
  \/ \E c \in Callers : \/ \E a \in OpArgs : AtomicCall(c, a[1], a[2])
                        \/ AtomicNextWake(c) \/ AtomicNextCancel(c)
  \/ \E t \in Timers : AtomicRelease(t)
  \/ Tick \/ Finished

Next == IF Atomic THEN NextAtomic ELSE NextFine

Spec == Init /\ [][Next]_vars

\* fairness for the liveness properties: every thread that can take a step inside a method
\* eventually does (not: start a new method, cancel, or advance the clock)
ThreadStep(th) == IF th \in Callers THEN CallerStep(th) ELSE TimerStep(th)
FairSpec == Spec /\ \A th \in Threads : WF_vars(ThreadStep(th))

-----------------------------------------------------------------------------
(* INVARIANTS *)

TypeOK ==
  /\ pool.ac \in 0..Cardinality(Peers) /\ pool.idx \in Nat /\ pool.hp \in BOOLEAN
  /\ \A i \in 1..Len(pool.list) : pool.list[i] \in Peers
  /\ \A p \in Peers : pool.st[p] \in {"none", "active", "cooldown", "removed"}
  /\ mu.poolW \in Threads \cup {None} /\ mu.poolR \subseteq Threads /\ mu.qu \in Threads \cup {None}
  /\ now \in 0..MaxTime

\* activeCount is exactly the number of active peers (at every step boundary)
CountExact == pool.ac = Cardinality({p \in Peers : pool.st[p] = "active"})

\* peersList and statuses describe the same set, without duplicates, across lazy cleanup
ListStatusConsistent ==
  /\ \A p \in Peers : pool.st[p] # "none" <=> \E i \in 1..Len(pool.list) : pool.list[i] = p
  /\ \A i, j \in 1..Len(pool.list) : pool.list[i] = pool.list[j] => i = j
  /\ pool.idx <= Cardinality(Peers)

\* hasPeer (= the current channel is closed) iff there is an active peer
HasPeerExact == pool.hp <=> pool.ac > 0

\* "waiting callers are woken when a peer becomes available": a caller that sits in the select of next() with a live
\* context while a peer is active has a closed channel in its hands (it will wake up and ask again)
NoSleepingWaiter ==
  \A c \in Callers : (pc[c] = "nx_wait" /\ ~ctxDone[c] /\ pool.ac > 0) => ChanClosed(c)

\* a peer handed out by tryGet/next was active, and its cool-down had elapsed
OnlyActiveOffered == "inactive" \notin viol /\ "panic" \notin viol
NoEarlyReturn     == "early" \notin viol

\* a peer on cool-down is not forgotten: some queue entry (or pending callback) will re-activate it,
\* and a timer (or a running timer goroutine) will release that entry
PendingFor(p) ==
  \/ \E i \in 1..Len(queue.items) : queue.items[i].peer = p
  \/ \E t \in Timers : \E i \in 1..Len(exp[t]) : exp[t][i] = p
CooldownNotLost ==
  \A p \in Peers : pool.st[p] = "cooldown" =>
      \/ PendingFor(p)
      \/ \E c \in Callers : pc[c] = "cd_body"       \* never: push comes first; kept for symmetry
QueueTimerLive ==
  queue.items # <<>> => \/ Len(queue.armed) > 0
                        \/ \E t \in Timers : pc[t] \in {"re_lock", "re_scan", "re_cb"}
\* with CountCooldowns (and callbacks outside the queue mutex): the counter equals the number of
\* entries that will still call back; between push and the status change one entry is not counted yet
CountOf(s, p) == Cardinality({i \in 1..Len(s) : s[i] = p})
CooldownsExact ==
  (CountCooldowns /\ ~CallbacksUnderQueueLock) =>
    \A p \in Peers :
      pool.cds[p] + Cardinality({c \in Callers : pc[c] = "cd_body" /\ op[c].peer = p})
        = CountOf(PeersOf(queue.items), p)
          + Cardinality({<<t, i>> \in Timers \X (1..Len(queue.items) + 8) : i <= Len(exp[t]) /\ exp[t][i] = p})

\* the bound on simultaneously alive timer goroutines is sufficient (else Tick would be blocked
\* artificially and the model would under-approximate)
SlotsSuffice == now < MaxTime => Cardinality(DueIdx(now + 1)) <= Cardinality(IdleSlots)
SingleTimer  == Len(queue.armed) <= 1

\* mutual exclusion bookkeeping of the model itself
LockSane ==
  /\ mu.poolW # None => mu.poolR = {}
  /\ \A th \in Threads :
       /\ mu.poolW = th => pc[th] \in {"add_body", "rm_body", "tg_body", "cd_check", "cd_push", "cd_body", "cb_body", "re_cb"}
       /\ mu.qu = th => pc[th] \in {"cd_push", "re_scan", "re_cb"}
       /\ th \in mu.poolR => pc[th] \in {"nx_read", "has_body", "len_body", "peers_body"}

\* no cycle in the wait-for graph of the two mutexes (gives the shortest ABBA counterexample;
\* TLC's own deadlock check is the general statement)
WaitsPoolHoldingQueue(th) == mu.qu = th /\ pc[th] = "re_scan" /\ CallbacksUnderQueueLock
                             /\ k[th] < Len(queue.items) /\ Expired(queue.items[k[th] + 1]) /\ ~PoolFreeW
WaitsQueueHoldingPool(th) == mu.poolW = th /\ pc[th] = "cd_check" /\ pool.st[op[th].peer] = "active" /\ ~QueueFree
NoLockCycle == ~ \E a \in Timers, b \in Callers :
                   /\ WaitsPoolHoldingQueue(a) /\ WaitsQueueHoldingPool(b)
                   /\ mu.poolW = b /\ mu.qu = a

-----------------------------------------------------------------------------
(* LIVENESS (FairSpec) *)

\* a caller blocked in next() with a live context gets a peer if peers stay available:
\* it cannot remain inside next() for ever while activeCount > 0
WaitersWoken == \A c \in Callers : []<> ~(InNext(c) /\ ~ctxDone[c] /\ pool.ac > 0)
\* a cancelled next() ends
CancelHonoured == \A c \in Callers : (InNext(c) /\ ctxDone[c]) ~> ~InNext(c)
\* every method that was entered returns (no thread is stuck for ever), except a next() that
\* legitimately waits: no peer and no cancellation
AllReturn == \A c \in Callers : (pc[c] # "idle" /\ op[c].name # "next") ~> pc[c] = "idle"

-----------------------------------------------------------------------------
(* OUTPUT for the binding (evaluated as ACTION_CONSTRAINT; always TRUE) *)

Proj == [pool |-> pool, items |-> queue.items, armed |-> queue.armed, now |-> now,
         waiting |-> {c \in Callers : pc[c] = "nx_wait"},
         timers |-> {t \in Timers : pc[t] = "re_lock"},
         opsLeft |-> opsLeft, cool |-> coolUntil, wg |-> waitGen]
ProjNext == [pool |-> pool', items |-> queue'.items, armed |-> queue'.armed, now |-> now',
         waiting |-> {c \in Callers : pc'[c] = "nx_wait"},
         timers |-> {t \in Timers : pc'[t] = "re_lock"},
         opsLeft |-> opsLeft', cool |-> coolUntil', wg |-> waitGen']
EdgeOut == last'.act = "init" \/ (vars' = vars) \/
           PrintT(<<"EDGE", ToJson([s |-> Proj, a |-> last', t |-> ProjNext])>>)
=============================================================================
