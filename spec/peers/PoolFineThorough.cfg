\* fine-grained steps, the code as it is (callbacks after the queue mutex is released, cool-downs
\* counted): deadlock checking ON, all safety invariants.  2 peers, 2 callers x 3 operations.
SPECIFICATION Spec
CONSTANTS
  Peers = {"p1", "p2"}
  Callers = {"c1", "c2"}
  TimerSlots <- TwoSlots
  TTL = 2
  MaxTime = 3
  MaxOps = 3
  OpNames <- OpsCore
  CleanupThreshold = 2
  Atomic = FALSE
  CallbacksUnderQueueLock = FALSE
  CountCooldowns = TRUE
  FreshChannelOnWake = FALSE
VIEW view
INVARIANTS TypeOK CountExact ListStatusConsistent HasPeerExact NoSleepingWaiter OnlyActiveOffered NoEarlyReturn
  CooldownNotLost QueueTimerLive CooldownsExact SlotsSuffice SingleTimer LockSane NoLockCycle
