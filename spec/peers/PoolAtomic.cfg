\* atomic-method configuration (one step per method): the sequential semantics that is replayed,
\* transition by transition, on the real pool / timedQueue with a mock clock (binding B2).
\* EdgeOut prints every transition of the state graph.
SPECIFICATION Spec
CONSTANTS
  Peers = {"p1", "p2"}
  Callers = {"c1"}
  TimerSlots <- TwoSlots
  TTL = 2
  MaxTime = 4
  MaxOps = 6
  OpNames <- OpsAll
  CleanupThreshold = 2
  Atomic = TRUE
  CallbacksUnderQueueLock = FALSE
  CountCooldowns = TRUE
  FreshChannelOnWake = FALSE
VIEW view
ACTION_CONSTRAINT EdgeOut
INVARIANTS TypeOK CountExact ListStatusConsistent HasPeerExact OnlyActiveOffered NoEarlyReturn
  CooldownNotLost QueueTimerLive CooldownsExact SlotsSuffice SingleTimer
