\* fine-grained steps, the code as it is (callbacks after the queue mutex is released, cool-downs
\* counted): deadlock checking ON, all safety invariants.  2 peers, 2 callers x 2 operations (thorough: x 3, TTL 2).
SPECIFICATION Spec
CONSTANTS
  Peers = {"p1", "p2"}
  Callers = {"c1", "c2"}
  TimerSlots <- TwoSlots
  TTL = 1
  MaxTime = 1
  MaxOps = 2
  OpNames <- OpsCore
  CleanupThreshold = 2
  Atomic = FALSE
  CallbacksUnderQueueLock = FALSE
  CountCooldowns = TRUE
  FreshChannelOnWake = FALSE
VIEW view
INVARIANTS TypeOK CountExact ListStatusConsistent HasPeerExact NoSleepingWaiter OnlyActiveOffered NoEarlyReturn
  CooldownNotLost QueueTimerLive CooldownsExact SlotsSuffice SingleTimer LockSane NoLockCycle
