\* the tree BEFORE the deadlock fix: releaseExpired calls back into the pool while holding the queue
\* mutex. TLC must report the ABBA deadlock (NoLockCycle gives the shortest schedule); checks/C17.py then
\* forces that schedule on the real code with gates.
SPECIFICATION Spec
CONSTANTS
  Peers = {"p1", "p2"}
  Callers = {"c1", "c2"}
  TimerSlots <- TwoSlots
  TTL = 1
  MaxTime = 1
  MaxOps = 2
  OpNames <- OpsDeadlock
  CleanupThreshold = 2
  Atomic = FALSE
  CallbacksUnderQueueLock = TRUE
  CountCooldowns = TRUE
  FreshChannelOnWake = FALSE
VIEW view
INVARIANTS NoLockCycle
