\* simulation of the manager model: EdgeOut prints every successor of every visited state; the behaviours
\* are the material for the replay on the real Manager (checks/C17.py)
SPECIFICATION SpecNoWait
CONSTANTS
  Peers = {"p1"}
  Chain <- Chain2
  FakeHashes = {}
  FirstHeight = 11
  MsgHeights = {0, 12}
  StoredPools = 10
  MaxReqs = 1
  MaxWaiters = 0
  Expiry = TRUE
  EnableBlackListing = TRUE
  FilterOnPromote = TRUE
  CheckOnHandout = TRUE
  CheckOnWake = TRUE
VIEW view
ACTION_CONSTRAINT EdgeOut

INVARIANTS TypeOK NotPromotedBeforeConfirmed BlacklistedNeverOffered BlockedNotInNodes

