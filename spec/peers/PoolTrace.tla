----------------------------- MODULE PoolTrace -----------------------------
(***************************************************************************)
(* Trace validation (binding B1) of the real pool / timedQueue against the *)
(* FINE-GRAINED steps of PeerPool.                                         *)
(*                                                                         *)
(* The driver runs seeded concurrent stress (caller goroutines issuing     *)
(* add/remove/tryGet/next/putOnCooldown/has/len/peers, a clock goroutine   *)
(* advancing the mock clock, the queue's timer goroutines) on the real     *)
(* code.  The `verif` hooks of the peers package report every lock         *)
(* operation while the mutex is held; the driver turns each report into    *)
(* one NDJSON line = one step of this model:                               *)
(*   enter, lock_pool, rlock_pool, lock_queue        (no state logged)     *)
(*   add, remove, tryGet, putOnCooldown, afterCooldown   + pool fields     *)
(*   push, release                                       + queue items     *)
(*   next_read, has, len, peers, next_exit, cancel, tick                   *)
(*   ret  (the value a call returned to the caller)                        *)
(*   reset (a new run starts)                                              *)
(* A line is accepted iff the named thread can take that step in the       *)
(* current model state AND the successor state has the logged field        *)
(* values.  Hence the lock structure of the model (which mutex is taken    *)
(* where, in which order, what is done under it) is the code's, and all    *)
(* invariants of PeerPool are evaluated on real concurrent executions.     *)
(* Timer goroutines are anonymous in the code: the first step of a new     *)
(* one is bound to any model timer thread that has been started by Tick.   *)
(***************************************************************************)
EXTENDS PeerPool, IOUtils

VARIABLES i,      \* next line
          bind,   \* real timer goroutine name -> model timer thread
          rets    \* per caller: the value the model says the current call returns
Trace == ndJsonDeserialize(IOEnv.VERIF_TRACE)
tvars == <<vars, i, bind, rets>>

TraceSlots == <<"t1", "t2", "t3", "t4", "t5", "t6", "t7", "t8", "t9", "t10">>   \* >= ticks per recorded run: Tick is never short of a slot
ToSet(s) == {s[j] : j \in DOMAIN s}

ResetAll ==
  /\ pool' = [list |-> <<>>, st |-> [p \in Peers |-> "none"], ac |-> 0, idx |-> 0,
              hp |-> FALSE, gen |-> 0, cds |-> [p \in Peers |-> 0]]
  /\ queue' = [items |-> <<>>, armed |-> <<>>, afterLive |-> FALSE]
  /\ mu' = [poolW |-> None, poolR |-> {}, qu |-> None]
  /\ now' = 0
  /\ pc' = [t \in Threads |-> "idle"]
  /\ op' = [c \in Callers |-> [name |-> None, peer |-> None]]
  /\ opsLeft' = [c \in Callers |-> MaxOps]
  /\ waitGen' = [c \in Callers |-> [gen |-> 0, open |-> FALSE]]
  /\ ctxDone' = [c \in Callers |-> FALSE]
  /\ exp' = [t \in Timers |-> <<>>]
  /\ k' = [t \in Timers |-> 0]
  /\ last' = [th |-> None, act |-> "init", arg |-> None, ret |-> None]
  /\ coolUntil' = [p \in Peers |-> 0]
  /\ viol' = {}

TraceInit == Init /\ i = 1 /\ bind = <<>> /\ rets = [c \in Callers |-> None] /\ TLCSet(1, 1)

\* the model thread an event belongs to
IsTimerEv(ev) == ev.th \notin Callers
Th(ev) == IF ev.th \in Callers THEN ev.th
          ELSE IF ev.th \in DOMAIN bind THEN bind[ev.th]
          ELSE CHOOSE t \in Timers : pc[t] = "re_lock" /\ \A n \in DOMAIN bind : bind[n] # t
Bindable(ev) == ev.th \in Callers \/ ev.th \in DOMAIN bind
                \/ \E t \in Timers : pc[t] = "re_lock" /\ \A n \in DOMAIN bind : bind[n] # t

PoolIs(l) ==
  /\ pool'.list = l.list /\ pool'.st = l.st /\ pool'.ac = l.ac /\ pool'.idx = l.idx
  /\ pool'.hp = l.hp /\ pool'.gen = l.gen
  /\ (CountCooldowns => pool'.cds = l.cds)

Returning == {"tryGet", "has", "len", "peers"}

ModelStep(ev) ==
  LET th == Th(ev) IN
  /\ Bindable(ev)
  /\ Next
  /\ last'.th = th /\ last'.act = ev.act
  /\ CASE ev.act = "enter" -> last'.arg = ev.arg
       [] ev.act \in {"add", "remove", "afterCooldown"} -> last'.arg = ev.arg /\ PoolIs(ev.pool)
       [] ev.act = "tryGet" -> PoolIs(ev.pool)
       [] ev.act = "putOnCooldown" -> last'.arg = ev.arg /\ last'.ret = ev.ret /\ PoolIs(ev.pool)
       [] ev.act \in {"push", "release"} -> queue'.items = ev.items
       [] OTHER -> TRUE
  /\ bind' = IF IsTimerEv(ev)
               THEN IF pc'[th] = "idle" THEN [n \in DOMAIN bind \ {ev.th} |-> bind[n]]
                    ELSE [n \in DOMAIN bind \cup {ev.th} |-> IF n = ev.th THEN th ELSE bind[n]]
               ELSE bind
  /\ rets' = IF ev.act \in Returning /\ ev.th \in Callers THEN [rets EXCEPT ![ev.th] = last'.ret] ELSE rets

Stutter == UNCHANGED <<vars, bind, rets>>

RetOk(ev) ==
  IF ev.op = "peers" THEN rets[ev.th] = ToSet(ev.val) ELSE rets[ev.th] = ev.val

TraceNext ==
  /\ i <= Len(Trace)
  /\ i' = i + 1
  /\ LET ev == Trace[i] IN
     CASE ev.act = "reset" ->
            /\ ResetAll /\ bind' = <<>> /\ rets' = [c \in Callers |-> None]
       [] ev.act = "tick" -> Tick /\ UNCHANGED <<bind, rets>>
       [] ev.act = "ret" -> RetOk(ev) /\ Stutter
       [] ev.act = "next_exit" ->
            IF pc[ev.th] = "nx_wait" THEN NextCancelled(ev.th) /\ UNCHANGED <<bind, rets>> ELSE Stutter
       [] ev.act = "cancel" ->
            IF InNext(ev.th) /\ ~ctxDone[ev.th] THEN Cancel(ev.th) /\ UNCHANGED <<bind, rets>> ELSE Stutter
       [] OTHER -> ModelStep(ev)
  /\ TLCSet(1, IF TLCGet(1) < i + 1 THEN i + 1 ELSE TLCGet(1))

TraceSpec == TraceInit /\ [][TraceNext]_tvars

Accepted ==
  \/ TLCGet(1) = Len(Trace) + 1
  \/ PrintT(<<"STUCK", ToJson([line |-> TLCGet(1), of |-> Len(Trace)])>>) /\ FALSE
=============================================================================
