\* fine-grained steps with next(): two callers x 2 operations (add / remove / next / putOnCooldown), one peer; deadlock
\* checking ON; NoSleepingWaiter = no caller sleeps in next() with an open channel while a peer is active
SPECIFICATION Spec
CONSTANTS
  Peers = {"p1"}
  Callers = {"c1", "c2"}
  TimerSlots <- TwoSlots
  TTL = 1
  MaxTime = 1
  MaxOps = 2
  OpNames <- OpsWait
  CleanupThreshold = 2
  Atomic = FALSE
  CallbacksUnderQueueLock = FALSE
  CountCooldowns = TRUE
  FreshChannelOnWake = FALSE
VIEW view
INVARIANTS TypeOK CountExact ListStatusConsistent HasPeerExact NoSleepingWaiter OnlyActiveOffered NoEarlyReturn CooldownNotLost LockSane NoLockCycle
