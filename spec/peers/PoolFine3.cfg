\* fine-grained steps with THREE callers (x 2 operations, add / tryGet / putOnCooldown), deadlock checking ON
SPECIFICATION Spec
CONSTANTS
  Peers = {"p1", "p2"}
  Callers = {"c1", "c2", "c3"}
  TimerSlots <- TwoSlots
  TTL = 1
  MaxTime = 1
  MaxOps = 2
  OpNames <- OpsNoRemove
  CleanupThreshold = 2
  Atomic = FALSE
  CallbacksUnderQueueLock = FALSE
  CountCooldowns = TRUE
  FreshChannelOnWake = FALSE
VIEW view
INVARIANTS TypeOK CountExact ListStatusConsistent HasPeerExact NoSleepingWaiter OnlyActiveOffered NoEarlyReturn
  CooldownNotLost QueueTimerLive CooldownsExact SlotsSuffice SingleTimer LockSane NoLockCycle
