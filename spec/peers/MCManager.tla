----------------------------- MODULE MCManager -----------------------------
(* Model-checking instance of PeerManager. *)
EXTENDS PeerManager
Chain1 == <<"h1">>
Chain2 == <<"h1", "h2">>
=============================================================================
