\* HYPOTHETICAL variant of checkHasPeers (close + fresh channel in one step): TLC must report NoSleepingWaiter --
\* the waiter's tryGet fails, another caller's add makes a peer active, the waiter then reads the (fresh, open)
\* channel and sleeps.  checks/C17.py forces that schedule on the real code with the gate at next.loop: the real
\* waiter must wake up and return the peer without any further pool event.
SPECIFICATION Spec
CONSTANTS
  Peers = {"p1"}
  Callers = {"c1", "c2"}
  TimerSlots <- TwoSlots
  TTL = 1
  MaxTime = 0
  MaxOps = 1
  OpNames <- OpsAddNext
  CleanupThreshold = 2
  Atomic = FALSE
  CallbacksUnderQueueLock = FALSE
  CountCooldowns = TRUE
  FreshChannelOnWake = TRUE
VIEW view
INVARIANTS NoSleepingWaiter
