\* liveness under weak fairness of every thread's steps inside a method: a caller blocked in next() is
\* woken when a peer becomes (and stays) available, a cancelled next() ends, every other call returns.
SPECIFICATION FairSpec
CONSTANTS
  Peers = {"p1"}
  Callers = {"c1", "c2"}
  TimerSlots <- TwoSlots
  TTL = 1
  MaxTime = 2
  MaxOps = 2
  OpNames <- OpsWait
  CleanupThreshold = 2
  Atomic = FALSE
  CallbacksUnderQueueLock = FALSE
  CountCooldowns = TRUE
  FreshChannelOnWake = FALSE
INVARIANTS TypeOK CountExact HasPeerExact NoSleepingWaiter NoEarlyReturn
PROPERTIES WaitersWoken CancelHonoured AllReturn
